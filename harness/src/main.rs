// Correspondence harness: runs the real affinitree library (path dependency on /repo) on generated
// cases and prints what it did, exactly, as one s-expression per line.
mod common;
mod c02;

fn main() {
    let argv: Vec<String> = std::env::args().collect();
    if argv.len() < 2 {
        eprintln!("usage: atharness <family> [--seed S] [--n N] [--tier quick|thorough]");
        std::process::exit(2);
    }
    common::silence_panics();
    let args = common::parse_args(&argv[2..]);
    match argv[1].as_str() {
        "c02" => c02::run(&args),
        other => {
            eprintln!("unknown family {}", other);
            std::process::exit(2);
        }
    }
}

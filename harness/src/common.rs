// Shared helpers: deterministic PRNG, exact float printing, s-expression dumps, generators.
#![allow(dead_code)]
use affinitree::linalg::affine::{AffFunc, Polytope};
use affinitree::pwl::afftree::AffTree;
use affinitree::pwl::node::NodeState;
use ndarray::{Array1, Array2};
use std::fmt::Write as _;

// ---------------------------------------------------------------- PRNG (splitmix64)
#[derive(Clone)]
pub struct Rng(pub u64);
impl Rng {
    pub fn new(seed: u64) -> Rng {
        // the seed goes through the splitmix finalizer once: with a plain affine start state, seed s+1 is seed s
        // advanced by one step, and the shards of one run (seeds k, k+1, ...) would be shifted copies of each other
        let mut r = Rng(seed.wrapping_mul(0x9E3779B97F4A7C15).wrapping_add(0x1234_5678_9ABC_DEF1));
        let s = r.next();
        Rng(s ^ 0xD1B5_4A32_D192_ED03)
    }
    pub fn next(&mut self) -> u64 {
        self.0 = self.0.wrapping_add(0x9E3779B97F4A7C15);
        let mut z = self.0;
        z = (z ^ (z >> 30)).wrapping_mul(0xBF58476D1CE4E5B9);
        z = (z ^ (z >> 27)).wrapping_mul(0x94D049BB133111EB);
        z ^ (z >> 31)
    }
    /// uniform in 0..n (n > 0)
    pub fn below(&mut self, n: usize) -> usize {
        (self.next() % (n as u64)) as usize
    }
    /// uniform in lo..=hi
    pub fn range(&mut self, lo: i64, hi: i64) -> i64 {
        lo + (self.next() % ((hi - lo + 1) as u64)) as i64
    }
    pub fn chance(&mut self, num: u32, den: u32) -> bool {
        (self.next() % den as u64) < num as u64
    }
    pub fn fork(&mut self) -> Rng {
        Rng(self.next())
    }
}

// ---------------------------------------------------------------- exact float printing
/// m:e with value = m * 2^e (m a signed integer), or -0:0, inf, -inf, nan
pub fn fx(v: f64) -> String {
    if v.is_nan() {
        return "nan".to_string();
    }
    if v.is_infinite() {
        return if v > 0.0 { "inf".to_string() } else { "-inf".to_string() };
    }
    if v == 0.0 {
        return if v.is_sign_negative() { "-0:0".to_string() } else { "0:0".to_string() };
    }
    let bits = v.to_bits();
    let sign: i64 = if bits >> 63 == 0 { 1 } else { -1 };
    let mut exponent: i64 = ((bits >> 52) & 0x7ff) as i64;
    let mut mantissa: i64 = if exponent == 0 {
        ((bits & 0xfffffffffffff) << 1) as i64
    } else {
        ((bits & 0xfffffffffffff) | 0x10000000000000) as i64
    };
    exponent -= 1075;
    while mantissa & 1 == 0 {
        mantissa >>= 1;
        exponent += 1;
    }
    format!("{}:{}", sign * mantissa, exponent)
}

pub fn sx_vec(v: &Array1<f64>) -> String {
    let mut s = String::from("(");
    for (i, x) in v.iter().enumerate() {
        if i > 0 {
            s.push(' ');
        }
        s.push_str(&fx(*x));
    }
    s.push(')');
    s
}
pub fn sx_mat(m: &Array2<f64>) -> String {
    let mut s = String::from("(");
    for (i, r) in m.outer_iter().enumerate() {
        if i > 0 {
            s.push(' ');
        }
        s.push('(');
        for (j, x) in r.iter().enumerate() {
            if j > 0 {
                s.push(' ');
            }
            s.push_str(&fx(*x));
        }
        s.push(')');
    }
    s.push(')');
    s
}
pub fn sx_aff(a: &AffFunc) -> String {
    format!("(aff {} {} {})", a.indim(), sx_mat(&a.mat), sx_vec(&a.bias))
}
pub fn sx_poly(a: &Polytope) -> String {
    format!("(aff {} {} {})", a.indim(), sx_mat(&a.mat), sx_vec(&a.bias))
}
pub fn sx_state(s: &NodeState) -> String {
    match s {
        NodeState::Indeterminate => "indet".to_string(),
        NodeState::Infeasible => "infeas".to_string(),
        NodeState::Feasible => "feas".to_string(),
        NodeState::FeasibleWitness(ws) => {
            let mut o = String::from("(wit");
            for w in ws {
                o.push(' ');
                o.push_str(&sx_vec(w));
            }
            o.push(')');
            o
        }
    }
}
fn sx_opt(o: Option<usize>) -> String {
    match o {
        Some(i) => i.to_string(),
        None => "-".to_string(),
    }
}
/// (tree in_dim root (node idx parent (children..) leaf aff state) ...)
pub fn sx_tree<const K: usize>(t: &AffTree<K>) -> String {
    let mut s = String::new();
    let root = if t.tree.is_empty() { "-".to_string() } else { t.tree.get_root_idx().to_string() };
    write!(s, "(tree {} {}", t.in_dim, root).unwrap();
    for (idx, nd) in t.tree.node_iter() {
        write!(s, " (node {} {} (", idx, sx_opt(nd.parent)).unwrap();
        for (i, c) in nd.children.iter().enumerate() {
            if i > 0 {
                s.push(' ');
            }
            s.push_str(&sx_opt(*c));
        }
        write!(
            s,
            ") {} {} {})",
            if nd.isleaf { 1 } else { 0 },
            sx_aff(&nd.value.aff),
            sx_state(&nd.value.state)
        )
        .unwrap();
    }
    s.push(')');
    s
}

// ---------------------------------------------------------------- panics
pub fn silence_panics() {
    std::panic::set_hook(Box::new(|_| {}));
}
/// runs the generation of one case; if the library panics outside the calls a case observes on purpose (that is, in a
/// step that builds the operands -- which never happens on the pinned tree), the partial output of the case is
/// dropped and a `crashed` case is emitted instead: the runner reports it as ERR (correspondence not checkable for
/// this case) and the other cases are still checked
#[allow(dead_code)]
pub fn guard<F: FnOnce(&mut String)>(id: usize, out: &mut String, f: F) {
    let mark = out.len();
    let r = catch(std::panic::AssertUnwindSafe(|| f(out)));
    if let Err(m) = r {
        out.truncate(mark);
        out.push_str(&format!("(case {} crashed \"{}\")\n", id, m.replace('\\', " ")));
    }
}
pub fn catch<R, F: FnOnce() -> R + std::panic::UnwindSafe>(f: F) -> Result<R, String> {
    match std::panic::catch_unwind(f) {
        Ok(r) => Ok(r),
        Err(e) => {
            let msg = if let Some(s) = e.downcast_ref::<&str>() {
                s.to_string()
            } else if let Some(s) = e.downcast_ref::<String>() {
                s.clone()
            } else {
                "panic".to_string()
            };
            Err(msg.replace(['(', ')', '"', '\n'], " "))
        }
    }
}

// ---------------------------------------------------------------- generators
/// small dyadic number k / 2^j, |k| <= maxk, j <= 2; zero with probability 1/5
pub fn gen_coef(r: &mut Rng, maxk: i64) -> f64 {
    if r.chance(1, 5) {
        // zero comes with either sign: -0.0 == 0.0, but sign tests (is_sign_positive, signum) tell them apart
        return if r.chance(1, 6) { -0.0 } else { 0.0 };
    }
    let k = r.range(-maxk, maxk);
    let j = r.below(3) as i32;
    (k as f64) / (1u64 << j) as f64
}
pub fn gen_vec(r: &mut Rng, n: usize, maxk: i64) -> Array1<f64> {
    Array1::from_iter((0..n).map(|_| gen_coef(r, maxk)))
}
pub fn gen_mat(r: &mut Rng, m: usize, n: usize, maxk: i64) -> Array2<f64> {
    let mut a = Array2::zeros((m, n));
    for i in 0..m {
        for j in 0..n {
            a[[i, j]] = gen_coef(r, maxk);
        }
    }
    // one matrix in five (of those with at least two rows and two columns) is stored column-major: same logical
    // content, different memory order -- code that walks the raw buffer must not care
    if m >= 2 && n >= 2 && r.chance(1, 5) {
        a = to_f_order(&a);
    }
    a
}
pub fn to_f_order(a: &Array2<f64>) -> Array2<f64> {
    use ndarray::ShapeBuilder;
    let mut f = Array2::<f64>::zeros((a.shape()[0], a.shape()[1]).f());
    f.assign(a);
    f
}
pub fn gen_aff(r: &mut Rng, outdim: usize, indim: usize, maxk: i64) -> AffFunc {
    // one in eight square maps is structured (identity / signed permutation-like diagonal / zero matrix, with a random
    // bias): the shapes an implementation is tempted to special-case
    if outdim == indim && outdim > 0 && r.chance(1, 8) {
        let mut a = Array2::<f64>::zeros((outdim, indim));
        match r.below(3) {
            0 => {
                for i in 0..outdim {
                    a[[i, i]] = 1.0;
                }
            }
            1 => {
                for i in 0..outdim {
                    a[[i, i]] = [1.0, -1.0, 2.0, 0.5][r.below(4)];
                }
            }
            _ => {}
        }
        return AffFunc::from_mats(a, gen_vec(r, outdim, maxk));
    }
    AffFunc::from_mats(gen_mat(r, outdim, indim, maxk), gen_vec(r, outdim, maxk))
}
/// Wide magnitudes with exact f64 arithmetic.  `gen_aff_selection`: at most one non-zero entry per column, each
/// +-2^e with e in {-30, 0, 30}, zero bias -- so every entry of a product M * selection is a single product of two dyadic
/// numbers (exact), and M * bias = 0.  `widen` multiplies some entries of an existing matrix by 2^30 or 2^-30.
#[allow(dead_code)]
pub fn gen_aff_selection(r: &mut Rng, outdim: usize, indim: usize) -> AffFunc {
    let mut a = Array2::<f64>::zeros((outdim, indim));
    if outdim > 0 {
        for j in 0..indim {
            if r.chance(5, 6) {
                let i = r.below(outdim);
                let mag = [2f64.powi(-30), 1.0, 2f64.powi(30)][r.below(3)];
                a[[i, j]] = if r.chance(1, 4) { -mag } else { mag };
            }
        }
    }
    AffFunc::from_mats(a, Array1::<f64>::zeros(outdim))
}
#[allow(dead_code)]
pub fn widen(r: &mut Rng, a: &mut AffFunc) {
    let (rows, cols) = (a.mat.shape()[0], a.mat.shape()[1]);
    for i in 0..rows {
        for j in 0..cols {
            match r.below(4) {
                0 => a.mat[[i, j]] *= 2f64.powi(30),
                1 => a.mat[[i, j]] *= 2f64.powi(-30),
                _ => {}
            }
        }
    }
}
/// a decision row that is not all-zero most of the time
pub fn gen_dec(r: &mut Rng, rows: usize, indim: usize, maxk: i64) -> AffFunc {
    let mut a = gen_aff(r, rows, indim, maxk);
    if indim > 0 && !r.chance(1, 12) {
        for i in 0..rows {
            if a.mat.row(i).iter().all(|x| *x == 0.0) {
                let j = r.below(indim);
                a.mat[[i, j]] = if r.chance(1, 2) { 1.0 } else { -1.0 };
            }
        }
    }
    a
}

#[derive(Clone, Copy)]
pub struct TreeCfg {
    pub depth: usize,
    /// probability (in 1/100) that a child slot is left empty
    pub partial_pct: u32,
    /// probability (in 1/100) that an inner position becomes a terminal early
    pub early_leaf_pct: u32,
    pub maxk: i64,
    /// number of distinct terminal functions to draw from (0 = always fresh)
    pub term_pool: usize,
}

/// Builds a random AffTree<K> with input dimension n and terminal output dimension m.
pub fn gen_tree<const K: usize>(r: &mut Rng, n: usize, m: usize, cfg: TreeCfg) -> AffTree<K> {
    let pool: Vec<AffFunc> = (0..cfg.term_pool).map(|_| gen_aff(r, m, n, cfg.maxk)).collect();
    let max_rows = (K as f64).log2().floor() as usize;
    let root_is_leaf = cfg.depth == 0 || r.chance(1, 15);
    let mut term = |r: &mut Rng| -> AffFunc {
        if pool.is_empty() {
            gen_aff(r, m, n, cfg.maxk)
        } else {
            pool[r.below(pool.len())].clone()
        }
    };
    if root_is_leaf {
        return AffTree::<K>::from_aff(term(r));
    }
    let rows = 1 + r.below(max_rows);
    let mut t = AffTree::<K>::from_aff(gen_dec(r, rows, n, cfg.maxk));
    // stack of (node idx, rows of its decision, depth)
    let mut stack = vec![(0usize, rows, 1usize)];
    while let Some((idx, rows, d)) = stack.pop() {
        let nlabels = 1usize << rows;
        let mut created = 0;
        for label in 0..nlabels {
            let last = label == nlabels - 1;
            if r.chance(cfg.partial_pct, 100) && !(last && created == 0) {
                continue;
            }
            created += 1;
            let leaf = d >= cfg.depth || r.chance(cfg.early_leaf_pct, 100);
            if leaf {
                t.add_child_node(idx, label, term(r)).unwrap();
            } else {
                let rws = 1 + r.below(max_rows);
                let c = t.add_child_node(idx, label, gen_dec(r, rws, n, cfg.maxk)).unwrap();
                stack.push((c, rws, d + 1));
            }
        }
    }
    t
}

pub fn gen_point(r: &mut Rng, n: usize) -> Array1<f64> {
    Array1::from_iter((0..n).map(|_| {
        let k = r.range(-12, 12);
        (k as f64) / 2.0
    }))
}

// ---------------------------------------------------------------- CLI
pub struct Args {
    pub seed: u64,
    pub n: usize,
    pub tier: String,
    pub rest: Vec<String>,
}
pub fn parse_args(args: &[String]) -> Args {
    let mut a = Args { seed: 1, n: 100, tier: "quick".to_string(), rest: vec![] };
    let mut i = 0;
    while i < args.len() {
        match args[i].as_str() {
            "--seed" => {
                a.seed = args[i + 1].parse().unwrap();
                i += 2;
            }
            "--n" => {
                a.n = args[i + 1].parse().unwrap();
                i += 2;
            }
            "--tier" => {
                a.tier = args[i + 1].clone();
                i += 2;
            }
            other => {
                a.rest.push(other.to_string());
                i += 1;
            }
        }
    }
    a
}

// ---------------------------------------------------------------- trees with shuffled arenas
/// grows a random subtree below (parent,label); returns nothing (indices are whatever slab hands out)
pub fn grow_subtree<const K: usize>(
    r: &mut Rng,
    t: &mut AffTree<K>,
    parent: usize,
    label: usize,
    n: usize,
    m: usize,
    depth_left: usize,
    cfg: TreeCfg,
    pool: &[AffFunc],
) {
    let max_rows = (K as f64).log2().floor() as usize;
    let term = |r: &mut Rng| -> AffFunc {
        if pool.is_empty() {
            gen_aff(r, m, n, cfg.maxk)
        } else {
            pool[r.below(pool.len())].clone()
        }
    };
    if depth_left == 0 || r.chance(cfg.early_leaf_pct, 100) {
        t.add_child_node(parent, label, term(r)).unwrap();
        return;
    }
    let rows = 1 + r.below(max_rows);
    let c = t.add_child_node(parent, label, gen_dec(r, rows, n, cfg.maxk)).unwrap();
    let nlabels = 1usize << rows;
    let mut created = 0;
    for l in 0..nlabels {
        let last = l == nlabels - 1;
        if r.chance(cfg.partial_pct, 100) && !(last && created == 0) {
            continue;
        }
        created += 1;
        grow_subtree(r, t, c, l, n, m, depth_left - 1, cfg, pool);
    }
}

/// random tree whose arena indices are not in creation order: some subtrees are removed and regrown
pub fn gen_tree_holes<const K: usize>(r: &mut Rng, n: usize, m: usize, cfg: TreeCfg, rounds: usize) -> AffTree<K> {
    let mut t: AffTree<K> = gen_tree(r, n, m, cfg);
    let pool: Vec<AffFunc> = (0..cfg.term_pool).map(|_| gen_aff(r, m, n, cfg.maxk)).collect();
    for _ in 0..rounds {
        let idxs: Vec<usize> = t.tree.node_indices().filter(|i| *i != t.tree.get_root_idx()).collect();
        if idxs.is_empty() {
            break;
        }
        // one round in four: remove_all_descendants on its own (not through remove_child) below a decision, which is
        // then regrown in place -- the decision keeps its index, its former descendants' indices are free for re-use
        let decs: Vec<usize> = t.tree.decision_indices().collect();
        if !decs.is_empty() && r.chance(1, 4) {
            let d = decs[r.below(decs.len())];
            let rows = t.tree.node_value(d).unwrap().aff.outdim();
            let _ = t.tree.remove_all_descendants(d);
            let nlabels = (1usize << rows).min(K);
            let mut created = 0;
            for l in 0..nlabels {
                let last = l == nlabels - 1;
                if r.chance(cfg.partial_pct, 100) && !(last && created == 0) {
                    continue;
                }
                created += 1;
                let dl = r.below(cfg.depth.max(1));
                grow_subtree(r, &mut t, d, l, n, m, dl, cfg, &pool);
            }
            continue;
        }
        let victim = idxs[r.below(idxs.len())];
        let (parent, label) = {
            let e = t.tree.parent(victim).unwrap();
            (e.source_idx, e.label)
        };
        t.tree.remove_child(parent, label);
        if r.chance(3, 4) {
            let d = r.below(cfg.depth.max(1));
            grow_subtree(r, &mut t, parent, label, n, m, d, cfg, &pool);
        } else if t.tree.num_children(parent) == 0 {
            // keep the tree well-formed: a decision needs a child
            grow_subtree(r, &mut t, parent, label, n, m, 0, cfg, &pool);
        }
    }
    t
}

pub fn sx_eval_pt<const K: usize>(t: &AffTree<K>, x: &Array1<f64>) -> String {
    match catch(std::panic::AssertUnwindSafe(|| t.evaluate(x))) {
        Ok(Some(v)) => format!("(pt {} (some {}))", sx_vec(x), sx_vec(&v)),
        Ok(None) => format!("(pt {} none)", sx_vec(x)),
        Err(_) => format!("(pt {} panic)", sx_vec(x)),
    }
}

/// random lattice points plus points lying exactly on decision hyperplanes of the tree
pub fn gen_points_for<const K: usize>(r: &mut Rng, t: &AffTree<K>, count: usize) -> Vec<Array1<f64>> {
    let n = t.in_dim;
    let mut pts = Vec::new();
    for _ in 0..count {
        pts.push(gen_point(r, n));
    }
    let decs: Vec<usize> = t.tree.decision_indices().collect();
    for _ in 0..count {
        if decs.is_empty() || n == 0 {
            break;
        }
        let d = decs[r.below(decs.len())];
        let aff = &t.tree.node_value(d).unwrap().aff;
        if aff.outdim() == 0 {
            continue;
        }
        let row = r.below(aff.outdim());
        let a = aff.mat.row(row);
        let b = aff.bias[row];
        let mut x = gen_point(r, n);
        let j = r.below(n);
        if a[j] != 0.0 {
            let rest: f64 = (0..n).filter(|i| *i != j).map(|i| a[i] * x[i]).sum();
            x[j] = (b - rest) / a[j];
            if x[j].is_finite() && (x[j] * 64.0).fract() == 0.0 && a.dot(&x) == b && x[j].abs() < 1e4 {
                // ... and points a hair (2^-30, exactly representable) off the hyperplane on either side: the decision
                // is an exact sign test, a tolerance would route them to the wrong side
                for sgn in [1.0f64, -1.0] {
                    let mut y = x.clone();
                    y[j] += sgn * (2.0f64).powi(-30);
                    pts.push(y);
                }
                pts.push(x);
            }
        }
    }
    pts
}
pub fn sx_points<const K: usize>(r: &mut Rng, t: &AffTree<K>, count: usize) -> String {
    let pts = gen_points_for(r, t, count);
    let ps: Vec<String> = pts.iter().map(|x| sx_eval_pt(t, x)).collect();
    format!("(pts {})", ps.join(" "))
}

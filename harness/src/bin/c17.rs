// C17: predefined trees (distill/schema.rs), AffTree::from_poly, from_slice + compose + remove_axes.
// Shard 0 (seed % 1000 == 0, the convention of bin/check: seed*1000 + shard) first emits the exhaustive parameter
// grid (fixed cases, no randomness: dims 0..=5 (thorough: 0..=6), every row/class incl. the first invalid one, parameter
// values from fixed sets incl. 0, negatives, min = max, min > max, missing bounds); every shard then emits --n random
// cases (from_poly, slicing, remove_axes with arbitrary masks, activations with random dyadic parameters in dims <= 6).
// Each case carries the dumped tree (or the err/panic outcome) and evaluate() on lattice points that hit the
// breakpoints and ties.
#[path = "../common.rs"]
mod common;
use affinitree::distill::schema;
use affinitree::linalg::affine::{AffFunc, Polytope};
use affinitree::pwl::afftree::AffTree;
use common::*;
use ndarray::{Array1, Array2};
use std::panic::AssertUnwindSafe;

fn pts_string(t: &AffTree<2>, pts: &[Array1<f64>]) -> String {
    let ps: Vec<String> = pts.iter().map(|x| sx_eval_pt(t, x)).collect();
    format!("(pts {})", ps.join(" "))
}
fn params_string(ps: &[f64]) -> String {
    let v: Vec<String> = ps.iter().map(|x| fx(*x)).collect();
    format!("(params {})", v.join(" "))
}
fn half_steps(r: &mut Rng, n: usize) -> Array1<f64> {
    Array1::from_iter((0..n).map(|_| (r.range(-8, 8) as f64) / 2.0))
}

// ---------------------------------------------------------------- activations
fn build_act(name: &str, dim: usize, row: usize, p: &[f64]) -> AffTree<2> {
    match name {
        "relu" => schema::partial_ReLU(dim, row),
        "leaky_relu" => schema::partial_leaky_ReLU(dim, row, p[0]),
        "hard_tanh" => schema::partial_hard_tanh(dim, row, p[0], p[1]),
        "hard_shrink" => schema::partial_hard_shrink(dim, row, p[0]),
        "hard_sigmoid" => schema::partial_hard_sigmoid(dim, row),
        "threshold" => schema::partial_threshold(dim, row, p[0], p[1]),
        _ => unreachable!(),
    }
}
/// values of the named component that hit every breakpoint, both sides of it, and zero
fn act_values(name: &str, p: &[f64]) -> Vec<f64> {
    let mut bps: Vec<f64> = vec![0.0];
    match name {
        "hard_tanh" => bps.extend_from_slice(&[p[0], p[1]]),
        "hard_shrink" => bps.extend_from_slice(&[p[0], -p[0]]),
        // the middle piece s*v + 1/2 is not exact in f64: only the saturated part and v = 0 are compared exactly
        "hard_sigmoid" => return vec![-5.0, -3.5, -3.0, 0.0, 3.0, 3.5, 5.0, -1.0, 1.0, 2.0, -2.5],
        "threshold" => bps.push(p[0]),
        _ => {}
    }
    let mut vs = Vec::new();
    for b in bps {
        for d in [-1.0, -0.5, 0.0, 0.5, 1.0] {
            let v = b + d;
            if !vs.contains(&v) {
                vs.push(v);
            }
        }
    }
    vs
}
fn emit_act(out: &mut String, r: &mut Rng, id: &str, name: &str, dim: usize, row: usize, p: &[f64]) {
    let res = catch(AssertUnwindSafe(|| build_act(name, dim, row, p)));
    match res {
        Ok(t) => {
            let mut pts = Vec::new();
            if row < dim {
                for v in act_values(name, p) {
                    let mut x = half_steps(r, dim);
                    x[row] = v;
                    pts.push(x);
                }
            }
            out.push_str(&format!(
                "(case {} act {} {} {} {} ok {} {})\n",
                id,
                name,
                dim,
                row,
                params_string(p),
                sx_tree(&t),
                pts_string(&t, &pts)
            ));
        }
        Err(_) => out.push_str(&format!("(case {} act {} {} {} {} panic - (pts))\n", id, name, dim, row, params_string(p))),
    }
}

// ---------------------------------------------------------------- argmax / class / inf_norm
/// all vectors over `vals` (ties in every position) when there are few, else a random selection plus the constant ones
fn tie_points(r: &mut Rng, dim: usize, vals: &[f64], cap: usize) -> Vec<Array1<f64>> {
    let total = (vals.len() as u64).checked_pow(dim as u32).unwrap_or(u64::MAX);
    let mut pts = Vec::new();
    if dim == 0 {
        return pts;
    }
    if total <= cap as u64 {
        for code in 0..total {
            let mut c = code;
            let mut x = Array1::zeros(dim);
            for i in 0..dim {
                x[i] = vals[(c % vals.len() as u64) as usize];
                c /= vals.len() as u64;
            }
            pts.push(x);
        }
    } else {
        for v in vals {
            pts.push(Array1::from_elem(dim, *v));
        }
        for _ in 0..cap {
            pts.push(Array1::from_iter((0..dim).map(|_| vals[r.below(vals.len())])));
        }
    }
    pts
}
fn emit_argmax(out: &mut String, r: &mut Rng, id: &str, dim: usize) {
    match catch(AssertUnwindSafe(|| schema::argmax(dim))) {
        Ok(t) => {
            let pts = tie_points(r, dim, &[-1.0, 0.0, 0.5], 81);
            out.push_str(&format!("(case {} argmax {} ok {} {})\n", id, dim, sx_tree(&t), pts_string(&t, &pts)));
        }
        Err(_) => out.push_str(&format!("(case {} argmax {} panic - (pts))\n", id, dim)),
    }
}
fn emit_class(out: &mut String, r: &mut Rng, id: &str, dim: usize, clazz: usize) {
    match catch(AssertUnwindSafe(|| schema::class_characterization(dim, clazz))) {
        Ok(t) => {
            let pts = tie_points(r, dim, &[-1.0, 0.0, 0.5], 81);
            out.push_str(&format!("(case {} class {} {} ok {} {})\n", id, dim, clazz, sx_tree(&t), pts_string(&t, &pts)));
        }
        Err(_) => out.push_str(&format!("(case {} class {} {} panic - (pts))\n", id, dim, clazz)),
    }
}
fn sx_optf(o: Option<f64>) -> String {
    match o {
        Some(v) => fx(v),
        None => "-".to_string(),
    }
}
fn emit_inf_norm(out: &mut String, r: &mut Rng, id: &str, dim: usize, lo: Option<f64>, hi: Option<f64>) {
    match catch(AssertUnwindSafe(|| schema::inf_norm(dim, lo, hi))) {
        Ok(t) => {
            let mut vals: Vec<f64> = Vec::new();
            for b in [lo, hi].iter().flatten() {
                for d in [-0.5, 0.0, 0.5] {
                    if !vals.contains(&(b + d)) {
                        vals.push(b + d);
                    }
                }
            }
            let pts = tie_points(r, dim, &vals, 64);
            out.push_str(&format!(
                "(case {} inf_norm {} {} {} ok {} {})\n",
                id,
                dim,
                sx_optf(lo),
                sx_optf(hi),
                sx_tree(&t),
                pts_string(&t, &pts)
            ));
        }
        Err(_) => out.push_str(&format!("(case {} inf_norm {} {} {} panic - (pts))\n", id, dim, sx_optf(lo), sx_optf(hi))),
    }
}

// ---------------------------------------------------------------- from_poly
fn emit_from_poly(out: &mut String, r: &mut Rng, id: &str, poly: Polytope, f: AffFunc, g: Option<AffFunc>) {
    emit_from_poly_pts(out, r, id, poly, f, g, true)
}
fn emit_from_poly_pts(out: &mut String, r: &mut Rng, id: &str, poly: Polytope, f: AffFunc, g: Option<AffFunc>, with_pts: bool) {
    let head = format!(
        "(case {} from_poly {} {} {}",
        id,
        sx_poly(&poly),
        sx_aff(&f),
        match &g {
            Some(a) => sx_aff(a),
            None => "-".to_string(),
        }
    );
    let n = poly.indim();
    let p2 = poly.clone();
    let res = catch(AssertUnwindSafe(|| AffTree::<2>::from_poly(p2, f.clone(), g.as_ref())));
    match res {
        Ok(Ok(t)) => {
            // lattice points, points on single facets, and vertices-like points solving two rows at once are all in
            // the half-step lattice for the small integer data used here
            let mut pts = if with_pts { gen_points_for(r, &t, 6) } else { Vec::new() };
            for _ in 0..(if with_pts { 4 } else { 0 }) {
                pts.push(half_steps(r, n));
            }
            out.push_str(&format!("{} ok {} {})\n", head, sx_tree(&t), pts_string(&t, &pts)));
        }
        Ok(Err(_)) => out.push_str(&format!("{} err - (pts))\n", head)),
        Err(_) => out.push_str(&format!("{} panic - (pts))\n", head)),
    }
}
fn gen_poly(r: &mut Rng, rows: usize, n: usize) -> Polytope {
    let mut m = Array2::zeros((rows, n));
    let mut b = Array1::zeros(rows);
    for i in 0..rows {
        let kind = r.below(10);
        for j in 0..n {
            m[[i, j]] = match kind {
                0 => 0.0, // zero row: bias decides
                1 | 2 => {
                    // axis-aligned
                    0.0
                }
                _ => gen_coef(r, 4),
            };
        }
        if (kind == 1 || kind == 2) && n > 0 {
            m[[i, r.below(n)]] = if r.chance(1, 2) { 1.0 } else { -1.0 };
        }
        b[i] = (r.range(-6, 6) as f64) / 2.0;
        if i > 0 && r.chance(1, 8) {
            // duplicate / opposite of an earlier row (thin or empty polytopes)
            let k = r.below(i);
            let s = if r.chance(1, 2) { 1.0 } else { -1.0 };
            for j in 0..n {
                m[[i, j]] = s * m[[k, j]];
            }
            b[i] = s * b[k] + if r.chance(1, 2) { 0.0 } else { -0.5 };
        }
    }
    Polytope::from_mats(m, b)
}
fn random_from_poly(out: &mut String, r: &mut Rng, id: &str) {
    let n = 1 + r.below(3);
    let rows = if r.chance(1, 25) { 0 } else { 1 + r.below(5) };
    let mut poly = gen_poly(r, rows, n);
    // one polytope in six has rows of very different scale: a whole row times 2^-60 (the same half-space), or a copy of
    // a row with 2^-60 added to one coefficient (nearly, but not, parallel).  from_poly must keep every row; evaluate()
    // rounds on such data, so these cases are decided on the tree alone
    let tiny = rows >= 1 && r.chance(1, 6);
    if tiny {
        let mut m = poly.mat.to_owned();
        let mut b = poly.bias.to_owned();
        for i in 0..rows {
            match r.below(3) {
                0 => {
                    for j in 0..n {
                        m[[i, j]] *= 2f64.powi(-60);
                    }
                    b[i] *= 2f64.powi(-60);
                }
                1 if i > 0 => {
                    let k = r.below(i);
                    for j in 0..n {
                        m[[i, j]] = m[[k, j]];
                    }
                    b[i] = b[k];
                    m[[i, r.below(n)]] += 2f64.powi(-60);
                }
                _ => {}
            }
        }
        poly = Polytope::from_mats(m, b);
    }
    let fm = 1 + r.below(2);
    let fin = if r.chance(1, 20) { n + 1 } else { n };
    let f = gen_aff(r, fm, fin, 4);
    let g = if r.chance(1, 3) {
        None
    } else {
        let gin = if r.chance(1, 20) { n + 1 } else { n };
        Some(gen_aff(r, fm, gin, 4))
    };
    emit_from_poly_pts(out, r, id, poly, f, g, !tiny);
}

// ---------------------------------------------------------------- slicing and remove_axes
fn gen_subject(r: &mut Rng, n: usize) -> AffTree<2> {
    // a tree over R^n: random trees (partial ones included) and the predefined trees themselves
    match r.below(8) {
        0 if n >= 1 => schema::partial_ReLU(n, r.below(n)),
        1 if n >= 2 => schema::argmax(n),
        2 if n >= 2 => schema::class_characterization(n, r.below(n)),
        3 if n >= 1 => schema::inf_norm(n, Some(-1.0), Some(1.5)),
        4 if n >= 1 => schema::partial_hard_tanh(n, r.below(n), -1.0, 0.5),
        _ => {
            let cfg = TreeCfg {
                depth: r.below(4),
                partial_pct: if r.chance(1, 2) { 0 } else { 20 },
                early_leaf_pct: 20,
                maxk: 4,
                term_pool: 0,
            };
            let m = 1 + r.below(2);
            // arenas with freed / re-used indices: the largest index may exceed len()
            if r.chance(1, 2) {
                gen_tree_holes(r, n, m, cfg, 2)
            } else {
                gen_tree(r, n, m, cfg)
            }
        }
    }
}
fn sx_ref(v: &Array1<f64>) -> String {
    let s: Vec<String> = v.iter().map(|x| fx(*x)).collect();
    format!("(ref {})", s.join(" "))
}
fn sx_mask(m: &Array1<bool>) -> String {
    let s: Vec<&str> = m.iter().map(|b| if *b { "1" } else { "0" }).collect();
    format!("(mask {})", s.join(" "))
}
fn emit_slice(out: &mut String, r: &mut Rng, id: &str, t: &AffTree<2>, reference: Array1<f64>, mask: Array1<bool>) {
    let head = format!("(case {} slice {} {} {}", id, sx_tree(t), sx_ref(&reference), sx_mask(&mask));
    let comp = catch(AssertUnwindSafe(|| {
        let mut s = AffTree::<2>::from_slice(&reference);
        s.compose::<false, false>(t);
        s
    }));
    // the documented workflow slice -> compose -> eliminate -> remove_axes: elimination leaves holes in the arena
    let eliminate = r.chance(1, 3);
    let comp = comp.map(|mut s| {
        if eliminate {
            let _ = catch(AssertUnwindSafe(|| s.infeasible_elimination()));
        }
        s
    });
    let mut s = match comp {
        Ok(s) => s,
        Err(_) => {
            out.push_str(&format!("{} panic-compose - - (pts))\n", head));
            return;
        }
    };
    let composed = sx_tree(&s);
    let res = catch(AssertUnwindSafe(|| s.remove_axes(&mask)));
    match res {
        Ok(Ok(())) => {
            let k = mask.iter().filter(|b| **b).count();
            let mut pts = gen_points_for(r, &s, 5);
            for _ in 0..3 {
                pts.push(half_steps(r, k));
            }
            out.push_str(&format!("{} ok {} {} {})\n", head, composed, sx_tree(&s), pts_string(&s, &pts)));
        }
        Ok(Err(_)) => out.push_str(&format!("{} err {} {} (pts))\n", head, composed, sx_tree(&s))),
        Err(_) => out.push_str(&format!("{} panic {} - (pts))\n", head, composed)),
    }
}
fn random_slice(out: &mut String, r: &mut Rng, id: &str) {
    let n = 1 + r.below(4);
    let t = gen_subject(r, n);
    let style = r.below(12);
    let reference = Array1::from_iter((0..n).map(|_| {
        let free = match style {
            0 => true,  // nothing fixed (all-true mask)
            1 => false, // everything fixed (all-false mask)
            _ => r.chance(1, 2),
        };
        if free {
            f64::NAN
        } else {
            (r.range(-6, 6) as f64) / 2.0
        }
    }));
    // the mask that belongs to the reference point; 1/16: a mask of the wrong length (Err, tree unchanged)
    let mut mask = reference.map(|x| x.is_nan());
    if r.chance(1, 16) {
        mask = Array1::from_elem(n + 1, true);
    }
    emit_slice(out, r, id, &t, reference, mask);
}
fn emit_remove_axes(out: &mut String, r: &mut Rng, id: &str, t: &AffTree<2>, mask: Array1<bool>) {
    let mut t = t.clone();
    if r.chance(1, 3) {
        let _ = catch(AssertUnwindSafe(|| t.infeasible_elimination()));
    }
    let head = format!("(case {} remove_axes {} {}", id, sx_tree(&t), sx_mask(&mask));
    let mut s = t.clone();
    let res = catch(AssertUnwindSafe(|| s.remove_axes(&mask)));
    match res {
        Ok(Ok(())) => {
            let k = mask.iter().filter(|b| **b).count();
            let mut pts = gen_points_for(r, &s, 5);
            for _ in 0..3 {
                pts.push(half_steps(r, k));
            }
            out.push_str(&format!("{} ok {} {})\n", head, sx_tree(&s), pts_string(&s, &pts)));
        }
        Ok(Err(_)) => out.push_str(&format!("{} err {} (pts))\n", head, sx_tree(&s))),
        Err(_) => out.push_str(&format!("{} panic - (pts))\n", head)),
    }
}
fn random_remove_axes(out: &mut String, r: &mut Rng, id: &str) {
    let n = 1 + r.below(4);
    let t = gen_subject(r, n);
    let style = r.below(10);
    let len = if r.chance(1, 16) { n + 1 } else { n };
    let mask = Array1::from_iter((0..len).map(|_| match style {
        0 => true,
        1 => false,
        _ => r.chance(1, 2),
    }));
    emit_remove_axes(out, r, id, &t, mask);
}

// ---------------------------------------------------------------- random parameters
fn dyadic(r: &mut Rng) -> f64 {
    (r.range(-12, 12) as f64) / 4.0
}
fn random_schema(out: &mut String, r: &mut Rng, id: &str) {
    let dim = 1 + r.below(6);
    let row = if r.chance(1, 20) { dim } else { r.below(dim) };
    let (a, b) = (dyadic(r), dyadic(r));
    match r.below(9) {
        0 => emit_act(out, r, id, "leaky_relu", dim, row, &[a]),
        1 => {
            let (lo, hi) = if r.chance(1, 10) { (a.max(b), a.min(b)) } else { (a.min(b), a.max(b)) };
            emit_act(out, r, id, "hard_tanh", dim, row, &[lo, hi]);
        }
        2 => emit_act(out, r, id, "hard_shrink", dim, row, &[a]),
        3 => emit_act(out, r, id, "threshold", dim, row, &[a, b]),
        4 => emit_act(out, r, id, "hard_sigmoid", dim, row, &[]),
        5 => emit_act(out, r, id, "relu", dim, row, &[]),
        6 => {
            let d = dim.max(2);
            let c = if r.chance(1, 20) { d } else { r.below(d) };
            emit_class(out, r, id, d, c);
        }
        7 => {
            let lo = if r.chance(1, 4) { None } else { Some(a) };
            let hi = if r.chance(1, 4) { None } else { Some(b) };
            let d = 1 + r.below(4);
            emit_inf_norm(out, r, id, d, lo, hi);
        }
        _ => {
            let d = 2 + r.below(5);
            emit_argmax(out, r, id, d);
        }
    }
}

// ---------------------------------------------------------------- the exhaustive grid
fn grid(out: &mut String, r: &mut Rng, maxdim: usize) -> usize {
    let mut k = 0usize;
    let mut next = |k: &mut usize| {
        *k += 1;
        format!("g{}", *k)
    };
    let alphas = [-1.0, -0.5, 0.0, 0.5, 1.0, 2.0];
    let lambdas = [-1.0, -0.5, 0.0, 0.5, 1.0, 2.0];
    let tvals = [-2.0, -0.5, 0.0, 0.5, 1.0];
    let thetas = [-1.0, 0.0, 0.5, 2.0];
    let values = [-2.0, 0.0, 0.5, 2.0];
    let bounds: [Option<f64>; 5] = [None, Some(-1.0), Some(0.0), Some(0.5), Some(1.0)];
    for dim in 0..=maxdim {
        // row = dim is the first invalid row (assertion): one parameter choice per generator
        for row in 0..=dim {
            let valid = row < dim;
            emit_act(out, r, &next(&mut k), "relu", dim, row, &[]);
            emit_act(out, r, &next(&mut k), "hard_sigmoid", dim, row, &[]);
            for a in alphas {
                if valid || a == 0.5 {
                    emit_act(out, r, &next(&mut k), "leaky_relu", dim, row, &[a]);
                }
            }
            for l in lambdas {
                if valid || l == 0.5 {
                    emit_act(out, r, &next(&mut k), "hard_shrink", dim, row, &[l]);
                }
            }
            for (i, lo) in tvals.iter().enumerate() {
                for (j, hi) in tvals.iter().enumerate() {
                    // all pairs min <= max (min = max included) and the neighbouring pairs min > max (assertion)
                    if (valid && (i <= j || i == j + 1)) || (!valid && i == 1 && j == 3) {
                        emit_act(out, r, &next(&mut k), "hard_tanh", dim, row, &[*lo, *hi]);
                    }
                }
            }
            for th in thetas {
                for v in values {
                    if valid || (th == 0.5 && v == 2.0) {
                        emit_act(out, r, &next(&mut k), "threshold", dim, row, &[th, v]);
                    }
                }
            }
        }
        emit_argmax(out, r, &next(&mut k), dim);
        for clazz in 0..=dim {
            emit_class(out, r, &next(&mut k), dim, clazz);
        }
        for lo in bounds {
            for hi in bounds {
                emit_inf_norm(out, r, &next(&mut k), dim, lo, hi);
            }
        }
        if out.len() > 1 << 20 {
            print!("{}", out);
            out.clear();
        }
    }
    for dim in (maxdim + 1)..=(maxdim + 2) {
        emit_argmax(out, r, &next(&mut k), dim);
        emit_class(out, r, &next(&mut k), dim, dim - 1);
        emit_class(out, r, &next(&mut k), dim, 0);
    }
    // fixed from_poly / slicing edge cases
    let unit_box = Polytope::from_mats(
        Array2::from_shape_vec((4, 2), vec![1., 0., -1., 0., 0., 1., 0., -1.]).unwrap(),
        Array1::from_vec(vec![1., 0., 1., 0.]),
    );
    let f = AffFunc::from_mats(Array2::from_shape_vec((1, 2), vec![1., 2.]).unwrap(), Array1::from_vec(vec![0.5]));
    let g = AffFunc::from_mats(Array2::from_shape_vec((1, 2), vec![0., -1.]).unwrap(), Array1::from_vec(vec![-3.]));
    emit_from_poly(out, r, &next(&mut k), unit_box.clone(), f.clone(), Some(g.clone()));
    emit_from_poly(out, r, &next(&mut k), unit_box.clone(), f.clone(), None);
    // empty polytope x <= 0, -x <= -1
    let empty = Polytope::from_mats(Array2::from_shape_vec((2, 1), vec![1., -1.]).unwrap(), Array1::from_vec(vec![0., -1.]));
    let id1 = AffFunc::identity(1);
    emit_from_poly(out, r, &next(&mut k), empty.clone(), id1.clone(), None);
    emit_from_poly(out, r, &next(&mut k), empty, id1.clone(), Some(AffFunc::constant(1, 7.0)));
    // no constraint at all (assertion), dimension mismatches (Err)
    emit_from_poly(out, r, &next(&mut k), Polytope::from_mats(Array2::zeros((0, 1)), Array1::zeros(0)), id1.clone(), None);
    emit_from_poly(out, r, &next(&mut k), unit_box.clone(), id1.clone(), None);
    emit_from_poly(out, r, &next(&mut k), unit_box.clone(), f.clone(), Some(id1.clone()));
    emit_from_poly(out, r, &next(&mut k), Polytope::from_mats(Array2::zeros((0, 2)), Array1::zeros(0)), id1.clone(), None);
    // slices of predefined trees: nothing fixed, everything fixed, non-prefix masks
    let nan = f64::NAN;
    let subjects: Vec<AffTree<2>> = vec![
        schema::partial_ReLU(3, 1),
        schema::argmax(3),
        schema::class_characterization(3, 2),
        schema::inf_norm(3, Some(-1.0), Some(1.0)),
        schema::partial_hard_tanh(3, 0, -1.0, 1.0),
    ];
    let refs: Vec<Vec<f64>> = vec![
        vec![nan, nan, nan],
        vec![0.5, -1.0, 2.0],
        vec![nan, 0.0, nan],
        vec![1.0, nan, nan],
        vec![nan, nan, -1.0],
        vec![0.0, nan, 0.0],
    ];
    for t in &subjects {
        for rf in &refs {
            let reference = Array1::from_vec(rf.clone());
            let mask = reference.map(|x| x.is_nan());
            emit_slice(out, r, &next(&mut k), t, reference, mask);
        }
        for m in [[true, false, true], [false, true, false], [false, false, true], [true, true, true], [false, false, false]] {
            emit_remove_axes(out, r, &next(&mut k), t, Array1::from_vec(m.to_vec()));
        }
    }
    k
}

fn main() {
    silence_panics();
    let argv: Vec<String> = std::env::args().collect();
    let args = &parse_args(&argv[1..]);
    let mut r = Rng::new(args.seed ^ 0xC17);
    let mut out = String::new();
    if args.seed % 1000 == 0 {
        let mut gr = Rng::new(0xC17);
        let maxdim = if args.tier == "thorough" { 6 } else { 5 };
        grid(&mut out, &mut gr, maxdim);
    }
    for id in 0..args.n {
        let mut cr = r.fork();
        let ids = id.to_string();
        match id % 4 {
            0 => random_from_poly(&mut out, &mut cr, &ids),
            1 => random_slice(&mut out, &mut cr, &ids),
            2 => random_schema(&mut out, &mut cr, &ids),
            _ => {
                if cr.chance(1, 2) {
                    random_remove_axes(&mut out, &mut cr, &ids)
                } else {
                    random_from_poly(&mut out, &mut cr, &ids)
                }
            }
        }
        if out.len() > 1 << 20 {
            print!("{}", out);
            out.clear();
        }
    }
    print!("{}", out);
}

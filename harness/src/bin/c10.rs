// C10: the LP layer (polyhedron.rs: as_linprog / solve_linprog / status / is_feasible; affine.rs: chebyshev_center).
// Translation validation: generated constraint systems are handed to the real code through its public API and every
// verdict (with its witness, printed exactly) is dumped; the runner referees each verdict with checked certificates.
// Line format:
//   (case ID KIND (aff n A b) (status ST) (feas 0|1|panic)
//         (lps (lp OBJKIND (c..) ST)..) (cheb (aff n+1 A' b') (c'..) ST) | (cheb panic))
//   ST = infeasible | unbounded | (optimal (w..)) | error | panic
#[path = "../common.rs"]
mod common;
use affinitree::linalg::affine::Polytope;
use affinitree::linalg::polyhedron::PolytopeStatus;
use common::*;
use ndarray::{Array1, Array2};
use std::panic::AssertUnwindSafe;

type Row = (Vec<f64>, f64);

fn sx_status(st: &Result<PolytopeStatus, String>) -> String {
    match st {
        Ok(PolytopeStatus::Infeasible) => "infeasible".to_string(),
        Ok(PolytopeStatus::Unbounded) => "unbounded".to_string(),
        Ok(PolytopeStatus::Optimal(w)) => format!("(optimal {})", sx_vec(w)),
        Ok(PolytopeStatus::Error(_)) => "error".to_string(),
        Err(_) => "panic".to_string(),
    }
}

fn poly_of(n: usize, rows: &[Row]) -> Polytope {
    let mut a = Array2::<f64>::zeros((rows.len(), n));
    let mut b = Array1::<f64>::zeros(rows.len());
    for (i, (r, v)) in rows.iter().enumerate() {
        for j in 0..n {
            a[[i, j]] = r[j];
        }
        b[i] = *v;
    }
    // about one system in four (with at least two rows and two columns) is stored column-major: same logical content
    if rows.len() >= 2 && n >= 2 && (rows.len() * 7 + n * 3 + (rows[0].1.abs() * 2.0) as usize) % 4 == 0 {
        a = to_f_order(&a);
    }
    Polytope::from_mats(a, b)
}

fn dotv(a: &[f64], x: &[f64]) -> f64 {
    a.iter().zip(x).map(|(p, q)| p * q).sum()
}
/// integer row, |coef| <= maxk, not all zero
fn gen_row(r: &mut Rng, n: usize, maxk: i64) -> Vec<f64> {
    loop {
        let v: Vec<f64> = (0..n)
            .map(|_| if r.chance(1, 4) { 0.0 } else { r.range(-maxk, maxk) as f64 })
            .collect();
        if v.iter().any(|x| *x != 0.0) {
            return v;
        }
    }
}
/// half-integer point
fn gen_hpoint(r: &mut Rng, n: usize) -> Vec<f64> {
    (0..n).map(|_| r.range(-8, 8) as f64 / 2.0).collect()
}
fn half(r: &mut Rng, lo: i64, hi: i64) -> f64 {
    r.range(lo, hi) as f64 / 2.0
}
fn maxabs(v: &[f64]) -> f64 {
    v.iter().fold(0.0f64, |m, x| m.max(x.abs()))
}
fn shuffle<T>(r: &mut Rng, v: &mut Vec<T>) {
    for i in (1..v.len()).rev() {
        let j = r.below(i + 1);
        v.swap(i, j);
    }
}

/// rows whose Euclidean norm is an integer (so that the Chebyshev system stays exactly representable)
fn pyth_row(r: &mut Rng, n: usize) -> Vec<f64> {
    let base: Vec<Vec<i64>> = match n {
        1 => vec![vec![1], vec![2], vec![3], vec![5]],
        2 => vec![vec![1, 0], vec![3, 4], vec![4, 3], vec![6, 8], vec![0, 2], vec![8, 6], vec![0, 1]],
        3 => vec![
            vec![1, 0, 0], vec![0, 3, 4], vec![1, 2, 2], vec![2, 1, 2], vec![2, 2, 1], vec![2, 3, 6], vec![6, 2, 3],
            vec![4, 4, 7], vec![1, 4, 8], vec![2, 4, 4], vec![0, 0, 2],
        ],
        _ => vec![
            vec![1, 1, 1, 1], vec![2, 2, 2, 2], vec![1, 0, 0, 0], vec![0, 3, 4, 0], vec![1, 2, 2, 4], vec![2, 4, 5, 6],
            vec![0, 1, 2, 2], vec![4, 2, 2, 1], vec![0, 0, 0, 2], vec![1, 1, 3, 5],
        ],
    };
    let mut v: Vec<f64> = base[r.below(base.len())].iter().map(|x| *x as f64).collect();
    // permute entries and flip signs
    for i in (1..n).rev() {
        let j = r.below(i + 1);
        v.swap(i, j);
    }
    for x in v.iter_mut() {
        if r.chance(1, 2) {
            *x = -*x;
        }
    }
    v
}

struct Sys {
    kind: String,
    n: usize,
    rows: Vec<Row>,
    /// a point known to satisfy the base rows (before planted contradictions), if any
    inner: Option<Vec<f64>>,
}

fn gen_sys(r: &mut Rng, tier_rows: usize) -> Sys {
    let n = [1usize, 2, 2, 2, 3, 3, 3, 4, 4, 1][r.below(10)];
    let base_kind = r.below(7);
    let maxrows = if n == 4 { tier_rows.min(10) } else { tier_rows };
    let mut rows: Vec<Row> = vec![];
    let mut kind = String::new();
    let p = gen_hpoint(r, n);
    let pyth = r.chance(1, 3);
    let mut mkrow = |r: &mut Rng| if pyth { pyth_row(r, n) } else { gen_row(r, n, 8) };
    let mut inner = Some(p.clone());
    match base_kind {
        0 | 1 => {
            // bounded around p: box rows plus random cuts
            kind.push_str("bounded");
            for j in 0..n {
                let w = half(r, 0, 8);
                let mut e = vec![0.0; n];
                e[j] = 1.0;
                rows.push((e.clone(), p[j] + w));
                e[j] = -1.0;
                let w2 = half(r, 0, 8);
                rows.push((e, -p[j] + w2));
            }
            let extra = r.below(4);
            for _ in 0..extra {
                let a = mkrow(r);
                let s = half(r, 0, 12);
                rows.push((a.clone(), dotv(&a, &p) + s));
            }
        }
        2 => {
            // polyhedron around p from random cuts only (bounded or not)
            kind.push_str("cuts");
            let m = 1 + r.below(2 * n + 2);
            for _ in 0..m {
                let a = mkrow(r);
                let s = half(r, 0, 12);
                rows.push((a.clone(), dotv(&a, &p) + s));
            }
        }
        3 => {
            // cone / few rows: unbounded for sure when fewer rows than n+1
            kind.push_str("cone");
            let m = 1 + r.below(n);
            for _ in 0..m {
                let a = mkrow(r);
                let s = if r.chance(1, 2) { 0.0 } else { half(r, 0, 6) };
                rows.push((a.clone(), dotv(&a, &p) + s));
            }
        }
        4 => {
            // slab-like: pairs of parallel rows in some directions only
            kind.push_str("slab");
            let m = 1 + r.below(n);
            for _ in 0..m {
                let a = mkrow(r);
                let s = half(r, 0, 8);
                let t = half(r, 0, 8);
                rows.push((a.clone(), dotv(&a, &p) + s));
                let na: Vec<f64> = a.iter().map(|x| -x).collect();
                rows.push((na, -dotv(&a, &p) + t));
            }
        }
        5 => {
            // a single half-space (what every child of a root decision is), bound of either sign, any scale
            kind.push_str("single");
            inner = None;
            let a = mkrow(r);
            rows.push((a, half(r, -12, 12)));
        }
        _ => {
            // arbitrary right-hand sides: feasibility is whatever it is
            kind.push_str("random");
            inner = None;
            let m = 1 + r.below(2 * n + 3);
            for _ in 0..m {
                let a = mkrow(r);
                rows.push((a, half(r, -12, 12)));
            }
        }
    }
    // planted features
    let nfeat = r.below(4);
    for _ in 0..nfeat {
        if rows.len() + 2 > maxrows {
            break;
        }
        match r.below(9) {
            0 => {
                // equality pair through p: lower-dimensional
                kind.push_str("+eq");
                let a = mkrow(r);
                let v = dotv(&a, &p);
                rows.push((a.clone(), v));
                rows.push((a.iter().map(|x| -x).collect(), -v));
            }
            1 => {
                // contradictory pair: empty by a gap
                kind.push_str("+empty");
                let a = mkrow(r);
                let v = dotv(&a, &p);
                let gap = [0.5, 1.0, 3.0][r.below(3)];
                rows.push((a.clone(), v));
                rows.push((a.iter().map(|x| -x).collect(), -v - gap));
                inner = None;
            }
            2 => {
                // zero row, bias of each sign
                // (0 <= -0.0 is as trivially true as 0 <= 0.0: -0.0 arises from negating a zero bound)
                let b = [1.5, 0.0, -0.5, 2.0, -0.0, 0.0][r.below(6)];
                kind.push_str(if b > 0.0 { "+zpos" } else if b == 0.0 { "+zzero" } else { "+zneg" });
                rows.push((vec![0.0; n], b));
                if b < 0.0 {
                    inner = None;
                }
            }
            3 => {
                // parallel row with a different bias
                if !rows.is_empty() {
                    kind.push_str("+par");
                    let (a, b) = rows[r.below(rows.len())].clone();
                    let d = half(r, 1, 6);
                    rows.push((a, b + d));
                }
            }
            4 => {
                // positively scaled duplicate
                if !rows.is_empty() {
                    let (a, b) = rows[r.below(rows.len())].clone();
                    let k = [2.0, 0.5, 3.0, 1.0][r.below(4)];
                    let sa: Vec<f64> = a.iter().map(|x| x * k).collect();
                    if maxabs(&sa) <= 8.0 && (b * k * 2.0).fract() == 0.0 && sa.iter().all(|x| (x * 2.0).fract() == 0.0) {
                        kind.push_str("+dup");
                        rows.push((sa, b * k));
                    }
                }
            }
            5 => {
                // redundant: sum of two rows with extra slack
                if rows.len() >= 2 {
                    let (a1, b1) = rows[r.below(rows.len())].clone();
                    let (a2, b2) = rows[r.below(rows.len())].clone();
                    let s: Vec<f64> = a1.iter().zip(&a2).map(|(x, y)| x + y).collect();
                    if maxabs(&s) <= 8.0 {
                        kind.push_str("+red");
                        rows.push((s, b1 + b2 + half(r, 0, 4)));
                    }
                }
            }
            6 => {
                // thin slab: width 2^-k, below the solver tolerance; either verdict is acceptable
                kind.push_str("+thin");
                let a = mkrow(r);
                let v = dotv(&a, &p);
                let w = [2f64.powi(-24), 2f64.powi(-30), 2f64.powi(-40)][r.below(3)];
                rows.push((a.clone(), v));
                rows.push((a.iter().map(|x| -x).collect(), -v + w));
            }
            7 => {
                // negatively scaled copy of a row: the opposite half-space through the same hyperplane (+ slack)
                // (not of a thin-slab row: two opposite copies would make a set that is empty by less than the
                // solver tolerance, where the margins of the property collide)
                if !rows.is_empty() {
                    let (a, b) = rows[r.below(rows.len())].clone();
                    if (b * 2.0).fract() == 0.0 {
                        kind.push_str("+opp");
                        rows.push((a.iter().map(|x| -x).collect(), -b + half(r, 0, 6)));
                    }
                }
            }
            _ => {
                // an extra random cut, not necessarily through the region
                kind.push_str("+cut");
                let a = mkrow(r);
                let s = half(r, -4, 8);
                if s < 0.0 {
                    inner = None;
                }
                rows.push((a.clone(), dotv(&a, &p) + s));
            }
        }
    }
    if rows.is_empty() {
        rows.push((vec![0.0; n], 1.0));
    }
    // row scaling by powers of two (exact; the set is unchanged): normals shorter than 1, mixed magnitudes.
    // Not for planted thin slabs, whose width is meant relative to the solver tolerance.
    if !kind.contains("thin") && r.chance(1, 3) {
        kind.push_str("+scaled");
        for row in rows.iter_mut() {
            if r.chance(2, 3) {
                let f = [0.125, 0.25, 0.5, 2.0, 4.0][r.below(5)];
                for v in row.0.iter_mut() {
                    *v *= f;
                }
                row.1 *= f;
            }
        }
    }
    rows.truncate(maxrows.max(1));
    shuffle(r, &mut rows);
    Sys { kind, n, rows, inner }
}

fn gen_objectives(r: &mut Rng, s: &Sys) -> Vec<(String, Vec<f64>)> {
    let n = s.n;
    let mut out: Vec<(String, Vec<f64>)> = vec![];
    let k = 2 + r.below(2);
    for _ in 0..k {
        match r.below(6) {
            0 => {
                // dual-feasible: minus a non-negative combination of rows => bounded below whenever feasible
                let mut c = vec![0.0; n];
                let picks = 1 + r.below(3);
                for _ in 0..picks {
                    let (a, _) = &s.rows[r.below(s.rows.len())];
                    let l = (1 + r.below(3)) as f64 / 2.0;
                    for j in 0..n {
                        c[j] -= l * a[j];
                    }
                }
                if maxabs(&c) <= 16.0 {
                    out.push(("dualcomb".to_string(), c));
                }
            }
            1 => {
                // degenerate: the objective is minus one row (the whole facet is optimal)
                let (a, _) = &s.rows[r.below(s.rows.len())];
                out.push(("facet".to_string(), a.iter().map(|x| -x).collect()));
            }
            2 => {
                // axis direction
                let mut c = vec![0.0; n];
                c[r.below(n)] = if r.chance(1, 2) { 1.0 } else { -1.0 };
                out.push(("axis".to_string(), c));
            }
            3 => {
                // plus one row: pushes away from that constraint (often unbounded)
                let (a, _) = &s.rows[r.below(s.rows.len())];
                out.push(("plusrow".to_string(), a.clone()));
            }
            4 => out.push(("zero".to_string(), vec![0.0; n])),
            _ => out.push(("random".to_string(), (0..n).map(|_| r.range(-8, 8) as f64).collect())),
        }
    }
    out
}

fn emit(out: &mut String, id: usize, kind: &str, n: usize, rows: &[Row], objs: &[(String, Vec<f64>)]) {
    let poly = poly_of(n, rows);
    let st = catch(AssertUnwindSafe(|| poly.status()));
    let feas = match catch(AssertUnwindSafe(|| poly.is_feasible())) {
        Ok(true) => "1",
        Ok(false) => "0",
        Err(_) => "panic",
    };
    let mut lps = String::new();
    for (k, c) in objs {
        let cv = Array1::from_vec(c.clone());
        let r = catch(AssertUnwindSafe(|| poly.solve_linprog(cv.clone(), false)));
        lps.push_str(&format!(" (lp {} {} {})", k, sx_vec(&cv), sx_status(&r)));
    }
    let cheb = match catch(AssertUnwindSafe(|| poly.chebyshev_center())) {
        Ok((sys, c)) => {
            let r = catch(AssertUnwindSafe(|| sys.solve_linprog(c.clone(), false)));
            format!("(cheb {} {} {})", sx_poly(&sys), sx_vec(&c), sx_status(&r))
        }
        Err(_) => "(cheb panic)".to_string(),
    };
    out.push_str(&format!(
        "(case {} {} {} (status {}) (feas {}) (lps{}) {})\n",
        id,
        if kind.is_empty() { "plain" } else { kind },
        sx_poly(&poly),
        sx_status(&st),
        feas,
        lps,
        cheb
    ));
}

/// hand-written systems that run first on every check (edge cases and the witnesses of earlier findings)
fn fixed_cases() -> Vec<(&'static str, usize, Vec<Row>, Vec<(String, Vec<f64>)>)> {
    let o = |k: &str, c: &[f64]| (k.to_string(), c.to_vec());
    vec![
        // D14: min -x s.t. x <= 1, y <= 1: the minimum -1 exists, the optimal face {x = 1, y <= 1} is unbounded
        ("fixed-d14-quadrant", 2, vec![(vec![1.0, 0.0], 1.0), (vec![0.0, 1.0], 1.0)], vec![o("facet", &[-1.0, 0.0]), o("axis", &[0.0, -1.0]), o("random", &[1.0, 1.0])]),
        // D14: Chebyshev centre of the slab -1 <= x <= 1 in R^2 (radius 1 exists, centre line unbounded)
        ("fixed-d14-slab", 2, vec![(vec![1.0, 0.0], 1.0), (vec![-1.0, 0.0], 1.0)], vec![o("axis", &[1.0, 0.0]), o("axis", &[0.0, 1.0])]),
        // unit square, all four axis objectives
        ("fixed-square", 2, vec![(vec![1.0, 0.0], 1.0), (vec![-1.0, 0.0], 1.0), (vec![0.0, 1.0], 1.0), (vec![0.0, -1.0], 1.0)],
         vec![o("axis", &[1.0, 0.0]), o("axis", &[0.0, -1.0]), o("random", &[1.0, 1.0]), o("zero", &[0.0, 0.0])]),
        // empty interval, and a single point
        ("fixed-empty", 1, vec![(vec![1.0], 0.0), (vec![-1.0], -1.0)], vec![o("axis", &[1.0])]),
        ("fixed-point", 1, vec![(vec![1.0], 2.0), (vec![-1.0], -2.0)], vec![o("axis", &[1.0]), o("axis", &[-1.0])]),
        // zero rows only: whole space / empty
        ("fixed-zero-pos", 3, vec![(vec![0.0, 0.0, 0.0], 0.5)], vec![o("zero", &[0.0, 0.0, 0.0]), o("axis", &[1.0, 0.0, 0.0])]),
        ("fixed-zero-neg", 2, vec![(vec![0.0, 0.0], -0.5), (vec![1.0, 0.0], 1.0)], vec![o("axis", &[-1.0, 0.0])]),
        // test_polytope_status_unbounded of /repo: truly unbounded objective
        ("fixed-unbounded", 2, vec![(vec![-1.0, 0.0], -1.0), (vec![0.0, -1.0], -1.0)], vec![o("random", &[-1.0, -1.0]), o("random", &[1.0, 1.0])]),
        // triangle with a 3-4-5 row
        ("fixed-triangle", 2, vec![(vec![3.0, 4.0], 12.0), (vec![-1.0, 0.0], 0.0), (vec![0.0, -1.0], 0.0)],
         vec![o("random", &[-1.0, -1.0]), o("facet", &[-3.0, -4.0])]),
        // D15 system
        ("fixed-d15", 2, vec![(vec![1.0, 0.0], 1.0), (vec![1.0, 0.0], 2.0), (vec![0.0, 1.0], 1.0)], vec![o("facet", &[-1.0, 0.0])]),
    ]
}

fn main() {
    silence_panics();
    let argv: Vec<String> = std::env::args().collect();
    let args = &parse_args(&argv[1..]);
    // Rng::new(seed + 1) is Rng::new(seed) advanced by one step (additive state), and the orchestrator hands
    // consecutive seeds to the shards: hash the seed once so that shards are unrelated streams
    let mut r = Rng(Rng::new(args.seed ^ 0xC10).next());
    let mut out = String::new();
    let fixed = fixed_cases();
    for id in 0..args.n {
        let mut cr = r.fork();
        if id < fixed.len() {
            let (k, n, rows, objs) = &fixed[id];
            emit(&mut out, id, k, *n, rows, objs);
        } else if cr.chance(1, 25) {
            // the zero-dimensional space: every row is 0 <= b; the set is the single point () or empty
            let k = 1 + cr.below(3);
            let rows: Vec<Row> = (0..k).map(|_| (vec![], [1.0, 0.0, -0.0, -1.0, 0.5, -0.5][cr.below(6)])).collect();
            emit(&mut out, id, "zerodim", 0, &rows, &[("zero".to_string(), vec![])]);
        } else {
            let s = gen_sys(&mut cr, 14);
            let objs = gen_objectives(&mut cr, &s);
            let _ = &s.inner;
            emit(&mut out, id, &s.kind, s.n, &s.rows, &objs);
        }
        if out.len() > 1 << 20 {
            print!("{}", out);
            out.clear();
        }
    }
    print!("{}", out);
}

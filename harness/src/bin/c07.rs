// C07: tree arithmetic is the point-wise lifting of affine arithmetic. All ownership variants.
#[path = "../common.rs"]
mod common;
use affinitree::linalg::affine::{AffFunc, Polytope};
use affinitree::pwl::afftree::AffTree;
use common::*;
use ndarray::{Array1, Array2};
use std::panic::AssertUnwindSafe;

fn pow2(r: &mut Rng) -> f64 {
    let v = [1.0, 2.0, 0.5, 4.0, -1.0, -2.0, -0.5, -4.0];
    v[r.below(v.len())]
}
/// affine map whose every coefficient is a non-zero power of two (exact divisor)
fn gen_divisor(r: &mut Rng, m: usize, n: usize) -> AffFunc {
    let mut a = Array2::zeros((m, n));
    let mut b = Array1::zeros(m);
    for i in 0..m {
        for j in 0..n {
            a[[i, j]] = pow2(r);
        }
        b[i] = pow2(r);
    }
    AffFunc::from_mats(a, b)
}
fn divisor_tree<const K: usize>(r: &mut Rng, n: usize, m: usize, cfg: TreeCfg) -> AffTree<K> {
    let mut t: AffTree<K> = gen_tree(r, n, m, cfg);
    let idxs: Vec<usize> = t.tree.terminal_indices().collect();
    for i in idxs {
        let f = gen_divisor(r, m, n);
        t.update_node(i, f).unwrap();
    }
    t
}
/// a from_poly chain: decisions with a single terminal (partial, undefined outside the polytope) or with an
/// else-branch; rows drawn so that the polytope is sometimes empty / thin
fn chain_tree(r: &mut Rng, n: usize, m: usize, div: bool) -> AffTree<2> {
    let rows = 1 + r.below(3);
    let mut a = gen_mat(r, rows, n, 4);
    for i in 0..rows {
        if a.row(i).iter().all(|v| *v == 0.0) {
            a[[i, r.below(n)]] = 1.0;
        }
    }
    let poly = Polytope::from_mats(a, gen_vec(r, rows, 6));
    let f = if div { gen_divisor(r, m, n) } else { gen_aff(r, m, n, 6) };
    let g = if r.chance(1, 3) { Some(if div { gen_divisor(r, m, n) } else { gen_aff(r, m, n, 6) }) } else { None };
    AffTree::<2>::from_poly(poly, f, g.as_ref()).unwrap()
}
/// operand: random tree, or a from_poly chain; sometimes with cached feasibility states from an earlier elimination
fn gen_operand<const K: usize>(r: &mut Rng, n: usize, m: usize, cfg: TreeCfg, div: bool) -> AffTree<K> {
    let mut t: AffTree<K> = match r.below(4) {
        // from_poly builds binary trees (the cast is the identity for K = 2 and never taken otherwise)
        0 if K == 2 => *(Box::new(chain_tree(r, n, m, div)) as Box<dyn std::any::Any>).downcast::<AffTree<K>>().unwrap(),
        _ => {
            if div {
                divisor_tree(r, n, m, cfg)
            } else {
                gen_tree(r, n, m, cfg)
            }
        }
    };
    if r.chance(1, 4) {
        let _ = catch(AssertUnwindSafe(|| t.infeasible_elimination()));
    }
    t
}
/// a tree with the nodes of `a` in the same arena slots and under the same parents, children of some decisions under
/// mirrored labels, fresh terminal functions (None when a's arena is not in creation order)
fn relabeled_twin<const K: usize>(r: &mut Rng, a: &AffTree<K>, div: bool) -> Option<AffTree<K>> {
    let n = a.in_dim();
    let idxs: Vec<usize> = a.tree.node_indices().collect();
    if idxs.iter().enumerate().any(|(k, i)| k != *i) || a.tree.get_root_idx() != 0 {
        return None;
    }
    let m = a.terminals().map(|x| x.aff.outdim()).next()?;
    let val = |r: &mut Rng, i: usize| {
        if a.tree.is_leaf(i).unwrap() {
            if div { gen_divisor(r, m, n) } else { gen_aff(r, m, n, 6) }
        } else {
            a.tree.node_value(i).unwrap().aff.clone()
        }
    };
    let mut b = AffTree::<K>::from_aff(val(r, 0));
    let flip: Vec<bool> = (0..idxs.len()).map(|_| r.chance(1, 2)).collect();
    for i in 1..idxs.len() {
        let e = a.tree.parent(i).ok()?;
        let (p, l) = (e.source_idx, e.label);
        if p >= i {
            return None;
        }
        let l2 = if flip[p] { K - 1 - l } else { l };
        let v = val(r, i);
        let got = b.add_child_node(p, l2, v).ok()?;
        if got != i {
            return None;
        }
    }
    Some(b)
}
fn res<const K: usize>(r: Result<AffTree<K>, String>) -> String {
    match r {
        Ok(t) => sx_tree(&t),
        Err(_) => "panic".to_string(),
    }
}
fn binop<const K: usize>(op: &str, a: &AffTree<K>, b: &AffTree<K>) -> Vec<String> {
    let v1 = catch(AssertUnwindSafe(|| match op {
        "add" => a + b,
        "sub" => a - b,
        "mul" => a * b,
        _ => a / b,
    }));
    let v2 = catch(AssertUnwindSafe(|| match op {
        "add" => a + b.clone(),
        "sub" => a - b.clone(),
        "mul" => a * b.clone(),
        _ => a / b.clone(),
    }));
    let v3 = catch(AssertUnwindSafe(|| match op {
        "add" => a.clone() + b,
        "sub" => a.clone() - b,
        "mul" => a.clone() * b,
        _ => a.clone() / b,
    }));
    let v4 = catch(AssertUnwindSafe(|| match op {
        "add" => a.clone() + b.clone(),
        "sub" => a.clone() - b.clone(),
        "mul" => a.clone() * b.clone(),
        _ => a.clone() / b.clone(),
    }));
    vec![res(v1), res(v2), res(v3), res(v4)]
}
fn tf<const K: usize>(op: &str, t: &AffTree<K>, f: &AffFunc) -> Vec<String> {
    let v1 = catch(AssertUnwindSafe(|| match op {
        "add" => t.clone() + f.clone(),
        "sub" => t.clone() - f.clone(),
        "mul" => t.clone() * f.clone(),
        _ => t.clone() / f.clone(),
    }));
    let v2 = catch(AssertUnwindSafe(|| match op {
        "add" => t.clone() + f,
        "sub" => t.clone() - f,
        "mul" => t.clone() * f,
        _ => t.clone() / f,
    }));
    vec![res(v1), res(v2)]
}
fn ft<const K: usize>(op: &str, f: &AffFunc, t: &AffTree<K>) -> Vec<String> {
    let v1 = catch(AssertUnwindSafe(|| match op {
        "add" => f.clone() + t.clone(),
        "sub" => f.clone() - t.clone(),
        "mul" => f.clone() * t.clone(),
        _ => f.clone() / t.clone(),
    }));
    let v2 = catch(AssertUnwindSafe(|| match op {
        "add" => f + t.clone(),
        "sub" => f - t.clone(),
        "mul" => f * t.clone(),
        _ => f / t.clone(),
    }));
    vec![res(v1), res(v2)]
}
fn variants(vs: Vec<String>) -> String {
    let mut s = String::from("(variants");
    for (i, v) in vs.iter().enumerate() {
        if i > 0 && *v == vs[0] {
            s.push_str(" same");
        } else {
            s.push(' ');
            s.push_str(v);
        }
    }
    s.push(')');
    s
}

/// written (and flushed) before the library is called: if the process dies inside the call (take_mut::take in
/// unary_op_inplace aborts on a panic) the parent records the case with the outcome `panic`
fn pre(line: &str) {
    use std::io::Write;
    println!("PRE {}", line);
    std::io::stdout().flush().unwrap();
}
fn one_case<const K: usize>(r: &mut Rng, id: usize, out: &mut String) {
    let n = 1 + r.below(3);
    let m = 1 + r.below(2);
    let cfg = TreeCfg {
        depth: r.below(4),
        partial_pct: if r.chance(1, 2) { 0 } else if K > 2 { 45 } else { 25 },
        early_leaf_pct: 25,
        maxk: 6,
        term_pool: 0,
    };
    // (for K > 2 the right operand is partial more often: decisions with fewer than K children are where pruning,
    // keep-last and forwarding interact)
    let cfg_b = TreeCfg { depth: if K > 2 { 1 + r.below(2) } else { r.below(3) }, partial_pct: if K > 2 { 45 } else { cfg.partial_pct }, ..cfg };
    let ops = ["add", "sub", "mul", "div"];
    let op = ops[r.below(4)];
    let kind = r.below(10);
    let a: AffTree<K> = gen_operand(r, n, m, cfg, false);
    if kind < 6 {
        let bm = if r.chance(1, 15) { m + 1 } else { m };
        let mut b: AffTree<K> = gen_operand(r, n, bm, cfg_b, op == "div");
        // now and then b has the very nodes of a -- same arena slots, same parents, same predicates -- but hangs some
        // children under other labels, and carries its own terminal functions: the partitions differ although the
        // node lists look alike
        if bm == m && r.chance(1, 6) {
            if let Some(t) = relabeled_twin(r, &a, op == "div") {
                b = t;
            }
        }
        pre(&format!("(case {} tt {} {} {} (variants panic) (pts ))", id, op, sx_tree(&a), sx_tree(&b)));
        let vs = binop(op, &a, &b);
        // evaluate() of the first variant on sampled points
        let pts = match catch(AssertUnwindSafe(|| match op {
            "add" => &a + &b,
            "sub" => &a - &b,
            "mul" => &a * &b,
            _ => &a / &b,
        })) {
            Ok(h) => sx_points(r, &h, 5),
            Err(_) => "(pts )".to_string(),
        };
        out.push_str(&format!("(case {} tt {} {} {} {} {})\n", id, op, sx_tree(&a), sx_tree(&b), variants(vs), pts));
        // the half-spaces the library reports for every edge of the left operand (what the pruning tests), any K
        let items = catch(AssertUnwindSafe(|| {
            let mut s = String::new();
            let mut g = a.polyhedra();
            while let Some((data, polys)) = g.next(&a.tree) {
                if let Some(last) = polys.last() {
                    s.push_str(&format!(" (item {} {})", data.index, sx_poly(last)));
                }
            }
            s
        }));
        match items {
            Ok(s) => out.push_str(&format!("(case {}e edges {} (items{}))\n", id, sx_tree(&a), s)),
            Err(_) => out.push_str(&format!("(case {}e edges {} panic)\n", id, sx_tree(&a))),
        }
    } else if kind < 8 {
        let f = if op == "div" { gen_divisor(r, m, n) } else { gen_aff(r, m, n, 6) };
        pre(&format!("(case {} tf {} {} {} (variants panic) (pts ))", id, op, sx_tree(&a), sx_aff(&f)));
        let vs = tf(op, &a, &f);
        out.push_str(&format!("(case {} tf {} {} {} {} (pts ))\n", id, op, sx_tree(&a), sx_aff(&f), variants(vs)));
    } else if kind < 9 {
        let f = gen_aff(r, m, n, 6);
        let a2 = if op == "div" { divisor_tree(r, n, m, cfg) } else { a };
        pre(&format!("(case {} ft {} {} {} (variants panic) (pts ))", id, op, sx_tree(&a2), sx_aff(&f)));
        let vs = ft(op, &f, &a2);
        out.push_str(&format!("(case {} ft {} {} {} {} (pts ))\n", id, op, sx_tree(&a2), sx_aff(&f), variants(vs)));
    } else {
        pre(&format!("(case {} neg neg {} - (variants panic) (pts ))", id, sx_tree(&a)));
        let v = catch(AssertUnwindSafe(|| -a.clone()));
        out.push_str(&format!("(case {} neg neg {} - {} (pts ))\n", id, sx_tree(&a), variants(vec![res(v)])));
    }
}

fn main() {
    silence_panics();
    let argv: Vec<String> = std::env::args().collect();
    let args = &parse_args(&argv[1..]);
    // child mode: one case, in its own process
    if let Some(i) = args.rest.iter().position(|a| a == "--child") {
        let state: u64 = args.rest[i + 1].parse().unwrap();
        let id: usize = args.rest[i + 2].parse().unwrap();
        let mut cr = Rng(state);
        let mut out = String::new();
        // every fifth case is on trees with branching factor 4 (two-row predicates)
        if id % 5 == 4 {
            one_case::<4>(&mut cr, id, &mut out);
        } else {
            one_case::<2>(&mut cr, id, &mut out);
        }
        print!("{}", out);
        return;
    }
    let exe = std::env::current_exe().unwrap();
    let mut r = Rng::new(args.seed ^ 0xC07);
    let mut out = String::new();
    for id in 0..args.n {
        let cr = r.fork();
        let outp = std::process::Command::new(&exe)
            .args(["--child", &cr.0.to_string(), &id.to_string()])
            .stderr(std::process::Stdio::null())
            .output()
            .expect("spawn child");
        let text = String::from_utf8_lossy(&outp.stdout).to_string();
        let mut pre_line: Option<String> = None;
        let mut case_line: Option<String> = None; // all case lines of the child, joined
        for l in text.lines() {
            if let Some(rest) = l.strip_prefix("PRE ") {
                pre_line = Some(rest.to_string());
            } else if l.starts_with("(case ") {
                case_line = Some(match case_line {
                    Some(prev) => format!("{}\n{}", prev, l),
                    None => l.to_string(),
                });
            }
        }
        match (outp.status.success(), case_line, pre_line) {
            (true, Some(c), _) => {
                out.push_str(&c);
                out.push('\n');
            }
            (_, _, Some(p)) => {
                // the process died inside the library call
                out.push_str(&p);
                out.push('\n');
            }
            _ => {}
        }
        if out.len() > 1 << 20 {
            print!("{}", out);
            out.clear();
        }
    }
    print!("{}", out);
}

// C02: composition law. Cases: compose::<false,false> and apply_func on generated trees, K in {2,4}.
#[path = "../common.rs"]
mod common;
use common::*;
use affinitree::pwl::afftree::AffTree;
use affinitree::pwl::impl_composition::{FunctionComposition, NoOpVis};
use affinitree::pwl::node::NodeState;
use ndarray::Array1;
use std::panic::AssertUnwindSafe;

fn sx_eval<const K: usize>(t: &AffTree<K>, x: &Array1<f64>) -> String {
    match catch(AssertUnwindSafe(|| t.evaluate(x))) {
        Ok(Some(v)) => format!("(pt {} (some {}))", sx_vec(x), sx_vec(&v)),
        Ok(None) => format!("(pt {} none)", sx_vec(x)),
        Err(_) => format!("(pt {} panic)", sx_vec(x)),
    }
}

/// points: random lattice points plus points on decision hyperplanes of the tree
pub fn gen_points<const K: usize>(r: &mut Rng, t: &AffTree<K>, count: usize) -> Vec<Array1<f64>> {
    let n = t.in_dim;
    let mut pts = Vec::new();
    for _ in 0..count {
        pts.push(gen_point(r, n));
    }
    // boundary points: for some decision rows, move one coordinate so that a.x = b exactly
    let decs: Vec<usize> = t.tree.decision_indices().collect();
    for _ in 0..count {
        if decs.is_empty() || n == 0 {
            break;
        }
        let d = decs[r.below(decs.len())];
        let aff = &t.tree.node_value(d).unwrap().aff;
        let row = r.below(aff.outdim());
        let a = aff.mat.row(row);
        let b = aff.bias[row];
        let mut x = gen_point(r, n);
        let j = r.below(n);
        if a[j] != 0.0 {
            let rest: f64 = (0..n).filter(|i| *i != j).map(|i| a[i] * x[i]).sum();
            x[j] = (b - rest) / a[j];
            if x[j].is_finite() && (x[j] * 64.0).fract() == 0.0 && a.dot(&x) == b && x[j].abs() < 1e4 {
                pts.push(x);
            }
        }
    }
    pts
}

/// the same tree with its root NOT at arena index 0: Tree::add_root called twice leaves the superseded node behind
/// (unreachable, documented), so the real root gets the next index
fn reroot<const K: usize>(r: &mut Rng, t: &AffTree<K>) -> AffTree<K> {
    use affinitree::pwl::node::AffContent;
    use affinitree::tree::graph::Tree;
    let n = t.in_dim();
    let mut tr: Tree<AffContent, K> = Tree::new();
    tr.add_root(AffContent::new(gen_dec(r, 1, n, 4)));
    let root = tr.add_root(t.tree.get_root().value.clone());
    let mut stack = vec![(t.tree.get_root_idx(), root)];
    while let Some((src, dst)) = stack.pop() {
        let kids: Vec<(usize, usize)> = t.tree.children(src).map(|e| (e.label, e.target_idx)).collect();
        for (label, c) in kids {
            let v = t.tree.node_value(c).unwrap().clone();
            let d = tr.add_child_node(dst, label, v).unwrap();
            stack.push((c, d));
        }
    }
    AffTree::from_tree(tr, n)
}

fn one_case<const K: usize>(r: &mut Rng, id: usize, out: &mut String) {
    // input dimension 0 (a tree over the one-point space: constants only) once in a while
    let n = if r.chance(1, 12) { 0 } else { 1 + r.below(3) };
    let m = 1 + r.below(3);
    let k = 1 + r.below(3);
    let maxd = if K == 2 { 3 } else { 2 };
    let cfg_f = TreeCfg {
        depth: r.below(maxd + 1),
        partial_pct: if r.chance(1, 2) { 0 } else { 25 },
        early_leaf_pct: 25,
        maxk: 6,
        term_pool: 0,
    };
    let cfg_g = TreeCfg { depth: r.below(maxd + 1), ..cfg_f };
    let mut f: AffTree<K> = gen_tree(r, n, m, cfg_f);
    // the un-pruned composition must not look at cached feasibility states: every third left operand carries
    // arbitrary ones (also ones that no elimination would produce)
    if r.chance(1, 3) {
        let idxs: Vec<usize> = f.tree.node_indices().collect();
        for i in idxs {
            let st = match r.below(5) {
                0 => NodeState::Infeasible,
                1 => NodeState::Feasible,
                2 => NodeState::FeasibleWitness(vec![gen_point(r, n)]),
                _ => NodeState::Indeterminate,
            };
            f.tree.node_value_mut(i).unwrap().state = st;
        }
    }
    // every sixth case has coefficients of very different magnitude, arranged so that every product the code forms is
    // exact in f64 (terminals of f: selections with entries +-2^{-30,0,30} and zero bias; g: entries scaled by 2^+-30);
    // evaluate() would round on such trees, so these cases are decided on the trees alone (no sample points)
    let wide = r.chance(1, 6);
    if wide {
        let ts: Vec<usize> = f.tree.terminal_indices().collect();
        for i in ts {
            let sel = gen_aff_selection(r, m, n);
            f.update_node(i, sel).unwrap();
        }
    }
    let kind = r.below(10);
    if kind < 8 {
        // with probability 1/12 a dimension mismatch (malformed stream)
        let gm = if r.chance(1, 12) { m + 1 } else { m };
        // the arena of g is not always in creation order (subtrees removed and regrown: a decision can sit in a
        // slot with a smaller index than its parent)
        let mut g: AffTree<K> = if r.chance(1, 3) { gen_tree_holes(r, gm, k, cfg_g, 3) } else { gen_tree(r, gm, k, cfg_g) };
        // a terminal of g that stores the same matrix and bias as a decision of g (possible when the output dimension
        // equals the number of predicate rows): the two are lifted by different rules
        {
            let root = g.tree.get_root_idx();
            let decs: Vec<usize> = g.tree.decision_indices().filter(|d| *d != root).collect();
            let terms: Vec<usize> = g.tree.terminal_indices().collect();
            if !decs.is_empty() && !terms.is_empty() && r.chance(1, 2) {
                let d = decs[r.below(decs.len())];
                let p = g.tree.node_value(d).unwrap().aff.clone();
                if p.outdim() == k {
                    let t = terms[r.below(terms.len())];
                    g.update_node(t, p).unwrap();
                }
            }
        }
        if wide {
            let ids: Vec<usize> = g.tree.node_indices().collect();
            for i in ids {
                let mut a = g.tree.node_value(i).unwrap().aff.clone();
                widen(r, &mut a);
                g.update_node(i, a).unwrap();
            }
        }
        if r.chance(1, 8) {
            g = reroot(r, &g);
        }
        let g_before = sx_tree(&g);
        let mut h = f.clone();
        // both un-pruned variants: without and with the progress visitor
        let verbose = r.chance(1, 4);
        // one case in five goes through the generic entry point compose() delegates to, with the terminals of f listed in
        // a random order (depth-first, reversed, shuffled): the law does not depend on the order in which they are processed
        let direct = !verbose && r.chance(1, 5);
        let mut order: Vec<usize> = h.tree.terminal_indices().collect();
        if direct {
            match r.below(3) {
                0 => order.reverse(),
                1 => order = h.tree.dfs_iter().map(|d| d.index).filter(|i| h.tree.is_leaf(*i).unwrap_or(false)).collect(),
                _ => {
                    for i in (1..order.len()).rev() {
                        let j = r.below(i + 1);
                        order.swap(i, j);
                    }
                }
            }
        }
        let res = catch(AssertUnwindSafe(|| {
            if direct {
                AffTree::<K>::generic_composition_inplace(&g, &mut h, order.clone(), FunctionComposition {}, NoOpVis {})
            } else if verbose {
                h.compose::<false, true>(&g)
            } else {
                h.compose::<false, false>(&g)
            }
        }));
        let g_after = sx_tree(&g);
        let (oc, dump, pts) = match res {
            Ok(()) => {
                let pts = if wide { Vec::new() } else { gen_points(r, &h, 6) };
                let ps: Vec<String> = pts.iter().map(|x| sx_eval(&h, x)).collect();
                ("ok", sx_tree(&h), ps.join(" "))
            }
            Err(_) => ("panic", "-".to_string(), String::new()),
        };
        out.push_str(&format!(
            "(case {} compose {} {} {} {} {} {} (pts {}) (order {}))\n",
            id,
            K,
            sx_tree(&f),
            g_before,
            g_after,
            oc,
            dump,
            pts,
            // the list of terminals of the receiver in the order in which they were handed to the generic entry point
            // (compose: terminal_indices(), ascending); the runner replays the arena-level model with this list
            order.iter().map(|i| i.to_string()).collect::<Vec<String>>().join(" ")
        ));
    } else {
        let am = if r.chance(1, 12) { m + 1 } else { m };
        let mut a = gen_aff(r, k, am, 6);
        if wide {
            widen(r, &mut a);
        }
        let mut h = f.clone();
        let res = catch(AssertUnwindSafe(|| h.apply_func(&a)));
        let (oc, dump, pts) = match res {
            Ok(()) => {
                let pts = if wide { Vec::new() } else { gen_points(r, &h, 6) };
                let ps: Vec<String> = pts.iter().map(|x| sx_eval(&h, x)).collect();
                ("ok", sx_tree(&h), ps.join(" "))
            }
            Err(_) => ("panic", "-".to_string(), String::new()),
        };
        out.push_str(&format!(
            "(case {} apply_func {} {} {} {} {} (pts {}))\n",
            id,
            K,
            sx_tree(&f),
            sx_aff(&a),
            oc,
            dump,
            pts
        ));
    }
}

fn main() {
    silence_panics();
    let argv: Vec<String> = std::env::args().collect();
    let args = &parse_args(&argv[1..]);
    let mut r = Rng::new(args.seed ^ 0xC02);
    let mut out = String::new();
    for id in 0..args.n {
        let mut cr = r.fork();
        if id % 4 == 3 {
            one_case::<4>(&mut cr, id, &mut out);
        } else {
            one_case::<2>(&mut cr, id, &mut out);
        }
        if out.len() > 1 << 20 {
            print!("{}", out);
            out.clear();
        }
    }
    print!("{}", out);
}

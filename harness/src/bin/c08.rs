// C08: reduce preserves the function and only merges identical terminal siblings.
#[path = "../common.rs"]
mod common;
use affinitree::pwl::afftree::AffTree;
use common::*;
use std::panic::AssertUnwindSafe;

fn one_case(r: &mut Rng, id: usize, out: &mut String) {
    let n = 1 + r.below(3);
    let m = 1 + r.below(2);
    let cfg = TreeCfg {
        depth: 1 + r.below(4),
        partial_pct: if r.chance(2, 3) { 0 } else { 15 },
        early_leaf_pct: 20,
        maxk: 4,
        term_pool: 1 + r.below(3),
    };
    let mut t: AffTree<2> = if r.chance(1, 2) { gen_tree(r, n, m, cfg) } else { gen_tree_holes(r, n, m, cfg, 2) };
    // siblings differing only in bias or in one coefficient; negative zero against zero
    let terms: Vec<usize> = t.tree.terminal_indices().collect();
    for i in terms {
        if r.chance(1, 6) {
            let mut f = t.tree.node_value(i).unwrap().aff.clone();
            match r.below(3) {
                0 => f.bias[0] += 0.5,
                1 => {
                    if n > 0 {
                        f.mat[[0, r.below(n)]] += 0.25
                    }
                }
                _ => {
                    for v in f.bias.iter_mut() {
                        if *v == 0.0 {
                            *v = -0.0
                        }
                    }
                }
            }
            t.update_node(i, f).unwrap();
        }
    }
    let before = sx_tree(&t);
    let mut h = t.clone();
    let res = catch(AssertUnwindSafe(|| h.reduce()));
    let (oc, after, again, pts) = match res {
        Ok(()) => {
            let after = sx_tree(&h);
            let mut h2 = h.clone();
            let again = match catch(AssertUnwindSafe(|| h2.reduce())) {
                Ok(()) => sx_tree(&h2),
                Err(_) => "panic".to_string(),
            };
            let pts = sx_points(r, &h, 5);
            ("ok", after, again, pts)
        }
        Err(_) => ("panic", "-".to_string(), "-".to_string(), "(pts )".to_string()),
    };
    out.push_str(&format!("(case {} reduce {} {} {} {} {})\n", id, before, oc, after, again, pts));
}

fn main() {
    silence_panics();
    let argv: Vec<String> = std::env::args().collect();
    let args = &parse_args(&argv[1..]);
    let mut r = Rng::new(args.seed ^ 0xC08);
    let mut out = String::new();
    for id in 0..args.n {
        let mut cr = r.fork();
        one_case(&mut cr, id, &mut out);
    }
    print!("{}", out);
}

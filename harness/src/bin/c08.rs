// C08: reduce preserves the function and only merges identical terminal siblings.
#[path = "../common.rs"]
mod common;
use affinitree::linalg::affine::AffFunc;
use affinitree::pwl::afftree::AffTree;
use common::*;
use affinitree::pwl::node::NodeState;
use ndarray::{Array2, ShapeBuilder};
use std::panic::AssertUnwindSafe;

/// the same matrix in column-major (Fortran) memory layout
fn f_order(a: &Array2<f64>) -> Array2<f64> {
    let mut b = Array2::<f64>::zeros((a.nrows(), a.ncols()).f());
    b.assign(a);
    b
}
/// the matrix whose column-major memory equals the row-major memory of `a` (the transpose, for square a)
fn same_buffer_other_layout(a: &Array2<f64>) -> Array2<f64> {
    let data: Vec<f64> = a.iter().cloned().collect();
    Array2::from_shape_vec((a.nrows(), a.ncols()).f(), data).unwrap()
}

fn one_case(r: &mut Rng, id: usize, out: &mut String) {
    let n = 1 + r.below(3);
    let m = 1 + r.below(2);
    let cfg = TreeCfg {
        depth: 1 + r.below(4),
        partial_pct: if r.chance(2, 3) { 0 } else { 15 },
        early_leaf_pct: 20,
        maxk: 4,
        term_pool: 1 + r.below(3),
    };
    let mut t: AffTree<2> = if r.chance(1, 2) { gen_tree(r, n, m, cfg) } else { gen_tree_holes(r, n, m, cfg, 2) };
    // siblings differing only in bias or in one coefficient; negative zero against zero
    let terms: Vec<usize> = t.tree.terminal_indices().collect();
    for i in terms {
        if r.chance(1, 6) {
            let mut f = t.tree.node_value(i).unwrap().aff.clone();
            match r.below(3) {
                0 => f.bias[0] += 0.5,
                1 => {
                    if n > 0 {
                        f.mat[[0, r.below(n)]] += 0.25
                    }
                }
                _ => {
                    for v in f.bias.iter_mut() {
                        if *v == 0.0 {
                            *v = -0.0
                        }
                    }
                }
            }
            t.update_node(i, f).unwrap();
        }
    }
    // memory layout must not matter: equal functions stored row-major / column-major are equal siblings, different
    // functions that merely share their buffer contents are not
    let decs: Vec<usize> = t.tree.decision_indices().collect();
    for d in decs.iter().cloned() {
        let kids: Vec<(usize, usize)> = t.tree.children(d).map(|e| (e.label, e.target_idx)).collect();
        if kids.len() != 2 || !kids.iter().all(|(_, c)| t.tree.is_leaf(*c).unwrap()) {
            continue;
        }
        match r.below(8) {
            0 => {
                // same function, other layout
                let f = t.tree.node_value(kids[0].1).unwrap().aff.clone();
                let g = AffFunc::from_mats(f_order(&f.mat), f.bias.clone());
                t.update_node(kids[0].1, f).unwrap();
                t.update_node(kids[1].1, g).unwrap();
            }
            1 if m >= 2 && n >= 2 => {
                // different functions, same buffer contents
                let f = t.tree.node_value(kids[0].1).unwrap().aff.clone();
                let g = AffFunc::from_mats(same_buffer_other_layout(&f.mat), f.bias.clone());
                t.update_node(kids[0].1, f).unwrap();
                t.update_node(kids[1].1, g).unwrap();
            }
            _ => {}
        }
    }
    // a terminal whose function coincides with the predicate of its sibling DECISION must not be merged with it
    if m == 1 {
        for d in decs.iter().cloned() {
            let kids: Vec<(usize, usize)> = t.tree.children(d).map(|e| (e.label, e.target_idx)).collect();
            if kids.len() != 2 || !r.chance(1, 3) {
                continue;
            }
            let l0 = t.tree.is_leaf(kids[0].1).unwrap();
            let l1 = t.tree.is_leaf(kids[1].1).unwrap();
            if l0 != l1 {
                let (term, dec) = if l0 { (kids[0].1, kids[1].1) } else { (kids[1].1, kids[0].1) };
                let p = t.tree.node_value(dec).unwrap().aff.clone();
                if p.outdim() == 1 {
                    t.update_node(term, p).unwrap();
                }
            }
        }
    }
    // reduce compares the FUNCTIONS of sibling terminals, whatever their cached feasibility states are: some trees went
    // through an elimination first, some carry arbitrary states (different witnesses on equal siblings)
    match r.below(6) {
        0 => {
            let _ = catch(AssertUnwindSafe(|| t.infeasible_elimination()));
        }
        1 | 2 => {
            let idxs: Vec<usize> = t.tree.node_indices().collect();
            for i in idxs {
                let st = match r.below(4) {
                    0 => NodeState::Feasible,
                    1 => NodeState::FeasibleWitness(vec![gen_point(r, n)]),
                    2 => NodeState::FeasibleWitness(vec![gen_point(r, n), gen_point(r, n)]),
                    _ => NodeState::Indeterminate,
                };
                t.tree.node_value_mut(i).unwrap().state = st;
            }
        }
        _ => {}
    }
    let before = sx_tree(&t);
    let mut h = t.clone();
    let res = catch(AssertUnwindSafe(|| h.reduce()));
    let (oc, after, again, pts) = match res {
        Ok(()) => {
            let after = sx_tree(&h);
            let mut h2 = h.clone();
            let again = match catch(AssertUnwindSafe(|| h2.reduce())) {
                Ok(()) => sx_tree(&h2),
                Err(_) => "panic".to_string(),
            };
            let pts = sx_points(r, &h, 5);
            ("ok", after, again, pts)
        }
        Err(_) => ("panic", "-".to_string(), "-".to_string(), "(pts )".to_string()),
    };
    out.push_str(&format!("(case {} reduce {} {} {} {} {})\n", id, before, oc, after, again, pts));
}

fn main() {
    silence_panics();
    let argv: Vec<String> = std::env::args().collect();
    let args = &parse_args(&argv[1..]);
    let mut r = Rng::new(args.seed ^ 0xC08);
    let mut out = String::new();
    for id in 0..args.n {
        let mut cr = r.fork();
        guard(id, &mut out, |out| one_case(&mut cr, id, out));
    }
    print!("{}", out);
}

// C04: every operation history keeps a tree well-formed and usable.
// Random histories from every constructor; every step under catch_unwind with a full dump afterwards; after the
// last step one further compatible operation of every kind is attempted; a separate malformed stream applies one
// dimension-incompatible operation.  The LP hook log is recorded for the pruning steps (statistics / mirror replay).
#[path = "../common.rs"]
mod common;
use affinitree::distill::schema;
use affinitree::linalg::affine::{AffFunc, Polytope};
use affinitree::linalg::polyhedron::PolytopeStatus;
use affinitree::linalg::verif_hook::{self, Event};
use affinitree::pwl::afftree::AffTree;
use common::*;
use ndarray::{Array1, Array2};
use std::collections::HashMap;
use std::panic::AssertUnwindSafe;

#[derive(Clone, Copy, PartialEq)]
enum Bop {
    Add,
    Sub,
    Mul,
    Div,
}
impl Bop {
    fn name(self) -> &'static str {
        match self {
            Bop::Add => "add",
            Bop::Sub => "sub",
            Bop::Mul => "mul",
            Bop::Div => "div",
        }
    }
}
#[derive(Clone)]
enum Op {
    Apply(AffFunc),
    Compose(bool, AffTree<2>),
    Elim,
    Reduce,
    TreeOp(Bop, AffTree<2>),
    Neg,
    AffR(Bop, AffFunc),
    AffL(Bop, AffFunc),
}

fn sx_op(op: &Op) -> String {
    match op {
        Op::Apply(a) => format!("(apply {})", sx_aff(a)),
        Op::Compose(p, g) => format!("(compose {} {})", if *p { 1 } else { 0 }, sx_tree(g)),
        Op::Elim => "(elim)".to_string(),
        Op::Reduce => "(reduce)".to_string(),
        Op::TreeOp(b, g) => format!("(treeop {} {})", b.name(), sx_tree(g)),
        Op::Neg => "(neg)".to_string(),
        Op::AffR(b, g) => format!("(affr {} {})", b.name(), sx_aff(g)),
        Op::AffL(b, g) => format!("(affl {} {})", b.name(), sx_aff(g)),
    }
}
fn uses_lp(op: &Op) -> bool {
    matches!(op, Op::Elim | Op::Compose(true, _) | Op::TreeOp(_, _))
}

/// performs the operation exactly as a user of the library would
fn apply_op(mut t: AffTree<2>, op: &Op) -> AffTree<2> {
    match op {
        Op::Apply(a) => {
            t.apply_func(a);
            t
        }
        // every third tree size goes through the variant with the progress visitor (same result, other code path)
        Op::Compose(true, g) => {
            if t.len() % 3 == 0 {
                t.compose::<true, true>(g);
            } else {
                t.compose::<true, false>(g);
            }
            t
        }
        Op::Compose(false, g) => {
            if t.len() % 3 == 0 {
                t.compose::<false, true>(g);
            } else {
                t.compose::<false, false>(g);
            }
            t
        }
        Op::Elim => {
            t.infeasible_elimination();
            t
        }
        Op::Reduce => {
            t.reduce();
            t
        }
        Op::TreeOp(b, g) => match b {
            Bop::Add => t + g,
            Bop::Sub => t - g,
            Bop::Mul => t * g,
            Bop::Div => t / g,
        },
        Op::Neg => -t,
        Op::AffR(b, g) => match b {
            Bop::Add => t + g,
            Bop::Sub => t - g,
            Bop::Mul => t * g,
            Bop::Div => t / g,
        },
        Op::AffL(b, g) => match b {
            Bop::Add => g + t,
            Bop::Sub => g - t,
            Bop::Mul => g * t,
            Bop::Div => g / t,
        },
    }
}

fn sx_status(s: &PolytopeStatus) -> String {
    match s {
        PolytopeStatus::Infeasible => "infeasible".to_string(),
        PolytopeStatus::Unbounded => "unbounded".to_string(),
        PolytopeStatus::Optimal(w) => format!("(optimal {})", sx_vec(w)),
        PolytopeStatus::Error(_) => "error".to_string(),
    }
}
fn sx_log(log: &[Event]) -> String {
    let mut s = String::from("(log");
    for e in log {
        match e {
            Event::Lp { poly, coeffs: _, status, fault: _ } => {
                s.push_str(&format!(" (lp {} {})", sx_poly(poly), sx_status(status)));
            }
            Event::Mirror { poly: _, points: _, n_iterations: _, result } => {
                let r = match result {
                    None => "none".to_string(),
                    Some((m, it)) => format!("(some {} {})", sx_mat(&m.t().to_owned()), it),
                };
                s.push_str(&format!(" (mir {})", r));
            }
        }
    }
    s.push(')');
    s
}

/// (input dimension, output dimension of the terminal with the smallest arena index)
fn dims(t: &AffTree<2>) -> (usize, usize) {
    let m = t.terminals().map(|x| x.aff.outdim()).next().unwrap_or(0);
    (t.in_dim, m)
}
/// (largest magnitude, smallest non-zero magnitude) over all coefficients of the tree
fn magnitudes(t: &AffTree<2>) -> (f64, f64) {
    let mut hi: f64 = 0.0;
    let mut lo: f64 = f64::INFINITY;
    for nd in t.nodes() {
        for v in nd.aff.mat.iter().chain(nd.aff.bias.iter()) {
            let a = v.abs();
            if a > hi {
                hi = a;
            }
            if a != 0.0 && a < lo {
                lo = a;
            }
        }
    }
    (hi, lo)
}
/// every coefficient is a short dyadic number k / 2^12 with |k| <= 2^24: the arithmetic of one more step is exact
fn exact_range(t: &AffTree<2>) -> bool {
    t.nodes().all(|nd| {
        nd.aff.mat.iter().chain(nd.aff.bias.iter()).all(|v| v.abs() <= 4096.0 && (v * 4096.0).fract() == 0.0)
    })
}
fn safe_range(t: &AffTree<2>) -> bool {
    let (hi, lo) = magnitudes(t);
    hi <= 1e60 && lo >= 1e-60 && hi.is_finite()
}

fn pow2(r: &mut Rng) -> f64 {
    let v = [1.0, 2.0, 0.5, 4.0, -1.0, -2.0, -0.5, -4.0];
    v[r.below(v.len())]
}
/// affine map whose every coefficient is a non-zero power of two (exact divisor)
fn gen_divisor(r: &mut Rng, m: usize, n: usize) -> AffFunc {
    let mut a = Array2::zeros((m, n));
    let mut b = Array1::zeros(m);
    for i in 0..m {
        for j in 0..n {
            a[[i, j]] = pow2(r);
        }
        b[i] = pow2(r);
    }
    AffFunc::from_mats(a, b)
}
fn gen_polytope(r: &mut Rng, n: usize) -> Polytope {
    let rows = 1 + r.below(3);
    let mut a = gen_dec(r, rows, n, 3);
    if rows >= 2 && r.chance(1, 3) {
        // opposite pair: a slab, a hyperplane or an empty set (the from_poly case of D11)
        for j in 0..n {
            a.mat[[1, j]] = -a.mat[[0, j]];
        }
        a.bias[1] = -a.bias[0] + [0.0, 1.0, -1.0, -2.0][r.below(4)];
    }
    Polytope::from_mats(a.mat, a.bias)
}

/// random operand tree on R^n with m outputs (partial half of the time); with `like`, some predicates are
/// (perturbed) copies of predicates of that tree, so that paths of the result contradict each other
fn gen_operand(r: &mut Rng, n: usize, m: usize, like: Option<&AffTree<2>>, divisor: bool) -> AffTree<2> {
    let cfg = TreeCfg {
        depth: r.below(3),
        partial_pct: if r.chance(1, 2) { 0 } else { 30 },
        early_leaf_pct: 25,
        maxk: 3,
        term_pool: if r.chance(1, 3) { 2 } else { 0 },
    };
    let mut g: AffTree<2> = if r.chance(1, 4) { gen_tree_holes(r, n, m, cfg, 2) } else { gen_tree(r, n, m, cfg) };
    if let Some(cur) = like {
        let src: Vec<usize> = cur.tree.decision_indices().collect();
        if !src.is_empty() && cur.in_dim == n {
            let decs: Vec<usize> = g.tree.decision_indices().collect();
            for d in decs {
                if r.chance(1, 2) {
                    let mut f = cur.tree.node_value(src[r.below(src.len())]).unwrap().aff.clone();
                    if f.outdim() != 1 || f.indim() != n {
                        continue;
                    }
                    match r.below(3) {
                        0 => {}
                        1 => f = -f,
                        _ => f.bias[0] += (r.range(-2, 2) as f64) / 2.0,
                    }
                    g.update_node(d, f).unwrap();
                }
            }
        }
    }
    if divisor {
        let idxs: Vec<usize> = g.tree.terminal_indices().collect();
        for i in idxs {
            let f = gen_divisor(r, m, n);
            g.update_node(i, f).unwrap();
        }
    }
    g
}

/// every constructor of the library; returns (name, tree, uses inexact constants)
fn gen_init(r: &mut Rng, which: usize) -> (String, AffTree<2>, bool) {
    let n = [1, 1, 2, 2, 2, 3][r.below(6)];
    let row = r.below(n);
    match which % 14 {
        0 => ("new".to_string(), AffTree::<2>::new(n), false),
        1 => {
            let m = 1 + r.below(3);
            ("from_aff".to_string(), AffTree::<2>::from_aff(gen_aff(r, m, n, 3)), false)
        }
        2 | 3 => {
            let m = 1 + r.below(2);
            let p = gen_polytope(r, n);
            let f = gen_aff(r, m, n, 3);
            if which % 14 == 2 {
                ("from_poly".to_string(), AffTree::<2>::from_poly(p, f, None).unwrap(), false)
            } else {
                let g = gen_aff(r, m, n, 3);
                ("from_poly_else".to_string(), AffTree::<2>::from_poly(p, f, Some(&g)).unwrap(), false)
            }
        }
        4 => {
            let mut refp = Array1::from_elem(n, f64::NAN);
            for i in 0..n {
                if r.chance(1, 3) {
                    refp[i] = (r.range(-4, 4) as f64) / 2.0;
                }
            }
            ("from_slice".to_string(), AffTree::<2>::from_slice(&refp), false)
        }
        5 => ("partial_ReLU".to_string(), schema::partial_ReLU(n, row), false),
        6 => ("partial_leaky_ReLU".to_string(), schema::partial_leaky_ReLU(n, row, 0.25), false),
        7 => ("partial_hard_tanh".to_string(), schema::partial_hard_tanh(n, row, -1.0, 0.5), false),
        8 => ("partial_hard_shrink".to_string(), schema::partial_hard_shrink(n, row, 0.5), false),
        9 => ("partial_hard_sigmoid".to_string(), schema::partial_hard_sigmoid(n, row), true),
        10 => ("partial_threshold".to_string(), schema::partial_threshold(n, row, 0.5, -1.0), false),
        11 => {
            let d = n.max(2);
            ("argmax".to_string(), schema::argmax(d), false)
        }
        12 => {
            let d = n.max(2);
            ("class_characterization".to_string(), schema::class_characterization(d, r.below(d)), false)
        }
        _ => {
            let (lo, hi) = match r.below(3) {
                0 => (Some(-1.0), Some(1.0)),
                1 => (Some(-0.5), None),
                _ => (None, Some(2.0)),
            };
            ("inf_norm".to_string(), schema::inf_norm(n, lo, hi), false)
        }
    }
}

/// a predefined tree or other tree on R^m to compose with; returns (tree, exact?)
fn gen_compose_arg(r: &mut Rng, m: usize, cur: &AffTree<2>, small: bool) -> (AffTree<2>, bool) {
    let row = r.below(m);
    if small {
        let k = 1 + r.below(3);
        return (AffTree::<2>::from_aff(gen_aff(r, k, m, 2)), true);
    }
    match r.below(16) {
        0 | 1 | 2 => (schema::partial_ReLU(m, row), true),
        3 => (schema::partial_leaky_ReLU(m, row, 0.5), true),
        4 => (schema::partial_hard_tanh(m, row, -1.0, 1.0), true),
        5 => (schema::partial_hard_shrink(m, row, 0.5), true),
        6 => (schema::partial_hard_sigmoid(m, row), false),
        7 => (schema::partial_threshold(m, row, 0.5, 0.25), true),
        8 if m >= 2 => (schema::argmax(m), true),
        9 if m >= 2 => (schema::class_characterization(m, row), true),
        10 => (schema::inf_norm(m, Some(-1.0), Some(1.0)), true),
        11 | 12 => {
            // a precondition: partial when there is no else-branch
            let k = 1 + r.below(2);
            let p = gen_polytope(r, m);
            let f = gen_aff(r, k, m, 2);
            if r.chance(1, 2) {
                (AffTree::<2>::from_poly(p, f, None).unwrap(), true)
            } else {
                let g = gen_aff(r, k, m, 2);
                (AffTree::<2>::from_poly(p, f, Some(&g)).unwrap(), true)
            }
        }
        13 => {
            let k = 1 + r.below(3);
            (AffTree::<2>::from_aff(gen_aff(r, k, m, 2)), true)
        }
        _ => {
            let k = 1 + r.below(2);
            (gen_operand(r, m, k, if cur.in_dim == m { Some(cur) } else { None }, false), true)
        }
    }
}

const KINDS: usize = 8;
/// a dimension-compatible operation of the given kind for the tree `cur`; (op, exact arithmetic expected)
fn gen_op(r: &mut Rng, cur: &AffTree<2>, kind: usize, small: bool) -> (Op, bool) {
    let (n, m) = dims(cur);
    let bop = |r: &mut Rng| -> Bop {
        match r.below(10) {
            0..=3 => Bop::Add,
            4..=7 => Bop::Sub,
            8 => Bop::Mul,
            _ => Bop::Div,
        }
    };
    match kind {
        0 => {
            let k = 1 + r.below(3);
            (Op::Apply(gen_aff(r, k, m, 2)), true)
        }
        1 => {
            let (g, ex) = gen_compose_arg(r, m, cur, small);
            (Op::Compose(r.chance(3, 5), g), ex)
        }
        2 => (Op::Elim, true),
        3 => (Op::Reduce, true),
        4 => {
            let b = bop(r);
            let g = if small {
                let f = if b == Bop::Div { gen_divisor(r, m, n) } else { gen_aff(r, m, n, 2) };
                AffTree::<2>::from_aff(f)
            } else {
                gen_operand(r, n, m, Some(cur), b == Bop::Div)
            };
            (Op::TreeOp(b, g), true)
        }
        5 => (Op::Neg, true),
        6 => {
            let b = bop(r);
            let g = if b == Bop::Div { gen_divisor(r, m, n) } else { gen_aff(r, m, n, 2) };
            (Op::AffR(b, g), true)
        }
        _ => {
            // g / tree would need a tree without zero coefficients: the affine-on-the-left forms use + - *
            let b = match bop(r) {
                Bop::Div => Bop::Sub,
                x => x,
            };
            (Op::AffL(b, gen_aff(r, m, n, 2)), true)
        }
    }
}
fn pick_kind(r: &mut Rng) -> usize {
    // apply 12, compose 30, elim 13, reduce 8, treeop 14, neg 5, affr 9, affl 9
    let x = r.below(100);
    match x {
        0..=11 => 0,
        12..=41 => 1,
        42..=54 => 2,
        55..=62 => 3,
        63..=76 => 4,
        77..=81 => 5,
        82..=90 => 6,
        _ => 7,
    }
}

/// the tree is in a state on which the library can still be driven safely (the runner flags the dump of the
/// first state that is not; the history stops there so that a later operation cannot abort the process)
fn sane(t: &AffTree<2>) -> bool {
    let (n, m) = dims(t);
    t.tree.node_iter().all(|(_, nd)| {
        let kids = nd.children.iter().filter(|c| c.is_some()).count();
        let a = &nd.value.aff;
        a.indim() == n
            && a.mat.shape()[0] == a.bias.len()
            && if nd.isleaf { kids == 0 && a.outdim() == m } else { kids > 0 && a.outdim() == 1 }
    })
}

fn emit(tag: &str, text: &str) {
    use std::io::Write;
    let so = std::io::stdout();
    let mut l = so.lock();
    writeln!(l, "{} {}", tag, text).unwrap();
    l.flush().unwrap();
}

/// runs one operation on a clone under catch_unwind; prints `B <op>` before and `E <record>` after, so that the
/// parent process can tell which operation was running if the process dies (take_mut aborts on a panic)
fn run_step(r: &mut Rng, cur: &AffTree<2>, op: &Op, exact: bool, tag: &str, with_pts: bool) -> Option<AffTree<2>> {
    let pre_exact = exact && exact_range(cur);
    let input = cur.clone();
    let lp = uses_lp(op);
    emit("B", &format!("({} {} abort {} \"process aborted\" (log) (pts ))", tag, sx_op(op), if pre_exact { 1 } else { 0 }));
    if lp {
        verif_hook::start(HashMap::new());
    }
    let res = catch(AssertUnwindSafe(|| apply_op(input, op)));
    let log = if lp { verif_hook::stop() } else { Vec::new() };
    match res {
        Ok(t) => {
            let pts = if with_pts { sx_points(r, &t, 3) } else { "(pts )".to_string() };
            emit(
                "E",
                &format!("({} {} ok {} {} {} {})", tag, sx_op(op), if pre_exact { 1 } else { 0 }, sx_tree(&t), sx_log(&log), pts),
            );
            Some(t)
        }
        Err(msg) => {
            emit(
                "E",
                &format!("({} {} panic {} \"{}\" {} (pts ))", tag, sx_op(op), if pre_exact { 1 } else { 0 }, msg.replace('\\', "/"), sx_log(&log)),
            );
            None
        }
    }
}

fn history(r: &mut Rng, id: usize, max_len: usize, size_cap: usize) {
    let (name, init, _) = gen_init(r, id);
    let mut cur = init;
    let len = 1 + r.below(max_len);
    emit("H", &format!("(case {} hist (ctor {}) {} {}", id, name, sx_tree(&cur), sx_points(r, &cur, 3)));
    let mut alive = sane(&cur);
    for _ in 0..len {
        if !alive || !safe_range(&cur) {
            break;
        }
        let small = cur.len() > size_cap;
        let kind = pick_kind(r);
        let (op, ex) = gen_op(r, &cur, kind, small);
        match run_step(r, &cur, &op, ex, "step", true) {
            Some(t) => {
                cur = t;
                alive = sane(&cur);
            }
            None => alive = false,
        }
    }
    emit("P", "");
    if alive && safe_range(&cur) {
        // one further compatible operation of every kind (compose: both pruning modes)
        for kind in 0..KINDS {
            let small = cur.len() > size_cap;
            let (op, ex) = gen_op(r, &cur, kind, small);
            let ops: Vec<Op> = match &op {
                Op::Compose(_, g) => vec![Op::Compose(false, g.clone()), Op::Compose(true, g.clone())],
                _ => vec![op.clone()],
            };
            for o in ops {
                run_step(r, &cur, &o, ex, "probe", false);
            }
        }
    }
    emit("Z", "");
}

/// fixed scenarios: the two shapes of D11 (a decision that loses all children)
fn scenario(id: usize) {
    let mut r = Rng::new(0xD11 + id as u64);
    // {x <= 0, -x <= -1} is empty: from_poly without else-branch is a chain of single-child decisions
    let p = Polytope::from_mats(ndarray::arr2(&[[1.0], [-1.0]]), ndarray::arr1(&[0.0, -1.0]));
    let f = AffFunc::from_mats(ndarray::arr2(&[[1.0], [2.0]]), ndarray::arr1(&[0.0, 1.0]));
    let t = AffTree::<2>::from_poly(p.clone(), f.clone(), None).unwrap();
    let ops: Vec<Op> = if id == 0 {
        vec![Op::Elim, Op::Apply(gen_aff(&mut r, 1, 2, 2)), Op::Elim, Op::Reduce]
    } else {
        // pruned composition with a partial right operand below a non-root terminal
        let g = AffTree::<2>::from_poly(
            Polytope::from_mats(ndarray::arr2(&[[1.0, 0.0], [-1.0, 0.0]]), ndarray::arr1(&[0.0, -1.0])),
            AffFunc::identity(2),
            None,
        )
        .unwrap();
        vec![Op::Compose(true, g.clone()), Op::Elim, Op::Compose(true, g), Op::Neg]
    };
    let mut cur = t;
    emit("H", &format!("(case {} hist (ctor from_poly) {} {}", id, sx_tree(&cur), sx_points(&mut r, &cur, 3)));
    for op in ops {
        if !sane(&cur) {
            break;
        }
        match run_step(&mut r, &cur, &op, true, "step", true) {
            Some(t) => cur = t,
            None => break,
        }
    }
    emit("P", "");
    emit("Z", "");
}

/// one dimension-incompatible operation on a tree produced by a short history
fn malformed(r: &mut Rng, id: usize) {
    let which = r.below(14);
    let (_, init, _) = gen_init(r, which);
    let mut cur = init;
    for _ in 0..r.below(4) {
        let kind = pick_kind(r);
        let small = cur.len() > 30;
        let (op, _) = gen_op(r, &cur, kind, small);
        match catch(AssertUnwindSafe(|| apply_op(cur.clone(), &op))) {
            Ok(t) => cur = t,
            Err(_) => break,
        }
        if !safe_range(&cur) || !sane(&cur) {
            emit("Z", "");
            return;
        }
    }
    let (n, m) = dims(&cur);
    let other = |r: &mut Rng, d: usize| -> usize {
        loop {
            let k = 1 + r.below(4);
            if k != d {
                return k;
            }
        }
    };
    let op = match r.below(6) {
        0 => {
            let k = 1 + r.below(2);
            let d = other(r, m);
            Op::Apply(gen_aff(r, k, d, 2))
        }
        1 => {
            let k = other(r, m);
            let row = r.below(k);
            let mo = 1 + r.below(2);
            let g = if r.chance(1, 2) { schema::partial_ReLU(k, row) } else { gen_operand(r, k, mo, None, false) };
            Op::Compose(r.chance(1, 2), g)
        }
        2 => {
            let (n2, m2) = if r.chance(1, 2) { (other(r, n), m) } else { (n, other(r, m)) };
            Op::TreeOp(if r.chance(1, 2) { Bop::Add } else { Bop::Sub }, gen_operand(r, n2, m2, None, false))
        }
        3 => {
            let (n2, m2) = if r.chance(1, 2) { (other(r, n), m) } else { (n, other(r, m)) };
            Op::AffR(if r.chance(1, 2) { Bop::Add } else { Bop::Sub }, gen_aff(r, m2, n2, 2))
        }
        4 => {
            let (n2, m2) = if r.chance(1, 2) { (other(r, n), m) } else { (n, other(r, m)) };
            Op::AffL(if r.chance(1, 2) { Bop::Add } else { Bop::Sub }, gen_aff(r, m2, n2, 2))
        }
        _ => {
            let d = other(r, m);
            Op::Apply(gen_aff(r, 2, d, 2))
        }
    };
    emit("H", &format!("(case {} bad {} {}", id, sx_tree(&cur), sx_op(&op)));
    emit("B", "abort -");
    let res = catch(AssertUnwindSafe(|| apply_op(cur.clone(), &op)));
    match res {
        Ok(t) => emit("E", &format!("ok {}", sx_tree(&t))),
        Err(_) => emit("E", "panic -"),
    }
    emit("Z", "");
}

fn child(state: u64, id: usize, thorough: bool) {
    let max_len = if thorough { 40 } else { 12 };
    let size_cap = if thorough { 60 } else { 40 };
    let mut cr = Rng(state);
    if id < 2 {
        scenario(id);
    } else if id % 6 == 5 {
        malformed(&mut cr, id);
    } else {
        history(&mut cr, id, max_len, size_cap);
    }
}

/// assembles the case line from the child's protocol lines; an operation that was begun (B) but never finished (E)
/// means the process died inside the library call: it is recorded with the outcome `abort`
fn assemble(stdout: &str) -> Option<String> {
    let mut head: Option<String> = None;
    let mut steps: Vec<String> = Vec::new();
    let mut probes: Vec<String> = Vec::new();
    let mut in_probes = false;
    let mut pending: Option<String> = None;
    for l in stdout.lines() {
        if l.len() < 2 {
            continue;
        }
        let (tag, rest) = (&l[..1], l[1..].trim_start());
        match tag {
            "H" => head = Some(rest.to_string()),
            "B" => pending = Some(rest.to_string()),
            "E" => {
                pending = None;
                if in_probes {
                    probes.push(rest.to_string())
                } else {
                    steps.push(rest.to_string())
                }
            }
            "P" => in_probes = true,
            _ => {}
        }
    }
    if let Some(p) = pending {
        if in_probes {
            probes.push(p)
        } else {
            steps.push(p)
        }
    }
    let head = head?;
    if head.contains(" bad ") && !head.contains(" hist ") {
        let oc = steps.first().cloned().unwrap_or("abort -".to_string());
        Some(format!("{} {})", head, oc))
    } else {
        Some(format!("{} (steps {}) (probes {}))", head, steps.join(" "), probes.join(" ")))
    }
}

fn main() {
    silence_panics();
    let argv: Vec<String> = std::env::args().collect();
    let args = &parse_args(&argv[1..]);
    let thorough = args.tier == "thorough";
    if let Some(i) = args.rest.iter().position(|a| a == "--child") {
        let state: u64 = args.rest[i + 1].parse().unwrap();
        let id: usize = args.rest[i + 2].parse().unwrap();
        child(state, id, thorough);
        return;
    }
    // every case runs in its own process: a panic inside take_mut::take (unary_op_inplace) aborts the process
    let exe = std::env::current_exe().unwrap();
    let mut r = Rng::new(args.seed ^ 0xC04);
    for id in 0..args.n {
        let cr = r.fork();
        let outp = std::process::Command::new(&exe)
            .args(["--child", &cr.0.to_string(), &id.to_string(), "--tier", &args.tier])
            .output()
            .expect("cannot spawn the case process");
        let so = String::from_utf8_lossy(&outp.stdout);
        if let Some(line) = assemble(&so) {
            println!("{}", line);
        }
    }
}

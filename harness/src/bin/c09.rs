// C09: reported regions agree with evaluation; generator stream under skip scripts; find_terminal; path_to_node.
#[path = "../common.rs"]
mod common;
use affinitree::linalg::affine::{AffFunc, Polytope};
use affinitree::pwl::afftree::AffTree;
use affinitree::pwl::iter::PolyhedraGen;
use common::*;
use affinitree::pwl::node::NodeState;
use std::panic::AssertUnwindSafe;

fn sx_polys(ps: &[Polytope]) -> String {
    let v: Vec<String> = ps.iter().map(sx_poly).collect();
    format!("({})", v.join(" "))
}

/// the tree of one case (both case kinds draw it the same way): (tree, input dimension, wide magnitudes?)
fn gen_case_tree(r: &mut Rng) -> (AffTree<2>, usize, bool) {
    let n = 1 + r.below(3);
    let m = 1 + r.below(2);
    let cfg = TreeCfg {
        depth: r.below(5),
        partial_pct: if r.chance(1, 2) { 0 } else { 20 },
        early_leaf_pct: 20,
        maxk: 5,
        term_pool: 0,
    };
    let mut t: AffTree<2> = if r.chance(1, 3) { gen_tree(r, n, m, cfg) } else { gen_tree_holes(r, n, m, cfg, 3) };
    // one tree in six has predicates with coefficients of very different magnitude (2^-60 beside ordinary ones, or a
    // whole row scaled by 2^-60): the half-spaces reported for a path are the stored predicates, however small
    let wide = r.chance(1, 6);
    if wide {
        let decs: Vec<usize> = t.tree.decision_indices().collect();
        for d in decs {
            if r.chance(1, 2) {
                let mut p = t.tree.node_value(d).unwrap().aff.clone();
                if r.chance(1, 2) {
                    let j = r.below(n);
                    p.mat[[0, j]] = if r.chance(1, 2) { 2f64.powi(-60) } else { -(2f64.powi(-60)) };
                } else {
                    for j in 0..n {
                        p.mat[[0, j]] *= 2f64.powi(-60);
                    }
                    p.bias[0] *= 2f64.powi(-60);
                }
                t.update_node(d, p).unwrap();
            }
        }
    }
    // the traversal is a function of the links alone: cached feasibility states (here arbitrary ones, also Infeasible
    // on inner nodes, as an earlier elimination leaves on a last remaining child) must not change what it yields
    if r.chance(1, 3) {
        let idxs: Vec<usize> = t.tree.node_indices().collect();
        for i in idxs {
            let st = match r.below(5) {
                0 | 1 => NodeState::Infeasible,
                2 => NodeState::Feasible,
                3 => NodeState::FeasibleWitness(vec![gen_point(r, n)]),
                _ => NodeState::Indeterminate,
            };
            t.tree.node_value_mut(i).unwrap().state = st;
        }
    }
    (t, n, wide)
}

fn one_case(r: &mut Rng, id: usize, out: &mut String) {
    let (t, _n, wide) = gen_case_tree(r);
    let size = t.len();
    // script of Next / Skip commands; repeated skips with small probability
    let len = size + 2 + r.below(size + 1);
    let skip_pct = [0u32, 10, 25, 40][r.below(4)];
    let mut script: Vec<bool> = Vec::new(); // true = Next
    for _ in 0..len {
        script.push(!r.chance(skip_pct, 100));
    }
    let mut items = String::from("(stream");
    let res = catch(AssertUnwindSafe(|| {
        let mut s = String::new();
        let mut g = t.polyhedra();
        for c in &script {
            if *c {
                match g.next(&t.tree) {
                    Some((data, polys)) => {
                        s.push_str(&format!(" (item {} {} {} {})", data.depth, data.index, data.n_remaining, sx_polys(polys)));
                    }
                    None => s.push_str(" end"),
                }
            } else {
                g.skip_subtree();
                s.push_str(" skip");
            }
        }
        s
    }));
    match res {
        Ok(s) => items.push_str(&s),
        Err(_) => items.push_str(" panic"),
    }
    items.push(')');
    // the Iterator wrapper without skips
    let mut it_s = String::from("(iter");
    match catch(AssertUnwindSafe(|| {
        let mut s = String::new();
        for (d, i, nr, polys) in t.polyhedra_iter() {
            s.push_str(&format!(" (item {} {} {} {})", d, i, nr, sx_polys(&polys)));
        }
        s
    })) {
        Ok(s) => it_s.push_str(&s),
        Err(_) => it_s.push_str(" panic"),
    }
    it_s.push(')');
    // find_terminal on lattice and hyperplane points
    let mut ft = String::from("(find");
    // (not on the wide-magnitude trees: there the f64 dot product of find_terminal rounds, and routing next to a
    // hyperplane legitimately differs from exact arithmetic; those trees are decided on the reported half-spaces)
    let pts = if wide { Vec::new() } else { gen_points_for(r, &t, 6) };
    for x in pts {
        let res = catch(AssertUnwindSafe(|| {
            t.find_terminal(t.tree.get_root(), &x).map(|(nd, labels)| {
                let idx = t.tree.node_iter().find(|(_, c)| std::ptr::eq(*c, nd)).map(|(i, _)| i).unwrap();
                (idx, labels)
            })
        }));
        match res {
            Ok(Some((idx, labels))) => {
                let ls: Vec<String> = labels.iter().map(|l| l.to_string()).collect();
                ft.push_str(&format!(" (ft {} {} ({}))", sx_vec(&x), idx, ls.join(" ")));
            }
            Ok(None) => ft.push_str(&format!(" (ft {} none ())", sx_vec(&x))),
            Err(_) => ft.push_str(&format!(" (ft {} panic ())", sx_vec(&x))),
        }
    }
    ft.push(')');
    // path_to_node for every node
    let mut pn = String::from("(paths");
    for i in t.tree.node_indices() {
        match t.tree.path_to_node(i) {
            Ok(p) => {
                let ps: Vec<String> = p.iter().map(|(a, l)| format!("({} {})", a, l)).collect();
                pn.push_str(&format!(" (path {} ({}))", i, ps.join(" ")));
            }
            Err(_) => pn.push_str(&format!(" (path {} err)", i)),
        }
    }
    pn.push(')');
    let sc: Vec<&str> = script.iter().map(|c| if *c { "N" } else { "S" }).collect();
    out.push_str(&format!("(case {} regions {} (script {}) {} {} {} {})\n", id, sx_tree(&t), sc.join(" "), items, it_s, ft, pn));
}

/// Second case kind: the caller rewrites the tree between two next() calls of one traversal (PolyhedraGen does not
/// borrow the tree; AffTree::remove_axes and infeasible_elimination do exactly this).  Some Next commands that reported
/// a decision are followed by update_node on that very node; the half-spaces reported for its children must then be
/// those of the NEW predicate (the parent's predicate is read when the child is reported).
/// (case id regions_upd TREE-before-the-run (script N | S | (U idx AFF) ...) (stream ...))
fn one_case_upd(r: &mut Rng, id: usize, out: &mut String) {
    let (mut t, n, _wide) = gen_case_tree(r);
    let before = sx_tree(&t);
    let size = t.len();
    let len = size + 2 + r.below(size + 1);
    let skip_pct = [0u32, 10, 25][r.below(3)];
    let upd_pct = [30u32, 60, 100][r.below(3)];
    // the random choices are drawn before the run, so that a panic inside the library cannot shift them
    let plan: Vec<(bool, bool, usize, AffFunc)> =
        (0..len).map(|_| (!r.chance(skip_pct, 100), r.chance(upd_pct, 100), r.below(3), gen_dec(r, 1, n, 5))).collect();
    // the script is recorded outside the guarded run: after a panic it names the commands issued so far
    let mut script: Vec<String> = Vec::new();
    let mut items = String::from("(stream");
    let res = catch(AssertUnwindSafe(|| {
        let mut s = String::new();
        let mut g = t.polyhedra();
        for (is_next, do_upd, how, fresh) in &plan {
            if *is_next {
                script.push("N".to_string());
                let reported = match g.next(&t.tree) {
                    Some((data, polys)) => {
                        s.push_str(&format!(" (item {} {} {} {})", data.depth, data.index, data.n_remaining, sx_polys(polys)));
                        Some(data.index)
                    }
                    None => {
                        s.push_str(" end");
                        None
                    }
                };
                if let Some(idx) = reported {
                    if *do_upd && t.tree.num_children(idx) > 0 {
                        let old = t.tree.node_value(idx).unwrap().aff.clone();
                        let p = match *how {
                            0 => {
                                let mut p = old.clone();
                                p.bias[0] += 1.0;
                                p
                            }
                            1 => {
                                let mut p = old.clone();
                                p.mat.mapv_inplace(|v| 2.0 * v);
                                p.bias.mapv_inplace(|v| 2.0 * v);
                                p
                            }
                            _ => fresh.clone(),
                        };
                        script.push(format!("(U {} {})", idx, sx_aff(&p)));
                        t.update_node(idx, p).unwrap();
                    }
                }
            } else {
                script.push("S".to_string());
                g.skip_subtree();
                s.push_str(" skip");
            }
        }
        s
    }));
    match res {
        Ok(s) => items.push_str(&s),
        Err(_) => items.push_str(" panic"),
    }
    items.push(')');
    out.push_str(&format!("(case {} regions_upd {} (script {}) {})\n", id, before, script.join(" "), items));
}

/// Third case kind: the traversal is started at an inner node, `PolyhedraGen::with_root(&tree, r)` with r != root
/// (decision or terminal, also off the left-most child chain, also deep).  The first next() pushes the half-spaces of
/// the edge that enters r, depth counts from r, so the predicate stack holds depth+1 polytopes; the pop count
/// 1 + last_depth - depth must still fit.  Ids of this kind are 1_000_000 + i and the randomness comes from a separate
/// stream, so the cases of the other kinds are what they were before this kind was added.
/// (case id regions_sub TREE r (script N | S ...) (stream ...))
fn one_case_sub(r: &mut Rng, id: usize, out: &mut String) {
    // a tree with at least one non-root node
    // (four cases in five ask for at least five nodes, so that the start node usually has a branching subtree)
    let want = if r.chance(1, 5) { 2 } else { 5 };
    let mut drawn = gen_case_tree(r);
    let mut tries = 0;
    while drawn.0.len() < want && tries < 50 {
        drawn = gen_case_tree(r);
        tries += 1;
    }
    let (t, _n, _wide) = drawn;
    let root = t.tree.get_root_idx();
    let others: Vec<usize> = t.tree.node_indices().filter(|i| *i != root).collect();
    // two cases in three start at a non-root decision that has two children (if there is one)
    let forks: Vec<usize> = others.iter().copied().filter(|i| t.tree.num_children(*i) >= 2).collect();
    let start = if others.is_empty() {
        root
    } else if !forks.is_empty() && r.chance(2, 3) {
        forks[r.below(forks.len())]
    } else {
        others[r.below(others.len())]
    };
    // size of the subtree of the start node (walked over the child links, not through the library's iterators)
    let mut sub = 0usize;
    let mut todo = vec![start];
    while let Some(i) = todo.pop() {
        sub += 1;
        if let Ok(nd) = t.tree.tree_node(i) {
            for (_, c) in nd.children_iter() {
                todo.push(c);
            }
        }
    }
    let len = sub + 2 + r.below(sub + 1);
    let skip_pct = [0u32, 0, 10, 25, 40][r.below(5)];
    let mut script: Vec<bool> = Vec::new(); // true = Next
    for _ in 0..len {
        script.push(!r.chance(skip_pct, 100));
    }
    let mut items = String::from("(stream");
    let res = catch(AssertUnwindSafe(|| {
        let mut s = String::new();
        let mut g = PolyhedraGen::with_root(&t.tree, start);
        for c in &script {
            if *c {
                match g.next(&t.tree) {
                    Some((data, polys)) => {
                        s.push_str(&format!(" (item {} {} {} {})", data.depth, data.index, data.n_remaining, sx_polys(polys)));
                    }
                    None => s.push_str(" end"),
                }
            } else {
                g.skip_subtree();
                s.push_str(" skip");
            }
        }
        s
    }));
    match res {
        Ok(s) => items.push_str(&s),
        Err(_) => items.push_str(" panic"),
    }
    items.push(')');
    let sc: Vec<&str> = script.iter().map(|c| if *c { "N" } else { "S" }).collect();
    out.push_str(&format!("(case {} regions_sub {} {} (script {}) {})\n", id, sx_tree(&t), start, sc.join(" "), items));
}

fn main() {
    silence_panics();
    let argv: Vec<String> = std::env::args().collect();
    let args = &parse_args(&argv[1..]);
    let mut r = Rng::new(args.seed ^ 0xC09);
    // separate stream for the sub-tree kind (ids 1_000_000 + i, one per five ordinary ids)
    let mut rs = Rng::new(args.seed ^ 0xC09_5B);
    let mut out = String::new();
    for id in 0..args.n {
        let mut cr = r.fork();
        if id % 5 == 4 {
            guard(id, &mut out, |out| one_case_upd(&mut cr, id, out));
        } else {
            guard(id, &mut out, |out| one_case(&mut cr, id, out));
        }
        if id % 5 == 2 {
            let mut cs = rs.fork();
            let sid = 1_000_000 + id;
            guard(sid, &mut out, |out| one_case_sub(&mut cs, sid, out));
        }
    }
    print!("{}", out);
}

// C15: constraint clean-up (affine.rs: remove_rows, remove_zero_rows, normalize, remove_tautologies,
// remove_duplicate_rows; polyhedron.rs: remove_redundant_row_constraints). Every clean-up is run on each generated
// system through the public API and its result dumped exactly; the runner decides set equality (certified two-way
// inclusion), the subsequence clause and irredundancy by a margin.
// Line format:
//   (case ID KIND (aff n A b) (taut RES) (dup RES) (red RES) (norm RES) (zero RES) (rmrows (i ..) RES))
//   RES = (ok (aff n A' b')) | err | panic
#[path = "../common.rs"]
mod common;
use affinitree::linalg::affine::Polytope;
use common::*;
use ndarray::{Array1, Array2};
use std::panic::AssertUnwindSafe;

type Row = (Vec<f64>, f64);

fn poly_of(n: usize, rows: &[Row]) -> Polytope {
    let mut a = Array2::<f64>::zeros((rows.len(), n));
    let mut b = Array1::<f64>::zeros(rows.len());
    for (i, (r, v)) in rows.iter().enumerate() {
        for j in 0..n {
            a[[i, j]] = r[j];
        }
        b[i] = *v;
    }
    // about one system in four (with at least two rows and two columns) is stored column-major: same logical content
    if rows.len() >= 2 && n >= 2 && (rows.len() * 7 + n * 3 + (rows[0].1.abs() * 2.0) as usize) % 4 == 0 {
        a = to_f_order(&a);
    }
    Polytope::from_mats(a, b)
}
fn dotv(a: &[f64], x: &[f64]) -> f64 {
    a.iter().zip(x).map(|(p, q)| p * q).sum()
}
fn gen_row(r: &mut Rng, n: usize, maxk: i64) -> Vec<f64> {
    loop {
        let v: Vec<f64> = (0..n)
            .map(|_| if r.chance(1, 4) { 0.0 } else { r.range(-maxk, maxk) as f64 })
            .collect();
        if v.iter().any(|x| *x != 0.0) {
            return v;
        }
    }
}
fn half(r: &mut Rng, lo: i64, hi: i64) -> f64 {
    r.range(lo, hi) as f64 / 2.0
}
fn maxabs(v: &[f64]) -> f64 {
    v.iter().fold(0.0f64, |m, x| m.max(x.abs()))
}
fn is_zero(v: &[f64]) -> bool {
    v.iter().all(|x| *x == 0.0)
}
/// the Euclidean norm of the row is an integer (then normalisation of proportional copies is bit-identical)
fn int_norm(v: &[f64]) -> bool {
    let s: f64 = v.iter().map(|x| x * x).sum();
    let q = s.sqrt();
    q.fract() == 0.0 && q * q == s
}
fn shuffle<T>(r: &mut Rng, v: &mut Vec<T>) {
    for i in (1..v.len()).rev() {
        let j = r.below(i + 1);
        v.swap(i, j);
    }
}
fn pyth_row(r: &mut Rng, n: usize) -> Vec<f64> {
    let base: Vec<Vec<i64>> = match n {
        1 => vec![vec![1], vec![2], vec![3]],
        2 => vec![vec![1, 0], vec![3, 4], vec![4, 3], vec![0, 2], vec![0, 1]],
        _ => vec![vec![1, 0, 0], vec![0, 3, 4], vec![1, 2, 2], vec![2, 1, 2], vec![2, 2, 1], vec![0, 0, 2], vec![2, 3, 6]],
    };
    let mut v: Vec<f64> = base[r.below(base.len())].iter().map(|x| *x as f64).collect();
    for i in (1..n).rev() {
        let j = r.below(i + 1);
        v.swap(i, j);
    }
    for x in v.iter_mut() {
        if r.chance(1, 2) {
            *x = -*x;
        }
    }
    v
}

fn gen_sys(r: &mut Rng) -> (String, usize, Vec<Row>) {
    let n = [1usize, 2, 2, 2, 3, 3][r.below(6)];
    let maxrows = 10usize;
    let mut rows: Vec<Row> = vec![];
    let mut kind = String::new();
    let p: Vec<f64> = (0..n).map(|_| r.range(-6, 6) as f64 / 2.0).collect();
    let pyth = r.chance(1, 3);
    let mkrow = |r: &mut Rng| if pyth { pyth_row(r, n) } else { gen_row(r, n, 8) };
    match r.below(9) {
        0 | 1 => {
            kind.push_str("bounded");
            for j in 0..n {
                let mut e = vec![0.0; n];
                e[j] = 1.0;
                rows.push((e.clone(), p[j] + half(r, 0, 6)));
                e[j] = -1.0;
                rows.push((e, -p[j] + half(r, 0, 6)));
            }
            for _ in 0..r.below(3) {
                let a = mkrow(r);
                rows.push((a.clone(), dotv(&a, &p) + half(r, 0, 8)));
            }
        }
        2 | 3 => {
            kind.push_str("cuts");
            for _ in 0..(1 + r.below(2 * n + 1)) {
                let a = mkrow(r);
                rows.push((a.clone(), dotv(&a, &p) + half(r, 0, 8)));
            }
        }
        4 => {
            // unbounded with axis rows: the D15 shape (an unbounded optimal face for many sub-programs)
            kind.push_str("axes");
            for j in 0..n {
                if r.chance(2, 3) {
                    let mut e = vec![0.0; n];
                    e[j] = if r.chance(1, 2) { 1.0 } else { -1.0 };
                    let b = half(r, -4, 4);
                    rows.push((e.clone(), b));
                    if r.chance(1, 2) {
                        rows.push((e, b + half(r, 1, 4)));
                    }
                }
            }
            if rows.is_empty() {
                let mut e = vec![0.0; n];
                e[0] = 1.0;
                rows.push((e, 1.0));
            }
        }
        5 => {
            kind.push_str("random");
            for _ in 0..(1 + r.below(2 * n + 2)) {
                let a = mkrow(r);
                rows.push((a, half(r, -8, 8)));
            }
        }
        8 => {
            // zero rows only, biases of mixed sign: the whole space if every bias is >= 0, else the empty set
            // (at least one negative bias here; the all-non-negative case is kind tautonly)
            kind.push_str("zeroonly");
            let m = 2 + r.below(3);
            let neg = r.below(m);
            for i in 0..m {
                let b = if i == neg { -[0.5, 1.0, 2.0][r.below(3)] } else { [-1.0, 0.0, -0.0, 0.5, 1.0, 2.0][r.below(6)] };
                rows.push((vec![0.0; n], b));
            }
            return (kind, n, rows);
        }
        6 => {
            // tautologies only (zero rows with non-negative bias)
            kind.push_str("tautonly");
            for _ in 0..(1 + r.below(3)) {
                rows.push((vec![0.0; n], [0.0, 0.5, 1.0, 2.0][r.below(4)]));
            }
            let mut rs = rows.clone();
            shuffle(r, &mut rs);
            return (kind, n, rs);
        }
        _ => {
            kind.push_str("slab");
            for _ in 0..(1 + r.below(n)) {
                let a = mkrow(r);
                let v = dotv(&a, &p);
                rows.push((a.clone(), v + half(r, 0, 6)));
                rows.push((a.iter().map(|x| -x).collect(), -v + half(r, 0, 6)));
            }
        }
    }
    let nfeat = r.below(5);
    for _ in 0..nfeat {
        if rows.len() + 2 > maxrows {
            break;
        }
        let pick = if rows.is_empty() { None } else { Some(rows[r.below(rows.len())].clone()) };
        match r.below(12) {
            0 => {
                if let Some((a, b)) = pick {
                    kind.push_str("+copy");
                    rows.push((a, b));
                }
            }
            1 | 2 => {
                // positively scaled duplicate: powers of two for every row, 3 and 3/2 only for rows of integer norm
                if let Some((a, b)) = pick {
                    let ks: &[f64] = if int_norm(&a) && !is_zero(&a) { &[2.0, 0.5, 4.0, 3.0, 1.5] } else { &[2.0, 0.5, 4.0] };
                    let k = ks[r.below(ks.len())];
                    let sa: Vec<f64> = a.iter().map(|x| x * k).collect();
                    if maxabs(&sa) <= 32.0 {
                        kind.push_str("+scaled");
                        rows.push((sa, b * k));
                    }
                }
            }
            3 => {
                // negatively scaled copy: NOT a duplicate (the opposite half-space)
                if let Some((a, b)) = pick {
                    let k = [1.0, 2.0][r.below(2)];
                    kind.push_str("+neg");
                    rows.push((a.iter().map(|x| -x * k).collect(), -b * k));
                }
            }
            4 => {
                // parallel row, other bias
                if let Some((a, b)) = pick {
                    kind.push_str("+par");
                    let d = half(r, 1, 6);
                    rows.push((a, if r.chance(1, 2) { b + d } else { b - d }));
                }
            }
            5 => {
                // near miss: one coefficient off by one
                if let Some((mut a, b)) = pick {
                    kind.push_str("+near");
                    let j = r.below(n);
                    a[j] += if r.chance(1, 2) { 1.0 } else { -1.0 };
                    rows.push((a, b));
                }
            }
            6 => {
                let b = [1.5, 0.0, -0.5, -0.0, 2.0, 0.0][r.below(6)];
                kind.push_str(if b > 0.0 { "+zpos" } else if b == 0.0 { "+zzero" } else { "+zneg" });
                rows.push((vec![0.0; n], b));
            }
            7 => {
                kind.push_str("+eq");
                let a = mkrow(r);
                let v = dotv(&a, &p);
                rows.push((a.clone(), v));
                rows.push((a.iter().map(|x| -x).collect(), -v));
            }
            8 => {
                if rows.len() >= 2 {
                    let (a1, b1) = rows[r.below(rows.len())].clone();
                    let (a2, b2) = rows[r.below(rows.len())].clone();
                    let s: Vec<f64> = a1.iter().zip(&a2).map(|(x, y)| x + y).collect();
                    if maxabs(&s) <= 16.0 {
                        kind.push_str("+sum");
                        rows.push((s, b1 + b2 + half(r, 0, 4)));
                    }
                }
            }
            9 => {
                kind.push_str("+empty");
                let a = mkrow(r);
                let v = dotv(&a, &p);
                rows.push((a.clone(), v));
                rows.push((a.iter().map(|x| -x).collect(), -v - [0.5, 1.0, 3.0][r.below(3)]));
            }
            10 => {
                // a row whose only non-zero coefficient is small (2^-10): still a real constraint, not a tautology
                kind.push_str("+tiny");
                let mut a = vec![0.0; n];
                let j = r.below(n);
                a[j] = if r.chance(1, 2) { 1.0 / 1024.0 } else { -1.0 / 1024.0 };
                rows.push((a.clone(), dotv(&a, &p) + half(r, 0, 2) / 1024.0));
            }
            _ => {
                kind.push_str("+cut");
                let a = mkrow(r);
                rows.push((a.clone(), dotv(&a, &p) + half(r, -3, 8)));
            }
        }
    }
    if rows.is_empty() {
        rows.push((vec![0.0; n], 1.0));
    }
    rows.truncate(maxrows);
    shuffle(r, &mut rows);
    (kind, n, rows)
}

fn res_poly<F: FnOnce() -> Polytope>(f: F) -> String {
    match catch(AssertUnwindSafe(f)) {
        Ok(p) => format!("(ok {})", sx_poly(&p)),
        Err(_) => "panic".to_string(),
    }
}

fn emit(out: &mut String, r: &mut Rng, id: usize, kind: &str, n: usize, rows: &[Row]) {
    let poly = poly_of(n, rows);
    let taut = res_poly(|| poly.remove_tautologies());
    let dup = res_poly(|| poly.remove_duplicate_rows());
    let red = match catch(AssertUnwindSafe(|| poly.remove_redundant_row_constraints())) {
        Ok(Ok(p)) => format!("(ok {})", sx_poly(&p)),
        Ok(Err(_)) => "err".to_string(),
        Err(_) => "panic".to_string(),
    };
    let norm = res_poly(|| poly.clone().normalize());
    let zero = res_poly(|| poly.remove_zero_rows());
    // remove_rows: mostly a valid ascending index list, sometimes malformed (descending, repeated, out of range)
    let m = rows.len();
    let mut idx: Vec<usize> = (0..m).filter(|_| r.chance(1, 3)).collect();
    if r.chance(1, 7) {
        match r.below(3) {
            0 => idx.push(m + r.below(2)),
            1 => {
                if idx.len() >= 2 {
                    idx.reverse()
                } else {
                    idx = vec![m.saturating_sub(1), 0]
                }
            }
            _ => {
                if let Some(f) = idx.first().cloned() {
                    idx.insert(0, f)
                } else {
                    idx = vec![0, 0]
                }
            }
        }
    }
    let idx2 = idx.clone();
    let rm = res_poly(|| poly.remove_rows(idx2));
    let idxs: Vec<String> = idx.iter().map(|i| i.to_string()).collect();
    out.push_str(&format!(
        "(case {} {} {} (taut {}) (dup {}) (red {}) (norm {}) (zero {}) (rmrows ({}) {}))\n",
        id,
        if kind.is_empty() { "plain" } else { kind },
        sx_poly(&poly),
        taut,
        dup,
        red,
        norm,
        zero,
        idxs.join(" "),
        rm
    ));
}

/// hand-written systems that run first on every check
fn fixed_cases() -> Vec<(&'static str, usize, Vec<Row>)> {
    vec![
        // D15: x <= 2 is implied by x <= 1; the sub-programs have an unbounded optimal face
        ("fixed-d15", 2, vec![(vec![1.0, 0.0], 1.0), (vec![1.0, 0.0], 2.0), (vec![0.0, 1.0], 1.0)]),
        // test_remove_duplicate_rows_scaled of /repo
        ("fixed-scaled", 3, vec![(vec![1.0, 0.0, -1.0], 2.0), (vec![-8.0, 2.0, 0.0], 10.0), (vec![1.5, 0.0, -1.5], 3.0), (vec![-4.0, 1.0, 0.0], 5.0)]),
        // negatively scaled copy and parallel row with another bias must survive remove_duplicate_rows
        ("fixed-neg-par", 2, vec![(vec![1.0, 2.0], 2.0), (vec![-1.0, -2.0], -2.0), (vec![1.0, 2.0], 3.0), (vec![2.0, 4.0], 4.0)]),
        // tautologies only: the canonical whole-space polytope 0 <= 1 comes back
        ("fixed-tautonly", 2, vec![(vec![0.0, 0.0], 2.0), (vec![0.0, 0.0], 0.0)]),
        // a zero row with negative bias: canonical empty polytope
        ("fixed-zneg", 2, vec![(vec![1.0, 0.0], 2.0), (vec![0.0, 0.0], -2.0), (vec![0.0, 1.0], 5.0)]),
        // zero rows of every sign together with real rows
        ("fixed-zeros", 2, vec![(vec![0.0, 0.0], 0.0), (vec![1.0, 0.0], 1.0), (vec![0.0, 0.0], 1.5), (vec![-1.0, 0.0], 1.0), (vec![0.0, 1.0], 1.0), (vec![0.0, -1.0], 1.0)]),
        // empty by a gap, three rows (a sub-system is already empty)
        ("fixed-empty3", 1, vec![(vec![1.0], 0.0), (vec![-1.0], -1.0), (vec![1.0], 2.0)]),
        // test_remove_redundant_row_constraints_redundant_in_point of /repo
        ("fixed-redundant-in-point", 2, vec![(vec![1.0, -3.0], 5.0), (vec![-4.0, 1.0], 10.0), (vec![-1.0, 1.0], 6.0), (vec![2.0, 3.0], 28.0), (vec![7.0, 1.0], 60.0), (vec![-2.0, -1.0], -6.0), (vec![0.8, -1.2], 1.6)]),
    ]
}

fn main() {
    silence_panics();
    let argv: Vec<String> = std::env::args().collect();
    let args = &parse_args(&argv[1..]);
    // (the seed is hashed once: Rng::new(seed + 1) is Rng::new(seed) advanced by one step)
    let mut r = Rng(Rng::new(args.seed ^ 0xC15).next());
    let mut out = String::new();
    let fixed = fixed_cases();
    for id in 0..args.n {
        let mut cr = r.fork();
        if id < fixed.len() {
            let (k, n, rows) = &fixed[id];
            emit(&mut out, &mut cr, id, k, *n, rows);
        } else {
            let (kind, n, rows) = gen_sys(&mut cr);
            emit(&mut out, &mut cr, id, &kind, n, &rows);
        }
        if out.len() > 1 << 20 {
            print!("{}", out);
            out.clear();
        }
    }
    print!("{}", out);
}

// C19: text and DOT renderings. Cases:
//   (case id func  <opts|display> <prec> (aff n M b) "text")   AffFunc  display_with(opts) / Display
//   (case id poly  <opts|display> <prec> (aff n M b) "text")   Polytope display_with(opts) / Display
//   (case id tree  <prec> (tree ...) "Display text" "Dot text") AffTree<2> Display and Dot, arenas with holes
// opts = (opts sort szero staut norm (lo hi) (lo hi)) with bounds (i N) | (e N) | u ; prec = d | 0 | 1 | 3
#[path = "../common.rs"]
mod common;
use affinitree::linalg::affine::{AffFunc, Polytope};
use affinitree::linalg::impl_affineformat::FormatOptions;
use affinitree::pwl::afftree::AffTree;
use affinitree::pwl::dot::Dot;
use common::*;
use ndarray::{Array1, Array2};
use std::fmt::Display;
use std::ops::Bound;
use std::panic::AssertUnwindSafe;

const TIES: [f64; 12] = [0.125, 0.375, 2.5, 0.5, 1.5, 0.25, 0.75, 0.0625, 0.005, 0.015, 0.025, 3.5];
const DECIMALS: [f64; 14] = [
    0.1, 0.3, 0.7, 1e-3, 0.045, 0.995, 9.995, 99.5, 999999.995, 123456.789, 0.0049, 0.0051, 0.05, 1e6,
];

fn sign(v: f64, r: &mut Rng) -> f64 {
    if r.chance(1, 2) {
        -v
    } else {
        v
    }
}

/// one number: zeros of both signs, small integers, dyadic fractions 1e-3..1e6, rounding ties, decimal literals
fn gen_num(r: &mut Rng, pool: &[f64]) -> f64 {
    match r.below(16) {
        0 => 0.0,
        1 => -0.0,
        2 | 3 => sign(r.range(1, 9) as f64, r),
        4 | 5 | 6 => {
            let k = r.range(1, 4095) as f64;
            let j = r.below(13) as i32;
            sign(k / (1u64 << j) as f64, r)
        }
        7 | 8 => sign(TIES[r.below(TIES.len())], r),
        9 => {
            // large magnitudes with a fraction
            let k = r.range(1, 1 << 20) as f64;
            let j = r.below(4) as i32;
            sign(k + (r.below(8) as f64) / (1u64 << (j + 1)) as f64, r)
        }
        10 => sign(DECIMALS[r.below(DECIMALS.len())], r),
        11 => sign(1.0 / 1024.0 * (1 + r.below(3)) as f64, r),
        _ => sign(pool[r.below(pool.len())], r),
    }
}

fn gen_bias(r: &mut Rng, pool: &[f64]) -> f64 {
    match r.below(6) {
        0 => 0.0,
        1 => -0.0,
        _ => gen_num(r, pool),
    }
}

/// rows: general, all-zero (mixed zero signs), equal magnitudes (for the unstable sort), sparse
fn gen_matrix(r: &mut Rng, m: usize, n: usize) -> (Array2<f64>, Array1<f64>) {
    let mut a = Array2::zeros((m, n));
    let mut b = Array1::zeros(m);
    for i in 0..m {
        let pool: Vec<f64> = (0..2).map(|_| gen_num(r, &[1.0, 0.5])).map(|v: f64| v.abs()).collect();
        let mode = r.below(9);
        // mode 8: a zero prefix of random length (1 .. n-1, or exactly the 5 / 20 columns the default options print)
        // followed by a non-zero tail: "is this row all zero" must look at every column, also the hidden ones
        let prefix = if n >= 2 { [1 + r.below(n - 1), 5.min(n - 1), 20.min(n - 1)][r.below(3)] } else { 0 };
        for j in 0..n {
            a[[i, j]] = match mode {
                8 => {
                    if j < prefix {
                        if r.chance(1, 4) { -0.0 } else { 0.0 }
                    } else if j == prefix {
                        sign(pool[0], r)
                    } else {
                        gen_num(r, &pool)
                    }
                }
                0 => {
                    if r.chance(1, 2) {
                        0.0
                    } else {
                        -0.0
                    }
                }
                1 => sign(pool[0], r),
                2 => sign(pool[r.below(2)], r),
                3 => {
                    if r.chance(2, 3) {
                        0.0
                    } else {
                        gen_num(r, &pool)
                    }
                }
                _ => gen_num(r, &pool),
            };
        }
        b[i] = gen_bias(r, &pool);
    }
    (a, b)
}

fn gen_bound(r: &mut Rng) -> Bound<i32> {
    let v = r.range(-1, 9) as i32;
    match r.below(3) {
        0 => Bound::Included(v),
        1 => Bound::Excluded(v),
        _ => Bound::Unbounded,
    }
}
fn gen_range(r: &mut Rng) -> (Bound<i32>, Bound<i32>) {
    match r.below(10) {
        0 | 1 | 2 => (Bound::Included(1), Bound::Excluded(0)),
        3 => (Bound::Included(20), Bound::Unbounded),
        4 => (Bound::Included(5), Bound::Unbounded),
        5 => (Bound::Unbounded, Bound::Unbounded),
        _ => (gen_bound(r), gen_bound(r)),
    }
}
fn gen_opts(r: &mut Rng) -> FormatOptions {
    let sorts = [0usize, 0, 1, 2, 3, 5, 9];
    FormatOptions {
        sort_coefficients: sorts[r.below(sorts.len())],
        simplify_zero: r.chance(1, 2),
        simplify_tautologies: r.chance(1, 2),
        normalize: r.chance(1, 2),
        skip_axes_n: r.below(4),
        skip_axes: gen_range(r),
        skip_rows_n: r.below(4),
        skip_rows: gen_range(r),
    }
}
fn sx_bound(b: &Bound<i32>) -> String {
    match b {
        Bound::Included(v) => format!("(i {})", v),
        Bound::Excluded(v) => format!("(e {})", v),
        Bound::Unbounded => "u".to_string(),
    }
}
fn sx_opts(o: &FormatOptions) -> String {
    format!(
        "(opts {} {} {} {} ({} {}) ({} {}))",
        o.sort_coefficients,
        o.simplify_zero as u8,
        o.simplify_tautologies as u8,
        o.normalize as u8,
        sx_bound(&o.skip_axes.0),
        sx_bound(&o.skip_axes.1),
        sx_bound(&o.skip_rows.0),
        sx_bound(&o.skip_rows.1)
    )
}

fn quote(s: &str) -> String {
    let mut o = String::with_capacity(s.len() + 2);
    o.push('"');
    for c in s.chars() {
        match c {
            '"' => o.push_str("\\\""),
            '\\' => o.push_str("\\\\"),
            '\n' => o.push_str("\\n"),
            c => o.push(c),
        }
    }
    o.push('"');
    o
}

const PRECS: [Option<usize>; 6] = [None, None, None, Some(0), Some(1), Some(3)];
fn sx_prec(p: Option<usize>) -> String {
    match p {
        None => "d".to_string(),
        Some(v) => v.to_string(),
    }
}
fn show<T: Display>(x: &T, p: Option<usize>) -> String {
    let res = catch(AssertUnwindSafe(|| match p {
        None => format!("{}", x),
        Some(v) => format!("{:.*}", v, x),
    }));
    match res {
        Ok(s) => quote(&s),
        Err(_) => "panic".to_string(),
    }
}

fn matrix_case(r: &mut Rng, id: usize, out: &mut String) {
    let m = if r.chance(1, 25) { 0 } else { 1 + r.below(7) };
    let n = if r.chance(1, 20) { 0 } else { 1 + r.below(8) };
    let (a, b) = gen_matrix(r, m, n);
    let p = PRECS[r.below(PRECS.len())];
    let is_poly = r.chance(1, 2);
    let display = r.chance(1, 5);
    let opts = if r.chance(1, 12) { FormatOptions::default() } else { gen_opts(r) };
    let osx = if display { "display".to_string() } else { sx_opts(&opts) };
    if is_poly {
        let f = Polytope::from_mats(a, b);
        let s = if display { show(&f, p) } else { show(&f.display_with(opts), p) };
        out.push_str(&format!("(case {} poly {} {} {} {})\n", id, osx, sx_prec(p), sx_poly(&f), s));
    } else {
        let f = AffFunc::from_mats(a, b);
        let s = if display { show(&f, p) } else { show(&f.display_with(opts), p) };
        out.push_str(&format!("(case {} func {} {} {} {})\n", id, osx, sx_prec(p), sx_aff(&f), s));
    }
}

fn gen_node_aff(r: &mut Rng, rows: usize, n: usize) -> AffFunc {
    let (a, b) = gen_matrix(r, rows, n);
    AffFunc::from_mats(a, b)
}

/// grow a binary tree, remove a subtree, add nodes again (fewer than were removed): the arena has holes
fn tree_case(r: &mut Rng, id: usize, out: &mut String) {
    // branching factors 3 and 4 as well: a node line then lists up to four children
    match r.below(6) {
        0 => tree_case_k::<3>(r, id, out),
        1 => tree_case_k::<4>(r, id, out),
        _ => tree_case_k::<2>(r, id, out),
    }
}
fn tree_case_k<const K: usize>(r: &mut Rng, id: usize, out: &mut String) {
    let n = if r.chance(1, 10) { 21 + r.below(3) } else { r.below(7) };
    let m = 1 + r.below(7);
    let rows0 = 1 + r.below(2);
    let mut t = AffTree::<K>::from_aff(gen_node_aff(r, rows0, n));
    let grow = |t: &mut AffTree<K>, r: &mut Rng, steps: usize| {
        for _ in 0..steps {
            let idxs: Vec<usize> = t.tree.node_indices().collect();
            let at = idxs[r.below(idxs.len())];
            let label = r.below(K);
            if t.tree.tree_node(at).unwrap().children[label].is_some() {
                continue;
            }
            // the node at `at` becomes (or stays) a decision; what it holds is shown as a predicate
            let rows = if r.chance(1, 2) { m } else { 1 + r.below(2) };
            let _ = t.add_child_node(at, label, gen_node_aff(r, rows, n));
        }
    };
    let steps = 2 + r.below(11);
    grow(&mut t, r, steps);
    let mut removed = false;
    for _ in 0..r.below(4) {
        let decs: Vec<usize> = t.tree.decision_indices().collect();
        if decs.is_empty() {
            break;
        }
        let at = decs[r.below(decs.len())];
        let label = r.below(K);
        if t.tree.try_remove_child(at, label).is_ok() {
            removed = true;
        }
    }
    if removed {
        let steps = r.below(3);
        grow(&mut t, r, steps);
    }
    let p = PRECS[r.below(PRECS.len())];
    let disp = show(&t, p);
    // Dot exists for binary trees only
    let dot = match (&t as &dyn std::any::Any).downcast_ref::<AffTree<2>>() {
        Some(t2) => show(&Dot::from(t2), p),
        None => "skip".to_string(),
    };
    out.push_str(&format!("(case {} tree {} {} {} {})\n", id, sx_prec(p), sx_tree(&t), disp, dot));
}

fn main() {
    silence_panics();
    let argv: Vec<String> = std::env::args().collect();
    let args = &parse_args(&argv[1..]);
    let mut r = Rng::new(args.seed ^ 0xC19);
    let mut out = String::new();
    for id in 0..args.n {
        let mut cr = r.fork();
        if id % 5 == 4 {
            guard(id, &mut out, |out| tree_case(&mut cr, id, out));
        } else {
            guard(id, &mut out, |out| matrix_case(&mut cr, id, out));
        }
        if out.len() > 1 << 20 {
            print!("{}", out);
            out.clear();
        }
    }
    print!("{}", out);
}

// C18: Architecture shape tracking, extract_range, distillation of accepted architectures, split composition,
// read_layers on npz files.
//
// case kinds (one s-expression per line):
//  (case id seq IN (calls (c CALL RESULT STATE) ...) (xr (x s e XRES) ...) DISTILL (splits SPLIT ...))
//     CALL    = (linear AFF) (prelu i) (relu) (pleaky i a) (leaky a) (phtanh i) (htanh) (phsig i) (hsig) (argmax)
//     RESULT  = ok | (err dim expected got) | (err index idx len) | (err type) | panic
//     STATE   = (st in cur (ops (o LAYER shape) ...))
//     LAYER   = (lin AFF) (relu i) (leaky i a) (htanh i) (hsig i) (argmax) (class c)
//     XRES    = (ok STATE) | (err ...) | panic
//     DISTILL = (distill skipped) | (distill panic "msg") | (distill ok TREE)
//     SPLIT   = (split k XRES XRES (ok TREE) | skipped | (panic "msg"))      TREE = tree(0,k) composed with tree(k,n)
//  (case id distill IN (layers LAYER ...) (ok in_dim out_dim) | (panic "msg"))
//  (case id npz CLASS (archive (e "name" PAYLOAD) ...) (fl FL ...) (sfx 0|1 ...) RES)
//     PAYLOAD = (mat ncols MAT) (vec VEC) (other)      FL = (lin AFF) relu hard_tanh hard_sigmoid
//     RES     = (ok LAYER ...) | err | (panic "msg")
#[path = "../common.rs"]
mod common;
use affinitree::distill::arch::{Architecture, ShapeError, TensorShape};
use affinitree::distill::builder::{afftree_from_layers, read_layers, Layer};
use affinitree::linalg::affine::AffFunc;
use affinitree::pwl::afftree::AffTree;
use common::*;
use ndarray::{Array1, Array2, Array3};
use ndarray_npy::NpzWriter;
use std::fmt::Write as _;
use std::fs::File;
use std::panic::AssertUnwindSafe;

// ------------------------------------------------------------------------------------------------ dumps
fn sx_layer(l: &Layer) -> String {
    match l {
        Layer::Linear(a) => format!("(lin {})", sx_aff(a)),
        Layer::ReLU(i) => format!("(relu {})", i),
        Layer::LeakyReLU(i, a) => format!("(leaky {} {})", i, fx(*a)),
        Layer::HardTanh(i) => format!("(htanh {})", i),
        Layer::HardSigmoid(i) => format!("(hsig {})", i),
        Layer::Argmax => "(argmax)".to_string(),
        Layer::ClassChar(c) => format!("(class {})", c),
    }
}
fn sx_arch(a: &Architecture) -> String {
    let mut s = String::new();
    write!(s, "(st {} {} (ops", a.input_shape.max_dim(), a.current_shape.max_dim()).unwrap();
    for (l, sh) in a.operators.iter() {
        write!(s, " (o {} {})", sx_layer(l), sh.max_dim()).unwrap();
    }
    s.push_str("))");
    s
}
fn sx_err(e: &ShapeError) -> String {
    match e {
        ShapeError::Dim { expected, got } => format!("(err dim {} {})", expected, got),
        ShapeError::Index { index, len } => format!("(err index {} {})", index, len),
        ShapeError::Type => "(err type)".to_string(),
    }
}
fn quote(s: &str) -> String {
    format!("\"{}\"", s.replace('\\', "\\\\").replace('"', "\\\""))
}

// ------------------------------------------------------------------------------------------------ builder calls
#[derive(Clone)]
enum Call {
    Linear(AffFunc),
    PRelu(usize),
    Relu,
    PLeaky(usize, f64),
    Leaky(f64),
    PHTanh(usize),
    HTanh,
    PHSig(usize),
    HSig,
    Argmax,
}
fn sx_call(c: &Call) -> String {
    match c {
        Call::Linear(a) => format!("(linear {})", sx_aff(a)),
        Call::PRelu(i) => format!("(prelu {})", i),
        Call::Relu => "(relu)".to_string(),
        Call::PLeaky(i, a) => format!("(pleaky {} {})", i, fx(*a)),
        Call::Leaky(a) => format!("(leaky {})", fx(*a)),
        Call::PHTanh(i) => format!("(phtanh {})", i),
        Call::HTanh => "(htanh)".to_string(),
        Call::PHSig(i) => format!("(phsig {})", i),
        Call::HSig => "(hsig)".to_string(),
        Call::Argmax => "(argmax)".to_string(),
    }
}
fn do_call(arch: &mut Architecture, c: &Call) -> Result<Result<(), ShapeError>, String> {
    catch(AssertUnwindSafe(|| match c {
        Call::Linear(a) => arch.linear(a.clone()),
        Call::PRelu(i) => arch.partial_relu(*i),
        Call::Relu => arch.relu(),
        Call::PLeaky(i, a) => arch.partial_leaky_relu(*i, *a),
        Call::Leaky(a) => arch.leaky_relu(*a),
        Call::PHTanh(i) => arch.partial_hard_tanh(*i),
        Call::HTanh => arch.hard_tanh(),
        Call::PHSig(i) => arch.partial_hard_sigmoid(*i),
        Call::HSig => arch.hard_sigmoid(),
        Call::Argmax => arch.argmax(),
    }))
}

fn gen_alpha(r: &mut Rng) -> f64 {
    [0.25, 0.5, 0.0, -1.0, 2.0, 0.125, 1.0][r.below(7)]
}

struct SeqCfg {
    max_calls: usize,
    allow_hsig: bool,
    zero_dims: bool,
}

/// one random call; `cur` is the architecture's current shape, budget limits the size of the network
fn gen_call(r: &mut Rng, cur: usize, n_lin: usize, n_act: usize, cfg: &SeqCfg) -> Call {
    let invalid = r.chance(2, 5);
    let mut kind = r.below(100);
    if n_act >= 7 && kind >= 35 && kind < 85 {
        kind = if r.chance(1, 2) { 0 } else { 90 };
    }
    if kind < 35 {
        // linear
        let want_valid = !invalid && n_lin < 3;
        let indim = if want_valid {
            cur
        } else {
            match r.below(3) {
                0 => cur + 1,
                1 => cur.saturating_sub(1).max(if cur == 1 { 2 } else { 0 }),
                _ => cur + 2,
            }
        };
        let indim = if !want_valid && indim == cur { cur + 1 } else { indim };
        let outdim = if cfg.zero_dims && r.chance(1, 10) { 0 } else { 1 + r.below(3) };
        Call::Linear(gen_aff(r, outdim, indim, 8))
    } else if kind < 60 {
        match r.below(if cfg.allow_hsig { 4 } else { 3 }) {
            0 => Call::Relu,
            1 => Call::Leaky(gen_alpha(r)),
            2 => Call::HTanh,
            _ => Call::HSig,
        }
    } else if kind < 85 {
        let idx = if invalid || cur == 0 { cur + r.below(2) } else { r.below(cur) };
        match r.below(if cfg.allow_hsig { 4 } else { 3 }) {
            0 => Call::PRelu(idx),
            1 => Call::PLeaky(idx, gen_alpha(r)),
            2 => Call::PHTanh(idx),
            _ => Call::PHSig(idx),
        }
    } else {
        Call::Argmax
    }
}

fn has_hsig(a: &Architecture) -> bool {
    a.operators.iter().any(|(l, _)| matches!(l, Layer::HardSigmoid(_)))
}
fn n_acts(a: &Architecture) -> usize {
    a.operators.iter().filter(|(l, _)| !matches!(l, Layer::Linear(_))).count()
}
fn max_width(a: &Architecture) -> usize {
    a.operators.iter().map(|(_, s)| s.max_dim()).max().unwrap_or(0).max(a.input_shape.max_dim())
}

fn distill(a: &Architecture) -> Result<AffTree<2>, String> {
    let dim = a.input_shape.max_dim();
    let layers: Vec<Layer> = a.operators().cloned().collect();
    catch(AssertUnwindSafe(move || afftree_from_layers(dim, &layers, None)))
}

fn sx_xres(x: &Result<Result<Architecture, ShapeError>, String>) -> String {
    match x {
        Ok(Ok(a)) => format!("(ok {})", sx_arch(a)),
        Ok(Err(e)) => sx_err(e),
        Err(_) => "panic".to_string(),
    }
}

fn run_seq(id: &str, in_dim: usize, calls: &[Call], r: &mut Rng, do_splits: bool, out: &mut String) {
    let mut arch = Architecture::new(TensorShape::Flat { in_dim });
    write!(out, "(case {} seq {} (calls", id, in_dim).unwrap();
    for c in calls {
        let res = do_call(&mut arch, c);
        let rs = match &res {
            Ok(Ok(())) => "ok".to_string(),
            Ok(Err(e)) => sx_err(e),
            Err(_) => "panic".to_string(),
        };
        write!(out, " (c {} {} {})", sx_call(c), rs, sx_arch(&arch)).unwrap();
    }
    out.push_str(") (xr");
    let n = arch.operators.len();
    // extract_range on random (valid and invalid) ranges
    for _ in 0..3 {
        let s = r.below(n + 2);
        let e = r.below(n + 3);
        let a2 = arch.clone();
        let x = catch(AssertUnwindSafe(move || a2.extract_range(s, e)));
        write!(out, " (x {} {} {})", s, e, sx_xres(&x)).unwrap();
    }
    out.push(')');
    // distillation of the accepted architecture
    let small = max_width(&arch) <= 3 && n_acts(&arch) <= 9 && in_dim <= 3;
    let whole = if small { Some(distill(&arch)) } else { None };
    match &whole {
        None => out.push_str(" (distill skipped)"),
        Some(Err(m)) => write!(out, " (distill panic {})", quote(m)).unwrap(),
        Some(Ok(t)) => write!(out, " (distill ok {})", sx_tree(t)).unwrap(),
    }
    out.push_str(" (splits");
    if do_splits && n >= 2 && matches!(whole, Some(Ok(_))) && !has_hsig(&arch) {
        for k in 1..n {
            let a = arch.clone();
            let x1 = catch(AssertUnwindSafe(move || a.extract_range(0, k)));
            let a = arch.clone();
            let x2 = catch(AssertUnwindSafe(move || a.extract_range(k, n)));
            let comp = match (&x1, &x2) {
                (Ok(Ok(a1)), Ok(Ok(a2))) => match (distill(a1), distill(a2)) {
                    (Ok(mut t1), Ok(t2)) => {
                        match catch(AssertUnwindSafe(|| {
                            t1.compose::<false, false>(&t2);
                        })) {
                            Ok(()) => format!("(ok {})", sx_tree(&t1)),
                            Err(m) => format!("(panic {})", quote(&m)),
                        }
                    }
                    (Err(m), _) | (_, Err(m)) => format!("(panic {})", quote(&m)),
                },
                _ => "skipped".to_string(),
            };
            write!(out, " (split {} {} {} {})", k, sx_xres(&x1), sx_xres(&x2), comp).unwrap();
        }
    }
    out.push_str("))\n");
}

fn seq_case(r: &mut Rng, id: usize, tier: &str, out: &mut String) {
    let mode = r.below(10);
    // mode 0-5: small exact networks with split checks; 6-7: hard sigmoid allowed (no split check);
    // 8-9: longer call sequences / odd dimensions, shapes only + distillation when small
    let cfg = SeqCfg {
        max_calls: if mode >= 8 { if tier == "thorough" { 16 } else { 10 } } else { 7 },
        allow_hsig: mode >= 6,
        zero_dims: mode >= 8,
    };
    let in_dim = if cfg.zero_dims && r.chance(1, 8) { 0 } else if mode >= 8 { 1 + r.below(5) } else { 1 + r.below(3) };
    let ncalls = 2 + r.below(cfg.max_calls - 1);
    // calls are generated against a shadow architecture so that valid calls fit the real current shape
    let mut shadow = Architecture::new(TensorShape::Flat { in_dim });
    let mut calls = Vec::new();
    let mut n_lin = 0;
    for _ in 0..ncalls {
        let cur = shadow.current_shape.max_dim();
        let c = gen_call(r, cur, n_lin, n_acts(&shadow), &cfg);
        let before = shadow.operators.len();
        let _ = do_call(&mut shadow, &c);
        if matches!(c, Call::Linear(_)) && shadow.operators.len() > before {
            n_lin += 1;
        }
        calls.push(c);
    }
    run_seq(&id.to_string(), in_dim, &calls, r, mode < 6, out);
}

/// fixed scripts (run first in every shard): the D10 witnesses and their neighbourhood
fn fixed_cases(r: &mut Rng, out: &mut String) {
    let id2 = AffFunc::from_mats(Array2::eye(2), Array1::zeros(2));
    let l12 = AffFunc::from_mats(Array2::from_shape_vec((2, 1), vec![1.0, -1.0]).unwrap(), Array1::from_vec(vec![0.0, 1.0]));
    let l21 = AffFunc::from_mats(Array2::from_shape_vec((1, 2), vec![1.0, -2.0]).unwrap(), Array1::from_vec(vec![0.5]));
    // linear 2->2; argmax; linear 2->2 (C18_D10_argmax_refuted)
    run_seq("fixA", 2, &[Call::Linear(id2.clone()), Call::Argmax, Call::Linear(id2.clone())], r, true, out);
    // argmax on one component (C18_D10_small_refuted)
    run_seq("fixB", 1, &[Call::Argmax], r, true, out);
    // layers behind the head: linear 2->2; relu; argmax; linear 1->2; relu; argmax; linear 1->2
    run_seq(
        "fixC",
        2,
        &[Call::Linear(id2.clone()), Call::Relu, Call::Argmax, Call::Linear(l12.clone()), Call::Relu, Call::Argmax, Call::Linear(l12.clone())],
        r,
        true,
        out,
    );
    // argmax directly on the input, partial activation on the 1-dimensional result, index 1 rejected
    run_seq("fixD", 3, &[Call::Argmax, Call::PHTanh(0), Call::PRelu(1), Call::Linear(l12), Call::Leaky(0.5)], r, true, out);
    run_seq("fixE", 2, &[Call::Linear(l21), Call::Argmax, Call::Relu, Call::Linear(id2.clone())], r, true, out);
    // raw layer lists with layers behind a head
    let l12b = AffFunc::from_mats(Array2::from_shape_vec((2, 1), vec![2.0, -1.0]).unwrap(), Array1::from_vec(vec![0.0, 0.5]));
    distill_fixed("fixF", 2, vec![Layer::Linear(id2.clone()), Layer::ClassChar(1), Layer::Linear(l12b.clone()), Layer::ReLU(1)], out);
    distill_fixed("fixG", 3, vec![Layer::Argmax, Layer::ReLU(0), Layer::Linear(l12b.clone()), Layer::ClassChar(0), Layer::HardTanh(0)], out);
    distill_fixed("fixH", 2, vec![Layer::ClassChar(0), Layer::Argmax], out);
}

// ------------------------------------------------------------------------------------------------ raw layer lists
fn distill_case(r: &mut Rng, id: usize, out: &mut String) {
    let in_dim = 1 + r.below(3);
    let n = 1 + r.below(6);
    let mut layers = Vec::new();
    let mut cur = in_dim;
    let mut acts = 0;
    for _ in 0..n {
        let bad = r.chance(1, 6);
        let k = r.below(100);
        if k < 35 {
            let indim = if bad { cur + 1 + r.below(2) } else { cur };
            let outdim = 1 + r.below(3);
            layers.push(Layer::Linear(gen_aff(r, outdim, indim, 8)));
            cur = outdim;
        } else if k < 70 && acts < 6 {
            let i = if bad || cur == 0 { cur + r.below(2) } else { r.below(cur) };
            acts += 1;
            layers.push(match r.below(4) {
                0 => Layer::ReLU(i),
                1 => Layer::LeakyReLU(i, gen_alpha(r)),
                2 => Layer::HardTanh(i),
                _ => Layer::HardSigmoid(i),
            });
        } else if k < 80 {
            layers.push(Layer::Argmax);
            cur = 1;
        } else {
            let c = if bad || cur == 0 { cur + r.below(2) } else { r.below(cur) };
            layers.push(Layer::ClassChar(c));
            cur = 1;
        }
    }
    let ls: Vec<String> = layers.iter().map(sx_layer).collect();
    let l2 = layers.clone();
    let res = catch(AssertUnwindSafe(move || afftree_from_layers(in_dim, &l2, None)));
    let rs = match &res {
        Ok(t) => {
            let od = t.terminals().map(|x| x.aff.outdim()).next().map(|d| d.to_string()).unwrap_or("-".to_string());
            format!("(ok {} {})", t.in_dim(), od)
        }
        Err(m) => format!("(panic {})", quote(m)),
    };
    writeln!(out, "(case {} distill {} (layers {}) {})", id, in_dim, ls.join(" "), rs).unwrap();
}
fn distill_fixed(id: &str, in_dim: usize, layers: Vec<Layer>, out: &mut String) {
    let ls: Vec<String> = layers.iter().map(sx_layer).collect();
    let res = catch(AssertUnwindSafe(move || afftree_from_layers(in_dim, &layers, None)));
    let rs = match &res {
        Ok(t) => {
            let od = t.terminals().map(|x| x.aff.outdim()).next().map(|d| d.to_string()).unwrap_or("-".to_string());
            format!("(ok {} {})", t.in_dim(), od)
        }
        Err(m) => format!("(panic {})", quote(m)),
    };
    writeln!(out, "(case {} distill {} (layers {}) {})", id, in_dim, ls.join(" "), rs).unwrap();
}

// ------------------------------------------------------------------------------------------------ npz
#[derive(Clone)]
enum Payload {
    Mat(Array2<f64>),
    Vec(Array1<f64>),
    OtherI64(Array1<i64>),
    Other3(Array3<f64>),
}
fn sx_payload(p: &Payload) -> String {
    match p {
        Payload::Mat(m) => format!("(mat {} {})", m.ncols(), sx_mat(m)),
        Payload::Vec(v) => format!("(vec {})", sx_vec(v)),
        _ => "(other)".to_string(),
    }
}
#[derive(Clone)]
enum FL {
    Lin(AffFunc),
    Relu,
    HTanh,
    HSig,
}
fn fl_kind(f: &FL) -> &'static str {
    match f {
        FL::Lin(_) => "linear",
        FL::Relu => "relu",
        FL::HTanh => "hard_tanh",
        FL::HSig => "hard_sigmoid",
    }
}

fn write_npz(path: &std::path::Path, entries: &[(String, Payload)]) -> Result<(), String> {
    let f = File::create(path).map_err(|e| e.to_string())?;
    let mut w = NpzWriter::new(f);
    for (n, p) in entries {
        let r = match p {
            Payload::Mat(m) => w.add_array(n.clone(), m),
            Payload::Vec(v) => w.add_array(n.clone(), v),
            Payload::OtherI64(v) => w.add_array(n.clone(), v),
            Payload::Other3(v) => w.add_array(n.clone(), v),
        };
        r.map_err(|e| format!("{:?}", e))?;
    }
    w.finish().map_err(|e| format!("{:?}", e))?;
    Ok(())
}

const JUNK_IGNORED: [&str; 14] = [
    "README",
    "meta.json",
    "abc.relu",
    "x1.relu.npy",
    "12",
    "relu",
    ".relu",
    "001-relu",
    "001.relu2",
    "1.re lu",
    "000.layers.npy",
    "000.layers",
    "7.linear.bias",
    "weights.npy",
];
const JUNK_PANIC: [&str; 8] = ["001.Relu", "500.dropout.npy", "3.", "9..npy", "002.linear", "004.tanh", "000.linear.weight.npy", "77.relu.npy.npy"];

fn npz_case(r: &mut Rng, id: usize, dir: &std::path::Path, tier: &str, out: &mut String) {
    // class 0-5: documented dialect (+ ignorable junk); 6: dialect with one defect; 7: free-form names
    let class = r.below(8);
    let maxl = if tier == "thorough" { 14 } else { 8 };
    let nl = if class <= 5 && r.chance(1, 12) { 0 } else { 1 + r.below(maxl) };
    let mut fl = Vec::new();
    let mut cur = 1 + r.below(4);
    for j in 0..nl {
        if (j == 0 && !r.chance(1, 6)) || r.chance(2, 5) {
            let outdim = if r.chance(1, 15) { 0 } else { 1 + r.below(5) };
            fl.push(FL::Lin(gen_aff(r, outdim, cur, 64)));
            cur = outdim.max(1);
        } else {
            fl.push(match r.below(3) {
                0 => FL::Relu,
                1 => FL::HTanh,
                _ => FL::HSig,
            });
        }
    }
    let base = if class == 7 && r.chance(1, 2) { 995 } else { 0 };
    let unpadded = class == 7 && r.chance(1, 2);
    let mut entries: Vec<(String, Payload)> = Vec::new();
    let mut sfx = Vec::new();
    for (j, f) in fl.iter().enumerate() {
        let idx = if unpadded { format!("{}", base + j) } else { format!("{:03}", base + j) };
        match f {
            FL::Lin(a) => {
                sfx.push(true);
                entries.push((format!("{}.linear.weights.npy", idx), Payload::Mat(a.mat.clone())));
                entries.push((format!("{}.linear.bias.npy", idx), Payload::Vec(a.bias.clone())));
            }
            _ => {
                let s = r.chance(2, 3);
                sfx.push(s);
                let pay = if r.chance(1, 2) { Payload::Vec(Array1::zeros(0)) } else { Payload::Vec(gen_vec(r, 1, 4)) };
                entries.push((format!("{}.{}{}", idx, fl_kind(f), if s { ".npy" } else { "" }), pay));
            }
        }
    }
    // junk that read_layers passes over
    let nj = r.below(4);
    for _ in 0..nj {
        let name = JUNK_IGNORED[r.below(JUNK_IGNORED.len())].to_string();
        if entries.iter().all(|(n, _)| *n != name) {
            let pay = match r.below(4) {
                0 => Payload::Mat(gen_mat(r, 1, 2, 4)),
                1 => Payload::OtherI64(Array1::from_vec(vec![1, 2, 3])),
                2 => Payload::Other3(Array3::zeros((1, 2, 1))),
                _ => Payload::Vec(gen_vec(r, 2, 4)),
            };
            entries.push((name, pay));
        }
    }
    if class == 6 && !entries.is_empty() {
        // one defect
        let lin_pos: Vec<usize> = entries.iter().enumerate().filter(|(_, (n, _))| n.ends_with(".linear.weights.npy")).map(|(i, _)| i).collect();
        match r.below(7) {
            0 if !lin_pos.is_empty() => {
                // bias missing
                let i = lin_pos[r.below(lin_pos.len())];
                entries.remove(i + 1);
            }
            1 if !lin_pos.is_empty() => {
                // weights stored as a vector
                let i = lin_pos[r.below(lin_pos.len())];
                entries[i].1 = Payload::Vec(gen_vec(r, 2, 4));
            }
            2 if !lin_pos.is_empty() => {
                // bias of the wrong length
                let i = lin_pos[r.below(lin_pos.len())];
                let l = match &entries[i + 1].1 {
                    Payload::Vec(v) => v.len(),
                    _ => 0,
                };
                entries[i + 1].1 = Payload::Vec(gen_vec(r, l + 1, 4));
            }
            3 if !lin_pos.is_empty() => {
                // weights without the .npy suffix: by_name looks for the suffixed name
                let i = lin_pos[r.below(lin_pos.len())];
                let n = entries[i].0.clone();
                entries[i].0 = n[..n.len() - 4].to_string();
            }
            4 if !lin_pos.is_empty() => {
                // bias of another element type / rank
                let i = lin_pos[r.below(lin_pos.len())];
                entries[i + 1].1 = if r.chance(1, 2) { Payload::OtherI64(Array1::from_vec(vec![0; 2])) } else { Payload::Mat(gen_mat(r, 1, 1, 4)) };
            }
            _ => {
                let name = JUNK_PANIC[r.below(JUNK_PANIC.len())].to_string();
                if entries.iter().all(|(n, _)| *n != name) {
                    entries.push((name, Payload::Vec(Array1::zeros(0))));
                }
            }
        }
    }
    if class == 7 {
        // free-form extras: matching names of every kind at odd indices
        for _ in 0..r.below(3) {
            let idx = ["0", "00", "0000", "1000", "12", "5", "099"][r.below(7)];
            let kind = ["relu", "hard_tanh.npy", "hard_sigmoid", "layers", "linear.bias.npy"][r.below(5)];
            let name = format!("{}.{}", idx, kind);
            if entries.iter().all(|(n, _)| *n != name) {
                entries.push((name, Payload::Vec(gen_vec(r, 1, 4))));
            }
        }
    }
    // the order of the entries inside the zip file is arbitrary
    for i in (1..entries.len()).rev() {
        let j = r.below(i + 1);
        entries.swap(i, j);
    }
    let path = dir.join(format!("c{}.npz", id));
    let wr = write_npz(&path, &entries);
    let res = match wr {
        Err(m) => format!("(writefail {})", quote(&m)),
        Ok(()) => match catch(AssertUnwindSafe(|| read_layers(&path))) {
            Ok(Ok(ls)) => {
                let v: Vec<String> = ls.iter().map(sx_layer).collect();
                format!("(ok {})", v.join(" "))
            }
            Ok(Err(_)) => "err".to_string(),
            Err(m) => format!("(panic {})", quote(&m)),
        },
    };
    let _ = std::fs::remove_file(&path);
    let es: Vec<String> = entries.iter().map(|(n, p)| format!("(e {} {})", quote(n), sx_payload(p))).collect();
    let fs: Vec<String> = fl
        .iter()
        .map(|f| match f {
            FL::Lin(a) => format!("(lin {})", sx_aff(a)),
            other => fl_kind(other).to_string(),
        })
        .collect();
    let ss: Vec<String> = sfx.iter().map(|b| if *b { "1".to_string() } else { "0".to_string() }).collect();
    writeln!(
        out,
        "(case {} npz {} (archive {}) (fl {}) (sfx {}) {})",
        id,
        class,
        es.join(" "),
        fs.join(" "),
        ss.join(" "),
        res
    )
    .unwrap();
}

fn main() {
    silence_panics();
    let argv: Vec<String> = std::env::args().collect();
    let args = &parse_args(&argv[1..]);
    let mut r = Rng::new(args.seed ^ 0xC18);
    let dir = std::path::PathBuf::from(format!("/verif/.build/run/c18-npz-{}-{}", std::process::id(), args.seed));
    std::fs::create_dir_all(&dir).unwrap();
    let mut out = String::new();
    {
        let mut fr = Rng::new(0xF1C18);
        fixed_cases(&mut fr, &mut out);
    }
    for id in 0..args.n {
        let mut cr = r.fork();
        match id % 10 {
            0..=5 => seq_case(&mut cr, id, &args.tier, &mut out),
            6 => distill_case(&mut cr, id, &mut out),
            _ => npz_case(&mut cr, id, &dir, &args.tier, &mut out),
        }
        if out.len() > 1 << 20 {
            print!("{}", out);
            out.clear();
        }
    }
    print!("{}", out);
    let _ = std::fs::remove_dir_all(&dir);
}

// C14: polytope constructors and transformations are set-exact.
// Every constructor / transformation of affine.rs that the property lists is run on generated dyadic arguments
// (dims 0..4, everything exactly representable), its result rows are dumped exactly, and contains() /
// distance_raw() / distance() of the implementation are evaluated on lattice, boundary, near-boundary and image
// points. A malformed stream (shape mismatches, lower > upper, NaN bounds, axis out of range) compares ok/panic.
// Line format:
//   (case ID OP (args ARG..) (res ok POLY | panic -) (pts (pt X C RAW DIST)..))
//   POLY = (aff indim ((row)..) (bias..)); C = t | f | panic; RAW / DIST = (v ..) | panic
#[path = "../common.rs"]
mod common;
use affinitree::linalg::affine::{AffFunc, Polytope};
use common::*;
use ndarray::{Array1, Array2};
use std::panic::AssertUnwindSafe;

fn a_n(n: usize) -> String {
    format!("(n {})", n)
}
fn a_q(v: f64) -> String {
    format!("(q {})", fx(v))
}
fn a_v(v: &Array1<f64>) -> String {
    format!("(v {})", sx_vec(v))
}
fn a_m(m: &Array2<f64>) -> String {
    format!("(m {} {} {})", m.shape()[0], m.shape()[1], sx_mat(m))
}

const OPS: &[&str] = &[
    "unbounded", "empty", "from_normal", "hypercube", "hyperrectangle", "axis_bounds", "simplex", "cross_polytope",
    "intersection", "intersection_n", "translate", "apply_pre", "apply_post", "rotate", "pquery", "pquery",
    "axis_bounds", "hyperrectangle", "apply_post", "rotate", "translate", "apply_pre",
];

/// dimension 0..=4 (0 rarely)
fn gen_dim(r: &mut Rng) -> usize {
    [0usize, 1, 1, 2, 2, 2, 3, 3, 3, 4, 4][r.below(11)]
}
fn gen_dim1(r: &mut Rng) -> usize {
    gen_dim(r).max(1)
}
fn other_dim(r: &mut Rng, n: usize) -> usize {
    loop {
        let d = r.below(5);
        if d != n {
            return d;
        }
    }
}
/// small lattice point k/4, |k| <= 6
fn gen_small_point(r: &mut Rng, n: usize) -> Array1<f64> {
    Array1::from_iter((0..n).map(|_| r.range(-6, 6) as f64 / 4.0))
}

/// a polytope with m rows in dimension n: most rows are satisfied by a common lattice point (so the set is
/// usually non-empty), some are random; planted zero rows with bias < 0, = 0, > 0, -0.0, and duplicated rows
fn gen_poly(r: &mut Rng, n: usize, maxrows: usize) -> Polytope {
    let m = r.below(maxrows + 1);
    let x0 = gen_small_point(r, n);
    let mut mat = gen_mat(r, m, n, 8);
    let mut bias = Array1::zeros(m);
    for i in 0..m {
        if i > 0 && r.chance(1, 10) {
            // (scaled) duplicate of an earlier row
            let j = r.below(i);
            let f = [1.0, 2.0, 0.5][r.below(3)];
            for k in 0..n {
                mat[[i, k]] = mat[[j, k]] * f;
            }
            bias[i] = bias[j] * f;
            continue;
        }
        if r.chance(1, 10) {
            for k in 0..n {
                mat[[i, k]] = 0.0;
            }
            bias[i] = [1.0, 0.0, -1.0, -0.0, 0.5][r.below(5)];
            continue;
        }
        if r.chance(1, 6) {
            bias[i] = gen_coef(r, 16);
        } else {
            let slack = [0.0, 0.0, 0.25, 0.5, 1.0, 2.0, 4.0][r.below(7)];
            bias[i] = mat.row(i).dot(&x0) + slack;
        }
    }
    Polytope::from_mats(mat, bias)
}

/// integer matrix with determinant +-1 and its (integer) inverse, entries bounded
fn gen_unimodular(r: &mut Rng, n: usize) -> (Array2<f64>, Array2<f64>) {
    loop {
        let mut m: Array2<f64> = Array2::eye(n);
        let mut inv: Array2<f64> = Array2::eye(n);
        let steps = if n < 2 { r.below(2) } else { 2 + r.below(5) };
        for _ in 0..steps {
            match r.below(4) {
                0 if n >= 2 => {
                    // row_j += k * row_i  <->  col_i(inv) -= k * col_j(inv)
                    let i = r.below(n);
                    let mut j = r.below(n);
                    if j == i {
                        j = (i + 1) % n;
                    }
                    let k = [-2.0, -1.0, 1.0, 2.0][r.below(4)];
                    for c in 0..n {
                        let v = m[[i, c]];
                        m[[j, c]] += k * v;
                    }
                    for rr in 0..n {
                        let v = inv[[rr, j]];
                        inv[[rr, i]] -= k * v;
                    }
                }
                1 if n >= 2 => {
                    let i = r.below(n);
                    let j = r.below(n);
                    for c in 0..n {
                        m.swap([i, c], [j, c]);
                    }
                    for rr in 0..n {
                        inv.swap([rr, i], [rr, j]);
                    }
                }
                _ => {
                    if n > 0 {
                        let i = r.below(n);
                        for c in 0..n {
                            m[[i, c]] = -m[[i, c]];
                        }
                        for rr in 0..n {
                            inv[[rr, i]] = -inv[[rr, i]];
                        }
                    }
                }
            }
        }
        if m.iter().chain(inv.iter()).all(|x| x.abs() <= 12.0) {
            // normalise -0.0
            m.mapv_inplace(|x| x + 0.0);
            inv.mapv_inplace(|x| x + 0.0);
            return (m, inv);
        }
    }
}
/// signed permutation matrix (orthogonal, integer): includes the 90-degree rotations
fn gen_signed_perm(r: &mut Rng, n: usize) -> Array2<f64> {
    let mut perm: Vec<usize> = (0..n).collect();
    for i in (1..n).rev() {
        let j = r.below(i + 1);
        perm.swap(i, j);
    }
    let mut m = Array2::zeros((n, n));
    for i in 0..n {
        m[[i, perm[i]]] = if r.chance(1, 2) { 1.0 } else { -1.0 };
    }
    m
}

fn sx_pt(p: &Polytope, x: &Array1<f64>) -> String {
    let c = match catch(AssertUnwindSafe(|| p.contains(x))) {
        Ok(true) => "t".to_string(),
        Ok(false) => "f".to_string(),
        Err(_) => "panic".to_string(),
    };
    // the same queries through views must agree with the owned ones
    let cv = match catch(AssertUnwindSafe(|| p.view().contains(&x.view()))) {
        Ok(true) => "t".to_string(),
        Ok(false) => "f".to_string(),
        Err(_) => "panic".to_string(),
    };
    let c = if c == cv { c } else { format!("viewdiff-{}-{}", c, cv) };
    let raw = match catch(AssertUnwindSafe(|| p.distance_raw(x))) {
        Ok(v) => format!("(v {})", sx_vec(&v)),
        Err(_) => "panic".to_string(),
    };
    let dist = match catch(AssertUnwindSafe(|| p.distance(x))) {
        Ok(v) => format!("(v {})", sx_vec(&v)),
        Err(_) => "panic".to_string(),
    };
    format!("(pt {} {} {} {})", sx_vec(x), c, raw, dist)
}

/// a point exactly on the hyperplane of a random non-zero row (None when no exact solution was found)
fn boundary_point(r: &mut Rng, p: &Polytope, small: bool) -> Option<(Array1<f64>, usize, usize)> {
    let n = p.indim();
    let m = p.outdim();
    if n == 0 || m == 0 {
        return None;
    }
    for _ in 0..6 {
        let i = r.below(m);
        let a = p.mat.row(i);
        let b = p.bias[i];
        let j = r.below(n);
        if a[j] == 0.0 {
            continue;
        }
        let mut x = if small { gen_small_point(r, n) } else { gen_point(r, n) };
        let rest: f64 = (0..n).filter(|k| *k != j).map(|k| a[k] * x[k]).sum();
        x[j] = (b - rest) / a[j];
        if x[j].is_finite() && (x[j] * 1024.0).fract() == 0.0 && a.dot(&x) == b && x[j].abs() < 1e4 {
            return Some((x, i, j));
        }
    }
    None
}

fn gen_pts(r: &mut Rng, p: &Polytope, extra: &[Array1<f64>], near: bool) -> String {
    let n = p.indim();
    let mut pts: Vec<Array1<f64>> = Vec::new();
    for _ in 0..3 {
        pts.push(gen_point(r, n));
    }
    for _ in 0..4 {
        pts.push(gen_small_point(r, n));
    }
    for k in 0..5 {
        if let Some((x, i, j)) = boundary_point(r, p, k % 2 == 0) {
            if near {
                // violate / satisfy row i by 2^-27 (inside the 1e-8 tolerance) and 2^-26 (outside) when the
                // coefficient is a power of two, so that everything stays exact
                let a = p.mat[[i, j]];
                let (mant, _) = frexp(a.abs());
                if mant == 0.5 {
                    for e in [-27i32, -26, -20] {
                        for s in [1.0f64, -1.0] {
                            let mut y = x.clone();
                            y[j] += s * (2.0f64).powi(e) / a;
                            pts.push(y);
                        }
                    }
                }
            }
            pts.push(x);
        }
    }
    for e in extra {
        pts.push(e.clone());
    }
    if r.chance(1, 8) {
        let k = other_dim(r, n);
        let w = gen_point(r, k);
        pts.push(w);
    }
    let mut s: Vec<String> = pts.iter().map(|x| sx_pt(p, x)).collect();
    // distances_raw: the first 7 points (all of length n) as the columns of one matrix
    let k = 7usize.min(pts.len());
    if n > 0 || r.chance(1, 2) {
        let bad = r.chance(1, 12);
        let rows = if bad { other_dim(r, n) } else { n };
        let mut m = Array2::<f64>::zeros((rows, k));
        for j in 0..k {
            for i in 0..rows.min(n) {
                m[[i, j]] = pts[j][i];
            }
        }
        let d = match catch(AssertUnwindSafe(|| p.distances_raw(&m))) {
            Ok(d) => {
                let cols: Vec<String> = (0..d.shape()[1]).map(|j| format!("(v {})", sx_vec(&d.column(j).to_owned()))).collect();
                format!("{} {}", d.shape()[0], cols.join(" "))
            }
            Err(_) => "panic".to_string(),
        };
        s.push(format!("({} {} {})", if bad { "drawbad" } else { "draw" }, k, d));
    }
    format!("(pts {})", s.join(" "))
}
fn frexp(v: f64) -> (f64, i32) {
    if v == 0.0 || !v.is_finite() {
        return (v, 0);
    }
    let mut e = 0;
    let mut m = v;
    while m >= 1.0 {
        m /= 2.0;
        e += 1;
    }
    while m < 0.5 {
        m *= 2.0;
        e -= 1;
    }
    (m, e)
}

fn gen_bound(r: &mut Rng, lower: bool, mal: bool) -> f64 {
    let k = r.below(if mal { 9 } else { 7 });
    match k {
        0 => {
            if lower {
                f64::NEG_INFINITY
            } else {
                f64::INFINITY
            }
        }
        7 => {
            if lower {
                f64::INFINITY
            } else {
                f64::NEG_INFINITY
            }
        }
        8 => f64::NAN,
        _ => gen_coef(r, 12),
    }
}
/// (lower, upper): mostly lower <= upper, both finite or infinite on the unbounded side; sometimes equal;
/// malformed: lower > upper, NaN, +inf as lower / -inf as upper
fn gen_interval(r: &mut Rng, mal: bool) -> (f64, f64) {
    let mut l = gen_bound(r, true, mal);
    let mut u = gen_bound(r, false, mal);
    if !mal && l > u {
        std::mem::swap(&mut l, &mut u);
    }
    if r.chance(1, 10) && l.is_finite() {
        u = l;
    }
    if r.chance(1, 12) {
        // the same infinity on both sides (passes `lower <= upper`)
        let v = if r.chance(1, 2) { f64::INFINITY } else { f64::NEG_INFINITY };
        l = v;
        u = v;
    }
    (l, u)
}
fn a_b(v: f64) -> String {
    format!("(b {})", fx(v))
}

fn one_case(r: &mut Rng, id: usize, out: &mut String, big: bool) {
    let op = OPS[id % OPS.len()];
    let mal = r.chance(1, 8);
    // thorough tier: constructors also in dimensions 5 and 6
    let cdim = |r: &mut Rng| -> usize { if big && r.chance(1, 3) { 5 + r.below(2) } else { gen_dim(r) } };
    let mut args: Vec<String> = Vec::new();
    let mut extra: Vec<Array1<f64>> = Vec::new();
    let mut near = false;
    let res: Result<Polytope, String> = match op {
        "unbounded" => {
            let n = cdim(r);
            args.push(a_n(n));
            catch(AssertUnwindSafe(|| Polytope::unbounded(n)))
        }
        "empty" => {
            let n = cdim(r);
            args.push(a_n(n));
            catch(AssertUnwindSafe(|| Polytope::empty(n)))
        }
        "from_normal" => {
            let n = gen_dim(r);
            let m = r.below(6);
            let (pm, pn) = if mal {
                match r.below(4) {
                    0 => (1, n),
                    1 => (m, 1),
                    2 => (other_dim(r, m), n),
                    _ => (m, other_dim(r, n)),
                }
            } else {
                (m, n)
            };
            let normals = gen_mat(r, m, n, 8);
            let points = gen_mat(r, pm, pn, 8);
            args.push(a_m(&normals));
            args.push(a_m(&points));
            catch(AssertUnwindSafe(|| Polytope::from_normal(normals.clone(), points.clone())))
        }
        "hypercube" => {
            let n = cdim(r);
            // radius: mostly positive; 0 and negative ones too (x_i <= r and -x_i <= r with r < 0: the empty set)
            let rad = match r.below(6) {
                0 => gen_coef(r, 8),
                1 => -(gen_coef(r, 8).abs() + 0.25),
                _ => gen_coef(r, 8).abs() + 0.25,
            };
            args.push(a_n(n));
            args.push(a_q(rad));
            for i in 0..n {
                let mut v = Array1::zeros(n);
                v[i] = if r.chance(1, 2) { rad } else { -rad };
                extra.push(v);
            }
            extra.push(Array1::from_elem(n, rad));
            catch(AssertUnwindSafe(|| Polytope::hypercube(n, rad)))
        }
        "hyperrectangle" => {
            let n = cdim(r);
            let mut ivs: Vec<(f64, f64)> = (0..n).map(|_| gen_interval(r, false)).collect();
            if mal && n > 0 {
                let k = r.below(n);
                ivs[k] = gen_interval(r, true);
            }
            let s: Vec<String> = ivs.iter().map(|(l, u)| format!("(iv {} {})", fx(*l), fx(*u))).collect();
            args.push(format!("(ivs {})", s.join(" ")));
            let mut c1 = Array1::zeros(n);
            let mut c2 = Array1::zeros(n);
            for (i, (l, u)) in ivs.iter().enumerate() {
                c1[i] = if l.is_finite() { *l } else if u.is_finite() { *u } else { 0.0 };
                c2[i] = if u.is_finite() { *u } else if l.is_finite() { *l + 1.0 } else { 3.0 };
            }
            extra.push(c1);
            extra.push(c2);
            catch(AssertUnwindSafe(|| Polytope::hyperrectangle(&ivs)))
        }
        "axis_bounds" => {
            let n = cdim(r);
            let axis = if (mal && r.chance(1, 2)) || n == 0 { n + r.below(2) } else { r.below(n) };
            let (l, u) = gen_interval(r, mal);
            args.push(a_n(n));
            args.push(a_n(axis));
            args.push(a_b(l));
            args.push(a_b(u));
            if axis < n {
                for v in [l, u] {
                    if v.is_finite() {
                        let mut x = gen_small_point(r, n);
                        x[axis] = v;
                        extra.push(x);
                    }
                }
            }
            catch(AssertUnwindSafe(|| Polytope::axis_bounds(n, axis, l, u)))
        }
        "simplex" => {
            let n = cdim(r);
            args.push(a_n(n));
            for i in 0..n {
                let mut v = Array1::zeros(n);
                v[i] = 1.0;
                extra.push(v.clone());
                v[i] = 1.0 + 1.0 / 1024.0;
                extra.push(v);
            }
            extra.push(Array1::zeros(n));
            if n > 0 {
                let c = (1.0 - ((n + 1) as f64).sqrt()) / (n as f64);
                extra.push(Array1::from_elem(n, c));
                extra.push(Array1::from_elem(n, c - 1.0 / 1024.0));
            }
            catch(AssertUnwindSafe(|| Polytope::simplex(n)))
        }
        "cross_polytope" => {
            let n = cdim(r);
            args.push(a_n(n));
            for i in 0..n {
                let mut v = Array1::zeros(n);
                v[i] = if r.chance(1, 2) { 1.0 } else { -1.0 };
                extra.push(v);
            }
            if n > 0 {
                let mut v = Array1::from_elem(n, 1.0 / (n as f64));
                if n == 3 {
                    v = arr3(0.25, -0.25, 0.5);
                }
                extra.push(v.clone());
                v[0] += 1.0 / 64.0;
                extra.push(v);
            }
            catch(AssertUnwindSafe(|| Polytope::cross_polytope(n)))
        }
        "intersection" => {
            let n = gen_dim(r);
            let n2 = if mal { other_dim(r, n) } else { n };
            let p = gen_poly(r, n, 5);
            let q = gen_poly(r, n2, 5);
            args.push(sx_poly(&p));
            args.push(sx_poly(&q));
            if r.chance(1, 2) {
                catch(AssertUnwindSafe(|| p.intersection(&q)))
            } else {
                catch(AssertUnwindSafe(|| p.view().intersection(&q.view())))
            }
        }
        "intersection_n" => {
            let n = gen_dim(r);
            let k = r.below(5);
            let mut ps: Vec<Polytope> = (0..k).map(|_| gen_poly(r, n, 4)).collect();
            // neighbouring operands with the same coefficient matrix and other bounds (x <= 3 next to x <= 1, a
            // translated copy): each operand counts
            if k >= 1 && r.chance(1, 3) {
                let j = r.below(k);
                let base = ps[j].clone();
                let mut b = base.bias.to_owned();
                for v in b.iter_mut() {
                    *v += (r.range(-4, 4) as f64) / 2.0;
                }
                let twin = Polytope::from_mats(base.mat.to_owned(), b);
                if r.chance(1, 2) {
                    ps.insert(j + 1, twin);
                } else {
                    ps.insert(j, twin);
                }
            }
            let k = ps.len();
            let dim = if r.chance(1, 6) { other_dim(r, n) } else { n };
            if mal && k > 0 {
                let j = r.below(k);
                let n2 = other_dim(r, n);
                ps[j] = gen_poly(r, n2, 4);
            }
            args.push(a_n(dim));
            let s: Vec<String> = ps.iter().map(sx_poly).collect();
            args.push(format!("(polys {})", s.join(" ")));
            catch(AssertUnwindSafe(|| Polytope::intersection_n(dim, &ps)))
        }
        "translate" => {
            let n = gen_dim(r);
            let p = gen_poly(r, n, 6);
            let dl = if mal { other_dim(r, n) } else { n };
            let d = gen_vec(r, dl, 8);
            args.push(sx_poly(&p));
            args.push(a_v(&d));
            if d.len() == n {
                for _ in 0..3 {
                    extra.push(gen_small_point(r, n) + &d);
                }
            }
            if r.chance(1, 2) {
                catch(AssertUnwindSafe(|| p.translate(&d)))
            } else {
                catch(AssertUnwindSafe(|| p.view().translate(&d)))
            }
        }
        "apply_pre" => {
            let n = gen_dim(r);
            let k = gen_dim(r);
            let p = gen_poly(r, n, 6);
            let fo = if mal { other_dim(r, n) } else { n };
            // structured maps that an implementation may special-case: pure translations (identity matrix),
            // signed permutations, diagonal scalings, projections / embeddings with zero columns
            let f = if !mal && n > 0 && r.chance(1, 3) {
                let mat = match r.below(3) {
                    0 => Array2::<f64>::eye(n),
                    1 => gen_signed_perm(r, n),
                    _ => {
                        let mut d = Array2::<f64>::zeros((n, n));
                        for i in 0..n {
                            d[[i, i]] = [1.0, 2.0, 0.5, -1.0, 0.0][r.below(5)];
                        }
                        d
                    }
                };
                let bias = if r.chance(1, 4) { Array1::<f64>::zeros(n) } else { gen_vec(r, n, 8) };
                AffFunc::from_mats(mat, bias)
            } else {
                gen_aff(r, fo, k, 4)
            };
            args.push(sx_poly(&p));
            args.push(sx_aff(&f));
            if r.chance(1, 2) {
                catch(AssertUnwindSafe(|| p.apply_pre(&f)))
            } else {
                catch(AssertUnwindSafe(|| p.view().apply_pre(&f.view())))
            }
        }
        "apply_post" => {
            let n = gen_dim(r);
            let p = gen_poly(r, n, 6);
            let (m, mut inv) = gen_unimodular(r, n);
            let mut c = gen_vec(r, n, 8);
            if mal {
                let o = other_dim(r, n);
                match r.below(3) {
                    0 => c = gen_vec(r, o, 8),
                    1 => inv = gen_mat(r, o, n, 4),
                    _ => inv = gen_mat(r, n, o, 4),
                }
            }
            args.push(sx_poly(&p));
            args.push(a_m(&inv));
            args.push(a_v(&c));
            args.push(a_m(&m));
            if !mal {
                // images M x + c of lattice points x
                for _ in 0..4 {
                    let x = gen_small_point(r, n);
                    extra.push(m.dot(&x) + &c);
                }
            }
            if r.chance(1, 2) {
                catch(AssertUnwindSafe(|| p.apply_post(&inv, &c)))
            } else {
                catch(AssertUnwindSafe(|| p.view().apply_post(&inv.view(), &c.view())))
            }
        }
        "rotate" => {
            let n = gen_dim(r);
            let p = gen_poly(r, n, 6);
            let rot = if mal {
                let o = other_dim(r, n);
                if r.chance(1, 2) { gen_mat(r, o, n, 4) } else { gen_mat(r, n, o, 4) }
            } else if r.chance(1, 5) {
                // not orthogonal: the code computes apply_post(R^T, 0) all the same
                gen_mat(r, n, n, 4)
            } else {
                gen_signed_perm(r, n)
            };
            args.push(sx_poly(&p));
            args.push(a_m(&rot));
            if !mal {
                for _ in 0..4 {
                    let x = gen_small_point(r, n);
                    extra.push(rot.dot(&x));
                }
            }
            if r.chance(1, 2) {
                catch(AssertUnwindSafe(|| p.rotate(&rot)))
            } else {
                catch(AssertUnwindSafe(|| p.view().rotate(&rot.view())))
            }
        }
        _ => {
            // "pquery": contains / distance_raw / distance of a given polytope, with near-boundary points
            let n = gen_dim1(r);
            let mut p = gen_poly(r, n, 6);
            if r.chance(1, 2) {
                // axis-parallel / power-of-two rows so that norms are exact and near-boundary points exist
                for i in 0..p.outdim() {
                    if r.chance(1, 2) {
                        for k in 0..n {
                            p.mat[[i, k]] = 0.0;
                        }
                        let j = r.below(n);
                        p.mat[[i, j]] = [1.0, -1.0, 2.0, -0.5, 4.0][r.below(5)];
                    }
                }
            }
            args.push(sx_poly(&p));
            near = true;
            Ok(p)
        }
    };
    let (rs, pts) = match &res {
        Ok(p) => (format!("(res ok {})", sx_poly(p)), gen_pts(r, p, &extra, near)),
        Err(_) => ("(res panic -)".to_string(), "(pts)".to_string()),
    };
    out.push_str(&format!("(case {} {} (args {}) {} {})\n", id, op, args.join(" "), rs, pts));
}
fn arr3(a: f64, b: f64, c: f64) -> Array1<f64> {
    Array1::from_vec(vec![a, b, c])
}

fn main() {
    silence_panics();
    let argv: Vec<String> = std::env::args().collect();
    let args = &parse_args(&argv[1..]);
    let mut r = Rng::new(args.seed ^ 0xC14);
    let mut out = String::new();
    for id in 0..args.n {
        let mut cr = r.fork();
        guard(id, &mut out, |out| one_case(&mut cr, id, out, args.tier == "thorough"));
        if out.len() > 1 << 20 {
            print!("{}", out);
            out.clear();
        }
    }
    print!("{}", out);
}

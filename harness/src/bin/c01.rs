// C01: distillation is faithful.  Runs afftree_from_layers on generated networks (dyadic weights, planted dead
// neurons and coincident breakpoints, all activation kinds, optional argmax / class head) with an optional
// precondition tree (box / general polytope with an affine map and optional else-branch / thin / empty; sometimes
// with cached feasibility states from an earlier elimination), under the LP hook.
//
//  (case id net IN PRE (layers LAYER ...) RES (log ...) (pts ...))
//     PRE = none | TREE        RES = (ok TREE) | (panic "msg")      LAYER as in c18.rs
#[path = "../common.rs"]
mod common;
use affinitree::distill::builder::{afftree_from_layers, afftree_from_layers_csv, afftree_from_layers_verbose, read_layers, Layer};
use affinitree::linalg::affine::{AffFunc, Polytope};
use affinitree::linalg::polyhedron::PolytopeStatus;
use affinitree::linalg::verif_hook::{self, Event, Fault};
use affinitree::pwl::afftree::AffTree;
use common::*;
use ndarray::{Array1, Array2};
use std::collections::HashMap;
use std::fmt::Write as _;
use std::panic::AssertUnwindSafe;

fn sx_layer(l: &Layer) -> String {
    match l {
        Layer::Linear(a) => format!("(lin {})", sx_aff(a)),
        Layer::ReLU(i) => format!("(relu {})", i),
        Layer::LeakyReLU(i, a) => format!("(leaky {} {})", i, fx(*a)),
        Layer::HardTanh(i) => format!("(htanh {})", i),
        Layer::HardSigmoid(i) => format!("(hsig {})", i),
        Layer::Argmax => "(argmax)".to_string(),
        Layer::ClassChar(c) => format!("(class {})", c),
    }
}
fn quote(s: &str) -> String {
    format!("\"{}\"", s.replace('\\', "\\\\").replace('"', "\\\"").replace('\n', " "))
}
fn sx_status(s: &PolytopeStatus) -> String {
    match s {
        PolytopeStatus::Infeasible => "infeasible".to_string(),
        PolytopeStatus::Unbounded => "unbounded".to_string(),
        PolytopeStatus::Optimal(w) => format!("(optimal {})", sx_vec(w)),
        PolytopeStatus::Error(_) => "error".to_string(),
    }
}
fn sx_fault(f: &Option<Fault>) -> String {
    match f {
        None => "-".to_string(),
        Some(_) => "fault".to_string(),
    }
}
fn sx_log(log: &[Event]) -> String {
    let mut s = String::from("(log");
    for e in log {
        match e {
            Event::Lp { poly, coeffs, status, fault } => {
                s.push_str(&format!(" (lp {} {} {} {})", sx_poly(poly), sx_vec(coeffs), sx_status(status), sx_fault(fault)));
            }
            Event::Mirror { poly, points, n_iterations, result } => {
                let r = match result {
                    None => "none".to_string(),
                    Some((m, it)) => format!("(some {} {})", sx_mat(&m.t().to_owned()), it),
                };
                s.push_str(&format!(" (mir {} {} {} {})", sx_poly(poly), sx_mat(&points.t().to_owned()), n_iterations, r));
            }
        }
    }
    s.push(')');
    s
}

fn gen_alpha(r: &mut Rng) -> f64 {
    match r.below(5) {
        0 => 0.0,
        1 => 0.5,
        2 => 0.125,
        3 => -0.25,
        _ => 2.0,
    }
}

/// a linear layer with planted dead neurons (zero row, negative bias), duplicated rows (coincident breakpoints)
fn gen_linear(r: &mut Rng, outdim: usize, indim: usize) -> AffFunc {
    let mut a = gen_aff(r, outdim, indim, 8);
    for i in 0..outdim {
        match r.below(10) {
            0 => {
                for j in 0..indim {
                    a.mat[[i, j]] = 0.0;
                }
                a.bias[i] = -(1 + r.below(3) as i64) as f64;
            }
            1 if i > 0 => {
                for j in 0..indim {
                    a.mat[[i, j]] = a.mat[[i - 1, j]];
                }
                a.bias[i] = a.bias[i - 1];
            }
            2 if i > 0 => {
                for j in 0..indim {
                    a.mat[[i, j]] = -a.mat[[i - 1, j]];
                }
                a.bias[i] = -a.bias[i - 1];
            }
            _ => {}
        }
    }
    a
}

fn gen_layers(r: &mut Rng, d0: usize, tier: &str) -> Vec<Layer> {
    let mut layers = Vec::new();
    let mut cur = d0;
    let n_lin = if tier == "thorough" { 1 + r.below(3) } else { 1 + r.below(2) };
    let mut acts = 0;
    let max_acts = if tier == "thorough" { 6 } else { 4 };
    // sometimes activations directly on the input / precondition output
    let start_with_act = r.chance(1, 5);
    for li in 0..n_lin {
        if !(li == 0 && start_with_act) {
            let w = 1 + r.below(3);
            layers.push(Layer::Linear(gen_linear(r, w, cur)));
            cur = w;
        }
        for i in 0..cur {
            if acts < max_acts && r.chance(3, 4) {
                acts += 1;
                layers.push(match r.below(8) {
                    0 | 1 | 2 | 3 => Layer::ReLU(i),
                    4 => Layer::LeakyReLU(i, gen_alpha(r)),
                    5 => Layer::HardTanh(i),
                    6 => Layer::HardSigmoid(i),
                    _ => Layer::ReLU(i),
                });
            }
        }
    }
    if r.chance(1, 3) {
        // a final linear read-out
        let w = 1 + r.below(3);
        layers.push(Layer::Linear(gen_linear(r, w, cur)));
        cur = w;
    }
    // heads over four or five classes now and then (deeper argmax trees: more pruning and forwarding inside one terminal)
    if r.chance(1, 3) {
        let w = 4 + r.below(2);
        layers.push(Layer::Linear(gen_linear(r, w, cur)));
        cur = w;
        layers.push(Layer::Argmax);
        behind_head(r, &mut layers);
        return layers;
    }
    if cur >= 2 {
        match r.below(4) {
            0 => {
                layers.push(Layer::Argmax);
                behind_head(r, &mut layers);
            }
            1 => {
                layers.push(Layer::ClassChar(r.below(cur)));
                behind_head(r, &mut layers);
            }
            _ => {}
        }
    }
    layers
}
/// one time in four the head is not the last layer: its 1-dimensional output (class index / indicator) is fed through
/// a further linear layer and activations (the builder continues with dim = 1 behind a head)
fn behind_head(r: &mut Rng, layers: &mut Vec<Layer>) {
    if !r.chance(1, 4) {
        return;
    }
    let w = 1 + r.below(2);
    layers.push(Layer::Linear(gen_linear(r, w, 1)));
    for i in 0..w {
        if r.chance(3, 4) {
            layers.push(match r.below(4) {
                0 => Layer::LeakyReLU(i, gen_alpha(r)),
                1 => Layer::HardTanh(i),
                _ => Layer::ReLU(i),
            });
        }
    }
}

fn gen_poly(r: &mut Rng, n: usize, kind: usize) -> Polytope {
    match kind {
        0 => Polytope::hypercube(n, (1 + r.below(4)) as f64),
        1 => {
            // thin slab: x0 <= c, -x0 <= -c
            let c = gen_coef(r, 4);
            let mut m = Array2::<f64>::zeros((2, n));
            m[[0, 0]] = 1.0;
            m[[1, 0]] = -1.0;
            Polytope::from_mats(m, Array1::from(vec![c, -c]))
        }
        2 => {
            // empty: x0 <= 0, -x0 <= -1
            let mut m = Array2::<f64>::zeros((2, n));
            m[[0, 0]] = 1.0;
            m[[1, 0]] = -1.0;
            Polytope::from_mats(m, Array1::from(vec![0.0, -1.0]))
        }
        _ => {
            let rows = 1 + r.below(4);
            let mut m = gen_mat(r, rows, n, 4);
            // avoid all-zero rows turning the polytope into a tautology test only
            for i in 0..rows {
                if m.row(i).iter().all(|v| *v == 0.0) {
                    m[[i, r.below(n)]] = 1.0;
                }
            }
            Polytope::from_mats(m, gen_vec(r, rows, 8))
        }
    }
}

fn gen_pre(r: &mut Rng, n: usize) -> Option<AffTree<2>> {
    let k = r.below(10);
    if k < 3 {
        return None;
    }
    let kind = match k {
        3 | 4 => 0,
        5 => 1,
        6 => 2,
        _ => 3,
    };
    let poly = gen_poly(r, n, kind);
    let d0 = if r.chance(2, 3) { n } else { 1 + r.below(3) };
    let f = if d0 == n && r.chance(1, 2) { AffFunc::identity(n) } else { gen_aff(r, d0, n, 4) };
    let g = if r.chance(1, 3) { Some(gen_aff(r, d0, n, 4)) } else { None };
    let mut t = AffTree::<2>::from_poly(poly, f, g.as_ref()).unwrap();
    if r.chance(1, 3) {
        // cached feasibility states in the precondition
        t.infeasible_elimination();
    }
    Some(t)
}

fn net_case(r: &mut Rng, id: usize, tier: &str, out: &mut String) {
    let n = 1 + r.below(3);
    let pre = gen_pre(r, n);
    let d0 = match &pre {
        Some(t) => t.terminals().map(|x| x.aff.outdim()).next().unwrap(),
        None => n,
    };
    let layers = gen_layers(r, d0, tier);
    let ls: Vec<String> = layers.iter().map(sx_layer).collect();
    let pre_s = match &pre {
        Some(t) => sx_tree(t),
        None => "none".to_string(),
    };
    let l2 = layers.clone();
    let p2 = pre.clone();
    verif_hook::start(HashMap::new());
    // the three public entry points share the generic builder; each must honour the same arguments
    let variant = r.below(6);
    let csv_path = std::env::temp_dir().join(format!("atharness-c01-{}-{}.csv", std::process::id(), id));
    let cp = csv_path.clone();
    let res = catch(AssertUnwindSafe(move || match variant {
        0 => afftree_from_layers_verbose(n, &l2, p2),
        1 => afftree_from_layers_csv(n, &l2, cp, p2),
        _ => afftree_from_layers(n, &l2, p2),
    }));
    let _ = std::fs::remove_file(&csv_path);
    let log = verif_hook::stop();
    let (rs, pts) = match &res {
        Ok(t) => (format!("(ok {})", sx_tree(t)), sx_points(r, t, 6)),
        Err(m) => (format!("(panic {})", quote(m)), "(pts )".to_string()),
    };
    writeln!(out, "(case {} net {} {} (layers {}) {} {} {})", id, n, pre_s, ls.join(" "), rs, sx_log(&log), pts).unwrap();
}

/// the shipped networks (real f64 weights): distilled as they are; evaluate() on sampled inputs is compared with the
/// exact-rational network semantics up to rounding by the runner.  (case id shipped NAME IN (layers ..) (size nodes terminals) (pts ..))
fn shipped_case(r: &mut Rng, id: usize, rel: &str, npts: usize, out: &mut String) {
    let repo = std::env::var("VERIF_REPO_PATH").unwrap_or("/repo".to_string());
    let path = std::path::Path::new(&repo).join(rel);
    let layers = match catch(AssertUnwindSafe(|| read_layers(&path))) {
        Ok(Ok(l)) => l,
        _ => {
            writeln!(out, "(case {} shipped {} unreadable)", id, quote(rel)).unwrap();
            return;
        }
    };
    let n = match layers.iter().find_map(|l| if let Layer::Linear(a) = l { Some(a.indim()) } else { None }) {
        Some(n) => n,
        None => return,
    };
    let ls: Vec<String> = layers.iter().map(sx_layer).collect();
    let l2 = layers.clone();
    let res = catch(AssertUnwindSafe(move || afftree_from_layers(n, &l2, None)));
    match res {
        Ok(t) => {
            let mut pts = Vec::new();
            for k in 0..npts {
                // inputs of different scales: lattice points, data-like positive values, and small perturbations of 0
                let scale = [1.0, 4.0, 0.125, 8.0][k % 4];
                let x = Array1::from_iter((0..n).map(|_| (r.range(-16, 16) as f64) / 8.0 * scale));
                pts.push(sx_eval_pt(&t, &x));
            }
            writeln!(
                out,
                "(case {} shipped {} {} (layers {}) (size {} {}) (pts {}))",
                id,
                quote(rel),
                n,
                ls.join(" "),
                t.len(),
                t.tree.num_terminals(),
                pts.join(" ")
            )
            .unwrap();
        }
        Err(m) => writeln!(out, "(case {} shipped {} {} (layers {}) (panic {}))", id, quote(rel), n, ls.join(" "), quote(&m)).unwrap(),
    }
}

fn main() {
    silence_panics();
    let argv: Vec<String> = std::env::args().collect();
    let args = parse_args(&argv);
    let mut r = Rng::new(args.seed ^ 0xC01);
    let mut out = String::new();
    // shipped networks: first shard only (seeds are seed*1000 + shard); iris in both tiers, ecoli in the thorough tier
    if args.seed % 1000 == 0 {
        let mut rs = r.fork();
        shipped_case(&mut rs, 900000, "res/nn/iris.npz", 40, &mut out);
        shipped_case(&mut rs, 900001, "tests/iris_44.npz", 40, &mut out);
        if args.tier == "thorough" {
            shipped_case(&mut rs, 900002, "res/nn/ecoli.npz", 60, &mut out);
        }
    }
    for id in 0..args.n {
        let mut rc = r.fork();
        guard(id, &mut out, |out| net_case(&mut rc, id, &args.tier, out));
        if out.len() > 1 << 20 {
            print!("{}", out);
            out.clear();
        }
    }
    print!("{}", out);
}

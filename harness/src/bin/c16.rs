// C16: affine algebra and named constructors. Every operation / constructor of affine.rs + impl_ops.rs that the
// property lists, on generated dyadic arguments, dims 0..4, all ownership variants of the operators, plus a
// malformed stream (shape mismatches, indices out of range) whose outcome (ok / panic) is compared as well.
// Line format: (case ID OP (args ARG..) (res (VARIANT ok|panic RESULT)..) (pts (pt X (some V)|panic)..))
#[path = "../common.rs"]
mod common;
use affinitree::linalg::affine::{AffFunc, PolyRepr, Polytope};
use common::*;
use ndarray::{Array1, Array2};
use std::panic::AssertUnwindSafe;

fn a_n(n: usize) -> String {
    format!("(n {})", n)
}
fn a_q(v: f64) -> String {
    format!("(q {})", fx(v))
}
fn a_v(v: &Array1<f64>) -> String {
    format!("(v {})", sx_vec(v))
}
fn a_m(m: &Array2<f64>) -> String {
    format!("(m {} {} {})", m.shape()[0], m.shape()[1], sx_mat(m))
}
fn a_idx(v: &[usize]) -> String {
    let s: Vec<String> = v.iter().map(|i| i.to_string()).collect();
    format!("(idx ({}))", s.join(" "))
}

fn rf<F: FnOnce() -> AffFunc>(name: &str, f: F) -> (String, Option<AffFunc>) {
    match catch(AssertUnwindSafe(f)) {
        Ok(a) => (format!("({} ok {})", name, sx_aff(&a)), Some(a)),
        Err(_) => (format!("({} panic -)", name), None),
    }
}
fn rp<F: FnOnce() -> Polytope>(name: &str, f: F) -> String {
    match catch(AssertUnwindSafe(f)) {
        Ok(a) => format!("({} ok {})", name, sx_poly(&a)),
        Err(_) => format!("({} panic -)", name),
    }
}
fn rl<F: FnOnce() -> Vec<AffFunc>>(name: &str, f: F) -> String {
    match catch(AssertUnwindSafe(f)) {
        Ok(l) => {
            let s: Vec<String> = l.iter().map(sx_aff).collect();
            format!("({} ok (affs {}))", name, s.join(" "))
        }
        Err(_) => format!("({} panic -)", name),
    }
}

/// dimension 0..=4, small ones more often
fn gen_dim(r: &mut Rng, lo: usize) -> usize {
    let d = [0usize, 1, 1, 2, 2, 2, 3, 3, 4][r.below(9)];
    d.max(lo)
}
/// a dimension different from n (for the malformed stream)
fn other_dim(r: &mut Rng, n: usize) -> usize {
    loop {
        let d = r.below(5);
        if d != n {
            return d;
        }
    }
}
fn gen_nonzero(r: &mut Rng, maxk: i64, pow2: bool) -> f64 {
    if pow2 {
        let e = r.range(-2, 2) as i32;
        let s = if r.chance(1, 2) { 1.0 } else { -1.0 };
        return s * (2.0f64).powi(e);
    }
    loop {
        let c = gen_coef(r, maxk);
        if c != 0.0 {
            return c;
        }
    }
}
fn gen_aff_nz(r: &mut Rng, m: usize, n: usize, pow2: bool) -> AffFunc {
    let mut a = gen_aff(r, m, n, 8);
    for x in a.mat.iter_mut() {
        *x = gen_nonzero(r, 8, pow2);
    }
    for x in a.bias.iter_mut() {
        *x = gen_nonzero(r, 8, pow2);
    }
    a
}

/// a square map with a structured matrix (identity / zero / signed permutation) and a random, mostly non-zero bias
fn structured_aff(r: &mut Rng, n: usize) -> AffFunc {
    let mut a = Array2::<f64>::zeros((n, n));
    match r.below(4) {
        0 | 1 => {
            for i in 0..n {
                a[[i, i]] = 1.0;
            }
        }
        2 => {
            let mut perm: Vec<usize> = (0..n).collect();
            for i in (1..n).rev() {
                let j = r.below(i + 1);
                perm.swap(i, j);
            }
            for i in 0..n {
                a[[i, perm[i]]] = if r.chance(1, 2) { 1.0 } else { -1.0 };
            }
        }
        _ => {}
    }
    let mut b = gen_point(r, n);
    if n > 0 && b.iter().all(|v| *v == 0.0) {
        b[0] = 1.5;
    }
    AffFunc::from_mats(a, b)
}

fn pts_of(r: &mut Rng, f: &Option<AffFunc>, with_pts: bool) -> String {
    let mut out = Vec::new();
    if let (Some(f), true) = (f, with_pts) {
        let n = f.indim();
        for k in 0..3 {
            let len = if k == 2 && r.chance(1, 6) { other_dim(r, n) } else { n };
            let x = gen_point(r, len);
            match catch(AssertUnwindSafe(|| f.apply(&x))) {
                Ok(v) => out.push(format!("(pt {} (some {}))", sx_vec(&x), sx_vec(&v))),
                Err(_) => out.push(format!("(pt {} panic)", sx_vec(&x))),
            }
        }
    }
    format!("(pts {})", out.join(" "))
}

const OPS: &[&str] = &[
    "identity", "zeros", "constant", "unit", "zero_idx", "sum", "subtraction", "rotation", "scaling",
    "uniform_scaling", "slice", "translation", "compose", "stack", "add", "sub", "mul", "div", "rem", "neg",
    "negate", "row", "row_iter", "remove_rows", "remove_zero_rows", "remove_zero_columns", "from_row_iter",
    "from_mats", "view", "to_owned", "as_polytope", "as_function", "poly_new", "convert_leq", "convert_biasleq0",
    "convert_geq", "convert_biasgeq0", "apply", "translation", "subtraction", "remove_zero_columns", "add", "mul",
    "apply_transpose", "reset_row",
];

fn binop_variants(op: &str, f: &AffFunc, g: &AffFunc) -> (Vec<String>, Option<AffFunc>) {
    macro_rules! six {
        ($o:tt) => {{
            let (s1, a1) = rf("ref_ref", || f $o g);
            let (s2, _) = rf("own_own", || f.clone() $o g.clone());
            let (s3, _) = rf("own_ref", || f.clone() $o g);
            let (s4, _) = rf("own_view", || f.clone() $o g.view());
            let (s5, _) = rf("own_refview", || f.clone() $o &g.view());
            let (s6, _) = rf("refview_refview", || &f.view() $o &g.view());
            let (s7, _) = rf("ref_refview", || f $o &g.view());
            (vec![s1, s2, s3, s4, s5, s6, s7], a1)
        }};
    }
    match op {
        "add" => six!(+),
        "sub" => six!(-),
        "mul" => six!(*),
        "div" => six!(/),
        _ => six!(%),
    }
}

fn one_case(r: &mut Rng, id: usize, out: &mut String) {
    let op = OPS[id % OPS.len()];
    let mal = r.chance(1, 10);
    let n = gen_dim(r, 0);
    let m = gen_dim(r, 0);
    let mut args: Vec<String> = Vec::new();
    let mut res: Vec<String> = Vec::new();
    let mut primary: Option<AffFunc> = None;
    let mut with_pts = true;
    match op {
        "identity" => {
            args.push(a_n(n));
            let (s, a) = rf("r", || AffFunc::identity(n));
            res.push(s);
            primary = a;
        }
        "zeros" => {
            args.push(a_n(n));
            let (s, a) = rf("r", || AffFunc::zeros(n));
            res.push(s);
            primary = a;
        }
        "constant" => {
            let v = gen_coef(r, 16);
            args.push(a_n(n));
            args.push(a_q(v));
            let (s, a) = rf("r", || AffFunc::constant(n, v));
            res.push(s);
            primary = a;
        }
        "unit" | "zero_idx" => {
            let i = if mal || n == 0 { n + r.below(2) } else { r.below(n) };
            args.push(a_n(n));
            args.push(a_n(i));
            let (s, a) = rf("r", || if op == "unit" { AffFunc::unit(n, i) } else { AffFunc::zero_idx(n, i) });
            res.push(s);
            primary = a;
        }
        "sum" => {
            args.push(a_n(n));
            let (s, a) = rf("r", || AffFunc::sum(n));
            res.push(s);
            primary = a;
        }
        "subtraction" => {
            let l = if mal || n == 0 { n + r.below(2) } else { r.below(n) };
            let rr = if n == 0 {
                r.below(2)
            } else if r.chance(1, 4) && l < n {
                l
            } else {
                r.below(n)
            };
            args.push(a_n(n));
            args.push(a_n(l));
            args.push(a_n(rr));
            let (s, a) = rf("r", || AffFunc::subtraction(n, l, rr));
            res.push(s);
            primary = a;
        }
        "rotation" => {
            let c = if mal { other_dim(r, n) } else { n };
            let mt = gen_mat(r, n, c, 8);
            args.push(a_m(&mt));
            let (s, a) = rf("r", || AffFunc::rotation(mt.clone()));
            res.push(s);
            primary = a;
        }
        "scaling" => {
            let v = gen_vec(r, n, 8);
            args.push(a_v(&v));
            let (s, a) = rf("r", || AffFunc::scaling(&v));
            res.push(s);
            primary = a;
        }
        "uniform_scaling" => {
            let v = gen_coef(r, 16);
            args.push(a_n(n));
            args.push(a_q(v));
            let (s, a) = rf("r", || AffFunc::uniform_scaling(n, v));
            res.push(s);
            primary = a;
        }
        "slice" => {
            let mut v = gen_vec(r, n, 8);
            for x in v.iter_mut() {
                if r.chance(1, 2) {
                    *x = f64::NAN;
                }
            }
            args.push(format!("(ov {})", sx_vec(&v)));
            let (s, a) = rf("r", || AffFunc::slice(&v));
            res.push(s);
            primary = a;
        }
        "translation" => {
            let k = if mal { other_dim(r, n) } else { n };
            let v = gen_vec(r, k, 8);
            args.push(a_n(n));
            args.push(a_v(&v));
            let (s, a) = rf("r", || AffFunc::translation(n, v.clone()));
            res.push(s);
            primary = a;
        }
        "compose" => {
            let k = gen_dim(r, 0);
            let mut f = gen_aff(r, m, n, 8);
            let gm = if mal { other_dim(r, n) } else { n };
            let mut g = gen_aff(r, gm, k, 8);
            // the shapes an implementation is tempted to shortcut: an inner / outer map whose MATRIX is the identity
            // (a translation: the bias still matters), a zero matrix, a signed permutation
            if !mal && r.chance(1, 4) {
                g = structured_aff(r, n);
            }
            if !mal && r.chance(1, 8) {
                f = structured_aff(r, n);
                if g.outdim() != n {
                    g = gen_aff(r, n, k, 8);
                }
            }
            if r.chance(1, 5) {
                // very different magnitudes, every product exact (see common::gen_aff_selection)
                g = gen_aff_selection(r, gm, k);
                widen(r, &mut f);
                // apply() on such a map rounds in f64: the coefficients are compared, not sample values
                with_pts = false;
            }
            args.push(sx_aff(&f));
            args.push(sx_aff(&g));
            let (s, a) = rf("ref", || f.compose(&g));
            let (s2, _) = rf("view", || f.view().compose(&g.view()));
            res.push(s);
            res.push(s2);
            primary = a;
        }
        "stack" => {
            let k = gen_dim(r, 0);
            let f = gen_aff(r, m, n, 8);
            let gn = if mal { other_dim(r, n) } else { n };
            let g = gen_aff(r, k, gn, 8);
            args.push(sx_aff(&f));
            args.push(sx_aff(&g));
            let (s, a) = rf("ref", || f.stack(&g));
            let (s2, _) = rf("view", || f.view().stack(&g.view()));
            res.push(s);
            res.push(s2);
            primary = a;
        }
        "add" | "sub" | "mul" | "div" | "rem" => {
            let f = gen_aff(r, m, n, 8);
            let (gm, gn) = if mal {
                // any other shape: may or may not co-broadcast
                (if r.chance(1, 2) { other_dim(r, m) } else { m }, if r.chance(1, 2) { other_dim(r, n) } else { n })
            } else {
                (m, n)
            };
            let g = if op == "div" || op == "rem" {
                let p2 = op == "div" && r.chance(1, 2);
                if r.chance(1, 8) { gen_aff(r, gm, gn, 8) } else { gen_aff_nz(r, gm, gn, p2) }
            } else {
                gen_aff(r, gm, gn, 8)
            };
            args.push(sx_aff(&f));
            args.push(sx_aff(&g));
            let (v, a) = binop_variants(op, &f, &g);
            res = v;
            primary = a;
            with_pts = op != "div";
        }
        "neg" | "negate" => {
            let f = gen_aff(r, m, n, 8);
            args.push(sx_aff(&f));
            if op == "neg" {
                let (s1, a) = rf("own", || -f.clone());
                let (s2, _) = rf("ref", || -&f);
                let (s3, _) = rf("refview", || -&f.view());
                res = vec![s1, s2, s3];
                primary = a;
            } else {
                let (s1, a) = rf("own", || f.clone().negate());
                res.push(s1);
                primary = a;
            }
        }
        "row" => {
            let f = gen_aff(r, m, n, 8);
            let i = if mal || m == 0 { m + r.below(2) } else { r.below(m) };
            args.push(sx_aff(&f));
            args.push(a_n(i));
            let (s1, a) = rf("func", || f.row(i).to_owned());
            let s2 = rp("poly", || f.as_polytope().row(i).to_owned());
            let (s3, _) = rf("view", || f.view().row(i).to_owned());
            res = vec![s1, s2, s3];
            primary = a;
        }
        "row_iter" => {
            let f = gen_aff(r, m, n, 8);
            args.push(sx_aff(&f));
            res.push(rl("func", || f.row_iter().map(|x| x.to_owned()).collect()));
            res.push(rl("view", || f.view().row_iter().map(|x| x.to_owned()).collect()));
            with_pts = false;
        }
        "remove_rows" => {
            let f = gen_aff(r, m, n, 8);
            let mut idx: Vec<usize> = (0..m).filter(|_| r.chance(1, 3)).collect();
            if mal {
                match r.below(3) {
                    0 => idx.push(m + r.below(2)),
                    1 => idx.reverse(),
                    _ => {
                        if let Some(&l) = idx.last() {
                            idx.push(l)
                        } else {
                            idx.push(m)
                        }
                    }
                }
            }
            args.push(sx_aff(&f));
            args.push(a_idx(&idx));
            let (s1, a) = rf("func", || f.remove_rows(idx.clone()));
            let s2 = rp("poly", || f.as_polytope().remove_rows(idx.clone()));
            let (s3, _) = rf("view", || f.view().remove_rows(idx.clone()));
            res = vec![s1, s2, s3];
            if !mal {
                // the same indices through iterators whose size hint is only an upper bound
                let (s4, _) = rf("filter_iter", || f.remove_rows((0..m).filter(|i| idx.contains(i))));
                let s5 = rp("poly_filter_iter", || f.as_polytope().remove_rows((0..m + 3).filter(|i| idx.contains(i))));
                res.push(s4);
                res.push(s5);
            }
            primary = a;
        }
        "remove_zero_rows" | "remove_zero_columns" => {
            let mut f = gen_aff(r, m, n, 8);
            // zero out some rows / columns (and sometimes everything)
            let all = r.chance(1, 6);
            for i in 0..m {
                if all || r.chance(1, 3) {
                    f.mat.row_mut(i).fill(0.0);
                    if r.chance(2, 3) {
                        f.bias[i] = if r.chance(1, 4) { -0.0 } else { 0.0 };
                    }
                }
            }
            for j in 0..n {
                if all || r.chance(1, 3) {
                    f.mat.column_mut(j).fill(0.0);
                }
            }
            // a row is a zero row when all its coefficients are zero -- not when some aggregate of coefficients and
            // bias happens to vanish: rows whose bias cancels the sum of the absolute coefficients (x0 - 1, x0 + x1 - 2)
            if !all && m > 0 && n > 0 && r.chance(1, 3) {
                let i = r.below(m);
                let sa: f64 = f.mat.row(i).iter().map(|v| v.abs()).sum();
                if sa != 0.0 {
                    f.bias[i] = if r.chance(3, 4) { -sa } else { sa };
                }
            }
            // rows / columns that are tiny but not zero (their squares underflow) are not zero rows / columns
            if !all && r.chance(1, 4) {
                with_pts = false; // apply() rounds on such a map: decided on the coefficients
                let tiny = 2f64.powi(-600);
                if m > 0 && n > 0 {
                    if r.chance(1, 2) {
                        let i = r.below(m);
                        for j in 0..n {
                            f.mat[[i, j]] = if r.chance(1, 3) { -tiny } else { tiny };
                        }
                        f.bias[i] = 0.0;
                    } else {
                        let j = r.below(n);
                        for i in 0..m {
                            f.mat[[i, j]] = if r.chance(1, 3) { -tiny } else { tiny };
                        }
                    }
                }
            }
            args.push(sx_aff(&f));
            let zr = op == "remove_zero_rows";
            let (s1, a) = rf("func", || if zr { f.remove_zero_rows() } else { f.remove_zero_columns() });
            let s2 = rp("poly", || if zr { f.as_polytope().remove_zero_rows() } else { f.as_polytope().remove_zero_columns() });
            let (s3, _) = rf("view", || if zr { f.view().remove_zero_rows() } else { f.view().remove_zero_columns() });
            res = vec![s1, s2, s3];
            primary = a;
        }
        "from_row_iter" => {
            let cnt = if mal && m > 0 { r.below(m) } else { m + r.below(2) };
            let rows: Vec<(Array1<f64>, f64)> = (0..cnt)
                .map(|_| {
                    let len = if mal && r.chance(1, 2) { [1, other_dim(r, n)][r.below(2)] } else { n };
                    (gen_vec(r, len, 8), gen_coef(r, 8))
                })
                .collect();
            let rs: Vec<String> = rows.iter().map(|(v, b)| format!("(r {} {})", sx_vec(v), fx(*b))).collect();
            args.push(a_n(n));
            args.push(a_n(m));
            args.push(format!("(rows {})", rs.join(" ")));
            let (s1, a) = rf("func", || AffFunc::from_row_iter(n, m, rows.iter().map(|(v, b)| (v.view(), b))));
            let s2 = rp("poly", || Polytope::from_row_iter(n, m, rows.iter().map(|(v, b)| (v.clone(), b))));
            res = vec![s1, s2];
            primary = a;
        }
        "from_mats" => {
            let mt = gen_mat(r, m, n, 8);
            let bl = if mal { other_dim(r, m) } else { m };
            let b = gen_vec(r, bl, 8);
            args.push(a_m(&mt));
            args.push(a_v(&b));
            let (s1, a) = rf("func", || AffFunc::from_mats(mt.clone(), b.clone()));
            let s2 = rp("poly", || Polytope::from_mats(mt.clone(), b.clone()));
            res = vec![s1, s2];
            primary = a;
        }
        "view" | "to_owned" => {
            let f = gen_aff(r, m, n, 8);
            args.push(sx_aff(&f));
            let (s1, a) = rf("func", || if op == "view" { f.view().to_owned() } else { f.to_owned() });
            let s2 = rp("poly", || if op == "view" { f.as_polytope().view().to_owned() } else { f.as_polytope().to_owned() });
            let (s3, _) = rf("viewview", || f.view().view().to_owned());
            res = vec![s1, s2, s3];
            primary = a;
        }
        "as_polytope" => {
            let f = gen_aff(r, m, n, 8);
            args.push(sx_aff(&f));
            res.push(rp("own", || f.as_polytope()));
            res.push(rp("view", || f.view().as_polytope().to_owned()));
            with_pts = false;
        }
        "as_function" | "poly_new" => {
            let f = gen_aff(r, m, n, 8);
            args.push(sx_aff(&f));
            let p = Polytope::from_mats(f.mat.clone(), f.bias.clone());
            if op == "as_function" {
                let (s1, a) = rf("own", || p.as_function());
                let (s2, _) = rf("view", || p.view().as_function().to_owned());
                res = vec![s1, s2];
                primary = a;
            } else {
                res.push(rp("own", || Polytope::new(f.clone())));
                res.push(rp("view", || PolytopeViewNew::mk(&f)));
                with_pts = false;
            }
        }
        "convert_leq" | "convert_biasleq0" | "convert_geq" | "convert_biasgeq0" => {
            let f = gen_aff(r, m, n, 8);
            args.push(sx_aff(&f));
            let p = Polytope::from_mats(f.mat.clone(), f.bias.clone());
            let repr = match op {
                "convert_leq" => PolyRepr::MatrixLeqBias,
                "convert_biasleq0" => PolyRepr::MatrixBiasLeqZero,
                "convert_geq" => PolyRepr::MatrixGeqBias,
                _ => PolyRepr::MatrixBiasGeqZero,
            };
            let (s1, a) = rf("r", || p.clone().convert_to(repr));
            res.push(s1);
            primary = a;
        }
        "apply_transpose" => {
            // mat.T (y - bias); a third of the functions are signed permutations + offset (orthogonal: the inverse),
            // then y = f(x) for a lattice point x; malformed: y of another length (a 1-entry y is broadcast by ndarray)
            let orth = r.chance(1, 3) && !mal;
            let f = if orth {
                let mut mt = Array2::<f64>::zeros((n, n));
                let mut perm: Vec<usize> = (0..n).collect();
                for i in (1..n).rev() {
                    let j = r.below(i + 1);
                    perm.swap(i, j);
                }
                for i in 0..n {
                    mt[[i, perm[i]]] = if r.chance(1, 2) { 1.0 } else { -1.0 };
                }
                AffFunc::from_mats(mt, gen_point(r, n))
            } else {
                gen_aff(r, m, n, 8)
            };
            let mo = f.outdim();
            let y = if orth {
                f.apply(&gen_point(r, n))
            } else {
                let len = if mal { other_dim(r, mo) } else { mo };
                gen_point(r, len)
            };
            args.push(sx_aff(&f));
            args.push(a_v(&y));
            args.push(a_n(orth as usize));
            res.push(match catch(AssertUnwindSafe(|| f.apply_transpose(&y))) {
                Ok(v) => format!("(own ok {})", sx_vec(&v)),
                Err(_) => "(own panic -)".to_string(),
            });
            res.push(match catch(AssertUnwindSafe(|| f.view().apply_transpose(&y.view()))) {
                Ok(v) => format!("(view ok {})", sx_vec(&v)),
                Err(_) => "(view panic -)".to_string(),
            });
            with_pts = false;
        }
        "reset_row" => {
            let f = gen_aff(r, m, n, 8);
            let i = if mal || m == 0 { m + r.below(2) } else { r.below(m) };
            args.push(sx_aff(&f));
            args.push(a_n(i));
            let (s1, a) = rf("r", || {
                let mut g = f.clone();
                g.reset_row(i);
                g
            });
            res.push(s1);
            primary = a;
        }
        _ => {
            // "apply": a function and inputs of right and wrong lengths
            let f = gen_aff(r, m, n, 8);
            args.push(sx_aff(&f));
            let (s1, a) = rf("r", || f.clone());
            res.push(s1);
            primary = a;
        }
    }
    let pts = pts_of(r, &primary, with_pts);
    out.push_str(&format!("(case {} {} (args {}) (res {}) {})\n", id, op, args.join(" "), res.join(" "), pts));
}

/// Polytope::new on a view (D = ViewRepr)
struct PolytopeViewNew;
impl PolytopeViewNew {
    fn mk(f: &AffFunc) -> Polytope {
        affinitree::linalg::affine::PolytopeView::new(f.view()).to_owned()
    }
}

fn main() {
    silence_panics();
    let argv: Vec<String> = std::env::args().collect();
    let args = &parse_args(&argv[1..]);
    let mut r = Rng::new(args.seed ^ 0xC16);
    let mut out = String::new();
    for id in 0..args.n {
        let mut cr = r.fork();
        guard(id, &mut out, |out| one_case(&mut cr, id, out));
        if out.len() > 1 << 20 {
            print!("{}", out);
            out.clear();
        }
    }
    print!("{}", out);
}

// Pruning family (C03, C05, C06, C11): infeasible_elimination, pruned composition, fault injection.
// Uses the cfg(affinitree_verif) hook in /repo to log (and override) LP / mirror_points calls.
#[path = "../common.rs"]
mod common;
use affinitree::distill::schema;
use affinitree::linalg::affine::{AffFunc, Polytope};
use affinitree::linalg::polyhedron::PolytopeStatus;
use affinitree::linalg::verif_hook::{self, Event, Fault};
use affinitree::pwl::afftree::AffTree;
use common::*;
use ndarray::{Array1, Array2};
use std::collections::HashMap;
use std::panic::AssertUnwindSafe;

fn sx_status(s: &PolytopeStatus) -> String {
    match s {
        PolytopeStatus::Infeasible => "infeasible".to_string(),
        PolytopeStatus::Unbounded => "unbounded".to_string(),
        PolytopeStatus::Optimal(w) => format!("(optimal {})", sx_vec(w)),
        PolytopeStatus::Error(_) => "error".to_string(),
    }
}
fn sx_fault(f: &Option<Fault>) -> String {
    match f {
        None => "-".to_string(),
        Some(Fault::Error) => "error".to_string(),
        Some(Fault::Unbounded) => "unbounded".to_string(),
        Some(Fault::Perturbed(d)) => if d.is_finite() { "perturbed".to_string() } else { "perturbed-nonfinite".to_string() },
        Some(Fault::FarOff) => "faroff".to_string(),
    }
}
fn sx_log(log: &[Event]) -> String {
    let mut s = String::from("(log");
    for e in log {
        match e {
            Event::Lp { poly, coeffs, status, fault } => {
                s.push_str(&format!(" (lp {} {} {} {})", sx_poly(poly), sx_vec(coeffs), sx_status(status), sx_fault(fault)));
            }
            Event::Mirror { poly, points, n_iterations, result } => {
                let r = match result {
                    None => "none".to_string(),
                    Some((m, it)) => format!("(some {} {})", sx_mat(&m.t().to_owned()), it),
                };
                s.push_str(&format!(" (mir {} {} {} {})", sx_poly(poly), sx_mat(&points.t().to_owned()), n_iterations, r));
            }
        }
    }
    s.push(')');
    s
}

/// random tree in low dimension: many infeasible paths arise by themselves; duplicate / parallel predicates planted
fn gen_elim_tree(r: &mut Rng, total: bool) -> AffTree<2> {
    // (input dimension 0 once in a while: every predicate is a constant, every LP has no variables)
    let n = if r.chance(1, 16) { 0 } else { 1 + r.below(3) };
    let m = 1 + r.below(2);
    let cfg = TreeCfg {
        depth: 1 + r.below(4),
        partial_pct: if total || r.chance(1, 2) { 0 } else { 25 },
        early_leaf_pct: 15,
        maxk: 4,
        term_pool: 0,
    };
    let mut t: AffTree<2> = if r.chance(1, 2) { gen_tree(r, n, m, cfg) } else { gen_tree_holes(r, n, m, cfg, 2) };
    // plant duplicates of an ancestor predicate (zero-width / contradictory paths) in some decisions
    let decs: Vec<usize> = t.tree.decision_indices().collect();
    for d in decs {
        if d != t.tree.get_root_idx() && r.chance(1, 4) {
            let path = t.tree.path_to_node(d).unwrap();
            let (anc, _) = path[r.below(path.len())];
            let mut f = t.tree.node_value(anc).unwrap().aff.clone();
            match r.below(3) {
                0 => {}
                1 => f = -f,
                _ => f.bias[0] += (r.range(-2, 2) as f64) / 2.0,
            }
            t.update_node(d, f).unwrap();
        }
    }
    t
}

/// un-pruned composition pipeline of affine maps and partial ReLUs (a total tree), optionally with
/// eliminations in between so that later rounds start from cached states
fn gen_pipeline(r: &mut Rng) -> AffTree<2> {
    let n = 1 + r.below(2);
    let w = 1 + r.below(3);
    let mut t = AffTree::<2>::from_aff(gen_aff(r, w, n, 4));
    let rounds = 1 + r.below(4);
    let mut width = w;
    for k in 0..rounds {
        // a step that panics (only possible on a modified library) ends the pipeline with the tree as it was before
        // that step: if the step was an elimination, the case built from this tree reproduces the panic
        let snapshot = t.clone();
        let step = catch(AssertUnwindSafe(|| {
            let mut t = t.clone();
            let mut width = width;
            let row = r.below(width);
            match r.below(5) {
                4 => {
                    // an operand that went through an elimination of its own: its nodes carry cached states and
                    // witnesses of ITS input space, which say nothing about the composed tree
                    let w2 = 1 + r.below(2);
                    let mut op = AffTree::<2>::from_aff(gen_aff(r, w2, width, 3));
                    op.compose::<false, false>(&schema::partial_ReLU(w2, r.below(w2)));
                    if r.chance(1, 2) {
                        op.compose::<false, false>(&schema::partial_ReLU(w2, r.below(w2)));
                    }
                    op.infeasible_elimination();
                    t.compose::<false, false>(&op);
                    width = w2;
                }
                0 => t.compose::<false, false>(&schema::partial_leaky_ReLU(width, row, 0.5)),
                1 => t.compose::<false, false>(&schema::partial_hard_tanh(width, row, -1.0, 1.0)),
                _ => t.compose::<false, false>(&schema::partial_ReLU(width, row)),
            }
            (t, width)
        }));
        match step {
            Ok((t2, w2)) => {
                t = t2;
                width = w2;
            }
            Err(_) => return snapshot,
        }
        if k + 1 < rounds && r.chance(1, 3) {
            let before_elim = t.clone();
            if catch(AssertUnwindSafe(|| t.infeasible_elimination())).is_err() {
                return before_elim;
            }
            // nodes may hold several witnesses (the field is public): add further points of their own region
            if r.chance(1, 2) {
                enrich_witnesses(r, &mut t);
            }
            // dropping an input axis keeps the tree total and must reset every cached state
            if t.in_dim() >= 2 && r.chance(1, 5) {
                let n = t.in_dim();
                let drop = r.below(n);
                let mask = Array1::from_iter((0..n).map(|i| i != drop));
                let before = t.clone();
                match catch(AssertUnwindSafe(|| t.remove_axes(&mask))) {
                    Ok(Ok(())) => {}
                    _ => return before,
                }
            }
        }
        if r.chance(1, 3) {
            let w2 = 1 + r.below(3);
            let f = gen_aff(r, w2, width, 3);
            let before = t.clone();
            if catch(AssertUnwindSafe(|| t.apply_func(&f))).is_err() {
                return before;
            }
            width = w2;
        }
    }
    t
}

/// appends to every FeasibleWitness list further lattice points that satisfy all path conditions of the node exactly
fn enrich_witnesses(r: &mut Rng, t: &mut AffTree<2>) {
    use affinitree::pwl::node::NodeState;
    let n = t.in_dim();
    let idxs: Vec<usize> = t.tree.node_indices().collect();
    for i in idxs {
        if !matches!(t.tree.node_value(i).unwrap().state, NodeState::FeasibleWitness(_)) {
            continue;
        }
        let path = match t.tree.path_to_node(i) {
            Ok(p) => p,
            Err(_) => continue,
        };
        let rows: Vec<(Array1<f64>, f64, bool)> = path
            .iter()
            .map(|(nd, label)| {
                let a = &t.tree.node_value(*nd).unwrap().aff;
                (a.mat.row(0).to_owned(), a.bias[0], *label == 1)
            })
            .collect();
        let mut extra = Vec::new();
        for _ in 0..6 {
            let x = gen_point(r, n);
            let ok = rows.iter().all(|(a, b, pos)| {
                let v = a.dot(&x);
                if *pos { v <= *b } else { v >= *b }
            });
            if ok {
                extra.push(x);
            }
        }
        if let NodeState::FeasibleWitness(ws) = &mut t.tree.node_value_mut(i).unwrap().state {
            ws.extend(extra);
        }
    }
}

fn run_elim(t: &AffTree<2>, plan: HashMap<usize, Fault>) -> (Result<(AffTree<2>, String), String>, Vec<Event>) {
    let mut h = t.clone();
    verif_hook::start(plan);
    let res = catch(AssertUnwindSafe(|| {
        let c = h.infeasible_elimination();
        format!(
            "(counter {} {} {} {} {} {} {} {} {})",
            c.nodes_checked,
            c.cached_state,
            c.skipped_nodes,
            c.parent_sol_inherited,
            c.mirror_iter.len(),
            c.lps_solved,
            c.lps_feasible,
            c.lps_infeasible,
            c.lps_error
        )
    }));
    let log = verif_hook::stop();
    (res.map(|c| (h, c)), log)
}

fn case_elim(r: &mut Rng, id: usize, total_only: bool, out: &mut String) {
    // C06 only: one case in eight is a freshly distilled network (no argmax / class head): the builder eliminates after
    // every activation, so the tree it returns must already be a fixed point of the elimination
    if total_only && r.chance(1, 8) {
        if let Some(t) = gen_distilled(r) {
            return case_elim_on(r, id, "distilled", t, out);
        }
    }
    // a random (possibly partial) tree that already went through an elimination -- so it may hold a node that is marked
    // Infeasible and was kept as the last remaining child -- and then received a further layer: the second elimination
    // starts from these cached states
    if !total_only && r.chance(1, 5) {
        let mut t = if r.chance(1, 2) { gen_elim_tree(r, false) } else { gen_last_child_tree(r) };
        let before = t.clone();
        if catch(AssertUnwindSafe(|| t.infeasible_elimination())).is_err() {
            return case_elim_on(r, id, "random", before, out);
        }
        let m = t.terminals().map(|x| x.aff.outdim()).next().unwrap_or(1);
        let snapshot = t.clone();
        let layer = if r.chance(1, 2) { schema::partial_ReLU(m, r.below(m)) } else { schema::partial_hard_tanh(m, r.below(m), -1.0, 1.0) };
        if catch(AssertUnwindSafe(|| t.compose::<false, false>(&layer))).is_err() {
            t = snapshot;
        }
        return case_elim_on(r, id, "rehist", t, out);
    }
    let pipeline = r.chance(2, 5);
    let t = if pipeline { gen_pipeline(r) } else { gen_elim_tree(r, total_only) };
    case_elim_on(r, id, if pipeline { "pipeline" } else { "random" }, t, out)
}
/// root: x_j <= c.  Under label 0 (x_j >= c) a decision with a single child whose path is empty (x_j <= c - d): the
/// elimination marks that child Infeasible and keeps it, being the last remaining child.  Under label 1 an ordinary
/// subtree, visited later in depth-first order.
fn gen_last_child_tree(r: &mut Rng) -> AffTree<2> {
    let n = 1 + r.below(2);
    let m = 1 + r.below(2);
    let j = r.below(n);
    let c = (r.range(-4, 4) as f64) / 2.0;
    let d = (1 + r.below(4)) as f64 / 2.0;
    let mut row = Array2::<f64>::zeros((1, n));
    row[[0, j]] = 1.0;
    let mut t = AffTree::<2>::from_aff(AffFunc::from_mats(row.clone(), Array1::from(vec![c])));
    let d1 = t.add_child_node(0, 0, AffFunc::from_mats(row.clone(), Array1::from(vec![c - d]))).unwrap();
    let lab = 1;
    t.add_child_node(d1, lab, gen_aff(r, m, n, 4)).unwrap();
    // the other side: a terminal or a small decision
    if r.chance(1, 2) {
        t.add_child_node(0, 1, gen_aff(r, m, n, 4)).unwrap();
    } else {
        let d2 = t.add_child_node(0, 1, gen_dec(r, 1, n, 4)).unwrap();
        t.add_child_node(d2, 0, gen_aff(r, m, n, 4)).unwrap();
        t.add_child_node(d2, 1, gen_aff(r, m, n, 4)).unwrap();
    }
    t
}
fn case_elim_on(r: &mut Rng, id: usize, gen: &str, t: AffTree<2>, out: &mut String) {
    let before = sx_tree(&t);
    let (res, log) = run_elim(&t, HashMap::new());
    match res {
        Ok((h, counter)) => {
            let (res2, _log2) = run_elim(&h, HashMap::new());
            let second = match res2 {
                Ok((h2, c2)) => format!("{} {}", sx_tree(&h2), c2),
                Err(_) => "panic -".to_string(),
            };
            let pts = sx_points(r, &h, 4);
            out.push_str(&format!("(case {} elim {} {} ok {} {} {} {} {})\n", id, gen, before, sx_tree(&h), counter, sx_log(&log), second, pts));
        }
        Err(_) => {
            out.push_str(&format!("(case {} elim {} {} panic - - {} - - (pts ))\n", id, gen, before, sx_log(&log)));
        }
    }
}
/// a small network distilled by the library itself (activations only, every kind)
fn gen_distilled(r: &mut Rng) -> Option<AffTree<2>> {
    use affinitree::distill::builder::{afftree_from_layers, Layer};
    let n = 1 + r.below(2);
    let mut layers: Vec<Layer> = Vec::new();
    let mut cur = n;
    for _ in 0..(1 + r.below(2)) {
        let w = 1 + r.below(3);
        layers.push(Layer::Linear(gen_aff(r, w, cur, 4)));
        cur = w;
        for i in 0..cur {
            if r.chance(2, 3) {
                layers.push(match r.below(5) {
                    0 => Layer::LeakyReLU(i, 0.5),
                    1 => Layer::HardTanh(i),
                    2 => Layer::HardSigmoid(i),
                    _ => Layer::ReLU(i),
                });
            }
        }
    }
    if r.chance(1, 3) {
        let w = 1 + r.below(2);
        layers.push(Layer::Linear(gen_aff(r, w, cur, 4)));
    }
    catch(AssertUnwindSafe(|| afftree_from_layers(n, &layers, None))).ok()
}

fn gen_single_child_tree(r: &mut Rng, m: usize, k: usize) -> AffTree<2> {
    fn axis_dec(r: &mut Rng, m: usize) -> AffFunc {
        let mut a = Array2::<f64>::zeros((1, m));
        a[[0, r.below(m)]] = if r.chance(1, 2) { 1.0 } else { -1.0 };
        AffFunc::from_mats(a, Array1::from(vec![r.range(-2, 2) as f64]))
    }
    let mut t = AffTree::<2>::from_aff(axis_dec(r, m));
    let mut frontier = vec![(0usize, 1usize)];
    while let Some((idx, d)) = frontier.pop() {
        let both = r.chance(1, 4);
        let only = r.below(2);
        for label in 0..2 {
            if !both && label != only {
                continue;
            }
            if d >= 3 || r.chance(1, 2) {
                t.add_child_node(idx, label, gen_aff(r, k, m, 4)).unwrap();
            } else {
                let c = t.add_child_node(idx, label, axis_dec(r, m)).unwrap();
                frontier.push((c, d + 1));
            }
        }
    }
    t
}
/// a left operand whose decisions bound single coordinates and whose terminals are (signed) coordinate selections,
/// so that the thresholds of gen_single_child_tree meet the path bounds
fn gen_axis_tree(r: &mut Rng, n: usize) -> AffTree<2> {
    let mut root = Array2::<f64>::zeros((1, n));
    root[[0, r.below(n)]] = if r.chance(1, 2) { 1.0 } else { -1.0 };
    let mut t = AffTree::<2>::from_aff(AffFunc::from_mats(root, Array1::from(vec![r.range(-2, 2) as f64])));
    let mut frontier = vec![(0usize, 1usize)];
    while let Some((idx, d)) = frontier.pop() {
        for label in 0..2 {
            if r.chance(1, 8) {
                continue;
            }
            if d >= 2 || r.chance(1, 2) {
                t.add_child_node(idx, label, AffFunc::identity(n)).unwrap();
            } else {
                let mut a = Array2::<f64>::zeros((1, n));
                a[[0, r.below(n)]] = if r.chance(1, 2) { 1.0 } else { -1.0 };
                let c = t.add_child_node(idx, label, AffFunc::from_mats(a, Array1::from(vec![r.range(-2, 2) as f64]))).unwrap();
                frontier.push((c, d + 1));
            }
        }
        if t.tree.children(idx).count() == 0 {
            t.add_child_node(idx, 1, AffFunc::identity(n)).unwrap();
        }
    }
    t
}

fn case_cprune(r: &mut Rng, id: usize, out: &mut String) {
    // pruned vs unpruned composition; left operand possibly with cached states from an earlier elimination
    let targeted = r.chance(1, 3);
    let mut f = if targeted {
        let n = 1 + r.below(2);
        gen_axis_tree(r, n)
    } else if r.chance(1, 2) {
        gen_pipeline(r)
    } else {
        gen_elim_tree(r, false)
    };
    if r.chance(1, 3) {
        f.infeasible_elimination();
    }
    // half of the targeted cases: the receiver went through an earlier PRUNED composition with a deep axis tree, after
    // which the caller replaced the sub-tree grafted below the terminal that was processed LAST by a new terminal
    // (replace_node); the measured composition then uses a partial operand whose root has a single child.  Whatever
    // a pruning step remembers about the first run by node index (path conditions, edges) is stale now.
    if targeted && r.chance(1, 2) {
        let snapshot = f.clone();
        let n = f.in_dim();
        let g0 = gen_axis_tree(r, n);
        let last = f.tree.terminal_indices().max().unwrap();
        let ok = catch(AssertUnwindSafe(|| f.compose::<true, false>(&g0))).is_ok();
        if ok && f.tree.contains(last) && f.tree.get_root_idx() != last {
            let shift = Array1::from_iter((0..n).map(|_| r.range(-3, 3) as f64));
            let _ = f.replace_node(last, AffFunc::from_mats(Array2::eye(n), shift)).unwrap();
        } else if !ok {
            f = snapshot;
        }
    }
    // one case in four: the receiver has a longer history -- an earlier PRUNED composition, after which the caller
    // replaced one decision below the root (replace_node: the subtree goes, a new node with a fresh state arrives, most
    // often under the index just freed) and gave it two terminals.  Everything a later pruning may rely on is still
    // valid; anything that remembers the tree of the first composition by node index is not.
    if !targeted && r.chance(1, 4) {
        let snapshot = f.clone();
        let m0 = f.terminals().map(|x| x.aff.outdim()).next().unwrap();
        let g0 = if r.chance(1, 2) { schema::partial_ReLU(m0, r.below(m0)) } else { schema::partial_hard_tanh(m0, r.below(m0), -1.0, 1.0) };
        let ok = catch(AssertUnwindSafe(|| f.compose::<true, false>(&g0))).is_ok();
        let root = f.tree.get_root_idx();
        let decs: Vec<usize> = f.tree.decision_indices().filter(|d| *d != root).collect();
        if ok && !decs.is_empty() {
            let d = decs[r.below(decs.len())];
            let n = f.in_dim();
            let mo = f.terminals().map(|x| x.aff.outdim()).next().unwrap();
            let idx = f.replace_node(d, gen_dec(r, 1, n, 4)).unwrap();
            for l in 0..2 {
                f.add_child_node(idx, l, gen_aff(r, mo, n, 4)).unwrap();
            }
        } else if !ok {
            f = snapshot;
        }
    }
    let m = f.terminals().map(|x| x.aff.outdim()).next().unwrap();
    let k = 1 + r.below(2);
    let cfg = TreeCfg { depth: r.below(3), partial_pct: if r.chance(1, 2) { 0 } else { 25 }, early_leaf_pct: 20, maxk: 4, term_pool: 0 };
    let g: AffTree<2> = if targeted {
        gen_single_child_tree(r, m, k)
    } else {
        match r.below(4) {
            0 => schema::partial_ReLU(m, r.below(m)),
            1 if m >= 2 => schema::argmax(m),
            _ => gen_tree(r, m, k, cfg),
        }
    };
    // the argument tree may carry a warm cache of its own (it went through an elimination): its states and witnesses
    // belong to ITS paths and must not travel into the result
    let mut g = g;
    if r.chance(1, 3) {
        let _ = catch(AssertUnwindSafe(|| g.infeasible_elimination()));
    }
    let mut h0 = f.clone();
    let unpruned = catch(AssertUnwindSafe(|| h0.compose::<false, false>(&g)));
    let mut h1 = f.clone();
    verif_hook::start(HashMap::new());
    let pruned = catch(AssertUnwindSafe(|| h1.compose::<true, false>(&g)));
    let log = verif_hook::stop();
    let d0 = match unpruned {
        Ok(()) => sx_tree(&h0),
        Err(_) => "panic".to_string(),
    };
    let (d1, pts) = match pruned {
        Ok(()) => (sx_tree(&h1), sx_points(r, &h1, 4)),
        Err(_) => ("panic".to_string(), "(pts )".to_string()),
    };
    out.push_str(&format!("(case {} cprune {} {} {} {} {} {})\n", id, sx_tree(&f), sx_tree(&g), d0, d1, sx_log(&log), pts));
}

// x-kprune begin ---------------------------------------------------------------------------------------------------
/// K = 4 tree over R^n whose decisions hold one or two axis rows (+-x_j <= c): the four edges of a two-row node are the
/// quadrants of a corner, so below a terminal of the receiver three of them are often infeasible (the node is
/// forwarded).  `partial_pct`: probability (in 1/100) that a child slot stays empty.
fn gen_axis_tree4(r: &mut Rng, n: usize, depth: usize, partial_pct: u32, term: &mut dyn FnMut(&mut Rng) -> AffFunc) -> AffTree<4> {
    fn axis_dec(r: &mut Rng, n: usize) -> (AffFunc, usize) {
        // mostly two rows: only then can a slot be empty although its region is not
        let rows = if r.chance(1, 4) { 1 } else { 2 };
        let mut a = Array2::<f64>::zeros((rows, n));
        let mut b = Array1::<f64>::zeros(rows);
        for i in 0..rows {
            a[[i, r.below(n)]] = if r.chance(1, 2) { 1.0 } else { -1.0 };
            b[i] = r.range(-2, 2) as f64;
        }
        (AffFunc::from_mats(a, b), rows)
    }
    if depth == 0 {
        return AffTree::<4>::from_aff(term(r));
    }
    let (p, rows) = axis_dec(r, n);
    let mut t = AffTree::<4>::from_aff(p);
    let mut frontier = vec![(0usize, rows, 1usize)];
    while let Some((idx, rows, d)) = frontier.pop() {
        let nlabels = 1usize << rows;
        let mut created = 0;
        for label in 0..nlabels {
            let last = label + 1 == nlabels;
            if r.chance(partial_pct, 100) && !(last && created == 0) {
                continue;
            }
            created += 1;
            if d >= depth || r.chance(1, 3) {
                t.add_child_node(idx, label, term(r)).unwrap();
            } else {
                let (p, rws) = axis_dec(r, n);
                let c = t.add_child_node(idx, label, p).unwrap();
                frontier.push((c, rws, d + 1));
            }
        }
    }
    t
}

/// closed path polytope of node `i` (row k of a predicate holds iff bit k of the label is set)
fn path_rows4(t: &AffTree<4>, i: usize) -> Vec<(Array1<f64>, f64)> {
    let mut rows = Vec::new();
    for (nd, label) in t.tree.path_to_node(i).unwrap() {
        let a = &t.tree.node_value(nd).unwrap().aff;
        for k in 0..a.bias.len() {
            if (label >> k) & 1 == 1 {
                rows.push((a.mat.row(k).to_owned(), a.bias[k]));
            } else {
                rows.push((a.mat.row(k).mapv(|v| -v), -a.bias[k]));
            }
        }
    }
    rows
}

/// cached states on the terminals of a K = 4 receiver (infeasible_elimination is binary only, so they are planted):
/// FeasibleWitness with points of the terminal's own closed region, Feasible where such a point exists, Infeasible
/// where the solver itself finds the closed path polytope empty
fn plant_states4(r: &mut Rng, t: &mut AffTree<4>) {
    use affinitree::pwl::node::NodeState;
    let n = t.in_dim();
    let idxs: Vec<usize> = t.tree.terminal_indices().collect();
    for i in idxs {
        if i == t.tree.get_root_idx() || !r.chance(1, 2) {
            continue;
        }
        let rows = path_rows4(t, i);
        let mut inside = Vec::new();
        for _ in 0..8 {
            let x = gen_point(r, n);
            if rows.iter().all(|(a, b)| a.dot(&x) <= *b) {
                inside.push(x);
            }
        }
        if !inside.is_empty() {
            inside.truncate(1 + r.below(2));
            let st = if r.chance(1, 4) { NodeState::Feasible } else { NodeState::FeasibleWitness(inside) };
            t.tree.node_value_mut(i).unwrap().state = st;
        } else if !rows.is_empty() {
            let mut a = Array2::<f64>::zeros((rows.len(), n));
            let mut b = Array1::<f64>::zeros(rows.len());
            for (k, (row, bias)) in rows.iter().enumerate() {
                a.row_mut(k).assign(row);
                b[k] = *bias;
            }
            if matches!(Polytope::from_mats(a, b).status(), PolytopeStatus::Infeasible) {
                t.tree.node_value_mut(i).unwrap().state = NodeState::Infeasible;
            }
        }
    }
}

/// pruned vs unpruned composition of AffTree<4> operands (two-row predicates, labels 0..3; one-row predicates leave the
/// slots 2, 3 empty); the argument tree is partial quite often: an empty slot must stay undefined, whatever is pruned
/// around it
fn case_kcprune(r: &mut Rng, id: usize, out: &mut String) {
    let targeted = r.chance(2, 3);
    let n = 1 + r.below(2);
    let (mut f, g): (AffTree<4>, AffTree<4>) = if targeted {
        // receiver: axis decisions, identity terminals (the thresholds of g meet the path bounds of f)
        let mut ident = |_: &mut Rng| AffFunc::identity(n);
        let fdepth = r.below(3);
        let fp = if r.chance(1, 2) { 0 } else { 20 };
        let f = gen_axis_tree4(r, n, fdepth, fp, &mut ident);
        let k = 1 + r.below(2);
        let mut term = |r: &mut Rng| gen_aff(r, k, n, 4);
        let gp = [0, 25, 50, 50][r.below(4)];
        let gdepth = 1 + r.below(2);
        (f, gen_axis_tree4(r, n, gdepth, gp, &mut term))
    } else {
        let m = 1 + r.below(2);
        let k = 1 + r.below(2);
        let cf = TreeCfg { depth: r.below(3), partial_pct: if r.chance(1, 2) { 0 } else { 20 }, early_leaf_pct: 20, maxk: 4, term_pool: 0 };
        let cg = TreeCfg { depth: 1 + r.below(2), partial_pct: [0, 25, 50][r.below(3)], early_leaf_pct: 20, maxk: 4, term_pool: 0 };
        (gen_tree::<4>(r, n, m, cf), gen_tree::<4>(r, m, k, cg))
    };
    if r.chance(1, 2) {
        plant_states4(r, &mut f);
    }
    let mut h0 = f.clone();
    let unpruned = catch(AssertUnwindSafe(|| h0.compose::<false, false>(&g)));
    let mut h1 = f.clone();
    verif_hook::start(HashMap::new());
    let pruned = catch(AssertUnwindSafe(|| h1.compose::<true, false>(&g)));
    let log = verif_hook::stop();
    let d0 = match unpruned {
        Ok(()) => sx_tree(&h0),
        Err(_) => "panic".to_string(),
    };
    let (d1, pts) = match pruned {
        Ok(()) => (sx_tree(&h1), sx_points(r, &h1, 4)),
        Err(_) => ("panic".to_string(), "(pts )".to_string()),
    };
    out.push_str(&format!("(case {} kcprune {} {} {} {} {} {})\n", id, sx_tree(&f), sx_tree(&g), d0, d1, sx_log(&log), pts));
}
// x-kprune end -----------------------------------------------------------------------------------------------------

// x-kelim begin ----------------------------------------------------------------------------------------------------
/// cached states on ANY node below the root of a K = 4 tree, all of them sound: FeasibleWitness with points of the node's
/// own closed region, Feasible where such a point exists, Infeasible where the solver itself finds the closed path
/// polytope empty
fn plant_states4_any(r: &mut Rng, t: &mut AffTree<4>, one_in: u32) {
    use affinitree::pwl::node::NodeState;
    let n = t.in_dim();
    let idxs: Vec<usize> = t.tree.node_indices().collect();
    for i in idxs {
        if i == t.tree.get_root_idx() || !r.chance(1, one_in) {
            continue;
        }
        let rows = path_rows4(t, i);
        let mut inside = Vec::new();
        for _ in 0..8 {
            let x = gen_point(r, n);
            if rows.iter().all(|(a, b)| a.dot(&x) <= *b) {
                inside.push(x);
            }
        }
        if !inside.is_empty() {
            inside.truncate(1 + r.below(3));
            let st = if r.chance(1, 4) { NodeState::Feasible } else { NodeState::FeasibleWitness(inside) };
            t.tree.node_value_mut(i).unwrap().state = st;
        } else if !rows.is_empty() {
            let mut a = Array2::<f64>::zeros((rows.len(), n));
            let mut b = Array1::<f64>::zeros(rows.len());
            for (k, (row, bias)) in rows.iter().enumerate() {
                a.row_mut(k).assign(row);
                b[k] = *bias;
            }
            if matches!(Polytope::from_mats(a, b).status(), PolytopeStatus::Infeasible) {
                t.tree.node_value_mut(i).unwrap().state = NodeState::Infeasible;
            }
        }
    }
}

fn run_elim4(t: &AffTree<4>) -> (Result<(AffTree<4>, String), String>, Vec<Event>) {
    let mut h = t.clone();
    verif_hook::start(HashMap::new());
    let res = catch(AssertUnwindSafe(|| {
        let c = h.infeasible_elimination();
        format!(
            "(counter {} {} {} {} {} {} {} {} {})",
            c.nodes_checked,
            c.cached_state,
            c.skipped_nodes,
            c.parent_sol_inherited,
            c.mirror_iter.len(),
            c.lps_solved,
            c.lps_feasible,
            c.lps_infeasible,
            c.lps_error
        )
    }));
    let log = verif_hook::stop();
    (res.map(|c| (h, c)), log)
}

/// infeasible_elimination on AffTree<4>: two-row predicates (labels 0..3), one-row predicates (slots 2, 3 empty), empty
/// slots, cached states from planted marks or from an earlier elimination followed by a further layer
fn case_kelim(r: &mut Rng, id: usize, out: &mut String) {
    let n = 1 + r.below(2);
    let m = 1 + r.below(2);
    let which = r.below(8);
    let (gen, mut t): (&str, AffTree<4>) = if which < 4 {
        // axis decisions: the quadrants of a corner below a bounded path are often empty (pruned edges, forwarded nodes)
        let mut term = |r: &mut Rng| gen_aff(r, m, n, 4);
        let pp = [0, 0, 0, 20, 40][r.below(5)];
        let depth = 1 + r.below(3);
        ("axis4", gen_axis_tree4(r, n, depth, pp, &mut term))
    } else if which < 6 {
        let cfg = TreeCfg { depth: 1 + r.below(3), partial_pct: [0, 0, 25][r.below(3)], early_leaf_pct: 20, maxk: 4, term_pool: 0 };
        ("random4", gen_tree::<4>(r, n, m, cfg))
    } else {
        // a tree that went through an elimination and then received a further layer: the second elimination starts from
        // the cached states of the first (incl. Infeasible marks kept on last remaining children)
        let mut ident = |_: &mut Rng| AffFunc::identity(n);
        let pp = [0, 0, 25][r.below(3)];
        let depth = 1 + r.below(2);
        let mut t = gen_axis_tree4(r, n, depth, pp, &mut ident);
        let before = t.clone();
        if catch(AssertUnwindSafe(|| t.infeasible_elimination())).is_err() {
            t = before;
        } else {
            let mut term = |r: &mut Rng| gen_aff(r, m, n, 4);
            let lp = [0, 0, 25][r.below(3)];
            let layer = gen_axis_tree4(r, n, 1, lp, &mut term);
            let snapshot = t.clone();
            if catch(AssertUnwindSafe(|| t.compose::<false, false>(&layer))).is_err() {
                t = snapshot;
            }
        }
        ("rehist4", t)
    };
    if r.chance(1, 2) {
        let one_in = [2, 3, 6][r.below(3)];
        plant_states4_any(r, &mut t, one_in);
    }
    let before = sx_tree(&t);
    let (res, log) = run_elim4(&t);
    match res {
        Ok((h, counter)) => {
            let (res2, _log2) = run_elim4(&h);
            let second = match res2 {
                Ok((h2, c2)) => format!("{} {}", sx_tree(&h2), c2),
                Err(_) => "panic -".to_string(),
            };
            let pts = sx_points(r, &h, 4);
            out.push_str(&format!("(case {} kelim {} {} ok {} {} {} {} {})\n", id, gen, before, sx_tree(&h), counter, sx_log(&log), second, pts));
        }
        Err(_) => {
            out.push_str(&format!("(case {} kelim {} {} panic - - {} - - (pts ))\n", id, gen, before, sx_log(&log)));
        }
    }
}
// x-kelim end ------------------------------------------------------------------------------------------------------

fn fault_of(kind: usize) -> Fault {
    match kind {
        0 => Fault::Error,
        1 => Fault::Unbounded,
        2 => Fault::Perturbed(0.001953125),
        3 => Fault::FarOff,
        // "points" that are no points at all: they lie in no polytope
        4 => Fault::Perturbed(f64::NAN),
        5 => Fault::Perturbed(f64::INFINITY),
        _ => Fault::Perturbed(f64::NEG_INFINITY),
    }
}

fn case_fault(r: &mut Rng, id: usize, thorough: bool, out: &mut String) {
    let compose_mode = r.chance(1, 3);
    if compose_mode {
        let mut f = if r.chance(1, 2) { gen_pipeline(r) } else { gen_elim_tree(r, false) };
        // half of the receivers come straight out of an elimination: their terminals hold witnesses, which the pruned
        // composition consults before it asks the LP (a fault then hits an edge whose parent's witnesses are all cut off)
        if r.chance(1, 2) {
            let _ = catch(AssertUnwindSafe(|| f.infeasible_elimination()));
        }
        let m = f.terminals().map(|x| x.aff.outdim()).next().unwrap();
        let g: AffTree<2> = if m >= 2 && r.chance(1, 2) { schema::argmax(m) } else { schema::partial_ReLU(m, r.below(m)) };
        let mut h0 = f.clone();
        h0.compose::<false, false>(&g);
        let mut hf = f.clone();
        verif_hook::start(HashMap::new());
        hf.compose::<true, false>(&g);
        let base_log = verif_hook::stop();
        let ncalls = base_log.iter().filter(|e| matches!(e, Event::Lp { .. })).count();
        let mut sub = 0;
        let mut plans: Vec<HashMap<usize, Fault>> = Vec::new();
        for pos in 0..ncalls.min(12) {
            for kind in 0..7 {
                let mut p = HashMap::new();
                p.insert(pos, fault_of(kind));
                plans.push(p);
            }
        }
        // two faults of different kinds on neighbouring calls
        for pos in 0..ncalls.saturating_sub(1).min(3) {
            for ka in 0..4 {
                for kb in 0..4 {
                    if ka != kb {
                        let mut p = HashMap::new();
                        p.insert(pos, fault_of(ka));
                        p.insert(pos + 1, fault_of(kb));
                        plans.push(p);
                    }
                }
            }
        }
        if thorough {
            for _ in 0..10 {
                let mut p = HashMap::new();
                for pos in 0..ncalls {
                    if r.chance(1, 3) {
                        p.insert(pos, fault_of(r.below(7)));
                    }
                }
                plans.push(p);
            }
        }
        for plan in plans {
            let mut h = f.clone();
            let pl: Vec<String> = { let mut v: Vec<_> = plan.iter().map(|(k, f)| (*k, sx_fault(&Some(f.clone())))).collect(); v.sort(); v.iter().map(|(k, f)| format!("({} {})", k, f)).collect() };
            verif_hook::start(plan);
            let res = catch(AssertUnwindSafe(|| h.compose::<true, false>(&g)));
            let log = verif_hook::stop();
            let d = match res {
                Ok(()) => sx_tree(&h),
                Err(_) => "panic".to_string(),
            };
            out.push_str(&format!(
                "(case {}.{} fault compose {} (plan {}) {} {} {} {})\n",
                id, sub, sx_tree(&f), pl.join(" "), sx_tree(&h0), sx_tree(&hf), d, sx_log(&log)
            ));
            sub += 1;
        }
    } else {
        let t = if r.chance(1, 2) { gen_pipeline(r) } else { gen_elim_tree(r, false) };
        let (res, base_log) = run_elim(&t, HashMap::new());
        let hf = match res {
            Ok((h, _)) => h,
            Err(_) => return,
        };
        let ncalls = base_log.iter().filter(|e| matches!(e, Event::Lp { .. })).count();
        let mut plans: Vec<HashMap<usize, Fault>> = Vec::new();
        for pos in 0..ncalls.min(12) {
            for kind in 0..7 {
                let mut p = HashMap::new();
                p.insert(pos, fault_of(kind));
                plans.push(p);
            }
        }
        for pos in 0..ncalls.saturating_sub(1).min(3) {
            for ka in 0..4 {
                for kb in 0..4 {
                    if ka != kb {
                        let mut p = HashMap::new();
                        p.insert(pos, fault_of(ka));
                        p.insert(pos + 1, fault_of(kb));
                        plans.push(p);
                    }
                }
            }
        }
        if thorough {
            for a in 0..ncalls.min(6) {
                for b in (a + 1)..ncalls.min(6) {
                    let mut p = HashMap::new();
                    p.insert(a, fault_of(r.below(7)));
                    p.insert(b, fault_of(r.below(7)));
                    plans.push(p);
                }
            }
            for _ in 0..10 {
                let mut p = HashMap::new();
                for pos in 0..ncalls {
                    if r.chance(1, 3) {
                        p.insert(pos, fault_of(r.below(7)));
                    }
                }
                plans.push(p);
            }
        }
        let mut sub = 0;
        for plan in plans {
            let pl: Vec<String> = { let mut v: Vec<_> = plan.iter().map(|(k, f)| (*k, sx_fault(&Some(f.clone())))).collect(); v.sort(); v.iter().map(|(k, f)| format!("({} {})", k, f)).collect() };
            let (res, log) = run_elim(&t, plan);
            let d = match res {
                Ok((h, _)) => sx_tree(&h),
                Err(_) => "panic".to_string(),
            };
            out.push_str(&format!(
                "(case {}.{} fault elim {} (plan {}) {} {} {} {})\n",
                id, sub, sx_tree(&t), pl.join(" "), sx_tree(&t), sx_tree(&hf), d, sx_log(&log)
            ));
            sub += 1;
        }
    }
}

// x-c11k begin ----------------------------------------------------------------------------------------------------
/// fault injection on infeasible_elimination of an AffTree<4> (case kind kfault): the trees of case_kelim (axis / random
/// decisions with two-row predicates, optionally planted cached states); a fault-free run counts the LP calls, then
/// every single call position (first 12) x every fault kind, pairs on neighbouring calls, and "every call faulted" with
/// one kind; thorough adds random subsets
fn run_elim4p(t: &AffTree<4>, plan: HashMap<usize, Fault>) -> (Result<AffTree<4>, String>, Vec<Event>) {
    let mut h = t.clone();
    verif_hook::start(plan);
    let res = catch(AssertUnwindSafe(|| {
        h.infeasible_elimination();
    }));
    let log = verif_hook::stop();
    (res.map(|_| h), log)
}
fn case_kfault(r: &mut Rng, id: usize, thorough: bool, out: &mut String) {
    let n = 1 + r.below(2);
    let m = 1 + r.below(2);
    let mut t: AffTree<4> = if r.chance(2, 3) {
        let mut term = |r: &mut Rng| gen_aff(r, m, n, 4);
        let pp = [0, 0, 0, 20, 40][r.below(5)];
        let depth = 1 + r.below(3);
        gen_axis_tree4(r, n, depth, pp, &mut term)
    } else {
        let cfg = TreeCfg { depth: 1 + r.below(3), partial_pct: [0, 0, 25][r.below(3)], early_leaf_pct: 20, maxk: 4, term_pool: 0 };
        gen_tree::<4>(r, n, m, cfg)
    };
    if r.chance(1, 3) {
        let one_in = [3, 6][r.below(2)];
        plant_states4_any(r, &mut t, one_in);
    }
    let (res, base_log) = run_elim4p(&t, HashMap::new());
    let hf = match res {
        Ok(h) => h,
        Err(_) => return,
    };
    let ncalls = base_log.iter().filter(|e| matches!(e, Event::Lp { .. })).count();
    let mut plans: Vec<HashMap<usize, Fault>> = Vec::new();
    for pos in 0..ncalls.min(12) {
        for kind in 0..7 {
            let mut p = HashMap::new();
            p.insert(pos, fault_of(kind));
            plans.push(p);
        }
    }
    for pos in 0..ncalls.saturating_sub(1).min(3) {
        for ka in 0..4 {
            for kb in 0..4 {
                if ka != kb {
                    let mut p = HashMap::new();
                    p.insert(pos, fault_of(ka));
                    p.insert(pos + 1, fault_of(kb));
                    plans.push(p);
                }
            }
        }
    }
    // every call faulted with the same kind (a faulted run may make more calls than the fault-free one: nothing is skipped)
    for kind in 0..4 {
        let mut p = HashMap::new();
        for pos in 0..(4 * ncalls + 16) {
            p.insert(pos, fault_of(kind));
        }
        plans.push(p);
    }
    if thorough {
        for _ in 0..10 {
            let mut p = HashMap::new();
            for pos in 0..(2 * ncalls) {
                if r.chance(1, 3) {
                    p.insert(pos, fault_of(r.below(7)));
                }
            }
            plans.push(p);
        }
    }
    let mut sub = 0;
    for plan in plans {
        let all = plan.len() > 2 * ncalls + 8;
        let pl: Vec<String> = if all {
            vec![format!("(all {})", sx_fault(&plan.get(&0).cloned()))]
        } else {
            let mut v: Vec<_> = plan.iter().map(|(k, f)| (*k, sx_fault(&Some(f.clone())))).collect();
            v.sort();
            v.iter().map(|(k, f)| format!("({} {})", k, f)).collect()
        };
        let (res, log) = run_elim4p(&t, plan);
        let d = match res {
            Ok(h) => sx_tree(&h),
            Err(_) => "panic".to_string(),
        };
        out.push_str(&format!(
            "(case {}.{} kfault elim {} (plan {}) {} {} {})\n",
            id, sub, sx_tree(&t), pl.join(" "), sx_tree(&hf), d, sx_log(&log)
        ));
        sub += 1;
    }
}
// x-c11k end ------------------------------------------------------------------------------------------------------

/// remove_axes on a tree with a warm cache: the states must be reset (a witness of the old space is not a witness of
/// the projected tree); afterwards an elimination on the projected tree must again leave only sound caches
fn case_remove_axes(r: &mut Rng, id: usize, out: &mut String) {
    // a third of the trees have axis-parallel predicates (exact zeros in most columns): removing an axis then leaves
    // some path conditions untouched and changes others -- every cached state has to go all the same
    let mut t = match r.below(3) {
        0 => {
            let n = 2 + r.below(2);
            gen_axis_tree(r, n)
        }
        1 => gen_pipeline(r),
        _ => gen_elim_tree(r, false),
    };
    let n = t.in_dim();
    if r.chance(3, 4) {
        t.infeasible_elimination();
    }
    let before = sx_tree(&t);
    let mask: Vec<bool> = (0..n).map(|_| r.chance(1, 2)).collect();
    let mask_s: Vec<String> = mask.iter().map(|b| if *b { "1".to_string() } else { "0".to_string() }).collect();
    let mut h = t.clone();
    let res = catch(AssertUnwindSafe(|| h.remove_axes(&Array1::from(mask.clone())).is_ok()));
    let (after, after2) = match res {
        Ok(true) => {
            let a = sx_tree(&h);
            let mut h2 = h.clone();
            let a2 = match catch(AssertUnwindSafe(|| {
                h2.infeasible_elimination();
            })) {
                Ok(()) => sx_tree(&h2),
                Err(_) => "panic".to_string(),
            };
            (a, a2)
        }
        Ok(false) => ("err".to_string(), "-".to_string()),
        Err(_) => ("panic".to_string(), "-".to_string()),
    };
    out.push_str(&format!("(case {} raxes {} (mask {}) {} {})\n", id, before, mask_s.join(" "), after, after2));
}

fn case_mirror(r: &mut Rng, id: usize, out: &mut String) {
    // mirror_points on generated polytopes / start points (inside, outside, far, on a face; feasible, thin, empty)
    let n = 1 + r.below(3);
    let rows = 1 + r.below(5);
    let mut a = gen_mat(r, rows, n, 4);
    let mut b = gen_vec(r, rows, 4);
    if r.chance(1, 3) && rows >= 2 {
        // opposite pair: thin or empty slab
        for j in 0..n {
            a[[1, j]] = -a[[0, j]];
        }
        b[1] = -b[0] + [0.0, 0.0, -1.0, 1.0][r.below(4)];
    }
    let poly = Polytope::from_mats(a, b);
    let npts = 1 + r.below(3);
    let mut pts = ndarray::Array2::<f64>::zeros((n, npts));
    for c in 0..npts {
        let scale = [1.0, 1.0, 16.0, 1024.0][r.below(4)];
        for i in 0..n {
            pts[[i, c]] = (r.range(-12, 12) as f64) / 2.0 * scale;
        }
    }
    // start points that are no points, or so large that the steps overflow: nothing that is returned may be outside
    if r.chance(1, 6) {
        let c = r.below(npts);
        let i = r.below(n);
        pts[[i, c]] = [f64::NAN, f64::INFINITY, f64::NEG_INFINITY, 1.7e308, -1.7e308][r.below(5)];
    }
    let iters = [1usize, 8, 20][r.below(3)];
    let res = catch(AssertUnwindSafe(|| AffTree::<2>::mirror_points(&poly, &pts, iters)));
    let rs = match res {
        Ok(None) => "none".to_string(),
        Ok(Some((m, it))) => format!("(some {} {})", sx_mat(&m.t().to_owned()), it),
        Err(_) => "panic".to_string(),
    };
    out.push_str(&format!("(case {} mirror {} {} {} {})\n", id, sx_poly(&poly), sx_mat(&pts.t().to_owned()), iters, rs));
}

fn main() {
    silence_panics();
    let argv: Vec<String> = std::env::args().collect();
    let args = &parse_args(&argv[1..]);
    let kind = args.rest.iter().position(|a| a == "--kind").map(|i| args.rest[i + 1].clone()).unwrap_or("c03".to_string());
    let mut r = Rng::new(args.seed ^ 0xE11A ^ (kind.len() as u64) << 20);
    let mut out = String::new();
    for id in 0..args.n {
        let mut cr = r.fork();
        match kind.as_str() {
            "c03" => {
                if id % 15 == 14 {
                    // x-kprune: one pruned composition in five runs on AffTree<4> operands (own case kind)
                    guard(id, &mut out, |out| case_kcprune(&mut cr, id, out))
                } else if id % 15 == 13 {
                    // x-kelim: one elimination in ten runs on an AffTree<4> (own case kind)
                    guard(id, &mut out, |out| case_kelim(&mut cr, id, out))
                } else if id % 3 == 2 {
                    guard(id, &mut out, |out| case_cprune(&mut cr, id, out))
                } else {
                    guard(id, &mut out, |out| case_elim(&mut cr, id, false, out))
                }
            }
            "c06" => guard(id, &mut out, |out| case_elim(&mut cr, id, true, out)),
            "c05" => {
                if id % 16 == 13 {
                    // K = 4 pruned compositions (receivers with planted sound states): caches of the result re-checked
                    guard(id, &mut out, |out| case_kcprune(&mut cr, id, out))
                } else if id % 8 == 7 {
                    guard(id, &mut out, |out| case_remove_axes(&mut cr, id, out))
                } else if id % 3 == 0 {
                    guard(id, &mut out, |out| case_mirror(&mut cr, id, out))
                } else if id % 3 == 1 {
                    guard(id, &mut out, |out| case_elim(&mut cr, id, false, out))
                } else {
                    guard(id, &mut out, |out| case_cprune(&mut cr, id, out))
                }
            }
            "c11" => {
                if id % 8 == 7 {
                    // x-c11k: one case in eight faults the elimination of an AffTree<4> (own case kind)
                    guard(id, &mut out, |out| case_kfault(&mut cr, id, args.tier == "thorough", out))
                } else {
                    guard(id, &mut out, |out| case_fault(&mut cr, id, args.tier == "thorough", out))
                }
            }
            _ => {}
        }
        if out.len() > 1 << 20 {
            print!("{}", out);
            out.clear();
        }
    }
    print!("{}", out);
}

// C12: arena consistency under any operation sequence.
// One case = one random operation sequence on the generic Tree<usize, K> (K in {2,3}); after every operation the
// op, its outcome (value / error kind / panic), and the complete observable state are dumped:
//   (case id seq K (init key val STATE) (step OP OUTCOME STATE) ...)
//   STATE   = (st root len (nodes (n idx parent (children..) leaf val) ...) (dfs idx ...))   root/parent/child: idx or -
//   OP      = (add p l v) (tryrm p l) (rm p l) (rad x) (merge p l) (upd i v)
//   OUTCOME = (ok idx k) (ok val v) (ok cnt n) (ok node val parent (children..) leaf) (err Kind) (panic)
#[path = "../common.rs"]
mod common;
use affinitree::tree::graph::{NodeError, Tree, TreeNode};
use common::*;
use std::fmt::Write as _;
use std::panic::AssertUnwindSafe;

fn o2s(o: Option<usize>) -> String {
    match o {
        Some(i) => i.to_string(),
        None => "-".to_string(),
    }
}
fn ch2s<const K: usize>(ch: &[Option<usize>; K]) -> String {
    let v: Vec<String> = ch.iter().map(|c| o2s(*c)).collect();
    format!("({})", v.join(" "))
}
fn node2s<const K: usize>(nd: &TreeNode<usize, K>) -> String {
    format!("{} {} {} {}", nd.value, o2s(nd.parent), ch2s(&nd.children), if nd.isleaf { 1 } else { 0 })
}
fn errkind(e: &NodeError) -> &'static str {
    match e {
        NodeError::InvalidIndex(_) => "InvalidIndex",
        NodeError::MissingChild { .. } => "MissingChild",
        NodeError::MissingParent { .. } => "MissingParent",
        NodeError::NodeExists { .. } => "NodeExists",
        NodeError::ChildExists { .. } => "ChildExists",
        NodeError::RootNode => "RootNode",
        NodeError::NodeNotFound => "NodeNotFound",
    }
}

fn dump<const K: usize>(t: &Tree<usize, K>) -> String {
    let mut s = String::new();
    let root = catch(AssertUnwindSafe(|| t.get_root_idx())).ok();
    write!(s, "(st {} {} (nodes", o2s(root), t.len()).unwrap();
    for (idx, nd) in t.node_iter() {
        write!(
            s,
            " (n {} {} {} {} {})",
            idx,
            o2s(nd.parent),
            ch2s(&nd.children),
            if nd.isleaf { 1 } else { 0 },
            nd.value
        )
        .unwrap();
    }
    s.push_str(") ");
    let cap = 4 * t.len() + 8;
    match catch(AssertUnwindSafe(|| t.dfs_iter().take(cap).map(|d| d.index).collect::<Vec<usize>>())) {
        Ok(v) => {
            s.push_str("(dfs");
            for i in v {
                write!(s, " {}", i).unwrap();
            }
            s.push(')');
        }
        Err(_) => s.push_str("(dfs panic)"),
    }
    s.push(')');
    s
}

/// an index argument: mostly a stored node, sometimes a freed or never used one
fn pick_idx<const K: usize>(r: &mut Rng, t: &Tree<usize, K>, freed: &[usize], invalid_pct: u32) -> usize {
    let live: Vec<usize> = t.node_indices().collect();
    if live.is_empty() || r.chance(invalid_pct, 100) {
        if !freed.is_empty() && r.chance(2, 3) {
            freed[r.below(freed.len())]
        } else {
            r.below(live.len() + freed.len() + 4)
        }
    } else {
        live[r.below(live.len())]
    }
}
fn pick_label<const K: usize>(r: &mut Rng, big_pct: u32) -> usize {
    if r.chance(big_pct, 100) {
        K + r.below(3)
    } else {
        r.below(K)
    }
}

fn one_case<const K: usize>(r: &mut Rng, id: usize, maxops: usize, out: &mut String) {
    let mut val = 1 + r.below(9);
    let mut t: Tree<usize, K> = Tree::new();
    // sometimes start from a tree whose slab already has freed slots (with_capacity has no effect on keys)
    let key0 = t.add_root(val);
    write!(out, "(case {} seq {} (init {} {} {})", id, K, key0, val, dump(&t)).unwrap();
    let nops = 1 + r.below(maxops);
    let invalid_pct = [0u32, 8, 15, 30][r.below(4)];
    let big_pct = [0u32, 4, 10][r.below(3)];
    // phases: growth is favoured at the start so that removals and merges have something to work on
    let grow = 3 + r.below(8);
    let mut freed: Vec<usize> = Vec::new();
    for step in 0..nops {
        val += 1 + r.below(3);
        let kind = if step < grow && r.chance(4, 5) { 0 } else { r.below(100) };
        let before: Vec<usize> = t.node_indices().collect();
        let (op, oc): (String, String) = if kind < 38 {
            // add_child_node: free slot preferred half of the time, otherwise any slot (occupied -> ChildExists)
            let mut p = pick_idx(r, &t, &freed, invalid_pct);
            let mut l = pick_label::<K>(r, big_pct);
            if r.chance(1, 2) {
                let cands: Vec<(usize, usize)> = t
                    .node_iter()
                    .flat_map(|(i, nd)| (0..K).filter(move |l| nd.children[*l].is_none()).map(move |l| (i, l)))
                    .collect();
                if !cands.is_empty() {
                    let c = cands[r.below(cands.len())];
                    p = c.0;
                    l = c.1;
                }
            }
            let res = catch(AssertUnwindSafe(|| t.add_child_node(p, l, val)));
            let oc = match res {
                Ok(Ok(k)) => format!("(ok idx {})", k),
                Ok(Err(e)) => format!("(err {})", errkind(&e)),
                Err(_) => "(panic)".to_string(),
            };
            (format!("(add {} {} {})", p, l, val), oc)
        } else if kind < 62 {
            // try_remove_child / remove_child: an existing edge most of the time
            let mut p = pick_idx(r, &t, &freed, invalid_pct);
            let mut l = pick_label::<K>(r, big_pct);
            if r.chance(3, 5) {
                let cands: Vec<(usize, usize)> = t
                    .node_iter()
                    .flat_map(|(i, nd)| (0..K).filter(move |l| nd.children[*l].is_some()).map(move |l| (i, l)))
                    .collect();
                if !cands.is_empty() {
                    let c = cands[r.below(cands.len())];
                    p = c.0;
                    l = c.1;
                }
            }
            if kind < 52 {
                let res = catch(AssertUnwindSafe(|| t.try_remove_child(p, l)));
                let oc = match res {
                    Ok(Ok(v)) => format!("(ok val {})", v),
                    Ok(Err(e)) => format!("(err {})", errkind(&e)),
                    Err(_) => "(panic)".to_string(),
                };
                (format!("(tryrm {} {})", p, l), oc)
            } else {
                let res = catch(AssertUnwindSafe(|| t.remove_child(p, l)));
                let oc = match res {
                    Ok(v) => format!("(ok val {})", v),
                    Err(_) => "(panic)".to_string(),
                };
                (format!("(rm {} {})", p, l), oc)
            }
        } else if kind < 70 {
            let x = pick_idx(r, &t, &freed, invalid_pct);
            let res = catch(AssertUnwindSafe(|| t.remove_all_descendants(x)));
            let oc = match res {
                Ok(Ok(n)) => format!("(ok cnt {})", n),
                Ok(Err(_)) => "(err InvalidIndex)".to_string(),
                Err(_) => "(panic)".to_string(),
            };
            (format!("(rad {})", x), oc)
        } else if kind < 88 {
            // merge_child_with_parent: a node with exactly one child (and that label) most of the time;
            // otherwise any node (0 or >= 2 children -> assertion, root -> RootNode, wrong label -> MissingChild)
            let mut p = pick_idx(r, &t, &freed, invalid_pct);
            let mut l = pick_label::<K>(r, big_pct);
            if r.chance(3, 5) {
                let cands: Vec<(usize, usize)> = t
                    .node_iter()
                    .filter(|(_, nd)| nd.children.iter().filter(|c| c.is_some()).count() == 1)
                    .map(|(i, nd)| (i, (0..K).find(|l| nd.children[*l].is_some()).unwrap()))
                    .collect();
                if !cands.is_empty() {
                    let c = cands[r.below(cands.len())];
                    p = c.0;
                    if !r.chance(1, 6) {
                        l = c.1;
                    }
                }
            }
            let res = catch(AssertUnwindSafe(|| t.merge_child_with_parent(p, l)));
            let oc = match res {
                Ok(Ok(nd)) => format!("(ok node {})", node2s(&nd)),
                Ok(Err(e)) => format!("(err {})", errkind(&e)),
                Err(_) => "(panic)".to_string(),
            };
            (format!("(merge {} {})", p, l), oc)
        } else {
            let i = pick_idx(r, &t, &freed, invalid_pct);
            let res = catch(AssertUnwindSafe(|| t.update_node(i, val)));
            let oc = match res {
                Ok(Ok(v)) => format!("(ok val {})", v),
                Ok(Err(e)) => format!("(err {})", errkind(&e)),
                Err(_) => "(panic)".to_string(),
            };
            (format!("(upd {} {})", i, val), oc)
        };
        for i in before {
            if !t.contains(i) && !freed.contains(&i) {
                freed.push(i);
            }
        }
        write!(out, " (step {} {} {})", op, oc, dump(&t)).unwrap();
    }
    out.push_str(")\n");
}

fn main() {
    silence_panics();
    let argv: Vec<String> = std::env::args().collect();
    let args = &parse_args(&argv[1..]);
    let mut r = Rng::new(args.seed ^ 0xC12);
    let maxops = if args.tier == "thorough" { 60 } else { 25 };
    let mut out = String::new();
    for id in 0..args.n {
        let mut cr = r.fork();
        if id % 2 == 1 {
            one_case::<3>(&mut cr, id, maxops, &mut out);
        } else {
            one_case::<2>(&mut cr, id, maxops, &mut out);
        }
        if out.len() > 1 << 20 {
            print!("{}", out);
            out.clear();
        }
    }
    print!("{}", out);
}

// C13: traversals and metrics.  One case per generated tree:
//   (case <id> tree <K> (gen <removed nodes> <insertions that reused a freed index>) (arena <root> (node idx parent (children..) leaf) ..) (metrics ..) (runs (run kind start (script) (obs..)) ..))
//   (case <id> poly 2 (arena ..) (runs (run poly <root> (script) (obs..)) ..))
// obs: first (i lb ub) = size_hint() right after new(), then after every command (the returned item with all fields,
// then size_hint()):
//   (n depth index n_remaining lb ub) | (g src label dest lb ub) | (e lb ub) = next() returned None | (s lb ub) = skip_subtree | p = panic
// Cases w0.. (emitted by shard 0 only) are fixed trees: the 10-node tree of the iter.rs tests, a root with two leaves,
// a K = 3 tree with missing children and a re-used index, a single node; every start node, skips at every position.
#[path = "../common.rs"]
mod common;
use affinitree::pwl::afftree::AffTree;
use affinitree::pwl::iter::PolyhedraIter;
use affinitree::tree::graph::{Tree, TreeIndex};
use affinitree::tree::iter::{Bfs, DfsEdge, DfsNodeData, DfsPre, EdgeData, TraversalMut};
use common::*;
use affinitree::pwl::node::NodeState;
use std::fmt::Write as _;
use std::panic::AssertUnwindSafe;

fn opt(o: Option<usize>) -> String {
    match o {
        Some(i) => i.to_string(),
        None => "-".to_string(),
    }
}

fn sx_arena<N, const K: usize>(t: &Tree<N, K>) -> String {
    let mut s = String::new();
    write!(s, "(arena {}", t.get_root_idx()).unwrap();
    for (idx, nd) in t.node_iter() {
        write!(s, " (node {} {} (", idx, opt(nd.parent)).unwrap();
        for (i, c) in nd.children.iter().enumerate() {
            if i > 0 {
                s.push(' ');
            }
            s.push_str(&opt(*c));
        }
        write!(s, ") {})", if nd.isleaf { 1 } else { 0 }).unwrap();
    }
    s.push(')');
    s
}

/// random tree: grow, remove some subtrees, grow again (indices get reused, holes remain);
/// returns the tree, the number of removed nodes and the number of insertions that reused a freed index
fn gen_arena<const K: usize>(r: &mut Rng) -> (Tree<u32, K>, usize, usize) {
    let mut t = Tree::<u32, K>::new();
    t.add_root(0);
    let target = 1 + r.below(9);
    let mut freed: Vec<TreeIndex> = Vec::new();
    let mut reused = 0usize;
    let mut removed = 0usize;
    let mut grow = |t: &mut Tree<u32, K>, r: &mut Rng, steps: usize, freed: &mut Vec<TreeIndex>| {
        for _ in 0..steps {
            let nodes: Vec<TreeIndex> = t.node_indices().collect();
            let p = nodes[r.below(nodes.len())];
            let label = r.below(K);
            if t.tree_node(p).unwrap().children[label].is_none() {
                let k = t.add_child_node(p, label, r.below(100) as u32).unwrap();
                if let Some(pos) = freed.iter().position(|&f| f == k) {
                    freed.swap_remove(pos);
                    reused += 1;
                }
            }
        }
    };
    let steps = target + r.below(4);
    grow(&mut t, r, steps, &mut freed);
    let rounds = r.below(4);
    for _ in 0..rounds {
        // remove one or two subtrees
        for _ in 0..(1 + r.below(2)) {
            let nodes: Vec<TreeIndex> = t.node_indices().collect();
            let p = nodes[r.below(nodes.len())];
            let label = r.below(K);
            // the other two removing operations of graph.rs, as a caller may use them on their own
            let mode = r.below(6);
            if mode == 0 && t.num_children(p) > 0 {
                let before: Vec<TreeIndex> = t.node_indices().collect();
                let _ = t.remove_all_descendants(p);
                for i in before {
                    if !t.contains(i) {
                        freed.push(i);
                        removed += 1;
                    }
                }
            } else if mode == 1 && t.num_children(p) == 1 && t.get_root_idx() != p {
                let l = (0..K).find(|l| t.tree_node(p).unwrap().children[*l].is_some()).unwrap();
                if t.merge_child_with_parent(p, l).is_ok() {
                    freed.push(p);
                    removed += 1;
                }
            } else if t.tree_node(p).unwrap().children[label].is_some() {
                let before: Vec<TreeIndex> = t.node_indices().collect();
                t.remove_child(p, label);
                for i in before {
                    if !t.contains(i) {
                        freed.push(i);
                        removed += 1;
                    }
                }
            }
        }
        if r.chance(2, 3) {
            let steps = 1 + r.below(4);
            grow(&mut t, r, steps, &mut freed);
        }
    }
    (t, removed, reused)
}

#[derive(Clone, Copy, PartialEq)]
enum Cmd {
    Next,
    Skip,
}

fn sx_script(sc: &[Cmd]) -> String {
    let v: Vec<&str> = sc.iter().map(|c| if *c == Cmd::Next { "N" } else { "S" }).collect();
    format!("({})", v.join(" "))
}

fn hint(h: (usize, Option<usize>)) -> String {
    format!("{} {}", h.0, opt(h.1))
}

fn item_node(d: &DfsNodeData) -> String {
    format!("n {} {} {}", d.depth, d.index, d.n_remaining)
}
fn item_edge(e: &EdgeData) -> String {
    format!("g {} {} {}", e.src, e.label, e.dest)
}

/// drives one TraversalMut through a script; every call is caught
fn run_trav<T: TraversalMut, N, const K: usize>(
    tree: &Tree<N, K>,
    start: TreeIndex,
    sc: &[Cmd],
    show: &dyn Fn(&T::Item) -> String,
) -> String {
    let mut out = String::new();
    let mut it = match catch(AssertUnwindSafe(|| T::new(tree, start))) {
        Ok(it) => it,
        Err(_) => return "p".to_string(),
    };
    match catch(AssertUnwindSafe(|| it.size_hint())) {
        Ok(h) => write!(out, "(i {}) ", hint(h)).unwrap(),
        Err(_) => return "p".to_string(),
    }
    for c in sc {
        let res = catch(AssertUnwindSafe(|| match c {
            Cmd::Next => match it.next(tree) {
                Some(x) => format!("({} {})", show(&x), hint(it.size_hint())),
                None => format!("(e {})", hint(it.size_hint())),
            },
            Cmd::Skip => {
                it.skip_subtree();
                format!("(s {})", hint(it.size_hint()))
            }
        }));
        match res {
            Ok(s) => {
                out.push_str(&s);
                out.push(' ');
            }
            Err(_) => {
                out.push('p');
                break;
            }
        }
    }
    out
}

/// the same through the Iterator wrapper TraversalIter (next / size_hint of Iterator, skip_subtree of the wrapper)
fn run_trav_iter<T: TraversalMut, N, const K: usize>(
    tree: &Tree<N, K>,
    start: TreeIndex,
    sc: &[Cmd],
    show: &dyn Fn(&T::Item) -> String,
) -> String {
    let mut out = String::new();
    let mut it = match catch(AssertUnwindSafe(|| T::iter(tree, start))) {
        Ok(it) => it,
        Err(_) => return "p".to_string(),
    };
    match catch(AssertUnwindSafe(|| it.size_hint())) {
        Ok(h) => write!(out, "(i {}) ", hint(h)).unwrap(),
        Err(_) => return "p".to_string(),
    }
    for c in sc {
        let res = catch(AssertUnwindSafe(|| match c {
            Cmd::Next => match it.next() {
                Some(x) => format!("({} {})", show(&x), hint(it.size_hint())),
                None => format!("(e {})", hint(it.size_hint())),
            },
            Cmd::Skip => {
                it.skip_subtree();
                format!("(s {})", hint(it.size_hint()))
            }
        }));
        match res {
            Ok(s) => {
                out.push_str(&s);
                out.push(' ');
            }
            Err(_) => {
                out.push('p');
                break;
            }
        }
    }
    out
}

/// alternates between the TraversalMut interface and the TraversalIter wrapper
fn run_either<T: TraversalMut, N, const K: usize>(
    k: usize,
    tree: &Tree<N, K>,
    start: TreeIndex,
    sc: &[Cmd],
    show: &dyn Fn(&T::Item) -> String,
) -> String {
    if k % 2 == 0 {
        run_trav::<T, N, K>(tree, start, sc, show)
    } else {
        run_trav_iter::<T, N, K>(tree, start, sc, show)
    }
}

fn run_poly(tree: &AffTree<2>, sc: &[Cmd]) -> String {
    let mut out = String::new();
    let mut it = match catch(AssertUnwindSafe(|| PolyhedraIter::new(&tree.tree))) {
        Ok(it) => it,
        Err(_) => return "p".to_string(),
    };
    match catch(AssertUnwindSafe(|| it.size_hint())) {
        Ok(h) => write!(out, "(i {}) ", hint(h)).unwrap(),
        Err(_) => return "p".to_string(),
    }
    for c in sc {
        let res = catch(AssertUnwindSafe(|| match c {
            Cmd::Next => match it.next() {
                // the path predicates are C09's subject; their number is dumped as a cross-check (= depth)
                Some((d, i, r, preds)) => format!("(n {} {} {} {} {})", d, i, r, hint(it.size_hint()), preds.len()),
                None => format!("(e {})", hint(it.size_hint())),
            },
            Cmd::Skip => {
                it.skip_subtree();
                format!("(s {})", hint(it.size_hint()))
            }
        }));
        match res {
            Ok(s) => {
                out.push_str(&s);
                out.push(' ');
            }
            Err(_) => {
                out.push('p');
                break;
            }
        }
    }
    out
}

/// scripts for a traversal that yields `m` items without skips: all-Next, a skip / double skip / triple skip at every
/// position, and random scripts with several skips
fn gen_scripts(r: &mut Rng, m: usize, full: bool) -> Vec<Vec<Cmd>> {
    let len = m + 2;
    let mut v = vec![vec![Cmd::Next; len]];
    let positions: Vec<usize> = if full { (0..=len).collect() } else { vec![r.below(len + 1), r.below(len + 1)] };
    for p in positions {
        for reps in 1..=2 {
            let mut s = vec![Cmd::Next; len];
            for _ in 0..reps {
                s.insert(p, Cmd::Skip);
            }
            v.push(s);
        }
    }
    let extra = if full { 4 } else { 1 };
    for _ in 0..extra {
        let l = len + 2 + r.below(4);
        let pct = 20 + r.below(40) as u32;
        let mut s: Vec<Cmd> = (0..l).map(|_| if r.chance(pct, 100) { Cmd::Skip } else { Cmd::Next }).collect();
        if r.chance(1, 3) {
            let p = r.below(s.len());
            s.insert(p, Cmd::Skip);
            s.insert(p, Cmd::Skip);
            s.insert(p, Cmd::Skip);
        }
        v.push(s);
    }
    v
}

fn sx_metrics<N: Clone, const K: usize>(t: &Tree<N, K>) -> String {
    let mut s = String::from("(metrics");
    let nodes: Vec<TreeIndex> = t.node_indices().collect();
    s.push_str(" (num_nodes");
    for &i in &nodes {
        match catch(AssertUnwindSafe(|| t.num_nodes(i))) {
            Ok(n) => write!(s, " ({} {})", i, n).unwrap(),
            Err(_) => write!(s, " ({} p)", i).unwrap(),
        }
    }
    s.push(')');
    match catch(AssertUnwindSafe(|| t.num_terminals())) {
        Ok(n) => write!(s, " (num_terminals {})", n).unwrap(),
        Err(_) => s.push_str(" (num_terminals p)"),
    }
    match catch(AssertUnwindSafe(|| t.depth())) {
        Ok(n) => write!(s, " (depth {})", n).unwrap(),
        Err(_) => s.push_str(" (depth p)"),
    }
    match catch(AssertUnwindSafe(|| t.depth_stats())) {
        Ok((mn, mean, var, mx)) => write!(s, " (depth_stats {} {} {} {})", fx(mn), fx(mean), fx(var), fx(mx)).unwrap(),
        Err(_) => s.push_str(" (depth_stats p)"),
    }
    s.push_str(" (paths");
    // every node and one index that is not in the tree
    let absent = (0..).find(|i| !t.contains(*i)).unwrap();
    for &i in nodes.iter().chain(std::iter::once(&absent)) {
        match catch(AssertUnwindSafe(|| t.path_to_node(i))) {
            Ok(Ok(p)) => {
                write!(s, " ({} (ok", i).unwrap();
                for (n, l) in p {
                    write!(s, " ({} {})", n, l).unwrap();
                }
                s.push_str("))");
            }
            Ok(Err(_)) => write!(s, " ({} err)", i).unwrap(),
            Err(_) => write!(s, " ({} p)", i).unwrap(),
        }
    }
    s.push(')');
    let list = |v: Vec<usize>| v.iter().map(|x| x.to_string()).collect::<Vec<_>>().join(" ");
    write!(s, " (len {})", t.len()).unwrap();
    write!(s, " (node_iter {})", list(t.node_iter().map(|(i, _)| i).collect())).unwrap();
    write!(s, " (node_indices {})", list(t.node_indices().collect())).unwrap();
    write!(s, " (nodes {})", list(t.nodes().map(|n| n.idx).collect())).unwrap();
    write!(s, " (terminal_indices {})", list(t.terminal_indices().collect())).unwrap();
    write!(s, " (terminals {})", list(t.terminals().map(|n| n.idx).collect())).unwrap();
    {
        // the mutable variant goes through its own filter
        let mut tm = t.clone();
        write!(s, " (terminals_mut {})", list(tm.terminals_mut().map(|n| n.idx).collect())).unwrap();
    }
    write!(s, " (decision_indices {})", list(t.decision_indices().collect())).unwrap();
    write!(s, " (decisions {})", list(t.decisions().map(|n| n.idx).collect())).unwrap();
    // dfs_iter / dfs_edge_iter through the Iterator interface
    let dfs: Vec<String> = catch(AssertUnwindSafe(|| t.dfs_iter().map(|d| format!("({})", item_node(&d))).collect()))
        .unwrap_or_else(|_| vec!["p".to_string()]);
    write!(s, " (dfs_iter {})", dfs.join(" ")).unwrap();
    let dfe: Vec<String> = catch(AssertUnwindSafe(|| t.dfs_edge_iter().map(|d| format!("({})", item_edge(&d))).collect()))
        .unwrap_or_else(|_| vec!["p".to_string()]);
    write!(s, " (dfs_edge_iter {})", dfe.join(" ")).unwrap();
    s.push(')');
    s
}

fn tree_case<const K: usize>(r: &mut Rng, id: usize, out: &mut String) {
    let (t, removed, reused) = gen_arena::<K>(r);
    emit_tree_case(&t, r, &id.to_string(), false, (removed, reused), out);
}

fn emit_tree_case<const K: usize>(t: &Tree<u32, K>, r: &mut Rng, id: &str, all_full: bool, hist: (usize, usize), out: &mut String) {
    let t = t;
    write!(out, "(case {} tree {} (gen {} {}) {} {} (runs", id, K, hist.0, hist.1, sx_arena(t), sx_metrics(t)).unwrap();
    let nodes: Vec<TreeIndex> = t.node_indices().collect();
    for &start in &nodes {
        let m = catch(AssertUnwindSafe(|| t.num_nodes(start))).unwrap_or(3);
        let full = all_full || start == t.get_root_idx() || r.chance(1, 2);
        for (k, sc) in gen_scripts(r, m, full).iter().enumerate() {
            write!(out, " (run pre {} {} ({}))", start, sx_script(sc), run_either::<DfsPre, u32, K>(k, t, start, sc, &item_node)).unwrap();
        }
        for (k, sc) in gen_scripts(r, m, full).iter().enumerate() {
            write!(out, " (run bfs {} {} ({}))", start, sx_script(sc), run_either::<Bfs, u32, K>(k + 1, t, start, sc, &item_node)).unwrap();
        }
        for (k, sc) in gen_scripts(r, m.saturating_sub(1), full).iter().enumerate() {
            write!(out, " (run edge {} {} ({}))", start, sx_script(sc), run_either::<DfsEdge, u32, K>(k, t, start, sc, &item_edge)).unwrap();
        }
    }
    // a start index that is not in the tree: new/next must fail the same way in model and code
    let absent = (0..).find(|i| !t.contains(*i)).unwrap();
    let sc = vec![Cmd::Next, Cmd::Skip, Cmd::Next];
    write!(out, " (run pre {} {} ({}))", absent, sx_script(&sc), run_trav::<DfsPre, u32, K>(t, absent, &sc, &item_node)).unwrap();
    write!(out, " (run bfs {} {} ({}))", absent, sx_script(&sc), run_trav::<Bfs, u32, K>(t, absent, &sc, &item_node)).unwrap();
    write!(out, " (run edge {} {} ({}))", absent, sx_script(&sc), run_trav::<DfsEdge, u32, K>(t, absent, &sc, &item_edge)).unwrap();
    out.push_str("))\n");
}

fn poly_case(r: &mut Rng, id: usize, out: &mut String) {
    let cfg = TreeCfg { depth: r.below(4), partial_pct: if r.chance(1, 2) { 0 } else { 30 }, early_leaf_pct: 25, maxk: 4, term_pool: 0 };
    let n_in = 1 + r.below(2);
    let mut t: AffTree<2> = gen_tree(r, n_in, 1, cfg);
    // holes: remove a subtree now and then
    if r.chance(1, 2) {
        let nodes: Vec<TreeIndex> = t.tree.node_indices().collect();
        let p = nodes[r.below(nodes.len())];
        let label = r.below(2);
        if t.tree.tree_node(p).unwrap().children[label].is_some() {
            t.tree.remove_child(p, label);
        }
    }
    // the traversal is a function of the links alone: cached feasibility states (here arbitrary ones, also Infeasible
    // on inner nodes, as an earlier elimination leaves on a last remaining child) must not change what it yields
    if r.chance(1, 3) {
        let idxs: Vec<usize> = t.tree.node_indices().collect();
        for i in idxs {
            let st = match r.below(5) {
                0 | 1 => NodeState::Infeasible,
                2 => NodeState::Feasible,
                3 => NodeState::FeasibleWitness(vec![gen_point(r, n_in)]),
                _ => NodeState::Indeterminate,
            };
            t.tree.node_value_mut(i).unwrap().state = st;
        }
    }
    write!(out, "(case {} poly 2 {} (runs", id, sx_arena(&t.tree)).unwrap();
    let m = t.tree.len();
    for sc in gen_scripts(r, m, true) {
        write!(out, " (run poly {} {} ({}))", t.tree.get_root_idx(), sx_script(&sc), run_poly(&t, &sc)).unwrap();
    }
    out.push_str("))\n");
}

/// fixed trees (the corpus that runs first): see the header
fn fixed_cases(r: &mut Rng, out: &mut String) {
    // w0: the tree of the iter.rs tests
    let mut t = Tree::<u32, 2>::new();
    let z = t.add_root(10);
    let c0 = t.add_child_node(z, 0, 11).unwrap();
    let c1 = t.add_child_node(z, 1, 12).unwrap();
    let l0 = t.add_child_node(c0, 0, 13).unwrap();
    let _l1 = t.add_child_node(c0, 1, 14).unwrap();
    let _r0 = t.add_child_node(c1, 0, 15).unwrap();
    let _r1 = t.add_child_node(c1, 1, 16).unwrap();
    let l2 = t.add_child_node(l0, 1, 17).unwrap();
    let _ = t.add_child_node(l2, 0, 18).unwrap();
    let _ = t.add_child_node(l2, 1, 19).unwrap();
    emit_tree_case(&t, r, "w0", true, (0, 0), out);
    // w1: a root with two leaves
    let mut t = Tree::<u32, 2>::new();
    let z = t.add_root(0);
    t.add_child_node(z, 0, 1).unwrap();
    t.add_child_node(z, 1, 2).unwrap();
    emit_tree_case(&t, r, "w1", true, (0, 0), out);
    // w2: K = 3, missing children, a removed subtree whose indices are used again in another place
    let mut t = Tree::<u32, 3>::new();
    let z = t.add_root(0);
    let a = t.add_child_node(z, 2, 1).unwrap();
    let b = t.add_child_node(z, 0, 2).unwrap();
    let c = t.add_child_node(a, 1, 3).unwrap();
    t.add_child_node(c, 0, 4).unwrap();
    t.add_child_node(c, 2, 5).unwrap();
    t.remove_child(a, 1);
    let d = t.add_child_node(b, 1, 6).unwrap();
    t.add_child_node(d, 2, 7).unwrap();
    t.add_child_node(a, 0, 8).unwrap();
    t.add_child_node(b, 2, 9).unwrap();
    emit_tree_case(&t, r, "w2", true, (3, 3), out);
    // w3: a single node
    let mut t = Tree::<u32, 2>::new();
    t.add_root(0);
    emit_tree_case(&t, r, "w3", true, (0, 0), out);
    // w4: a chain
    let mut t = Tree::<u32, 2>::new();
    let mut cur = t.add_root(0);
    for i in 0..4 {
        cur = t.add_child_node(cur, (i % 2) as usize, i as u32).unwrap();
    }
    emit_tree_case(&t, r, "w4", true, (0, 0), out);
}

fn main() {
    silence_panics();
    let argv: Vec<String> = std::env::args().collect();
    let args = &parse_args(&argv[1..]);
    let mut r = Rng::new(args.seed ^ 0xC13);
    let mut out = String::new();
    if args.seed % 1000 == 0 {
        let mut cr = r.fork();
        fixed_cases(&mut cr, &mut out);
    }
    for id in 0..args.n {
        let mut cr = r.fork();
        match id % 5 {
            4 => poly_case(&mut cr, id, &mut out),
            1 | 3 => tree_case::<3>(&mut cr, id, &mut out),
            _ => tree_case::<2>(&mut cr, id, &mut out),
        }
        if out.len() > 1 << 20 {
            print!("{}", out);
            out.clear();
        }
    }
    print!("{}", out);
}

(* fam_c19.ml -- C19: text and DOT renderings.
   Two independent deciding comparisons per case:
   (T1) the implementation's string equals the concatenated tokens of the extracted model (Fmt/Render.v, Fmt/Dot.v).
        The model's two oracle arguments are instantiated from the case, never assumed:
          rk (tie-break of sort_unstable_by_key): read off the implementation's own output -- shown variables get
             their display position as rank, hidden ones fill the skipped positions by descending key; if the
             implementation's order is ANY valid sort this reproduces it exactly, otherwise the strings differ;
          dv (f64 division of `normalize`): IEEE division computed here on the dumped operands (exact operands,
             correctly rounded quotient, converted back to an exact rational) -- so the comparison is exact string
             equality also where x/scale is inexact; how often it is inexact is counted (norm_inexact).
   (T2) parse-back of the implementation's string WITHOUT the model: rows/terms are split, every
        "<sign><digits> $<idx>" must show the stored coefficient idx (exactly divided by the row's maximal
        magnitude under normalize) within half a unit of the last printed digit (+2^-30 of a unit for the f64
        division), with the stored sign bit; the bias likewise and on the right side; ellipsis iff something
        omitted; sorted order by magnitude; DOT/Display statement counts, labels and edges against the arena. *)
open Model
open Conv
open Sexp

(* ---------------------------------------------------------------- helpers *)
let string_of_chars (l : char list) : string =
  let b = Buffer.create 256 in List.iter (Buffer.add_char b) l; Buffer.contents b
let esc (s : string) : string =
  let b = Buffer.create (String.length s) in
  String.iter (fun c -> if c = '\n' then Buffer.add_string b "\\n" else Buffer.add_char b c) s; Buffer.contents b
let clip n s = if String.length s <= n then s else String.sub s 0 n ^ "..."
let rec range a b = if a >= b then [] else a :: range (a + 1) b
let starts_at (s : string) (pos : int) (lit : string) : bool =
  let n = String.length lit in pos + n <= String.length s && String.sub s pos n = lit

let diff_detail (exp : string) (act : string) : string =
  let n = min (String.length exp) (String.length act) in
  let i = ref 0 in
  while !i < n && exp.[!i] = act.[!i] do incr i done;
  let from = max 0 (!i - 30) in
  let win s = esc (clip 90 (String.sub s from (String.length s - from))) in
  Printf.sprintf "first difference at byte %d: expected(model) [%s] actual(impl) [%s]" !i (win exp) (win act)

(* ---------------------------------------------------------------- numbers *)
type num = { neg : bool; q : qc; f : float }
let num_of_token (s : string) : num =
  let q = qc_of_token s in
  let i = String.index s ':' in
  let m = int_of_string (String.sub s 0 i) and e = int_of_string (String.sub s (i + 1) (String.length s - i - 1)) in
  { neg = (s.[0] = '-'); q; f = Float.ldexp (float_of_int m) e }
let fl_of_num (x : num) : fl = { f_neg = x.neg; f_val = x.q }

let rec pos_to_float = function XH -> 1.0 | XO p -> 2.0 *. pos_to_float p | XI p -> 2.0 *. pos_to_float p +. 1.0
let z_to_float = function Z0 -> 0.0 | Zpos p -> pos_to_float p | Zneg p -> -. pos_to_float p
let qc_to_float (x : qc) : float = let q = this x in z_to_float q.qnum /. pos_to_float q.qden
let qc_of_ocaml_float (f : float) : qc =
  if f = 0.0 then qz Z0 else
    let (m, e) = Float.frexp f in
    qc_of_float (z_of_int (Int64.to_int (Int64.of_float (Float.ldexp m 53)))) (z_of_int (e - 53))
(* the f64 division of write_inequality, on exact operands *)
let dv (x : qc) (s : qc) : qc =
  let r = qc_of_ocaml_float (qc_to_float x /. qc_to_float s) in
  if not (qeqb r (qcdiv x s)) then bump "norm_inexact_quotients";
  r

let qi (n : int) : qc = qz (z_of_int n)
let rec ipow10 p = if p <= 0 then 1 else 10 * ipow10 (p - 1)
let q_two = qi 2
let tol = qfrac (z_of_int 1) (pos_of_int (1 lsl 30))

(* printed digits "ddd.ddd" against the exact non-negative value v at precision p; tolerance in units of half a digit *)
let check_digits ~(p : int) ~(slack : bool) (digits : string) (v : qc) : bool =
  let ok_shape =
    match String.index_opt digits '.' with
    | None -> p = 0 && String.length digits >= 1
    | Some i -> p > 0 && i >= 1 && String.length digits - i - 1 = p && not (String.contains_from digits (i + 1) '.') in
  ok_shape &&
  (let plain = String.concat "" (String.split_on_char '.' digits) in
   String.length plain <= 17 &&
   (let n = int_of_string plain in
    let d = qcmult q_two (qcminus (qi n) (qcmult v (qi (ipow10 p)))) in
    (* slack (normalised rows): the shown number is the f64 quotient, whose rounding error is relative (2^-53 of the
       quotient), i.e. up to 2*|v|*10^p*2^-52 half-digits for large magnitudes, plus 2^-30 for small ones *)
    let two_m52 = qfrac (z_of_int 1) (pos_of_int (1 lsl 52)) in
    let rel = qcmult (qcmult q_two (qcmult (qabs v) (qi (ipow10 p)))) two_m52 in
    let bound = if slack then qcplus (qi 1) (qcplus tol rel) else qi 1 in
    qleb (qcopp bound) d && qleb d bound))

(* ---------------------------------------------------------------- options *)
type bnd = I of int | E of int | U
type mlopts = { sort : int; szero : bool; staut : bool; norm : bool; axes : bnd * bnd; rows : bnd * bnd }
let in_rng ((lo, hi) : bnd * bnd) (i : int) : bool =
  (match lo with I s -> s <= i | E s -> s < i | U -> true) && (match hi with I e -> i <= e | E e -> i < e | U -> true)
let ml_func = { sort = 0; szero = true; staut = false; norm = false; axes = (I 20, U); rows = (I 5, U) }
let ml_poly = { sort = 5; szero = false; staut = true; norm = true; axes = (I 20, U); rows = (I 5, U) }
let ml_default = { sort = 0; szero = false; staut = false; norm = false; axes = (I 1, E 0); rows = (I 1, E 0) }
let bnd_of = function
  | Atom "u" -> U
  | List [Atom "i"; v] -> I (int_of v)
  | List [Atom "e"; v] -> E (int_of v)
  | _ -> raise (Parse_error "bound")
let mbound = function I v -> BIncl (z_of_int v) | E v -> BExcl (z_of_int v) | U -> BUnb
let model_opts (o : mlopts) : fopts =
  { o_sort = nat_of_int o.sort; o_szero = o.szero; o_staut = o.staut; o_norm = o.norm;
    o_skip_axes = (mbound (fst o.axes), mbound (snd o.axes)); o_skip_rows = (mbound (fst o.rows), mbound (snd o.rows)) }
let opts_of (kind : string) = function
  | Atom "display" -> (if kind = "poly" then ml_poly else ml_func), true
  | List [Atom "opts"; s; a; b; c; List [alo; ahi]; List [rlo; rhi]] ->
    { sort = int_of s; szero = (atom a = "1"); staut = (atom b = "1"); norm = (atom c = "1");
      axes = (bnd_of alo, bnd_of ahi); rows = (bnd_of rlo, bnd_of rhi) }, false
  | _ -> raise (Parse_error "opts")
let prec_of = function Atom "d" -> 2 | a -> int_of a

let nums_of (s : Sexp.t) : num list = List.map (fun a -> num_of_token (atom a)) (list s)
let mat_of_aff (s : Sexp.t) : int * num list list * num list =
  match s with
  | List [Atom "aff"; n; m; b] -> (int_of n, List.map nums_of (list m), nums_of b)
  | _ -> raise (Parse_error "aff")

(* ---------------------------------------------------------------- lexer of the implementation's text *)
type tk = TSign of bool | TNum of string | TVar of int | TLeq | TTop | TBot | THE | TVE | TNL | TSp
let lex (s : string) : tk list option =
  let n = String.length s in
  let is_d c = c >= '0' && c <= '9' in
  let rec go pos acc =
    if pos >= n then Some (List.rev acc)
    else if starts_at s pos "\xE2\x88\x92" then go (pos + 3) (TSign true :: acc)
    else if s.[pos] = '+' then go (pos + 1) (TSign false :: acc)
    else if starts_at s pos "\xE2\x89\xA4" then go (pos + 3) (TLeq :: acc)
    else if starts_at s pos "\xE2\x8A\xA4" then go (pos + 3) (TTop :: acc)
    else if starts_at s pos "\xE2\x8A\xA5" then go (pos + 3) (TBot :: acc)
    else if starts_at s pos "\xE2\x8B\xAF" then go (pos + 3) (THE :: acc)
    else if starts_at s pos "\xE2\x8B\xAE" then go (pos + 3) (TVE :: acc)
    else if s.[pos] = '\n' then go (pos + 1) (TNL :: acc)
    else if s.[pos] = ' ' then go (pos + 1) (TSp :: acc)
    else if s.[pos] = '$' then begin
      let e = ref (pos + 1) in
      while !e < n && is_d s.[!e] do incr e done;
      if !e = pos + 1 || !e - pos > 9 then None else go !e (TVar (int_of_string (String.sub s (pos + 1) (!e - pos - 1))) :: acc)
    end
    else if is_d s.[pos] then begin
      let e = ref pos in
      while !e < n && (is_d s.[!e] || s.[!e] = '.') do incr e done;
      go !e (TNum (String.sub s pos (!e - pos)) :: acc)
    end
    else None
  in go 0 []
let tk_text = function
  | TSign true -> "\xE2\x88\x92" | TSign false -> "+" | TNum d -> d | TVar i -> "$" ^ string_of_int i
  | TLeq -> "\xE2\x89\xA4" | TTop -> "\xE2\x8A\xA4" | TBot -> "\xE2\x8A\xA5" | THE -> "\xE2\x8B\xAF" | TVE -> "\xE2\x8B\xAE"
  | TNL -> "\\n" | TSp -> " "
let tks_text l = String.concat "" (List.map tk_text l)
let split_nl (l : tk list) : tk list list =
  let rec go cur acc = function
    | [] -> List.rev (List.rev cur :: acc)
    | TNL :: r -> go [] (List.rev cur :: acc) r
    | t :: r -> go (t :: cur) acc r
  in go [] [] l

(* ---------------------------------------------------------------- parse-back of one label (T2) and rank derivation *)
exception Bad of string * string   (* tag, detail *)
let bad tag fmt = Printf.ksprintf (fun s -> raise (Bad (tag, s))) fmt

type elt = Term of bool * string * int | Ell
let rec elements (where : string) (l : tk list) : elt list =
  match l with
  | [] -> []
  | TSp :: THE :: r -> Ell :: elements where r
  | TSp :: TSign s :: TNum d :: TSp :: TVar i :: r -> Term (s, d, i) :: elements where r
  | TSign s :: TNum d :: TSp :: TVar i :: r -> Term (s, d, i) :: elements where r
  | THE :: _ -> bad "ellipsis" "%s: ellipsis without separating space in [%s]" where (tks_text l)
  | _ -> bad "coeff" "%s: a number is not followed by ' $<index>' or stray tokens: [%s]" where (clip 80 (tks_text l))

let sorting_on (o : mlopts) (n : int) = o.sort <> 0 && o.sort <= n

(* checks one linear combination; returns the shown variable indices in display order *)
let check_lincomb ~(where : string) (o : mlopts) (p : int) (row : num array) (scale : (qc * float) option) (toks : tk list) : int list =
  let n = Array.length row in
  let els = elements where toks in
  let shownpos = List.filter (fun k -> not (in_rng o.axes k)) (range 0 n) in
  let nskipped = n - List.length shownpos in
  let terms = List.filter_map (function Term (s, d, i) -> Some (s, d, i) | Ell -> None) els in
  let nell = List.length (List.filter (fun e -> e = Ell) els) in
  if nskipped > 0 && nell <> 1 then
    bad "ellipsis" "%s: %d of %d positions are skipped but the text has %d ellipsis: [%s]" where nskipped n nell (clip 80 (tks_text toks));
  if nskipped = 0 && nell <> 0 then bad "ellipsis" "%s: nothing is skipped but the text has an ellipsis: [%s]" where (clip 80 (tks_text toks));
  if List.length terms <> List.length shownpos then
    bad "coeff" "%s: %d terms shown, %d positions lie outside the skip range (n=%d): [%s]" where (List.length terms)
      (List.length shownpos) n (clip 80 (tks_text toks));
  (* the ellipsis stands where the first skipped position is *)
  if nskipped > 0 then begin
    let first_skipped = List.find (fun k -> in_rng o.axes k) (range 0 n) in
    let before = List.length (List.filter (fun k -> k < first_skipped) shownpos) in
    let rec count_before acc = function Ell :: _ -> acc | Term _ :: r -> count_before (acc + 1) r | [] -> acc in
    if count_before 0 els <> before then
      bad "ellipsis" "%s: ellipsis after %d terms, expected after %d" where (count_before 0 els) before
  end;
  let key i = match scale with Some (_, sf) -> Float.abs (row.(i).f /. sf) | None -> Float.abs row.(i).f in
  let sorted_keys = List.sort (fun a b -> compare b a) (List.map key (range 0 n)) in
  let seen = Array.make n false in
  List.iter2 (fun (s, d, i) pos ->
      if i < 0 || i >= n then bad "coeff" "%s position %d: variable $%d does not exist (n=%d)" where pos i n;
      if seen.(i) then bad "coeff" "%s position %d: variable $%d shown twice" where pos i;
      seen.(i) <- true;
      let x = row.(i) in
      let v = match scale with Some (sq, _) -> qcdiv (qabs x.q) sq | None -> qabs x.q in
      let exp_txt = string_of_chars (text (write_float (nat_of_int p) { f_neg = x.neg; f_val = (if x.neg then qcopp v else v) })) in
      if s <> x.neg then
        bad "coeff" "%s position %d: sign of $%d: expected [%s $%d] actual [%s%s $%d]" where pos i exp_txt i (tk_text (TSign s)) d i;
      if not (check_digits ~p ~slack:(scale <> None) d v) then
        bad "coeff" "%s position %d: value next to $%d: expected [%s $%d] actual [%s%s $%d] (stored %s%s)" where pos i exp_txt i
          (tk_text (TSign s)) d i (string_of_qc x.q) (match scale with Some (sq, _) -> " / " ^ string_of_qc sq | None -> "");
      if sorting_on o n then begin
        if key i <> List.nth sorted_keys pos then
          bad "coeff" "%s position %d: $%d has magnitude %h but the %d-th largest magnitude is %h (sorted output)" where pos i (key i) pos
            (List.nth sorted_keys pos)
      end else if i <> pos then
        bad "coeff" "%s position %d: expected variable $%d, actual $%d (unsorted output)" where pos pos i)
    terms shownpos;
  List.map (fun (_, _, i) -> i) terms

let derive_rk (o : mlopts) (keys : float array) (vis : int list) : int -> int =
  let n = Array.length keys in
  if not (sorting_on o n) then (fun i -> i) else begin
    let shownpos = List.filter (fun k -> not (in_rng o.axes k)) (range 0 n) in
    let hiddenpos = List.filter (fun k -> in_rng o.axes k) (range 0 n) in
    let tbl = Array.make n (-1) in
    let ok = List.length vis = List.length shownpos && List.for_all (fun i -> i >= 0 && i < n) vis in
    if not ok then (fun i -> i) else begin
      List.iter2 (fun idx pos -> tbl.(idx) <- pos) vis shownpos;
      let hidden = List.filter (fun i -> tbl.(i) < 0) (range 0 n) in
      let hidden = List.stable_sort (fun a b -> compare keys.(b) keys.(a)) hidden in
      if List.length hidden <> List.length hiddenpos then (fun i -> i) else begin
        List.iter2 (fun idx pos -> tbl.(idx) <- pos) hidden hiddenpos;
        (fun i -> if i >= 0 && i < n then tbl.(i) else i)
      end
    end
  end

(* lenient extraction of the shown variables of a segment (used for rk even when T2 fails) *)
let vars_of_seg (seg : tk list) : int list = List.filter_map (function TVar i -> Some i | _ -> None) seg

type label_result = { rk : int -> int -> int; fails : (string * string) list }

(* s: the implementation's text of one function (poly=false) or predicate (poly=true) *)
let check_label ~(where : string) ~(poly : bool) (o : mlopts) (p : int) (m : num list list) (b : num list) (s : string) : label_result =
  let nrows = List.length b in
  let rows = Array.of_list (List.map Array.of_list m) in
  let bias = Array.of_list b in
  let fails = ref [] in
  let rks = Array.make (max nrows 1) (fun (i : int) -> i) in
  (match lex s with
   | None -> fails := ("parse", Printf.sprintf "%s: text contains characters outside the token alphabet: [%s]" where (esc (clip 120 s))) :: !fails
   | Some toks ->
     let segs = split_nl toks in
     let first = ref true in
     let items = List.concat (List.map (fun no ->
         if in_rng o.rows no then (if !first then (first := false; [`Ell]) else []) else [`Row no]) (range 0 (min nrows (Array.length rows)))) in
     let ends_open = (match List.rev items with (`Row no) :: _ when no = nrows - 1 -> true | _ -> false) in
     let nexp = List.length items + (if ends_open then 0 else 1) in
     (try
        if List.length segs <> nexp then
          bad "rows" "%s: %d lines, expected %d (%d rows, %d outside skip_rows%s): [%s]" where (List.length segs) nexp nrows
            (List.length (List.filter (function `Row _ -> true | _ -> false) items))
            (if List.exists (fun i -> i = `Ell) items then ", one ellipsis line" else "") (esc (clip 120 s));
        if not ends_open && List.nth segs (nexp - 1) <> [] then
          bad "rows" "%s: text after the last line break: [%s]" where (tks_text (List.nth segs (nexp - 1)));
        List.iteri (fun k item ->
            let seg = List.nth segs k in
            match item with
            | `Ell -> if seg <> [TSp; TVE] then bad "ellipsis" "%s line %d: expected [ \xE2\x8B\xAE] for the skipped rows, actual [%s]" where k (tks_text seg)
            | `Row no ->
              let w = Printf.sprintf "%s row %d" where no in
              let row = rows.(no) and bi = bias.(no) in
              let n = Array.length row in
              let all_zero = Array.for_all (fun x -> x.f = 0.0) row in
              if List.mem TVE seg then bad "ellipsis" "%s: vertical ellipsis inside a shown row: [%s]" w (tks_text seg);
              let set_rk scale vis =
                let keys = Array.map (fun x -> match scale with Some (_, sf) -> Float.abs (x.f /. sf) | None -> Float.abs x.f) row in
                rks.(no) <- derive_rk o keys vis in
              if poly then begin
                if o.staut && all_zero then begin
                  let exp = if qleb (qi 0) bi.q then [TTop] else [TBot] in
                  if seg <> exp then bad "taut" "%s: all-zero row with bias %s: expected [%s] actual [%s]" w (string_of_qc bi.q) (tks_text exp) (tks_text seg)
                end else begin
                  if List.mem TTop seg || List.mem TBot seg then
                    bad "taut" "%s: tautology symbol for a row that is not all-zero or without simplify_tautologies: [%s]" w (tks_text seg);
                  let scale =
                    if o.norm && not all_zero then begin
                      let sf = Array.fold_left (fun a x -> Float.max a (Float.abs x.f)) 0.0 row in
                      let sq = Array.fold_left (fun a x -> if qleb a (qabs x.q) then qabs x.q else a) (qi 0) row in
                      Some (sq, sf)
                    end else None in
                  set_rk scale (vars_of_seg seg);
                  (* split at the inequality sign *)
                  let rec split acc = function
                    | [] -> None
                    | TLeq :: r -> Some (List.rev acc, r)
                    | t :: r -> split (t :: acc) r in
                  match split [] seg with
                  | None -> bad "bias" "%s: no inequality sign in [%s]" w (tks_text seg)
                  | Some (left, right) ->
                    let left = (match List.rev left with TSp :: l -> List.rev l | _ -> bad "bias" "%s: no space before the inequality sign: [%s]" w (tks_text seg)) in
                    (match right with
                     | [TSp; TSign sg; TNum d] ->
                       let v = match scale with Some (sq, _) -> qcdiv (qabs bi.q) sq | None -> qabs bi.q in
                       let exp_txt = string_of_chars (text (write_float (nat_of_int p) { f_neg = bi.neg; f_val = (if bi.neg then qcopp v else v) })) in
                       if sg <> bi.neg || not (check_digits ~p ~slack:(scale <> None) d v) then
                         bad "bias" "%s: bias right of the inequality sign: expected [%s] actual [%s%s] (stored %s%s)" w exp_txt (tk_text (TSign sg)) d
                           (string_of_qc bi.q) (match scale with Some (sq, _) -> " / " ^ string_of_qc sq | None -> "")
                     | _ -> bad "bias" "%s: right of the inequality sign expected ' <sign><digits>', actual [%s]" w (tks_text right));
                    ignore (check_lincomb ~where:w o p row scale left)
                end
              end else begin
                set_rk None (vars_of_seg seg);
                match seg with
                | TSign sg :: TNum d :: TSp :: rest ->
                  let exp_txt = string_of_chars (text (write_float (nat_of_int p) (fl_of_num bi))) in
                  if sg <> bi.neg || not (check_digits ~p ~slack:false d (qabs bi.q)) then
                    bad "bias" "%s: leading bias: expected [%s] actual [%s%s] (stored %s)" w exp_txt (tk_text (TSign sg)) d (string_of_qc bi.q);
                  if o.szero && all_zero then begin
                    if rest <> [] then bad "coeff" "%s: all-zero linear part with simplify_zero: expected nothing after the bias, actual [%s]" w (tks_text rest)
                  end else begin
                    ignore (check_lincomb ~where:w o p row None rest)
                  end
                | _ -> bad "bias" "%s: expected '<sign><digits> ' for the bias first, actual [%s]" w (clip 60 (tks_text seg))
              end) items
      with Bad (tag, d) -> fails := (tag, d) :: !fails));
  { rk = (fun no i -> if no >= 0 && no < Array.length rks then rks.(no) i else i); fails = !fails }

let model_rk (rk : int -> int -> int) : nat -> nat -> nat = fun no i -> nat_of_int (rk (int_of_nat no) (int_of_nat i))
let fmat_of (m : num list list) (b : num list) : fl list list * fl list = (List.map (List.map fl_of_num) m, List.map fl_of_num b)

(* ---------------------------------------------------------------- statistics *)
let stat_matrix (o : mlopts) (display : bool) (p : string) (m : num list list) (b : num list) =
  bump ("prec_" ^ p);
  if display then bump "opt_display_default" else begin
    if o.sort <> 0 then bump "opt_sort";
    if o.szero then bump "opt_simplify_zero";
    if o.staut then bump "opt_simplify_tautologies";
    if o.norm then bump "opt_normalize";
    if o = ml_default then bump "opt_all_default"
  end;
  let all = b @ List.concat m in
  if List.exists (fun x -> x.neg && x.f = 0.0) all then bump "with_negative_zero";
  let pi = if p = "d" then 2 else int_of_string p in
  let tie x = (* exact value sits on a rounding tie at precision pi *)
    let t = qcmult (qabs x.q) (qi (2 * ipow10 pi)) in
    let q = this t in q.qden = XH && (match q.qnum with Zpos (XI _) | Zpos XH -> true | _ -> false) in
  if List.exists tie all then bump "with_rounding_tie";
  let ncols = match m with r :: _ -> List.length r | [] -> 0 in
  let nrows = List.length b in
  if List.exists (fun k -> in_rng o.axes k) (range 0 ncols) then bump "axes_skipped";
  if List.exists (fun k -> in_rng o.rows k) (range 0 nrows) then bump "rows_skipped";
  if List.exists (fun r -> r <> [] && List.for_all (fun x -> x.f = 0.0) r) m then bump "with_all_zero_row";
  if sorting_on o ncols && List.exists (fun r ->
      let ks = List.sort compare (List.map (fun x -> Float.abs x.f) r) in
      let rec dup = function a :: (b :: _ as t) -> a = b || dup t | _ -> false in dup ks) m then bump "sorted_with_equal_magnitudes";
  if List.exists (fun x -> Float.abs x.f >= 1e5) all then bump "magnitude_ge_1e5";
  if List.exists (fun x -> x.f <> 0.0 && Float.abs x.f <= 1e-2) all then bump "magnitude_le_1e-2";
  if nrows >= 2 && (display || o <> ml_default) then bump "nontrivial"

(* ---------------------------------------------------------------- tree parsing (implementation side) *)
type tnode = { idx : int; parent : int option; children : int option list; leaf : bool; m : num list list; b : num list }
let tnodes_of (s : Sexp.t) : tnode list =
  match s with
  | List (Atom "tree" :: _ :: _ :: nodes) ->
    List.map (function
        | List [Atom "node"; i; p; List ch; lf; a; _] ->
          let (_, m, b) = mat_of_aff a in
          { idx = int_of i; parent = opt_idx p; children = List.map opt_idx ch; leaf = (atom lf = "1"); m; b }
        | _ -> raise (Parse_error "node")) nodes
  | _ -> raise (Parse_error "tree")
let arena_of_nodes (nodes : tnode list) : (fl list list * fl list) arena =
  let maxi = List.fold_left (fun a nd -> max a nd.idx) (-1) nodes in
  let arr = Array.make (maxi + 1) None in
  List.iter (fun nd ->
      arr.(nd.idx) <- Some { c_val = fmat_of nd.m nd.b;
                             c_parent = (match nd.parent with None -> None | Some p -> Some (nat_of_int p));
                             c_children = List.map (function None -> None | Some c -> Some (nat_of_int c)) nd.children;
                             c_leaf = nd.leaf }) nodes;
  Array.to_list arr

(* scanner *)
exception Scan of string
type scanner = { s : string; mutable pos : int }
let expect sc lit = if starts_at sc.s sc.pos lit then sc.pos <- sc.pos + String.length lit
  else raise (Scan (Printf.sprintf "at byte %d expected [%s] actual [%s]" sc.pos (esc lit) (esc (clip 40 (String.sub sc.s sc.pos (String.length sc.s - sc.pos))))))
let read_int sc =
  let e = ref sc.pos in
  while !e < String.length sc.s && sc.s.[!e] >= '0' && sc.s.[!e] <= '9' do incr e done;
  if !e = sc.pos || !e - sc.pos > 9 then raise (Scan (Printf.sprintf "at byte %d expected a number" sc.pos));
  let v = int_of_string (String.sub sc.s sc.pos (!e - sc.pos)) in sc.pos <- !e; v
let read_until sc lit =
  let n = String.length sc.s and l = String.length lit in
  let e = ref sc.pos in
  while !e + l <= n && String.sub sc.s !e l <> lit do incr e done;
  if !e + l > n then raise (Scan (Printf.sprintf "from byte %d: [%s] not found" sc.pos (esc lit)));
  let v = String.sub sc.s sc.pos (!e - sc.pos) in sc.pos <- !e + l; v

type dot_parsed = { dnodes : (int * string * string) list; dedges : (int * int * int * string) list }
let parse_dot (s : string) : dot_parsed =
  let sc = { s; pos = 0 } in
  expect sc "digraph afftree {\nbgcolor=transparent;\nconcentrate=true;\nmargin=0;\n";
  let nodes = ref [] and edges = ref [] in
  while starts_at sc.s sc.pos "n" do
    expect sc "n";
    let i = read_int sc in
    if starts_at sc.s sc.pos " [label=\"" then begin
      expect sc " [label=\"";
      let lab = read_until sc "\", " in
      let attr = read_until sc "];\n" in
      nodes := (i, lab, attr) :: !nodes
    end else begin
      expect sc " -> n";
      let t = read_int sc in
      expect sc " [label=";
      let l = read_int sc in
      expect sc ", ";
      let attr = read_until sc "];\n" in
      edges := (i, t, l, attr) :: !edges
    end
  done;
  expect sc "}";
  if sc.pos <> String.length s then raise (Scan "text after the closing brace");
  { dnodes = List.rev !nodes; dedges = List.rev !edges }

type disp_node = { di : int; dleaf : bool; dlabel : string; dchildren : (int * int) list option }
let parse_display (s : string) : int * disp_node list =
  let lines = String.split_on_char '\n' s in
  let lines = (match List.rev lines with "" :: r -> List.rev r | _ -> raise (Scan "text does not end with a line break")) in
  match lines with
  | [] -> raise (Scan "empty text")
  | hd :: rest ->
    let sc = { s = hd; pos = 0 } in
    expect sc "Decision Tree with "; let n = read_int sc in expect sc " nodes";
    if sc.pos <> String.length hd then raise (Scan "header line has trailing text");
    let nodes = ref [] in
    List.iter (fun line ->
        if starts_at line 0 "[" then begin
          let close = (try String.index line ']' with Not_found -> raise (Scan ("node line without ]: " ^ line))) in
          let inner = String.sub line 1 (close - 1) in
          (match String.split_on_char '|' inner with
           | [i; k] when String.length i >= 3 && (k = "T" || k = "D") && starts_at line (close + 1) " " ->
             let it = String.trim i in
             if String.length i > 3 && String.length it <> String.length i then raise (Scan ("index field padded beyond width 3: " ^ line));
             nodes := { di = int_of_string it; dleaf = (k = "T");
                        dlabel = String.sub line (close + 2) (String.length line - close - 2); dchildren = None } :: !nodes
           | _ -> raise (Scan ("malformed node line: " ^ esc line)))
        end else if starts_at line 0 "children: " then begin
          let body = String.sub line 10 (String.length line - 10) in
          let pairs = List.map (fun it ->
              match String.split_on_char '-' it with
              | [l; c] when String.length c > 1 && c.[0] = '>' -> (int_of_string l, int_of_string (String.sub c 1 (String.length c - 1)))
              | _ -> raise (Scan ("malformed children line: " ^ esc line)))
              (List.filter (fun x -> x <> "") (List.concat_map (String.split_on_char ' ') (String.split_on_char ',' body))) in
          match !nodes with
          | nd :: r when nd.dchildren = None -> nodes := { nd with dchildren = Some pairs } :: r
          | _ -> raise (Scan "children line without a node line")
        end else begin
          match !nodes with
          | nd :: r when nd.dchildren = None -> nodes := { nd with dlabel = nd.dlabel ^ "\n" ^ line } :: r
          | _ -> raise (Scan ("stray line: " ^ esc line))
        end) rest;
    (n, List.rev !nodes)

let mask_shapes (s : string) : string =
  let b = Buffer.create (String.length s) in
  let n = String.length s in
  let i = ref 0 in
  while !i < n do
    if starts_at s !i "shape=box" then (Buffer.add_string b "shape=?"; i := !i + 9)
    else if starts_at s !i "shape=ellipse" then (Buffer.add_string b "shape=?"; i := !i + 13)
    else (Buffer.add_char b s.[!i]; incr i)
  done; Buffer.contents b

(* ---------------------------------------------------------------- cases *)
let check (case : Sexp.t) : unit =
  match case with
  | List [Atom "case"; Atom id; Atom kind; so; Atom sp; saff; Atom impl] when kind = "func" || kind = "poly" ->
    let poly = (kind = "poly") in
    bump kind;
    let (o, display) = opts_of kind so in
    let p = prec_of (Atom sp) in
    let (_, m, b) = mat_of_aff saff in
    stat_matrix o display sp m b;
    if impl = "panic" then result id "VIOL" "panic" "rendering panicked"
    else begin
      let lr = check_label ~where:kind ~poly o p m b impl in
      (* T1 *)
      let (fm, fb) = fmat_of m b in
      let mo = if display then (if poly then opts_poly else opts_func) else model_opts o in
      let toks = if poly then render_poly mo (nat_of_int p) dv (model_rk lr.rk) fm fb
        else render_func mo (nat_of_int p) (model_rk lr.rk) fm fb in
      let expected = string_of_chars (text toks) in
      let ok1 = (expected = impl) in
      if ok1 then bump "mirror_agree";
      (match lr.fails with
       | (tag, d) :: _ -> result id "VIOL" tag d
       | [] -> if not ok1 then result id "VIOL" "text" (diff_detail expected impl) else result id "OK" kind "")
    end
  | List [Atom "case"; Atom id; Atom "tree"; Atom sp; stree; Atom disp; Atom dot] ->
    bump "tree";
    bump ("tree_prec_" ^ sp);
    let p = prec_of (Atom sp) in
    let nodes = tnodes_of stree in
    let arena = arena_of_nodes nodes in
    let nn = List.length nodes in
    if nn >= 2 then bump "nontrivial";
    let maxi = List.fold_left (fun a nd -> max a nd.idx) (-1) nodes in
    if maxi + 1 > nn then bump "tree_arena_with_holes";
    if List.exists (fun nd -> List.exists (fun x -> x.neg && x.f = 0.0) (nd.b @ List.concat nd.m)) nodes then bump "tree_with_negative_zero";
    bump_by "tree_nodes" nn;
    let find i = List.find_opt (fun nd -> nd.idx = i) nodes in
    let fails = ref [] in
    let fail tag d = fails := (tag, d) :: !fails in
    if disp = "panic" || dot = "panic" then result id "VIOL" "panic" "rendering of a tree panicked"
    else begin
      (* ---- DOT *)
      let rk_dot = Hashtbl.create 16 in
      (try
         if dot = "skip" then raise Exit;
         let pd = parse_dot dot in
         let exp_idx = List.map (fun nd -> nd.idx) nodes in
         let act_idx = List.map (fun (i, _, _) -> i) pd.dnodes in
         if act_idx <> exp_idx then
           fail "dot-nodes" (Printf.sprintf "node statements for [%s], arena cells [%s]" (String.concat " " (List.map string_of_int act_idx))
                               (String.concat " " (List.map string_of_int exp_idx)));
         List.iter (fun (i, lab, _) ->
             match find i with
             | None -> ()
             | Some nd ->
               let lr = check_label ~where:(Printf.sprintf "dot node n%d" i) ~poly:(not nd.leaf) (if nd.leaf then ml_func else ml_poly) p nd.m nd.b lab in
               Hashtbl.replace rk_dot i lr.rk;
               List.iter (fun (tag, d) -> fail ("dot-" ^ tag) d) lr.fails) pd.dnodes;
         let exp_edges = List.filter_map (fun nd -> match nd.parent with Some pi -> Some (pi, nd.idx) | None -> None) nodes in
         let act_edges = List.map (fun (s, t, _, _) -> (s, t)) pd.dedges in
         if act_edges <> exp_edges then
           fail "dot-edges" (Printf.sprintf "edge statements [%s], parent links of the arena [%s]"
                               (String.concat " " (List.map (fun (s, t) -> Printf.sprintf "%d->%d" s t) act_edges))
                               (String.concat " " (List.map (fun (s, t) -> Printf.sprintf "%d->%d" s t) exp_edges)));
         List.iter (fun (s, t, l, _) ->
             match find s with
             | Some pn when (try List.nth pn.children l = Some t with _ -> false) -> ()
             | _ -> fail "dot-edges" (Printf.sprintf "edge n%d -> n%d carries label %d but children[%d] of n%d is not %d" s t l l s t)) pd.dedges
       with Scan msg -> fail "dot-parse" msg | Exit -> bump "tree_without_dot_K_not_2");
      let rk_of tbl = fun (i : nat) -> (match Hashtbl.find_opt tbl (int_of_nat i) with Some rk -> model_rk rk | None -> (fun _ j -> j)) in
      let exp_dot = string_of_chars (dot_text (dot_model (fun v -> v) (nat_of_int p) dv (rk_of rk_dot) arena)) in
      (* ---- Display *)
      let rk_disp = Hashtbl.create 16 in
      (try
         let (cnt, dn) = parse_display disp in
         if cnt <> nn then fail "display-nodes" (Printf.sprintf "header says %d nodes, arena has %d" cnt nn);
         let exp_idx = List.map (fun nd -> nd.idx) nodes in
         let act_idx = List.map (fun d -> d.di) dn in
         if act_idx <> exp_idx then
           fail "display-nodes" (Printf.sprintf "node lines for [%s], arena cells [%s]" (String.concat " " (List.map string_of_int act_idx))
                                   (String.concat " " (List.map string_of_int exp_idx)));
         List.iter (fun d ->
             match find d.di with
             | None -> ()
             | Some nd ->
               if d.dleaf <> nd.leaf then fail "display-nodes" (Printf.sprintf "node %d shown as %s" d.di (if d.dleaf then "T" else "D"));
               let lr = check_label ~where:(Printf.sprintf "display node %d" d.di) ~poly:(not nd.leaf) (if nd.leaf then ml_func else ml_poly) 2 nd.m nd.b d.dlabel in
               Hashtbl.replace rk_disp d.di lr.rk;
               List.iter (fun (tag, dd) -> fail ("display-" ^ tag) dd) lr.fails;
               let exp_pairs = List.concat (List.mapi (fun l c -> match c with Some c -> [(l, c)] | None -> []) nd.children) in
               let act_pairs = (match d.dchildren with Some ps -> ps | None -> []) in
               if act_pairs <> exp_pairs || (d.dchildren <> None && exp_pairs = []) then
                 fail "display-edges" (Printf.sprintf "node %d: children line [%s], child links [%s]" d.di
                                         (String.concat ", " (List.map (fun (l, c) -> Printf.sprintf "%d->%d" l c) act_pairs))
                                         (String.concat ", " (List.map (fun (l, c) -> Printf.sprintf "%d->%d" l c) exp_pairs)))) dn
       with Scan msg -> fail "display-parse" msg);
      let exp_disp = string_of_chars (display_text (display_model (fun v -> v) dv (rk_of rk_disp) arena)) in
      let ok_dot = (dot = "skip" || exp_dot = dot) and ok_disp = (exp_disp = disp) in
      if ok_dot && ok_disp then bump "mirror_agree";
      match List.rev !fails with
      | (tag, d) :: _ -> result id "VIOL" tag d
      | [] ->
        if not ok_disp then result id "VIOL" "display-text" (diff_detail exp_disp disp)
        else if not ok_dot then begin
          if mask_shapes exp_dot = mask_shapes dot then (bump "mirror_mismatch"; result id "MIRROR" "dot-attr" "only the shape attributes differ from the model (dot.rs swaps decision_attr/terminal_attr; the property does not speak about shapes)")
          else result id "VIOL" "dot-text" (diff_detail exp_dot dot)
        end
        else result id "OK" "tree" ""
    end
  | List (Atom "case" :: Atom id :: _) -> result id "ERR" "shape" "unknown case shape"
  | _ -> result "?" "ERR" "shape" "not a case"

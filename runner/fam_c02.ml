(* fam_c02.ml -- C02: composition law; deciding comparison = certified equivalence for all inputs *)
open Model
open Conv
open Sexp
open Common

let frame_check ~id (f : itree) (h : itree) : bool =
  (* every node of f is a node of the result with the same parent; decisions keep value and the children they had *)
  List.for_all (fun nd ->
    match find_node h nd.idx with
    | None -> result id "VIOL" "frame" (Printf.sprintf "node %d of the left operand is missing in the result" nd.idx); false
    | Some hn ->
      let ok_parent = (hn.parent = nd.parent) in
      let ok_dec = nd.leaf || (aff_eqb hn.naff nd.naff && hn.children = nd.children && not hn.leaf) in
      if not (ok_parent && ok_dec) then
        (result id "VIOL" "frame" (Printf.sprintf "node %d changed parent/children/value" nd.idx); false)
      else true) f.nodes

(* the frame relation of C02_frame, decided by the extracted, proved-sound checker (Pwl/ArenaFrameCheck.v) on the two
   dumped arenas *)
let frame_check_verified ~id (f : itree) (h : itree) : bool =
  if extendsb (arena_of f) (arena_of h) then true
  else (result id "VIOL" "frame" "the result arena does not extend the receiver's arena (index / parent / children / cached state / decision value of a node changed)"; false)

let check_compose ~(order : int list option) id k sf sg sg2 oc sh pts : unit =
    bump ("compose_K" ^ k);
    let f = itree_of sf and g = itree_of sg in
    (match ptree_of f, ptree_of g with
     | Some tf, Some tg ->
       let n = f.in_dim and m = g.in_dim in
       let guard = wfb (nat_of_int n) tf && outsb (nat_of_int m) tf && wfb (nat_of_int m) tg in
       if ptree_has_u tf || ptree_has_u tg then bump "partial_operand";
       if ptree_size tf > 1 && ptree_size tg > 1 then bump "nontrivial";
       (match oc with
        | "panic" ->
          if guard then result id "VIOL" "panic" "compose panicked on dimension-compatible operands"
          else (bump "malformed_both_reject"; result id "OK" "malformed" "")
        | _ ->
          if not guard then (bump "mirror_mismatch"; result id "MIRROR" "outcome" "implementation accepted operands the model guard rejects")
          else begin
            let h = itree_of sh in
            match ptree_of h with
            | None -> result id "VIOL" "abs" "result arena is not a tree"
            | Some th ->
              let spec = compose tf tg in
              let ok1 = equiv_check ~id ~tag:"compose-law" n th spec in
              let ok2 = if Sexp.to_string sg = Sexp.to_string sg2 then true
                else (result id "VIOL" "right-operand" "right operand changed"; false) in
              let ok3 = frame_check ~id f h && frame_check_verified ~id f h in
              let ok4 = points_check ~id ~tag:"evaluate" th pts in
              if not (ptree_eq th spec) then bump "mirror_mismatch" else bump "mirror_agree";
              (* arena-level model (Pwl/ArenaCompose.v: update_node / add_child_node on the dumped arena, keys from the
                 append allocator): it must return Ok and abstract to the lifted tree; the frame theorem C02_frame is
                 about this model *)
              (let af = arena_of f in
               let root = nat_of_int (match f.root with Some r -> r | None -> 0) in
               (match arena_compose next_key (nat_of_int (int_of_string k)) comp_schema tg af with
                | Some a' ->
                  (match abs_at (nat_of_int (List.length a' + 1)) a' root with
                   | Some t' when ptree_eq t' spec -> bump "arena_model_agree"
                   | _ -> bump "arena_model_mismatch"; result id "MIRROR" "arena-model" "abs of the arena-level model run differs from the lifted tree")
                | None -> bump "arena_model_panic"; result id "MIRROR" "arena-model" "the arena-level model run does not return Ok");
               (* the same model run with the terminals in the order the harness handed to generic_composition_inplace
                  (Pwl/ArenaComposeOrder.v, C02_arena_any_terminal_order): the list must be a permutation of the
                  terminal keys of the dumped receiver (the hypothesis of the theorem), the run must return Ok and
                  abstract to the lifted tree *)
               match order with
               | None -> ()
               | Some ord ->
                 let tk = List.map int_of_nat (terminal_keys af) in
                 if ord <> tk then bump "order_not_ascending";
                 if List.sort compare ord = tk then begin
                   bump "order_is_permutation";
                   match arena_compose_list next_key (nat_of_int (int_of_string k)) comp_schema tg (List.map nat_of_int ord) af with
                   | Some a' ->
                     (match abs_at (nat_of_int (List.length a' + 1)) a' root with
                      | Some t' when ptree_eq t' spec -> bump "arena_order_model_agree"
                      | _ -> bump "arena_order_model_mismatch"; result id "MIRROR" "arena-order-model" "abs of the arena-level model run with the harness's terminal order differs from the lifted tree")
                   | None -> bump "arena_order_model_panic"; result id "MIRROR" "arena-order-model" "the arena-level model run with the harness's terminal order does not return Ok"
                 end else begin
                   bump "order_not_permutation";
                   result id "MIRROR" "arena-order" "the terminal list the harness dumped is not a permutation of the terminal keys of the dumped receiver"
                 end);
              if ok1 && ok2 && ok3 && ok4 then result id "OK" "compose" ""
          end)
     | _ -> result id "ERR" "abs" "operand arena is not a tree")

let check (case : Sexp.t) : unit =
  match case with
  | List [Atom "case"; Atom id; Atom "compose"; Atom k; sf; sg; sg2; Atom oc; sh; List (Atom "pts" :: pts)] ->
    check_compose ~order:None id k sf sg sg2 oc sh pts
  | List [Atom "case"; Atom id; Atom "compose"; Atom k; sf; sg; sg2; Atom oc; sh; List (Atom "pts" :: pts); List (Atom "order" :: ord)] ->
    check_compose ~order:(Some (List.map (function Atom x -> int_of_string x | _ -> -1) ord)) id k sf sg sg2 oc sh pts
  | List [Atom "case"; Atom id; Atom "apply_func"; Atom k; sf; sa; Atom oc; sh; List (Atom "pts" :: pts)] ->
    bump ("apply_func_K" ^ k);
    let f = itree_of sf and a = aff_of sa in
    (match ptree_of f with
     | Some tf ->
       let n = f.in_dim in
       let guard = wfb (nat_of_int n) tf && wf_affb a && outsb a.a_in tf in
       if ptree_size tf > 1 then bump "nontrivial";
       (match oc with
        | "panic" ->
          if guard then result id "VIOL" "panic" "apply_func panicked on a dimension-compatible argument"
          else (bump "malformed_both_reject"; result id "OK" "malformed" "")
        | _ ->
          if not guard then (bump "mirror_mismatch"; result id "MIRROR" "outcome" "implementation accepted an argument the model guard rejects")
          else begin
            let h = itree_of sh in
            match ptree_of h with
            | None -> result id "VIOL" "abs" "result arena is not a tree"
            | Some th ->
              let spec = apply_func a tf in
              let ok1 = equiv_check ~id ~tag:"apply_func-law" n th spec in
              let ok3 = frame_check ~id f h && frame_check_verified ~id f h in
              let ok4 = points_check ~id ~tag:"evaluate" th pts in
              if not (ptree_eq th spec) then bump "mirror_mismatch" else bump "mirror_agree";
              if ok1 && ok3 && ok4 then result id "OK" "apply_func" ""
          end)
     | None -> result id "ERR" "abs" "operand arena is not a tree")
  | _ -> result "?" "ERR" "parse" "unrecognised case"

(* fam_c04.ml -- C04: every operation history keeps a tree well-formed and usable.
   Deciding, per step, on the implementation's dump: no panic on a dimension-compatible operation; the dumped arena
   is a tree and satisfies the executable well-formedness predicate (Model.cwftb through Model.cabs: leaf flags as
   stored) for the dimensions the model predicts; evaluate() does not panic; the same for one further operation of
   every kind after the last step.  Mirror (never deciding): the model's step, driven by the logged LP answers,
   yields the dumped tree; on the malformed stream the model's Panic prediction equals the observed outcome.
   On failure the detail names the shortest failing prefix of the history. *)
open Model
open Conv
open Sexp

let tol = qfrac (z_of_int 1) (pos_of_int 100000000)    (* 1e-8: Polytope::contains *)

(* ---------------------------------------------------------------- conversions *)
let bop_of = function "add" -> BAdd | "sub" -> BSub | "mul" -> BMul | "div" -> BDiv | _ -> raise (Parse_error "bop")
let root_of (t : itree) = match t.root with Some r -> r | None -> 0
let ctree_of (t : itree) : ctree option =
  let a = arena_of t in
  cabs (nat_of_int (List.length a + 1)) a (nat_of_int (root_of t))
let operand_of (s : Sexp.t) : ptree =
  match ptree_of (itree_of s) with Some p -> p | None -> raise (Parse_error "operand arena is not a tree")
let op_of (s : Sexp.t) : string * op =
  match s with
  | List [Atom "apply"; a] -> ("apply", OApply (aff_of a))
  | List [Atom "compose"; Atom p; g] -> ((if p = "1" then "compose-prune" else "compose"), OCompose (p = "1", operand_of g))
  | List [Atom "elim"] -> ("elim", OElim)
  | List [Atom "reduce"] -> ("reduce", OReduce)
  | List [Atom "treeop"; Atom b; g] -> ("tree-" ^ b, OTree (bop_of b, operand_of g))
  | List [Atom "neg"] -> ("neg", ONeg)
  | List [Atom "affr"; Atom b; g] -> ("tree-" ^ b ^ "-aff", OAffR (bop_of b, aff_of g))
  | List [Atom "affl"; Atom b; g] -> ("aff-" ^ b ^ "-tree", OAffL (bop_of b, aff_of g))
  | _ -> raise (Parse_error "op")
let lpans_of = function
  | Atom "infeasible" -> LInf | Atom "unbounded" -> LUnb | Atom "error" -> LErr
  | List [Atom "optimal"; w] -> LOpt (vec_of w)
  | _ -> raise (Parse_error "lp status")

(* dimensions of a dumped tree: (in_dim field, rows of the terminal with the smallest arena index) *)
let dims_of (t : itree) : int * int =
  let m = match List.find_opt (fun nd -> nd.leaf) t.nodes with
    | Some nd -> int_of_nat (outdim nd.naff) | None -> 0 in
  (t.in_dim, m)

(* which clause of the well-formedness predicate fails, and where *)
let diagnose (t : itree) (n : int) (m : int) : string =
  let bad = ref [] in
  let add i s = if List.length !bad < 4 then bad := (Printf.sprintf "node %d: %s" i s) :: !bad in
  if t.in_dim <> n then bad := (Printf.sprintf "in_dim field %d, expected %d" t.in_dim n) :: !bad;
  List.iter (fun nd ->
      let kids = List.length (List.filter (fun c -> c <> None) nd.children) in
      let rows = int_of_nat (outdim nd.naff) in
      if not (wf_affb nd.naff) then add nd.idx "matrix/bias shapes inconsistent";
      if int_of_nat nd.naff.a_in <> n then add nd.idx (Printf.sprintf "function on R^%d in a tree on R^%d" (int_of_nat nd.naff.a_in) n);
      if nd.leaf && kids > 0 then add nd.idx "flagged as terminal but has children";
      if (not nd.leaf) && kids = 0 then add nd.idx "decision without children";
      if nd.leaf && rows <> m then add nd.idx (Printf.sprintf "terminal with %d rows, common output dimension %d" rows m);
      if (not nd.leaf) && rows <> 1 then add nd.idx (Printf.sprintf "decision with %d rows in a binary tree" rows);
      if List.length nd.children <> 2 then add nd.idx "not two child slots") t.nodes;
  if !bad = [] then "arena is not a tree (dangling or shared child index)" else String.concat "; " (List.rev !bad)

(* structure only: leaf flags and occupied slots *)
let rec same_structure (a : ctree) (b : ctree) : bool =
  match a, b with
  | CU, CU -> true
  | CN (_, l1, _, _, a0, a1), CN (_, l2, _, _, b0, b1) -> l1 = l2 && same_structure a0 b0 && same_structure a1 b1
  | _, _ -> false
let rec csize = function CU -> 0 | CN (_, _, _, _, a, b) -> 1 + csize a + csize b

type stepres = Good of itree * ctree | Bad

(* op kinds as the property lists them: the operator symbol does not make a new kind *)
let category (kind : string) : string =
  let has_prefix p = String.length kind >= String.length p && String.sub kind 0 (String.length p) = p in
  let has_suffix p = String.length kind >= String.length p && String.sub kind (String.length kind - String.length p) (String.length p) = p in
  if has_prefix "tree-" && has_suffix "-aff" then "tree-op-aff"
  else if has_prefix "aff-" then "aff-op-tree"
  else if has_prefix "tree-" then "tree-op-tree"
  else kind

let kinds_str ks = String.concat "," (List.rev ks)

(* one recorded operation applied to the tree `pre`; `what` = "step" | "probe"; returns the post state *)
let check_op ~id ~(what : string) ~(prefix : string list) ~(ctor : string) (pre : itree) (cpre : ctree) (rec_ : Sexp.t)
  : (string * bool * stepres) =
  match rec_ with
  | List [Atom _; sop; Atom oc; Atom ex; payload; List (Atom "log" :: log); List (Atom "pts" :: pts)] ->
    let (kind, mop) = op_of sop in
    let (n, m) = dims_of pre in
    let where = Printf.sprintf "ctor=%s prefix-length=%d ops=[%s] failing-%s=%s" ctor (List.length prefix + 1)
        (kinds_str (kind :: prefix)) what kind in
    bump ("op_" ^ kind);
    let ninf = List.length (List.filter (function List [Atom "lp"; _; Atom "infeasible"] -> true | _ -> false) log) in
    let nlp = List.length (List.filter (function List (Atom "lp" :: _) -> true | _ -> false) log) in
    bump_by "lp_calls" nlp; bump_by "lp_infeasible" ninf;
    if not (compat mop (nat_of_int n) (nat_of_int m)) then begin
      result id "ERR" "generator" (Printf.sprintf "%s: operation is not dimension-compatible with a tree of dimensions (%d,%d)" where n m);
      (kind, ninf > 0, Bad)
    end else if oc = "panic" || oc = "abort" then begin
      result id "VIOL" (what ^ "-panic") (Printf.sprintf "%s: a dimension-compatible operation %s: %s" where
                                            (if oc = "abort" then "aborted the process" else "panicked") (match payload with Atom s -> s | _ -> ""));
      (kind, ninf > 0, Bad)
    end else begin
      let post = itree_of payload in
      let (n', m') = next_dims mop (nat_of_int n, nat_of_int m) in
      let n' = int_of_nat n' and m' = int_of_nat m' in
      match ctree_of post with
      | None ->
        result id "VIOL" (what ^ "-ill-formed") (Printf.sprintf "%s: %s" where (diagnose post n' m'));
        (kind, ninf > 0, Bad)
      | Some cpost ->
        if not (post.in_dim = n' && cwftb (nat_of_int n') (nat_of_int m') cpost) then begin
          result id "VIOL" (what ^ "-ill-formed") (Printf.sprintf "%s: %s" where (diagnose post n' m'));
          (kind, ninf > 0, Bad)
        end else begin
          let pts_ok = List.for_all (function List [Atom "pt"; _; Atom "panic"] -> false | _ -> true) pts in
          bump_by "evaluations" (List.length pts);
          if not pts_ok then begin
            result id "VIOL" "evaluate-panic" (Printf.sprintf "%s: evaluate panicked on the resulting tree" where);
            (kind, ninf > 0, Bad)
          end else begin
            (* mirror: the model's step on the dumped pre-state, LP answers replayed from the log *)
            (try
               let lps = List.filter_map (function List [Atom "lp"; _; st] -> Some (lpans_of st) | _ -> None) log in
               let byrows = List.filter_map (function
                   | List [Atom "lp"; p; st] -> let p = aff_of p in Some (List.combine p.a_mat p.a_bias, lpans_of st)
                   | _ -> None) log in
               let mirs = List.filter_map (function
                   | List [Atom "mir"; Atom "none"] -> Some None
                   | List [Atom "mir"; List [Atom "some"; mm; _]] -> Some (Some (mat_of mm))
                   | _ -> None) log in
               let o = (match mop with OElim -> oracle_of_logs lps mirs | _ -> oracle_by_rows byrows) in
               (match step tol o mop cpre with
                | HPanic -> bump "mirror_mismatch"; result id "MIRROR" "outcome" (Printf.sprintf "%s: model predicts Panic, implementation completed" where)
                | HOk cm ->
                  if ctree_eqb_shape cm cpost then bump "mirror_agree"
                  else if same_structure cm cpost then
                    (if ex = "1" then (bump "mirror_mismatch"; result id "MIRROR" "coefficients" (Printf.sprintf "%s: same structure, coefficients or cached states differ" where))
                     else bump "mirror_structure_only_inexact")
                  else if ex = "1" || nlp = 0 then
                    (bump "mirror_mismatch"; result id "MIRROR" "structure" (Printf.sprintf "%s: model tree has %d nodes, implementation %d" where (csize cm) (csize cpost)))
                  else bump "mirror_skipped_inexact")
             with Nonfinite -> bump "mirror_nonfinite");
            (kind, ninf > 0, Good (post, cpost))
          end
        end
    end
  | _ -> raise (Parse_error "step record")

let check (case : Sexp.t) : unit =
  match case with
  | List [Atom "case"; Atom id; Atom "hist"; List [Atom "ctor"; Atom ctor]; s0; List (Atom "pts" :: pts0); List (Atom "steps" :: steps); List (Atom "probes" :: probes)] ->
    bump ("ctor_" ^ ctor);
    let t0 = itree_of s0 in
    let (n0, m0) = dims_of t0 in
    (match ctree_of t0 with
     | None -> result id "VIOL" "constructor-ill-formed" (Printf.sprintf "ctor=%s: %s" ctor (diagnose t0 n0 m0))
     | Some c0 ->
       if not (cwftb (nat_of_int n0) (nat_of_int m0) c0) then
         result id "VIOL" "constructor-ill-formed" (Printf.sprintf "ctor=%s: %s" ctor (diagnose t0 n0 m0))
       else if List.exists (function List [Atom "pt"; _; Atom "panic"] -> true | _ -> false) pts0 then
         result id "VIOL" "evaluate-panic" (Printf.sprintf "ctor=%s: evaluate panicked on the constructed tree" ctor)
       else begin
         let cur = ref (Some (t0, c0)) in
         let prefix = ref [] in
         let kinds = Hashtbl.create 8 in
         let pruned = ref false in
         let maxsize = ref (List.length t0.nodes) in
         List.iter (fun st ->
             match !cur with
             | None -> ()
             | Some (pre, cpre) ->
               let (kind, inf, r) = check_op ~id ~what:"step" ~prefix:!prefix ~ctor pre cpre st in
               prefix := kind :: !prefix;
               Hashtbl.replace kinds (category kind) ();
               if inf then pruned := true;
               (match r with
                | Good (post, cpost) ->
                  maxsize := max !maxsize (List.length post.nodes);
                  if List.exists (fun nd -> (not nd.leaf) && List.exists (fun c -> c = None) nd.children) post.nodes then bump "steps_partial_tree";
                  if List.length post.nodes < List.length pre.nodes then bump "steps_shrinking";
                  cur := Some (post, cpost)
                | Bad -> cur := None)) steps;
         (match !cur with
          | None -> ()
          | Some (fin, cfin) ->
            let all_ok = List.fold_left (fun ok pr ->
                let (_, _, r) = check_op ~id ~what:"probe" ~prefix:!prefix ~ctor fin cfin pr in
                bump "probes";
                ok && (match r with Good _ -> true | Bad -> false)) true probes in
            bump_by "history_steps" (List.length !prefix);
            bump ("len_" ^ (let l = List.length !prefix in if l <= 3 then "1-3" else if l <= 8 then "4-8" else if l <= 12 then "9-12" else if l <= 24 then "13-24" else "25-40"));
            bump ("maxnodes_" ^ (let s = !maxsize in if s <= 7 then "le7" else if s <= 31 then "le31" else if s <= 127 then "le127" else "gt127"));
            if !pruned then bump "histories_with_pruning";
            if !pruned && Hashtbl.length kinds >= 3 then bump "nontrivial";
            if all_ok then result id "OK" "history" "")
       end)
  | List [Atom "case"; Atom id; Atom "bad"; s0; sop; Atom oc; payload] ->
    bump "malformed";
    let t0 = itree_of s0 in
    let (n, m) = dims_of t0 in
    let (kind, mop) = op_of sop in
    bump ("malformed_" ^ kind);
    (match ctree_of t0 with
     | None -> result id "ERR" "abs" "malformed stream: pre-state is not a tree"
     | Some c0 ->
       if compat mop (nat_of_int n) (nat_of_int m) then result id "ERR" "generator" "malformed stream produced a compatible operation"
       else begin
         let model_panics = (match step tol (oracle_by_rows []) mop c0 with HPanic -> true | HOk _ -> false) in
         let impl_panics = (oc = "panic" || oc = "abort") in
         if oc = "abort" then bump "malformed_process_abort";
         if model_panics = impl_panics then (bump "malformed_outcome_agree"; result id "OK" "malformed" "")
         else if model_panics && not impl_panics then begin
           (* ndarray broadcasts operands one of whose mismatching dimensions is 1; the model has no broadcasting *)
           let broadcast = (match mop with
               | OTree (_, g) -> n = 1 || m = 1 || int_of_nat (pin g) = 1 || int_of_nat (pout g) = 1
               | OAffR (_, g) | OAffL (_, g) -> n = 1 || m = 1 || int_of_nat g.a_in = 1 || int_of_nat (outdim g) = 1
               | _ -> false) in
           if broadcast then (bump "malformed_broadcast_accepted"; result id "OK" "malformed-broadcast" "")
           else (bump "mirror_mismatch"; result id "MIRROR" "malformed-outcome" (Printf.sprintf "%s on (%d,%d): model predicts Panic, implementation completed" kind n m))
         end else (bump "mirror_mismatch"; result id "MIRROR" "malformed-outcome" (Printf.sprintf "%s on (%d,%d): implementation panicked, model completes" kind n m))
       end)
  | _ -> result "?" "ERR" "parse" "unrecognised case"

(* conv.ml -- conversions between the harness' s-expressions and the extracted model types (unverified glue) *)
open Model
open Sexp

let rec nat_of_int n = if n <= 0 then O else S (nat_of_int (n - 1))
let rec int_of_nat = function O -> 0 | S n -> 1 + int_of_nat n
let rec pos_of_int n = if n = 1 then XH else if n land 1 = 0 then XO (pos_of_int (n lsr 1)) else XI (pos_of_int (n lsr 1))
let z_of_int n = if n = 0 then Z0 else if n > 0 then Zpos (pos_of_int n) else Zneg (pos_of_int (-n))

(* decimal printing of positive / Z / Qc *)
let string_of_pos (p : positive) : string =
  (* digits little-endian base 10 *)
  let rec bits p acc = match p with XH -> true :: acc | XO p' -> bits p' (false :: acc) | XI p' -> bits p' (true :: acc) in
  let bs = bits p [] in (* most significant first *)
  let digits = ref [0] in
  let double_add carry0 =
    let rec go ds carry = match ds with
      | [] -> if carry > 0 then [carry] else []
      | d :: rest -> let v = d * 2 + carry in (v mod 10) :: go rest (v / 10) in
    digits := go !digits carry0 in
  List.iter (fun b -> double_add (if b then 1 else 0)) bs;
  String.concat "" (List.rev_map string_of_int !digits)
let string_of_z = function Z0 -> "0" | Zpos p -> string_of_pos p | Zneg p -> "-" ^ string_of_pos p
let string_of_qc (x : qc) : string =
  let q = this x in
  match q.qden with XH -> string_of_z q.qnum | d -> string_of_z q.qnum ^ "/" ^ string_of_pos d
let string_of_vec (v : vec) = "[" ^ String.concat " " (List.map string_of_qc v) ^ "]"
let string_of_ovec = function None -> "none" | Some v -> string_of_vec v

(* float token "m:e" ; -0:0 is zero; inf/nan are rejected (None) *)
exception Nonfinite
let qc_of_token (s : string) : qc =
  match String.index_opt s ':' with
  | None -> raise Nonfinite
  | Some i ->
    let m = int_of_string (String.sub s 0 i) and e = int_of_string (String.sub s (i + 1) (String.length s - i - 1)) in
    qc_of_float (z_of_int m) (z_of_int e)
let is_negzero (s : string) = (s = "-0:0")

let vec_of (s : Sexp.t) : vec = List.map (fun a -> qc_of_token (atom a)) (list s)
let mat_of (s : Sexp.t) : mat = List.map vec_of (list s)
let aff_of (s : Sexp.t) : aff =
  match s with
  | List [Atom "aff"; n; m; b] -> { a_in = nat_of_int (int_of n); a_mat = mat_of m; a_bias = vec_of b }
  | _ -> raise (Parse_error "aff")
let state_of (s : Sexp.t) : nstate =
  match s with
  | Atom "indet" -> Indet | Atom "infeas" -> Infeas | Atom "feas" -> Feas
  | List (Atom "wit" :: ws) -> FeasW (List.map vec_of ws)
  | _ -> raise (Parse_error "state")
let opt_idx (s : Sexp.t) : int option = match s with Atom "-" -> None | a -> Some (int_of a)

(* implementation-side view of a dumped tree *)
type inode = { idx : int; parent : int option; children : int option list; leaf : bool; naff : aff; nstate : nstate; raw : Sexp.t }
type itree = { in_dim : int; root : int option; nodes : inode list }

let itree_of (s : Sexp.t) : itree =
  match s with
  | List (Atom "tree" :: n :: r :: nodes) ->
    { in_dim = int_of n; root = opt_idx r;
      nodes = List.map (fun nd -> match nd with
        | List [Atom "node"; i; p; List ch; lf; a; st] ->
          { idx = int_of i; parent = opt_idx p; children = List.map opt_idx ch; leaf = (atom lf = "1");
            naff = aff_of a; nstate = state_of st; raw = nd }
        | _ -> raise (Parse_error "node")) nodes }
  | _ -> raise (Parse_error "tree")

let arena_of (t : itree) : acont arena =
  let maxi = List.fold_left (fun m nd -> max m nd.idx) (-1) t.nodes in
  let arr = Array.make (maxi + 1) None in
  List.iter (fun nd ->
    arr.(nd.idx) <- Some { c_val = { ac_aff = nd.naff; ac_state = nd.nstate };
                           c_parent = (match nd.parent with None -> None | Some p -> Some (nat_of_int p));
                           c_children = List.map (function None -> None | Some c -> Some (nat_of_int c)) nd.children;
                           c_leaf = nd.leaf }) t.nodes;
  Array.to_list arr
let afftree_of (t : itree) : afftree =
  { at_in = nat_of_int t.in_dim; at_root = nat_of_int (match t.root with Some r -> r | None -> 0); at_arena = arena_of t }
let ptree_of (t : itree) : ptree option = abs_tree (afftree_of t)

let find_node (t : itree) (i : int) : inode option = List.find_opt (fun nd -> nd.idx = i) t.nodes

let rec ptree_size = function U -> 0 | T _ -> 1 | D (_, ch) -> 1 + List.fold_left (fun a c -> a + ptree_size c) 0 ch
let rec ptree_depth = function U -> 0 | T _ -> 0 | D (_, ch) -> 1 + List.fold_left (fun a c -> max a (ptree_depth c)) 0 ch
let rec ptree_has_u = function U -> true | T _ -> false | D (_, ch) -> List.exists ptree_has_u ch
let rec ptree_eq (a : ptree) (b : ptree) : bool =
  match a, b with
  | U, U -> true
  | T f, T g -> aff_eqb f g
  | D (p, c1), D (q, c2) -> aff_eqb p q && List.length c1 = List.length c2 && List.for_all2 ptree_eq c1 c2
  | _, _ -> false

(* (pt x none|panic|(some v)) *)
type ptout = PNone | PPanic | PSome of vec
let pt_of (s : Sexp.t) : vec * ptout =
  match s with
  | List [Atom "pt"; x; Atom "none"] -> (vec_of x, PNone)
  | List [Atom "pt"; x; Atom "panic"] -> (vec_of x, PPanic)
  | List [Atom "pt"; x; List [Atom "some"; v]] -> (vec_of x, PSome (vec_of v))
  | _ -> raise (Parse_error "pt")

(* result lines *)
let stats : (string, int) Hashtbl.t = Hashtbl.create 64
let bump k = Hashtbl.replace stats k (1 + (try Hashtbl.find stats k with Not_found -> 0))
let bump_by k n = Hashtbl.replace stats k (n + (try Hashtbl.find stats k with Not_found -> 0))
let result id status tag detail = Printf.printf "R %s %s %s %s\n" id status tag detail
let dump_stats () = Hashtbl.iter (fun k v -> Printf.printf "S %s %d\n" k v) stats

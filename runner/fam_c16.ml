(* fam_c16.ml -- C16: affine algebra and named constructors.
   Deciding comparison: the implementation's result coefficients (every ownership variant) equal the model's result
   (for affine maps coefficient equality is semantic equality), same ok/panic outcome, apply() outputs equal model apply. *)
open Model
open Conv
open Sexp

type mres = MOk of aff | MPanic | MNonfinite | MList of aff list | MVec of vec option * bool

let opt = function Some a -> MOk a | None -> MPanic
let of_opres = function ROk a -> MOk a | RPanic -> MPanic | RNonfinite -> MNonfinite

let bad s = raise (Parse_error ("arg " ^ s))
let arg_n = function List [Atom "n"; a] -> nat_of_int (int_of a) | _ -> bad "n"
let arg_q = function List [Atom "q"; a] -> qc_of_token (atom a) | _ -> bad "q"
let arg_v = function List [Atom "v"; v] -> vec_of v | _ -> bad "v"
let arg_m = function List [Atom "m"; r; c; m] -> (int_of r, int_of c, mat_of m) | _ -> bad "m"
let arg_ov = function
  | List [Atom "ov"; List l] -> List.map (fun a -> if atom a = "nan" then None else Some (qc_of_token (atom a))) l
  | _ -> bad "ov"
let arg_idx = function List [Atom "idx"; List l] -> List.map (fun a -> nat_of_int (int_of a)) l | _ -> bad "idx"
let arg_rows = function
  | List (Atom "rows" :: rs) ->
    List.map (function List [Atom "r"; v; b] -> (vec_of v, qc_of_token (atom b)) | _ -> bad "row") rs
  | _ -> bad "rows"

let model (op : string) (args : Sexp.t list) : mres =
  match op, args with
  | "identity", [n] -> MOk (c_identity (arg_n n))
  | "zeros", [n] -> MOk (c_zeros (arg_n n))
  | "constant", [n; q] -> MOk (c_constant (arg_n n) (arg_q q))
  | "unit", [n; i] -> opt (c_unit (arg_n n) (arg_n i))
  | "zero_idx", [n; i] -> opt (c_zero_idx (arg_n n) (arg_n i))
  | "sum", [n] -> MOk (c_sum (arg_n n))
  | "subtraction", [n; l; r] -> opt (c_subtraction (arg_n n) (arg_n l) (arg_n r))
  | "rotation", [m] -> let (_, c, mt) = arg_m m in opt (c_rotation (nat_of_int c) mt)
  | "scaling", [v] -> MOk (c_scaling (arg_v v))
  | "uniform_scaling", [n; q] -> MOk (c_uniform_scaling (arg_n n) (arg_q q))
  | "slice", [ov] -> MOk (c_slice (arg_ov ov))
  | "translation", [n; v] -> opt (c_translation (arg_n n) (arg_v v))
  | "compose", [f; g] -> opt (compose_rs (aff_of f) (aff_of g))
  | "stack", [f; g] -> opt (stack_rs (aff_of f) (aff_of g))
  | "add", [f; g] -> opt (aop_rs qcplus (aff_of f) (aff_of g))
  | "sub", [f; g] -> opt (aop_rs qcminus (aff_of f) (aff_of g))
  | "mul", [f; g] -> opt (aop_rs qcmult (aff_of f) (aff_of g))
  | "div", [f; g] -> of_opres (adiv_rs (aff_of f) (aff_of g))
  | "rem", [f; g] -> of_opres (arem_rs (aff_of f) (aff_of g))
  | "neg", [f] -> MOk (aneg (aff_of f))
  | "negate", [f] -> MOk (negate (aff_of f))
  | "row", [f; i] -> opt (row_rs (aff_of f) (arg_n i))
  | "row_iter", [f] -> MList (row_iter (aff_of f))
  | "remove_rows", [f; idx] -> opt (remove_rows_rs (aff_of f) (arg_idx idx))
  | "remove_zero_rows", [f] -> MOk (remove_zero_rows (aff_of f))
  | "remove_zero_columns", [f] -> MOk (remove_zero_columns (aff_of f))
  | "from_row_iter", [n; m; rows] -> opt (from_row_iter_rs (arg_n n) (arg_n m) (arg_rows rows))
  | "from_mats", [m; v] -> let (_, c, mt) = arg_m m in opt (from_mats_rs (nat_of_int c) mt (arg_v v))
  | "view", [f] -> MOk (view (aff_of f))
  | "to_owned", [f] -> MOk (to_owned (aff_of f))
  | "as_polytope", [f] -> MOk (as_polytope (aff_of f))
  | "as_function", [f] -> MOk (as_function (aff_of f))
  | "poly_new", [f] -> MOk (poly_new (aff_of f))
  | "convert_leq", [f] -> MOk (convert_to (aff_of f) MatrixLeqBias)
  | "convert_biasleq0", [f] -> MOk (convert_to (aff_of f) MatrixBiasLeqZero)
  | "convert_geq", [f] -> MOk (convert_to (aff_of f) MatrixGeqBias)
  | "convert_biasgeq0", [f] -> MOk (convert_to (aff_of f) MatrixBiasGeqZero)
  | "apply", [f] -> MOk (aff_of f)
  | "apply_transpose", [f; y; o] -> MVec (apply_transpose_rs (aff_of f) (arg_v y), int_of_nat (arg_n o) = 1)
  | "reset_row", [f; i] -> opt (reset_row_rs (aff_of f) (arg_n i))
  | _ -> raise (Parse_error ("unknown op " ^ op))

let string_of_aff (a : aff) =
  Printf.sprintf "(aff %d (%s) %s)" (int_of_nat a.a_in) (String.concat " " (List.map string_of_vec a.a_mat)) (string_of_vec a.a_bias)

(* correctly rounded quotient: relative error at most 2^-52 *)
let eps52 = qc_of_float (z_of_int 1) (z_of_int (-52))
let close (x : qc) (y : qc) : bool = qleb (qabs (qcminus x y)) (qcmult (qabs y) eps52)
let aff_close (a : aff) (b : aff) : bool =
  a.a_in = b.a_in && List.length a.a_mat = List.length b.a_mat && List.length a.a_bias = List.length b.a_bias
  && List.for_all2 (fun r s -> List.length r = List.length s && List.for_all2 close r s) a.a_mat b.a_mat
  && List.for_all2 close a.a_bias b.a_bias

let has_offdiag (a : aff) : bool =
  int_of_nat a.a_in >= 2 &&
  List.exists (fun x -> x) (List.mapi (fun i r -> List.exists (fun x -> x) (List.mapi (fun j c -> i <> j && not (qeqb c (qc_of_token "0:0"))) r)) a.a_mat)

let check (case : Sexp.t) : unit =
  match case with
  | List [Atom "case"; Atom id; Atom op; List (Atom "args" :: args); List (Atom "res" :: res); List (Atom "pts" :: pts)] ->
    bump ("op_" ^ op);
    let m = model op args in
    let ok = ref true in
    let viol kind detail = ok := false; result id "VIOL" op (Printf.sprintf "kind=%s op=%s %s args=%s" kind op detail (Sexp.to_string (List args))) in
    (match m with
     | MOk a -> if has_offdiag a then bump "nontrivial"
     | MList (a :: _ :: _) -> if int_of_nat a.a_in >= 2 then bump "nontrivial"
     | MPanic -> bump "model_panic"
     | MNonfinite -> bump "model_nonfinite"
     | _ -> ());
    List.iter (fun r ->
      bump "variants";
      match r with
      | List [Atom var; Atom oc; rs] ->
        (match m, oc with
         | MVec (None, _), "panic" -> bump "malformed_both_reject"
         | MVec (None, _), _ -> viol "outcome" (Printf.sprintf "variant=%s implementation returned %s, model: panic (shape rule of input - bias)" var (Sexp.to_string rs))
         | MVec (Some v, _), "panic" -> viol "outcome" (Printf.sprintf "variant=%s implementation panicked, model: %s" var (string_of_vec v))
         | MVec (Some v, orth), _ ->
           (match (try Some (vec_of rs) with Nonfinite -> None) with
            | Some w when veqb w v ->
              bump "mirror_agree";
              if orth then bump "apply_transpose_orthogonal"
            | _ -> viol "coef" (Printf.sprintf "variant=%s impl=%s model=%s" var (Sexp.to_string rs) (string_of_vec v)))
         | MPanic, "panic" -> bump "malformed_both_reject"
         | MPanic, _ -> viol "outcome" (Printf.sprintf "variant=%s implementation returned %s, model: panic (guard violated)" var (Sexp.to_string rs))
         | MNonfinite, "panic" -> bump "nonfinite_panic"
         | MNonfinite, _ ->
           (match (try Some (aff_of rs) with Nonfinite -> None) with
            | None -> bump "nonfinite_tokens"
            | Some _ -> viol "outcome" (Printf.sprintf "variant=%s finite result %s on a zero divisor coefficient" var (Sexp.to_string rs)))
         | (MOk _ | MList _), "panic" -> viol "outcome" (Printf.sprintf "variant=%s implementation panicked, model: %s" var
                                  (match m with MOk a -> string_of_aff a | _ -> "list"))
         | MOk a, _ ->
           (match (try Some (aff_of rs) with Nonfinite -> None) with
            | None -> viol "coef" (Printf.sprintf "variant=%s non-finite result %s model=%s" var (Sexp.to_string rs) (string_of_aff a))
            | Some b ->
              let same = if op = "div" then aff_close b a else aff_eqb b a in
              if same then bump "mirror_agree"
              else viol "coef" (Printf.sprintf "variant=%s impl=%s model=%s" var (Sexp.to_string rs) (string_of_aff a)))
         | MList l, _ ->
           (match rs with
            | List (Atom "affs" :: items) ->
              let bs = List.map aff_of items in
              if List.length bs = List.length l && List.for_all2 aff_eqb bs l then bump "mirror_agree"
              else viol "coef" (Printf.sprintf "variant=%s impl=%s model=%s" var (Sexp.to_string rs) (String.concat " " (List.map string_of_aff l)))
            | _ -> viol "coef" (Printf.sprintf "variant=%s list expected" var)))
      | _ -> raise (Parse_error "res")) res;
    (* apply() on sampled points against the model's apply of the model's result *)
    (match m with
     | MOk a ->
       List.iter (fun p ->
         bump "points";
         match p with
         | List [Atom "pt"; x; out] ->
           let xv = vec_of x in
           (match apply_rs a xv, out with
            | None, Atom "panic" -> bump "points_malformed_both_reject"
            | Some v, List [Atom "some"; w] ->
              (match (try Some (vec_of w) with Nonfinite -> None) with
               | Some wv when veqb wv v -> ()
               | _ -> viol "apply" (Printf.sprintf "x=%s impl=%s model=%s" (string_of_vec xv) (Sexp.to_string w) (string_of_vec v)))
            | None, o -> viol "apply" (Printf.sprintf "x=%s impl=%s model=panic (wrong input length)" (string_of_vec xv) (Sexp.to_string o))
            | Some v, o -> viol "apply" (Printf.sprintf "x=%s impl=%s model=%s" (string_of_vec xv) (Sexp.to_string o) (string_of_vec v)))
         | _ -> raise (Parse_error "pt")) pts
     | _ -> ());
    if !ok then result id "OK" op ""
  | _ -> result "?" "ERR" "parse" "unrecognised case"

(* fam_c07.ml -- C07: operators on trees; deciding comparison = certified equivalence with the lifted model tree *)
open Model
open Conv
open Sexp
open Common

let fo_of = function
  | "add" -> qcplus | "sub" -> qcminus | "mul" -> qcmult | "div" -> qcdiv
  | s -> raise (Parse_error ("op " ^ s))

(* all entries of a divisor non-zero? *)
let aff_nonzero (f : aff) = List.for_all (fun r -> List.for_all (fun c -> not (qeqb c (qz Z0))) r) f.a_mat
                            && List.for_all (fun c -> not (qeqb c (qz Z0))) f.a_bias
let rec tree_nonzero = function U -> true | T f -> aff_nonzero f | D (_, ch) -> List.for_all tree_nonzero ch

let first_out t = (* output dimension of the first terminal *)
  let rec go = function U -> None | T f -> Some (int_of_nat (outdim f))
                        | D (_, ch) -> List.fold_left (fun a c -> match a with Some _ -> a | None -> go c) None ch in go t

let check_variants ~id (vs : Sexp.t list) : Sexp.t option * bool =
  (* returns the first variant's dump (None when it panicked) and whether all variants agree *)
  match vs with
  | [] -> (None, true)
  | v1 :: rest ->
    let same = List.for_all (fun v -> v = Atom "same") rest in
    if not same then result id "VIOL" "variants" "ownership variants of the operator give different trees";
    ((match v1 with Atom "panic" -> None | t -> Some t), same)

(* the half-spaces polyhedra() reports for the edge into each node = the model's label_rows of the parent's predicate
   (Pwl/EdgeRegion.v), row by row, for any branching factor *)
let check_edges ~id (t : itree) (items : Sexp.t list) : unit =
  let find i = List.find_opt (fun nd -> nd.idx = i) t.nodes in
  let bad = ref None in
  List.iter (function
      | List [Atom "item"; i; sp] ->
        let i = int_of i in
        (match find i with
         | Some nd ->
           (match nd.parent with
            | None -> ()
            | Some pi ->
              (match find pi with
               | Some pn ->
                 let label = (let rec pos k = function [] -> -1 | Some c :: _ when c = i -> k | _ :: r -> pos (k + 1) r in pos 0 pn.children) in
                 let expect = label_rows pn.naff (nat_of_int label) in
                 let got = aff_of sp in
                 let got_rows = List.combine got.a_mat got.a_bias in
                 let same = List.length expect = List.length got_rows &&
                            List.for_all2 (fun (r1, b1) (r2, b2) -> veqb r1 r2 && qeqb b1 b2) expect got_rows in
                 bump "edge_regions";
                 if not same && !bad = None then bad := Some (Printf.sprintf "node %d (label %d below node %d): reported half-spaces differ from the per-row label bits of the predicate" i label pi)
               | None -> ()))
         | None -> ())
      | _ -> raise (Parse_error "edge item")) items;
  match !bad with
  | Some d -> result id "VIOL" "edge-region" d
  | None -> result id "OK" "edges" ""

let check (case : Sexp.t) : unit =
  match case with
  | List [Atom "case"; Atom id; Atom "edges"; st; List (Atom "items" :: items)] ->
    check_edges ~id (itree_of st) items
  | List [Atom "case"; Atom id; Atom "edges"; _; Atom "panic"] ->
    result id "VIOL" "edge-region" "polyhedra() panicked"
  | List [Atom "case"; Atom id; Atom kind; Atom op; sa; sb; List (Atom "variants" :: vs); List (Atom "pts" :: pts)] ->
    bump (kind ^ "_" ^ op);
    let a = itree_of sa in
    let n = a.in_dim in
    (match ptree_of a with
     | None -> result id "ERR" "abs" "operand arena is not a tree"
     | Some ta ->
       let m = match first_out ta with Some m -> m | None -> 0 in
       let wf_a = wfb (nat_of_int n) ta && outsb (nat_of_int m) ta in
       let (spec, guard, nontriv) =
         (match kind with
          | "tt" ->
            let b = itree_of sb in
            (match ptree_of b with
             | None -> (None, false, false)
             | Some tb ->
               if ptree_has_u ta || ptree_has_u tb then bump "partial_operand";
               let g = wf_a && b.in_dim = n && wfb (nat_of_int n) tb && outsb (nat_of_int m) tb
                       && (op <> "div" || tree_nonzero tb) in
               (Some (top (fo_of op) ta tb), g, ptree_size ta > 1 && ptree_size tb > 1))
          | "tf" ->
            let f = aff_of sb in
            let g = wf_a && wf_affb f && int_of_nat f.a_in = n && int_of_nat (outdim f) = m && (op <> "div" || aff_nonzero f) in
            (Some (top_r (fo_of op) ta f), g, ptree_size ta > 1)
          | "ft" ->
            let f = aff_of sb in
            let g = wf_a && wf_affb f && int_of_nat f.a_in = n && int_of_nat (outdim f) = m && (op <> "div" || tree_nonzero ta) in
            (Some (top_l (fo_of op) f ta), g, ptree_size ta > 1)
          | "neg" -> (Some (tneg ta), wf_a, ptree_size ta > 1)
          | _ -> (None, false, false)) in
       if nontriv then bump "nontrivial";
       let (v1, same) = check_variants ~id vs in
       (match v1, spec with
        | _, None -> result id "ERR" "parse" "bad case"
        | None, Some _ ->
          if guard then result id "VIOL" "panic" "operator panicked on shape-compatible operands"
          else (bump "malformed_both_reject"; result id "OK" "malformed" "")
        | Some sh, Some spec ->
          if not guard then (bump "mirror_mismatch"; result id "MIRROR" "outcome" "implementation accepted operands the model guard rejects")
          else begin
            let h = itree_of sh in
            match ptree_of h with
            | None -> result id "VIOL" "abs" "result arena is not a tree"
            | Some th ->
              let ok1 = equiv_check ~id ~tag:"lifting" n th spec in
              let ok2 = points_check ~id ~tag:"evaluate" th pts in
              if ptree_eq th spec then bump "mirror_agree" else bump "mirror_mismatch";
              if ok1 && ok2 && same then result id "OK" kind ""
          end))
  | _ -> result "?" "ERR" "parse" "unrecognised case"

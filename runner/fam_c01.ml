(* fam_c01.ml -- C01: distillation is faithful.
   Deciding comparisons (the property's observables), per generated network + optional precondition:
     no-panic     a dimension-consistent layer list with a well-formed precondition distills without panicking
     wellformed   the distilled arena is a well-formed binary tree with the network's output dimension
     faithful     implementation tree == reference tree (schema trees composed WITHOUT any pruning below the
                  precondition tree) for ALL inputs, by the certified tree_equiv; a difference is tolerated only inside
                  a region certified thin (tau); the reference tree denotes net_eval by Arch.distill_ref_denotes
     evaluate     AffTree::evaluate on lattice / on-hyperplane points == the reference SEMANTICS net_eval computed
                  directly on the point (independent of any tree)
   Mirror: the model distillation (Distill/Net.v) driven by the logged LP / mirror answers reproduces the
   implementation's tree (shape, coefficients, cached states). *)
open Model
open Conv
open Sexp
open Common

let tau = qfrac (z_of_int 1) (pos_of_int 1000000)
let tol = qfrac (z_of_int 1) (pos_of_int 100000000)
let nat_s n = string_of_int (int_of_nat n)
let natof s = nat_of_int (int_of s)

let layer_of (s : Sexp.t) : layer =
  match s with
  | List [Atom "lin"; a] -> LLinear (aff_of a)
  | List [Atom "relu"; i] -> LReLU (natof i)
  | List [Atom "leaky"; i; a] -> LLeaky (natof i, qc_of_token (atom a))
  | List [Atom "htanh"; i] -> LHardTanh (natof i)
  | List [Atom "hsig"; i] -> LHardSigmoid (natof i)
  | List [Atom "argmax"] -> LArgmax
  | List [Atom "class"; c] -> LClassChar (natof c)
  | _ -> raise (Parse_error "layer")
let layer_s = function
  | LLinear a -> Printf.sprintf "Linear(%sx%s)" (nat_s a.a_in) (nat_s (outdim a))
  | LReLU i -> "ReLU(" ^ nat_s i ^ ")"
  | LLeaky (i, a) -> "LeakyReLU(" ^ nat_s i ^ "," ^ string_of_qc a ^ ")"
  | LHardTanh i -> "HardTanh(" ^ nat_s i ^ ")"
  | LHardSigmoid i -> "HardSigmoid(" ^ nat_s i ^ ")"
  | LArgmax -> "Argmax"
  | LClassChar c -> "ClassChar(" ^ nat_s c ^ ")"
let layers_s ls = "[" ^ String.concat "; " (List.map layer_s ls) ^ "]"

let first_out t =
  let rec go = function U -> None | T f -> Some (int_of_nat (outdim f))
                        | D (_, ch) -> List.fold_left (fun a c -> match a with Some _ -> a | None -> go c) None ch in go t

let lpans_of = function
  | Atom "infeasible" -> LInf | Atom "unbounded" -> LUnb | Atom "error" -> LErr
  | List [Atom "optimal"; w] -> LOpt (vec_of w)
  | _ -> raise (Parse_error "lp status")

(* certified equivalence; a difference is tolerated only inside a region of the reference tree that is certified thin *)
let equiv_mod_thin ~id ~tag n (t_impl : ptree) (t_ref : ptree) (describe : vec -> string) : bool =
  (* verified comparison (Cert/EquivThin.v): cells of the REFERENCE tree whose closed region is certified thin are
     skipped, everything else must agree for all inputs; a Differ comes with a point outside every skipped cell *)
  (match tree_equiv_skip (thin_skip (nat_of_int n) tau) (nat_of_int n) [] t_ref t_impl with
   | Equal ->
     (match tree_equiv_x (nat_of_int n) t_impl t_ref with Equal -> () | _ -> bump "thin_region_difference_allowed"); true
   | TUnknown -> result id "UNK" tag "kernel-unknown"; false
   | Differ x ->
     if check_cex (nat_of_int n) [] t_impl t_ref x then
       result id "VIOL" tag (Printf.sprintf "x=%s distilled=%s network=%s %s" (string_of_vec x)
                               (string_of_ovec (eval t_impl x)) (string_of_ovec (eval t_ref x)) (describe x))
     else result id "UNK" tag "counterexample-not-validated";
     false)

let check (case : Sexp.t) : unit =
  match case with
  | List [Atom "case"; Atom id; Atom "net"; Atom nin; spre; List (Atom "layers" :: sls); sres; List (Atom "log" :: log); List (Atom "pts" :: pts)] ->
    bump "cases";
    let n = int_of_string nin in
    let layers = List.map layer_of sls in
    List.iter (function LLinear _ -> bump "layer_linear" | LReLU _ -> bump "layer_relu" | LLeaky _ -> bump "layer_leaky"
                      | LHardTanh _ -> bump "layer_hardtanh" | LHardSigmoid _ -> bump "layer_hardsigmoid"
                      | LArgmax -> bump "layer_argmax" | LClassChar _ -> bump "layer_classchar") layers;
    List.iter (function List (Atom "lp" :: _ :: _ :: st :: _) ->
        bump "lp_calls"; (match st with Atom "infeasible" -> bump "lp_infeasible" | _ -> ())
                      | List (Atom "mir" :: _) -> bump "mirror_calls" | _ -> ()) log;
    (* the precondition *)
    let pre_it = (match spre with Atom "none" -> None | s -> Some (itree_of s)) in
    let pre_pt, pre_ct =
      (match pre_it with
       | None -> bump "pre_none"; (Some (T (sc_identity (nat_of_int n))), Some (id_tree (nat_of_int n)))
       | Some it ->
         bump "pre_given";
         let a = arena_of it in
         let root = nat_of_int (match it.root with Some r -> r | None -> 0) in
         (ptree_of it, cabs (nat_of_int (List.length a + 1)) a root)) in
    (match pre_pt, pre_ct with
     | Some ppre, Some cpre ->
       if ptree_has_u ppre then bump "pre_partial";
       let d0 = (match first_out ppre with Some d -> d | None -> n) in
       let hsig = List.exists (function LHardSigmoid _ -> true | _ -> false) layers in
       let s = sc_sixth_f64 in
       let consistent = (match layers_out_dim (nat_of_int d0) layers with Some _ -> true | None -> false)
                        && List.for_all layer_wfb layers && cwftb (nat_of_int n) (nat_of_int d0) cpre in
       if not consistent then begin
         bump "inconsistent";
         (match sres with
          | List [Atom "panic"; _] -> result id "OK" "rejected" ""
          | _ -> result id "MIRROR" "outcome" "the model rejects the layer list, the implementation distilled it")
       end else begin
         let dout = (match layers_out_dim (nat_of_int d0) layers with Some d -> int_of_nat d | None -> 0) in
         match sres with
         | List [Atom "panic"; Atom msg] ->
           result id "VIOL" "no-panic" (Printf.sprintf "afftree_from_layers panicked on a dimension-consistent network %s (in=%d, precondition out=%d): %s"
                                          (layers_s layers) n d0 msg)
         | List [Atom "ok"; st] ->
           let it = itree_of st in
           let a = arena_of it in
           let root = nat_of_int (match it.root with Some r -> r | None -> 0) in
           (match ptree_of it, cabs (nat_of_int (List.length a + 1)) a root with
            | Some pt, Some ct ->
              if List.length it.nodes > 3 && List.length layers >= 2 then bump "nontrivial";
              bump_by "nodes" (List.length it.nodes);
              let ok_wf =
                if cwftb (nat_of_int n) (nat_of_int dout) ct then true
                else (result id "VIOL" "wellformed" (Printf.sprintf "distilled tree of %s is not a well-formed tree R^%d -> R^%d" (layers_s layers) n dout); false) in
              (* reference: schema trees composed below the precondition tree, no pruning at all *)
              let reference = distill_ref_from s (nat_of_int d0) ppre layers in
              let describe x =
                Printf.sprintf "(precondition(x)=%s, layers %s)" (string_of_ovec (eval ppre x)) (layers_s layers) in
              (* hard sigmoid: the slope 1/6 is not a dyadic number, products with it round in f64; the exact all-input
                 comparison applies to networks whose intermediate values are exactly representable (property text),
                 networks with a hard sigmoid are compared on points up to rounding below *)
              let ok_eq = if hsig then (bump "inexact_hsig"; true) else equiv_mod_thin ~id ~tag:"faithful" n pt reference describe in
              (* evaluate() against the reference semantics computed directly *)
              let ok_pts = List.for_all (fun p ->
                  match (try Some (pt_of p) with Nonfinite -> None) with
                  | None -> bump "points_nonfinite"; true
                  | Some (x, out) ->
                    bump "points";
                    let expect = (match eval ppre x with Some y -> Some (net_eval s layers y) | None -> None) in
                    let exact = not hsig in
                    let has_head = List.exists (function LArgmax | LClassChar _ -> true | _ -> false) layers in
                    (* up to rounding: every activation is continuous, so away from nothing but the heads' ties a
                       relative error of 1e-9 bounds the difference *)
                    let close a b =
                      let d = qabs (qcminus a b) and m = qcplus (qz (z_of_int 1)) (qabs b) in
                      qleb d (qcmult (qfrac (z_of_int 1) (pos_of_int 1000000000)) m) in
                    let ok = (match out, expect with
                        | PNone, None -> true
                        | PSome v, Some w ->
                          if exact then veqb v w
                          else if has_head then (bump "points_hsig_head_skipped"; List.length v = List.length w)
                          else (bump "points_up_to_rounding"; List.length v = List.length w && List.for_all2 close v w)
                        | _ -> false) in
                    if not ok then
                      result id "VIOL" "evaluate" (Printf.sprintf "x=%s evaluate=%s network=%s layers %s" (string_of_vec x)
                                                     (match out with PNone -> "none" | PPanic -> "panic" | PSome v -> string_of_vec v)
                                                     (string_of_ovec expect) (layers_s layers));
                    ok) pts in
              (* mirror: the model distillation replayed with the logged answers *)
              (try
                 let lps = List.filter_map (function
                     | List (Atom "lp" :: poly :: _ :: st :: _) -> let p = aff_of poly in Some (List.combine p.a_mat p.a_bias, lpans_of st)
                     | _ -> None) log in
                 let mirs = List.filter_map (function
                     | List [Atom "mir"; poly; spts; _; r] ->
                       let p = aff_of poly in
                       let ans = (match r with Atom "none" -> None | List [Atom "some"; m; _] -> Some (mat_of m) | _ -> None) in
                       Some ((List.combine p.a_mat p.a_bias, mat_of spts), ans)
                     | _ -> None) log in
                 let o = oracle_by_query lps mirs in
                 (match distill_from (fun _ -> o) tol s O (nat_of_int d0) cpre layers with
                  | Some r -> if ctree_eqb_shape r ct then bump "mirror_agree"
                    else if hsig then bump "mirror_inexact_hsig" else bump "mirror_mismatch"
                  | None -> bump "mirror_mismatch")
               with Nonfinite -> bump "mirror_nonfinite");
              if ok_wf && ok_eq && ok_pts then result id "OK" "net" ""
            | _ -> result id "VIOL" "wellformed" "distilled arena is not a tree")
         | _ -> raise (Parse_error "result")
       end
     | _ -> result id "ERR" "abs" "precondition arena is not a tree")
  | List [Atom "case"; Atom id; Atom "shipped"; Atom name; Atom "unreadable"] ->
    result id "ERR" "shipped" ("cannot read the shipped network " ^ name)
  | List [Atom "case"; Atom id; Atom "shipped"; Atom name; _; List (Atom "layers" :: _); List [Atom "panic"; Atom msg]] ->
    result id "VIOL" "no-panic" (Printf.sprintf "afftree_from_layers panicked on the shipped network %s: %s" name msg)
  | List [Atom "case"; Atom id; Atom "shipped"; Atom name; Atom nin; List (Atom "layers" :: sls);
          List [Atom "size"; Atom nodes; Atom terms]; List (Atom "pts" :: pts)] ->
    (* real weights: evaluate() of the distilled tree against the exact-rational network, up to rounding *)
    bump "shipped_networks"; bump "nontrivial";
    bump_by "shipped_nodes" (int_of_string nodes); bump_by "shipped_terminals" (int_of_string terms);
    let layers = List.map layer_of sls in
    let n = int_of_string nin in
    let consistent = (match layers_out_dim (nat_of_int n) layers with Some _ -> true | None -> false) in
    if not consistent then result id "ERR" "shipped" "the shipped network is not dimension-consistent in the model"
    else begin
      let has_head = List.exists (function LArgmax | LClassChar _ -> true | _ -> false) layers in
      let rel = qfrac (z_of_int 1) (pos_of_int 1000000000) in
      let close a b = qleb (qabs (qcminus a b)) (qcmult rel (qcplus (qz (z_of_int 1)) (qabs b))) in
      let ok = List.for_all (fun p ->
          match (try Some (pt_of p) with Nonfinite -> None) with
          | None -> bump "points_nonfinite"; true
          | Some (x, out) ->
            bump "shipped_points";
            let w = net_eval sc_sixth_f64 layers x in
            let good = (match out with
                | PSome v -> List.length v = List.length w && (has_head || List.for_all2 close v w)
                | _ -> false) in
            if not good then
              result id "VIOL" "evaluate" (Printf.sprintf "shipped network %s: x=%s evaluate=%s network=%s (relative tolerance 1e-9)" name
                                             (string_of_vec x) (match out with PNone -> "none" | PPanic -> "panic" | PSome v -> string_of_vec v)
                                             (string_of_vec w));
            good) pts in
      if ok then result id "OK" "shipped" ""
    end
  | _ -> result "?" "ERR" "parse" "unrecognised case"

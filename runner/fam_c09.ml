(* fam_c09.ml -- C09: generator stream vs specification machine; find_terminal vs route; path_to_node *)
open Model
open Conv
open Sexp
open Common

type iout = IItem of int * int * int * (vec * qc) list | IEnd | ISkip | IPanic

let rows_of_polys (s : Sexp.t) : (vec * qc) list =
  List.concat_map (fun p -> let a = aff_of p in List.combine a.a_mat a.a_bias) (list s)
let iout_of (s : Sexp.t) : iout =
  match s with
  | Atom "end" -> IEnd | Atom "skip" -> ISkip | Atom "panic" -> IPanic
  | List [Atom "item"; d; i; r; ps] -> IItem (int_of d, int_of i, int_of r, rows_of_polys ps)
  | _ -> raise (Parse_error "stream item")
let rows_eq (a : (vec * qc) list) (b : (vec * qc) list) =
  List.length a = List.length b && List.for_all2 (fun (r1, b1) (r2, b2) -> veqb r1 r2 && qeqb b1 b2) a b
let out_eq (i : iout) (o : out) : bool =
  match i, o with
  | IEnd, OEnd | ISkip, OSkip | IPanic, OPanic -> true
  | IItem (d, ix, r, rows), OItem it ->
    d = int_of_nat it.o_depth && ix = int_of_nat it.o_index && r = int_of_nat it.o_nrem && rows_eq rows it.o_rows
  | _ -> false
let show_iout = function
  | IEnd -> "end" | ISkip -> "skip" | IPanic -> "panic"
  | IItem (d, i, r, rows) -> Printf.sprintf "item(depth=%d,index=%d,nrem=%d,rows=%d)" d i r (List.length rows)
let show_out = function
  | OEnd -> "end" | OSkip -> "skip" | OPanic -> "panic"
  | OItem it -> Printf.sprintf "item(depth=%d,index=%d,nrem=%d,rows=%d)" (int_of_nat it.o_depth) (int_of_nat it.o_index) (int_of_nat it.o_nrem) (List.length it.o_rows)

let rec first_diff k (a : iout list) (b : out list) : (int * string * string) option =
  match a, b with
  | [], [] -> None
  | x :: a', y :: b' -> if out_eq x y then first_diff (k + 1) a' b' else Some (k, show_iout x, show_out y)
  | x :: _, [] -> Some (k, show_iout x, "nothing")
  | [], y :: _ -> Some (k, "nothing", show_out y)

let check (case : Sexp.t) : unit =
  match case with
  | List [Atom "case"; Atom id; Atom "regions"; st; List (Atom "script" :: sc); List (Atom "stream" :: items);
          List (Atom "iter" :: iitems); List (Atom "find" :: fts); List (Atom "paths" :: paths)] ->
    let t = itree_of st in
    let n = t.in_dim in
    let root = (match t.root with Some r -> r | None -> 0) in
    let arena = arena_of t in
    let fuel = nat_of_int (List.length arena + 1) in
    (match ptree_of t, dabs fuel arena (nat_of_int root) with
     | Some pt, Some dt ->
       (* hypotheses of C09_generator_refines_spec (the other one is dabs = Some, matched above) *)
       if ginvb arena (nat_of_int root) then bump "ginv_holds" else bump "ginv_fails";
       let script = List.map (function Atom "N" -> Next | _ -> Skip) sc in
       let nskips = List.length (List.filter (fun c -> c = Skip) script) in
       bump_by "skips" nskips;
       if ptree_has_u pt then bump "partial";
       if nskips > 0 && ptree_size pt > 3 then bump "nontrivial";
       let impl = List.map iout_of items in
       (* the model stops at a panic; the implementation's stream was cut by catch_unwind as a whole *)
       let spec = f_run (f_new dt) script in
       let coded = pgen_run arena (pgen_new (nat_of_int root)) script in
       let ok1 =
         (match impl with
          | [IPanic] ->
            if List.mem OPanic spec then true
            else (result id "VIOL" "stream" (Printf.sprintf "generator panicked under script %s; the specification stream has %d items"
                                                (String.concat "" (List.map atom sc)) (List.length spec)); false)
          | _ ->
            (match first_diff 0 impl spec with
             | None -> true
             | Some (k, a, b) ->
               result id "VIOL" "stream" (Printf.sprintf "script %s position %d: implementation %s, specification %s"
                                            (String.concat "" (List.map atom sc)) k a b); false)) in
       (match impl with [IPanic] -> () | _ ->
          (match first_diff 0 impl coded with None -> bump "mirror_agree" | Some _ -> bump "mirror_mismatch"));
       (* the Iterator wrapper without skips = pre-order listing *)
       let pre = preorder fuel O O [] dt in
       let iimpl = List.map iout_of iitems in
       let ok2 = (match first_diff 0 iimpl (List.map (fun i -> OItem i) pre) with
           | None -> true
           | Some (k, a, b) -> result id "VIOL" "preorder" (Printf.sprintf "polyhedra_iter position %d: implementation %s, pre-order %s" k a b); false) in
       (* find_terminal: label sequence = route; the node returned is the node at that path; x satisfies the rows reported for it *)
       let node_rows = Hashtbl.create 16 in
       List.iter (function IItem (_, i, _, rows) -> Hashtbl.replace node_rows i rows | _ -> ()) iimpl;
       let ok3 = List.for_all (fun f ->
           match f with
           | List [Atom "ft"; sx; res; List ls] ->
             bump "points";
             let x = vec_of sx in
             let model = route pt x in
             (match res, model with
              | Atom "none", None -> true
              | Atom "panic", _ -> result id "VIOL" "find_terminal" ("panic at x=" ^ string_of_vec x); false
              | Atom i, Some mls ->
                let ils = List.map int_of ls in
                let idx = int_of_string i in
                let same_labels = (ils = List.map int_of_nat mls) in
                (* follow the labels in the arena dump *)
                let rec walk cur = function
                  | [] -> Some cur
                  | l :: rest -> (match find_node t cur with
                      | Some nd -> (match List.nth_opt nd.children l with Some (Some c) -> walk c rest | _ -> None)
                      | None -> None) in
                let reached = walk root ils in
                let in_rows = (match Hashtbl.find_opt node_rows idx with
                    | Some rows -> List.for_all (fun (r, b) -> qleb (dot r x) b) rows
                    | None -> false) in
                if same_labels && reached = Some idx && in_rows then true
                else (result id "VIOL" "find_terminal"
                        (Printf.sprintf "x=%s returned node %d labels [%s]; model route [%s]; node at labels %s; x in reported region: %b"
                           (string_of_vec x) idx (String.concat " " (List.map string_of_int ils))
                           (String.concat " " (List.map (fun l -> string_of_int (int_of_nat l)) mls))
                           (match reached with Some r -> string_of_int r | None -> "none") in_rows); false)
              | _, _ -> result id "VIOL" "find_terminal" ("definedness differs at x=" ^ string_of_vec x); false)
           | _ -> true) fts in
       (* path_to_node: the (node,label) sequence from the root *)
       let ok4 = List.for_all (fun p ->
           match p with
           | List [Atom "path"; i; List steps] ->
             let i = int_of i in
             let rec up cur acc = (match find_node t cur with
                 | Some nd -> (match nd.parent with
                     | None -> Some acc
                     | Some pi -> (match find_node t pi with
                         | Some pn ->
                           let rec lab k = function [] -> None | Some c :: _ when c = cur -> Some k | _ :: r -> lab (k + 1) r in
                           (match lab 0 pn.children with Some l -> up pi ((pi, l) :: acc) | None -> None)
                         | None -> None))
                 | None -> None) in
             let expect = up i [] in
             let got = List.map (function List [a; l] -> (int_of a, int_of l) | _ -> (-1, -1)) steps in
             if expect = Some got then true
             else (result id "VIOL" "path_to_node" (Printf.sprintf "node %d" i); false)
           | _ -> result id "VIOL" "path_to_node" "error result for an existing node"; false) paths in
       if ok1 && ok2 && ok3 && ok4 then result id "OK" "regions" ""
     | _ -> result id "ERR" "abs" "arena is not a tree")
  (* second case kind: the caller rewrites predicates (AffTree::update_node) between two next() calls of one traversal.
     The dumped tree is the one BEFORE the run; (U i AFF) = update_node(i, AFF) issued right after the Next that reported
     the decision i.  Deciding: the stream equals pgen_run_upd (coq/Pwl/PolyGenUpd.v: the existing coded machine
     pgen_next / pgen_skip on the arena as it is at each call; C09_generator_reads_current_parent) *)
  | List [Atom "case"; Atom id; Atom "regions_upd"; st; List (Atom "script" :: sc); List (Atom "stream" :: items)] ->
    let t = itree_of st in
    let root = (match t.root with Some r -> r | None -> 0) in
    let arena = arena_of t in
    let script = List.map (function
        | Atom "N" -> UNext
        | Atom "S" -> USkip
        | List [Atom "U"; i; a] -> UUpdate (nat_of_int (int_of i), aff_of a)
        | _ -> raise (Parse_error "upd script")) sc in
    let show_sc = String.concat "" (List.map (function UNext -> "N" | USkip -> "S" | UUpdate (i, _) -> Printf.sprintf "U%d" (int_of_nat i)) script) in
    let nupd = List.length (List.filter (function UUpdate _ -> true | _ -> false) script) in
    bump "upd_cases"; bump_by "updates" nupd;
    let impl = List.map iout_of items in
    let model = pgen_run_upd arena (pgen_new (nat_of_int root)) script in
    (* how often the rewriting matters: the stream differs from the one of the same commands on the unchanged tree *)
    let static = pgen_run arena (pgen_new (nat_of_int root))
        (List.filter_map (function UNext -> Some Next | USkip -> Some Skip | UUpdate _ -> None) script) in
    let effective = (List.length static <> List.length model) ||
                    List.exists2 (fun x y -> match x, y with
                        | OItem i1, OItem i2 -> not (rows_eq i1.o_rows i2.o_rows)
                        | _ -> false) static model in
    if effective then (bump "upd_effective"; bump "nontrivial");
    (match impl with
     | [IPanic] ->
       if List.mem OPanic model then result id "OK" "regions_upd" ""
       else result id "VIOL" "stream-upd" (Printf.sprintf "generator panicked under script %s; the model stream has %d items" show_sc (List.length model))
     | _ ->
       (match first_diff 0 impl model with
        | None -> bump "upd_agree"; result id "OK" "regions_upd" ""
        | Some (k, a, b) ->
          result id "VIOL" "stream-upd"
            (Printf.sprintf "reported half-spaces are not those of the parent's predicate at the time of the report: script %s position %d: implementation %s, model %s"
               show_sc k a b)))
  (* third case kind: PolyhedraGen::with_root(tree, r) with an inner start node r (coq/Pwl/PolyGenSub.v).
     Deciding (tag substream): the stream equals the specification forest machine f_run (f_new_sub rows0 dt) on r's
     subtree dt = dabs r, rows0 = start_rows = the rows of the edge that enters r (sub_spec_run;
     C09_generator_subtree_refines_spec under ginv_sub, whose executable form gsubb is evaluated here).
     Mirror: the coded machine pgen_run started at r *)
  | List [Atom "case"; Atom id; Atom "regions_sub"; st; r; List (Atom "script" :: sc); List (Atom "stream" :: items)] ->
    let t = itree_of st in
    let root = (match t.root with Some r -> r | None -> 0) in
    let start = int_of r in
    let arena = arena_of t in
    let fuel = nat_of_int (List.length arena + 1) in
    let script = List.map (function Atom "N" -> Next | _ -> Skip) sc in
    let show_sc = String.concat "" (List.map atom sc) in
    let nskips = List.length (List.filter (fun c -> c = Skip) script) in
    bump "substream_cases";
    if start <> root then bump "substream_inner";
    if gsubb arena then bump "ginv_sub_holds" else bump "ginv_sub_fails";
    let impl = List.map iout_of items in
    (* the left-most child chain below the start node; reported items (depth >= 1) that are not on it *)
    let rec chain cur acc =
      (match find_node t cur with
       | Some nd -> (match List.filter_map (fun x -> x) nd.children with c :: _ when not (List.mem c acc) -> chain c (cur :: acc) | _ -> cur :: acc)
       | None -> cur :: acc) in
    let ch = chain start [] in
    let off = List.filter (function IItem (d, i, _, _) -> d >= 1 && not (List.mem i ch) | _ -> false) impl in
    if start <> root && off <> [] then begin
      bump "substream_offchain"; bump "nontrivial";
      if nskips > 0 then bump "substream_offchain_skips"
    end;
    bump_by "substream_offchain_items" (List.length off);
    (match sub_spec_run fuel arena (nat_of_int start) script with
     | None -> result id "ERR" "abs" "the subtree of the start node is not a tree or its parent edge is dangling"
     | Some spec ->
       let coded = pgen_run arena (pgen_new (nat_of_int start)) script in
       (match impl with
        | [IPanic] ->
          if List.mem OPanic coded then bump "substream_mirror_agree"
          else (bump "substream_mirror_mismatch"; result id "MIRROR" "substream-coded" "generator panicked, the coded machine does not");
          if List.mem OPanic spec then result id "OK" "regions_sub" ""
          else result id "VIOL" "substream"
              (Printf.sprintf "with_root(%d) (tree root %d) panicked under script %s; the specification stream has %d items" start root show_sc (List.length spec))
        | _ ->
          (match first_diff 0 impl coded with
           | None -> bump "substream_mirror_agree"
           | Some (k, a, b) ->
             bump "substream_mirror_mismatch";
             result id "MIRROR" "substream-coded" (Printf.sprintf "with_root(%d) script %s position %d: implementation %s, coded machine %s" start show_sc k a b));
          (match first_diff 0 impl spec with
           | None -> bump "substream_agree"; result id "OK" "regions_sub" ""
           | Some (k, a, b) ->
             result id "VIOL" "substream"
               (Printf.sprintf "with_root(%d) (tree root %d), script %s position %d: implementation %s, specification %s (rows of the edge into the start node followed by the rows from it down to the node)"
                  start root show_sc k a b))))
  | _ -> result "?" "ERR" "parse" "unrecognised case"

(* fam_c15.ml -- C15: constraint clean-up keeps exactly the same point set.
   Deciding comparisons (the property's observables), on the implementation's own output:
     - certified two-way inclusion between the result and the input (verified rows_incl: a failing direction comes
       with a concrete rational point),
     - the result rows are a subsequence of the input rows (normalize: row-wise positive multiples up to rounding),
     - the canonical empty polytope only for a certified empty (remove_redundant: thin) input,
     - after remove_redundant_row_constraints no remaining row is implied by the others with slack 1e-6*|a|_1.
   Mirror (counted, never a violation): the result equals the model's result (Base/PolyClean.v) with exact
   proportionality as duplicate test and the certified classifier as LP oracle. *)
open Model
open Conv
open Sexp

let rows_of_aff (a : aff) : rows = List.combine a.a_mat a.a_bias
let string_of_rows (p : rows) =
  "{" ^ String.concat "; " (List.map (fun (a, b) -> string_of_vec a ^ "<=" ^ string_of_qc b) p) ^ "}"
let rows_eq (r1 : rows) (r2 : rows) : bool = List.length r1 = List.length r2 && List.for_all2 row_eqb r1 r2

type res = ROk of rows | RErr | RPanic | RNonfinite
let res_of (s : Sexp.t) : res =
  match s with
  | Atom "panic" -> RPanic
  | Atom "err" -> RErr
  | List [Atom "ok"; a] -> (try ROk (rows_of_aff (aff_of a)) with Nonfinite -> RNonfinite)
  | _ -> raise (Parse_error "res")

let zero = qc_of_token "0:0"
let two_m50 = qc_of_float (z_of_int 1) (z_of_int (-50))
let delta = qfrac (z_of_int 1) (pos_of_int 1000000)
let float_of_qc (x : qc) : float =
  let q = this x in
  float_of_string (string_of_z q.qnum) /. float_of_string (string_of_pos q.qden)
let qc_of_float_exact (f : float) : qc =
  if f = 0.0 then zero
  else begin
    let (m, e) = Float.frexp f in
    let mi = int_of_float (Float.ldexp m 53) in
    qc_of_float (z_of_int mi) (z_of_int (e - 53))
  end
let vall_zero (a : vec) = List.for_all (fun c -> qeqb c zero) a
(* reference norms (floating-point sqrt, unverified) -- CHECKED: s > 0 and |s^2 - a.a| <= 2^-50 a.a; None for zero rows *)
let ref_norms (p : rows) : (qc option * float) list option =
  let l = List.map (fun (a, _) ->
      if vall_zero a then (None, 0.0, true)
      else begin
        let f = sqrt (float_of_qc (dot a a)) in
        let s = qc_of_float_exact f in
        let aa = dot a a in
        (Some s, f, qltb zero s && qleb (qabs (qcminus (qcmult s s) aa)) (qcmult two_m50 aa))
      end) p in
  if List.for_all (fun (_, _, ok) -> ok) l then Some (List.map (fun (s, f, _) -> (s, f)) l) else None

let check (case : Sexp.t) : unit =
  match case with
  | List [Atom "case"; Atom id; Atom kind; pa; List [Atom "taut"; taut]; List [Atom "dup"; dup]; List [Atom "red"; red];
          List [Atom "norm"; norm]; List [Atom "zero"; zr]; List [Atom "rmrows"; List idx; rm]] ->
    let a = aff_of pa in
    let n = int_of_nat a.a_in in
    let nn = a.a_in in
    let inp = rows_of_aff a in
    let ok = ref true in
    let removed = ref false in
    let fail tag detail = ok := false; result id "VIOL" tag (detail ^ " input=" ^ string_of_rows inp) in
    let unk tag detail = ok := false; result id "UNK" tag detail in
    let mirror tag same detail = if same then bump "mirror_agree" else begin bump "mirror_mismatch"; result id "MIRROR" tag detail end in
    bump ("dim_" ^ string_of_int n);
    List.iter (fun k -> if k <> "" then bump ("kind_" ^ k)) (String.split_on_char '+' kind);
    (* certified two-way inclusion *)
    let set_equal (op : string) (out : rows) : unit =
      (match rows_incl nn out inp with
       | InclYes -> bump "incl_certified"
       | InclNo x -> fail (op ^ "-set-grew") (Printf.sprintf "x=%s satisfies the result but not the input; result=%s" (string_of_vec x) (string_of_rows out))
       | InclUnknown -> unk op "kernel-unknown");
      (match rows_incl nn inp out with
       | InclYes -> bump "incl_certified"
       | InclNo x -> fail (op ^ "-set-shrank") (Printf.sprintf "x=%s satisfies the input but not the result; result=%s" (string_of_vec x) (string_of_rows out))
       | InclUnknown -> unk op "kernel-unknown") in
    let subseq_or_fail (op : string) (out : rows) : bool =
      if subseqb out inp then begin
        bump "subseq_ok";
        if List.length out < List.length inp then begin bump (op ^ "_removed_rows"); removed := true end;
        true
      end else begin
        fail (op ^ "-not-subsequence") (Printf.sprintf "the result rows are not a subsequence of the input rows; result=%s" (string_of_rows out));
        false
      end in
    let generic (op : string) (r : res) (k : rows -> unit) : unit =
      match r with
      | RPanic -> fail (op ^ "-panic") "the call panicked"
      | RErr -> fail (op ^ "-error") "the call returned Err"
      | RNonfinite -> fail (op ^ "-nonfinite") "the result holds a non-finite coefficient"
      | ROk out -> k out in
    (* ---- remove_zero_rows ---- *)
    generic "zero" (res_of zr) (fun out ->
        ignore (subseq_or_fail "zero" out); set_equal "zero" out;
        mirror "zero" (rows_eq out (remove_zero_rows inp)) ("result=" ^ string_of_rows out));
    (* ---- remove_rows ---- *)
    let idxl = List.map (fun i -> nat_of_int (int_of i)) idx in
    (match res_of rm, remove_rows inp idxl with
     | RPanic, None -> bump "rmrows_malformed_both_reject"
     | RPanic, Some _ -> fail "rmrows-panic" (Printf.sprintf "remove_rows panicked on a valid ascending index list %s" (Sexp.to_string (List idx)))
     | ROk out, m ->
       ignore (subseq_or_fail "rmrows" out);
       (match rows_incl nn inp out with
        | InclYes -> bump "incl_certified"
        | InclNo x -> fail "rmrows-set-shrank" (Printf.sprintf "x=%s satisfies the input but not the result; result=%s" (string_of_vec x) (string_of_rows out))
        | InclUnknown -> unk "rmrows" "kernel-unknown");
       mirror "rmrows" (match m with Some r -> rows_eq out r | None -> false) (Printf.sprintf "idx=%s result=%s" (Sexp.to_string (List idx)) (string_of_rows out))
     | (RErr | RNonfinite), _ -> fail "rmrows-error" "unexpected outcome");
    (* ---- remove_tautologies ---- *)
    generic "taut" (res_of taut) (fun out ->
        let model = remove_tautologies nn inp in
        if subseqb out inp then begin
          ignore (subseq_or_fail "taut" out); set_equal "taut" out
        end
        else if rows_eq out (canonical_empty nn) then begin
          match empty_cert nn inp with
          | Some true -> bump "taut_empty_certified"
          | Some false -> (match rows_incl nn inp out with
              | InclNo x -> fail "taut-nonempty-replaced-by-empty" (Printf.sprintf "x=%s satisfies the input, the result is the canonical empty polytope" (string_of_vec x))
              | _ -> unk "taut" "kernel-unknown")
          | None -> unk "taut" "kernel-unknown"
        end
        else if rows_eq out (canonical_unbounded nn) && List.for_all (fun (a, b) -> vall_zero a && qleb zero b) inp then
          fail "taut-canonical-whole-space" "every input row is a tautology; the result is the canonical whole-space polytope 0<=1, which is not a subsequence of the input rows"
        else begin
          ignore (subseq_or_fail "taut" out); set_equal "taut" out
        end;
        mirror "taut" (rows_eq out model) ("result=" ^ string_of_rows out));
    (* ---- normalize and remove_duplicate_rows need the norms ---- *)
    (match ref_norms inp with
     | None -> unk "norms" "reference norms rejected"
     | Some sf ->
       (* ---- normalize: deciding = row i of the result is a POSITIVE MULTIPLE of row i of the input (matrix row and bias
          with the same factor, up to the rounding of one division: relative 2^-49); the factor 1/|row| itself is mirror ---- *)
       generic "norm" (res_of norm) (fun out ->
           if List.length out <> List.length inp then fail "norm-row-count" ("result=" ^ string_of_rows out)
           else begin
             let two_m49 = qcmult two_m50 (qcplus (qc_of_token "1:0") (qc_of_token "1:0")) in
             (* x' = t*x within relative 2^-49 *)
             let close t x' x = qleb (qabs (qcminus x' (qcmult t x))) (qcmult two_m49 (qabs (qcmult t x))) in
             let bad = ref [] in
             List.iteri (fun i ((a', b'), (a, b)) ->
                 let entries' = a' @ [b'] and entries = a @ [b] in
                 let good =
                   List.length a' = List.length a &&
                   (match List.find_opt (fun (_, x) -> not (qeqb x zero)) (List.combine entries' entries) with
                    | None -> List.for_all (fun x' -> qeqb x' zero) entries'
                    | Some (x0', x0) ->
                      let t = qcdiv x0' x0 in
                      qltb zero t && List.for_all2 (close t) entries' entries) in
                 if not good then bad := i :: !bad) (List.combine out inp);
             (match !bad with
              | [] -> bump "norm_rows_certified"
              | l ->
                let pt = (match rows_incl nn out inp, rows_incl nn inp out with
                    | InclNo x, _ -> Printf.sprintf " x=%s satisfies the result but not the input;" (string_of_vec x)
                    | _, InclNo x -> Printf.sprintf " x=%s satisfies the input but not the result;" (string_of_vec x)
                    | _ -> "") in
                fail "norm-row-not-multiple" (Printf.sprintf "rows %s of the result are not positive multiples of the corresponding input rows (row and bias);%s result=%s"
                                                (String.concat "," (List.map string_of_int (List.rev l))) pt (string_of_rows out)));
             (* mirror: bit-exact quotients *)
             let exact = List.for_all2 (fun ((a', b'), (a, b)) (so, f) ->
                 match so with
                 | None -> veqb a' a && qeqb b' b
                 | Some _ ->
                   let q x = qc_of_float_exact (float_of_qc x /. f) in
                   List.length a' = List.length a && List.for_all2 (fun x' x -> qeqb x' (q x)) a' a && qeqb b' (q b))
                 (List.combine out inp) sf in
             mirror "norm" exact ("result=" ^ string_of_rows out)
           end);
       (* ---- remove_duplicate_rows ---- *)
       generic "dup" (res_of dup) (fun out ->
           ignore (subseq_or_fail "dup" out); set_equal "dup" out;
           (* model with exact positive proportionality: normal forms by the (rational) l1 norm *)
           let ss = List.map (fun (a, _) -> if vall_zero a then None else Some (norm1 a)) inp in
           mirror "dup" (rows_eq out (remove_duplicate_rows_with ss inp)) ("result=" ^ string_of_rows out)));
    (* ---- remove_redundant_row_constraints ---- *)
    generic "red" (res_of red) (fun out ->
        if rows_eq out (canonical_empty nn) && not (subseqb out inp) then begin
          match solve nn (constrs_of (tighten tau_margin inp)) with
          | Unsat _ -> bump "red_empty_certified"
          | Sat x -> fail "red-nonempty-replaced-by-empty" (Printf.sprintf "x=%s satisfies every input row with slack 1e-6*|a|_1, the result is the canonical empty polytope" (string_of_vec x))
          | Unknown -> unk "red" "kernel-unknown"
        end else begin
          if subseq_or_fail "red" out then begin
            set_equal "red" out;
            (* no remaining row is implied by the others with slack delta*|a|_1 *)
            List.iteri (fun i (ai, bi) ->
                let others = List.filteri (fun j _ -> j <> i) out in
                (* slack delta*|a|_1 (delta for a zero row) *)
                let d = if vall_zero ai then delta else qcmult delta (norm1 ai) in
                match implied_by_margin nn others ai bi d with
                | Some false -> bump "irredundant_certified"
                | Some true -> fail "red-implied-row-kept" (Printf.sprintf "row %d (%s<=%s) of the result is implied by the other remaining rows with slack 1e-6*|a|_1; result=%s"
                                                              i (string_of_vec ai) (string_of_qc bi) (string_of_rows out))
                | None -> unk "red" "kernel-unknown") out
          end
        end;
        (match remove_redundant (exact_lp nn) zero inp with
         | RROk r -> mirror "red" (rows_eq out r) ("result=" ^ string_of_rows out ^ " model=" ^ string_of_rows r)
         | RREmpty -> mirror "red" (rows_eq out (canonical_empty nn)) ("result=" ^ string_of_rows out ^ " model=empty")
         | RRErr -> unk "red" "model oracle unknown"));
    if n >= 2 && List.length inp >= 3 && !removed then bump "nontrivial";
    if !ok then result id "OK" kind ""
  | _ -> result "?" "ERR" "parse" "unrecognised case"

(* fam_c08.ml -- C08: reduce *)
open Model
open Conv
open Sexp
open Common

let is_term_node (t : itree) (i : int) = match find_node t i with Some nd -> List.for_all (fun c -> c = None) nd.children | None -> false

let check (case : Sexp.t) : unit =
  match case with
  | List [Atom "case"; Atom id; Atom "reduce"; sb; Atom oc; sa; sa2; List (Atom "pts" :: pts)] ->
    let b = itree_of sb in
    let n = b.in_dim in
    (match ptree_of b with
     | None -> result id "ERR" "abs" "operand arena is not a tree"
     | Some tb ->
       if not (binb tb && wfb (nat_of_int n) tb) then result id "ERR" "gen" "generated tree is not binary/well-formed"
       else if oc = "panic" then result id "VIOL" "panic" "reduce panicked on a well-formed binary tree"
       else begin
         let a = itree_of sa in
         match ptree_of a with
         | None -> result id "VIOL" "abs" "result arena is not a tree"
         | Some ta ->
           let spec = reduce tb in
           if not (ptree_eq spec tb) then bump "nontrivial";
           if ptree_has_u tb then bump "partial";
           bump_by "merged_nodes" (ptree_size tb - ptree_size spec);
           let ok1 = equiv_check ~id ~tag:"preserves" n ta tb in
           let ok2 = if List.length a.nodes <= List.length b.nodes then true
             else (result id "VIOL" "size" "reduce increased the number of nodes"; false) in
           let ok3 = if Sexp.to_string sa = Sexp.to_string sa2 then true
             else (result id "VIOL" "idempotent" "a second reduce changed the tree"; false) in
           (* no decision below the root keeps two equal terminal children *)
           let ok4 = (match ta with
               | D (_, ch) -> if List.for_all no_eq_sibb ch then true
                 else (result id "VIOL" "equal-siblings" "a decision below the root still has two equal terminal children"; false)
               | _ -> true) in
           (* decisions whose two terminal children differ are kept with their index *)
           let ok5 = List.for_all (fun nd ->
               if nd.leaf || nd.parent = None then true else
                 match nd.children with
                 | [Some l; Some r] when is_term_node b l && is_term_node b r ->
                   (match find_node b l, find_node b r with
                    | Some ln, Some rn when not (aff_eqb ln.naff rn.naff) ->
                      (match find_node a nd.idx with
                       | Some an when (not an.leaf) && aff_eqb an.naff nd.naff -> true
                       | _ -> result id "VIOL" "kept" (Printf.sprintf "decision %d with different terminal children was removed" nd.idx); false)
                    | _ -> true)
                 | _ -> true) b.nodes in
           let ok6 = points_check ~id ~tag:"evaluate" ta pts in
           if ptree_eq ta spec then bump "mirror_agree" else bump "mirror_mismatch";
           (* the sweep as coded (reversed breadth-first index list, local merges; Pwl/ReduceSweep.v) on the dumped arena:
              must reproduce the implementation's arena exactly -- indices, flags, functions and cached states *)
           (let ab = arena_of b and aa = arena_of a in
            let rt t = nat_of_int (match t.root with Some r -> r | None -> 0) in
            match cabs (nat_of_int (List.length ab + 1)) ab (rt b), cabs (nat_of_int (List.length aa + 1)) aa (rt a) with
            | Some cb, Some ca ->
              let swept = sweep (c_idx_of cb) (List.rev (bfs_order (cheight cb) cb)) cb in
              if ctree_eqb swept ca then bump "sweep_model_agree"
              else (bump "sweep_model_mismatch"; result id "MIRROR" "sweep-model" "the coded sweep of the model differs from the implementation's arena")
            | _ -> bump "sweep_model_not_a_tree");
           if ok1 && ok2 && ok3 && ok4 && ok5 && ok6 then result id "OK" "reduce" ""
       end)
  | _ -> result "?" "ERR" "parse" "unrecognised case"

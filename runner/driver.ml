(* driver.ml -- reads case lines produced by the harness, hands each to the family checker, which runs the
   extracted model and the deciding comparisons and prints one verdict line per case
   (R <id> OK|VIOL|MIRROR|UNK|ERR <tag> <detail>); statistics lines (S <key> <count>) at the end. *)
let run (check : Sexp.t -> unit) : unit =
  (try
     while true do
       let line = input_line stdin in
       (* the console visitors of the library (verbose entry points) print whole lines to stdout: not case lines *)
       if String.length line > 0 && line.[0] <> '(' then Conv.bump "stdout_noise_lines"
       else if String.length line > 0 then begin
         (try
            (match Sexp.parse line with
             | Sexp.List (Sexp.Atom "case" :: Sexp.Atom id :: Sexp.Atom "crashed" :: rest) ->
               (* the library panicked while the harness was building the operands of this case *)
               Conv.result id "ERR" "library-panic"
                 (String.concat " " (List.map Sexp.to_string rest))
             | sx -> check sx)
          with
          | Sexp.Parse_error m -> Conv.result "?" "ERR" "parse" m
          | Conv.Nonfinite -> Conv.result "?" "ERR" "nonfinite" "non-finite float in dump"
          | Stack_overflow -> Conv.result "?" "ERR" "stack" "stack overflow"
          | e -> Conv.result "?" "ERR" "exception" (Printexc.to_string e));
         Conv.bump "cases"
       end
     done
   with End_of_file -> ());
  Conv.dump_stats ()

(* fam_c10.ml -- C10: the LP layer.  Translation validation: every verdict the implementation gave (status,
   is_feasible, solve_linprog for several objectives, the Chebyshev program) is refereed by the extracted, verified
   judge (Cert/LP.v): JOk is a theorem instance  Correct tau tol delta n P c st ; JBad is a proof that the verdict is
   NOT correct and carries the certificate (a point inside by margin, a better point, a ray, dual multipliers, a
   Farkas vector); JUnknown (a certificate produced by the unverified search was rejected) is reported as UNK. *)
open Model
open Conv
open Sexp

let rows_of_aff (a : aff) : rows = List.combine a.a_mat a.a_bias

type st = St of status | StPanic | StNonfinite

let status_of (s : Sexp.t) : st =
  match s with
  | Atom "infeasible" -> St Infeasible
  | Atom "unbounded" -> St Unbounded
  | Atom "error" -> St SolverError
  | Atom "panic" -> StPanic
  | List [Atom "optimal"; w] -> (try St (Optimal (vec_of w)) with Nonfinite -> StNonfinite)
  | _ -> raise (Parse_error "status")

let string_of_rows (p : rows) =
  "{" ^ String.concat "; " (List.map (fun (a, b) -> string_of_vec a ^ "<=" ^ string_of_qc b) p) ^ "}"
let string_of_status = function
  | Infeasible -> "Infeasible" | Unbounded -> "Unbounded" | SolverError -> "Error"
  | Optimal w -> "Optimal" ^ string_of_vec w

let reason_tag = function
  | RError -> "solver-error"
  | RNonemptyByMargin -> "infeasible-but-nonempty"
  | RWitnessOutside -> "witness-outside"
  | RNotMinimal -> "not-minimal"
  | REmptyOptimal -> "optimal-but-empty"
  | RUnboundedOptimal -> "optimal-but-unbounded"
  | RMinExists -> "unbounded-but-min-exists"
  | REmptyUnbounded -> "unbounded-but-empty"
let reason_text why x y =
  match why with
  | RError -> "the solver reported an error"
  | RNonemptyByMargin -> "x=" ^ string_of_vec x ^ " satisfies every row with slack 1e-6*|a|_1"
  | RWitnessOutside -> "the witness " ^ string_of_vec x ^ " violates a row by more than the tolerance (1e-8; 1e-6 on a certified-thin system) or has the wrong length"
  | RNotMinimal -> "the exact minimum is attained at xs=" ^ string_of_vec x ^ " (dual multipliers " ^ string_of_vec y ^ "); the witness' objective differs by more than 1e-6"
  | REmptyOptimal -> "the set is empty: Farkas multipliers " ^ string_of_vec x
  | RUnboundedOptimal -> "the objective is unbounded below: feasible x0=" ^ string_of_vec x ^ " ray d=" ^ string_of_vec y
  | RMinExists -> "the minimum exists: minimiser xs=" ^ string_of_vec x ^ " dual multipliers " ^ string_of_vec y
  | REmptyUnbounded -> "the set is empty: Farkas multipliers " ^ string_of_vec x

let zero = qc_of_token "0:0"
let two_m50 = qc_of_float (z_of_int 1) (z_of_int (-50))

(* one verdict; returns true when accepted *)
let referee_one ~id ~ctx ~(tol : qc) (n : int) (p : rows) (c : vec) (s : st) (fail : string -> string -> unit) : unit =
  let desc () = Printf.sprintf "n=%d P=%s c=%s" n (string_of_rows p) (string_of_vec c) in
  match s with
  | StPanic -> fail (ctx ^ "-panic") (Printf.sprintf "the call panicked; %s" (desc ()))
  | StNonfinite -> fail (ctx ^ "-witness-outside") (Printf.sprintf "non-finite witness; %s" (desc ()))
  | St st ->
    bump (ctx ^ "_" ^ (match st with Infeasible -> "infeasible" | Unbounded -> "unbounded" | Optimal _ -> "optimal" | SolverError -> "error"));
    if not (qeqb tol tol_member) then bump "thin_system_verdicts";
    (match judge tau_margin tol delta_obj (nat_of_int n) p c st with
     | JOk -> bump "verdicts_certified"
     | JUnknown -> result id "UNK" ctx (Printf.sprintf "a certificate of the search was rejected; verdict=%s %s" (string_of_status st) (desc ()))
     | JBad (why, x, y) ->
       let tag =
         if why = RMinExists then
           (match find_face_ray (nat_of_int n) p c with
            | Some d -> bump "optimal_face_unbounded"; ctx ^ "-optimal-face-unbounded"
            | None -> ctx ^ "-" ^ reason_tag why)
         else ctx ^ "-" ^ reason_tag why in
       fail tag (Printf.sprintf "verdict=%s but %s; %s" (string_of_status st) (reason_text why x y) (desc ())))

(* reference norms: sqrt(a.a) computed in floating point (unverified oracle), converted exactly to a rational and
   CHECKED: nu >= 0 and |nu^2 - a.a| <= 2^-50 * a.a  (the hypothesis of C10_chebyshev up to rounding) *)
let float_of_qc (x : qc) : float =
  let q = this x in
  float_of_string (string_of_z q.qnum) /. float_of_string (string_of_pos q.qden)
let qc_of_float_exact (f : float) : qc =
  if f = 0.0 then zero
  else begin
    let (m, e) = Float.frexp f in
    let mi = int_of_float (Float.ldexp m 53) in
    qc_of_float (z_of_int mi) (z_of_int (e - 53))
  end
let norm_ok (a : vec) (nu : qc) : bool =
  let aa = dot a a in
  qleb zero nu && qleb (qabs (qcminus (qcmult nu nu) aa)) (qcmult two_m50 aa)
let ref_norms (p : rows) : vec option =
  let ns = List.map (fun (a, _) -> qc_of_float_exact (sqrt (float_of_qc (dot a a)))) p in
  if List.for_all2 (fun (a, _) nu -> norm_ok a nu) p ns then Some ns else None
let rows_eq (r1 : rows) (r2 : rows) : bool =
  List.length r1 = List.length r2 && List.for_all2 (fun (a, b) (a', b') -> veqb a a' && qeqb b b') r1 r2

let check (case : Sexp.t) : unit =
  match case with
  | List [Atom "case"; Atom id; Atom kind; pa; List [Atom "status"; st]; List [Atom "feas"; Atom feas]; List (Atom "lps" :: lps); cheb] ->
    let a = aff_of pa in
    let n = int_of_nat a.a_in in
    let p = rows_of_aff a in
    let ok = ref true in
    let fail tag detail = ok := false; result id "VIOL" tag detail in
    bump ("dim_" ^ string_of_int n);
    List.iter (fun k -> if k <> "" then bump ("kind_" ^ k)) (String.split_on_char '+' kind);
    (* status *)
    let sst = status_of st in
    let tol = tol_for (nat_of_int n) p in
    referee_one ~id ~ctx:"status" ~tol n p (vzero (nat_of_int n)) sst fail;
    (* is_feasible: false only for thin sets, true only for sets that are not empty by the margin *)
    (match feas with
     | "panic" -> fail "feas-panic" (Printf.sprintf "is_feasible panicked; P=%s" (string_of_rows p))
     | "0" ->
       (match judge tau_margin tol_member delta_obj (nat_of_int n) p (vzero (nat_of_int n)) Infeasible with
        | JOk -> bump "feas_false_certified"
        | JBad (_, x, _) -> fail "feas-false-but-nonempty" (Printf.sprintf "is_feasible=false but x=%s satisfies every row with slack 1e-6*|a|_1; P=%s" (string_of_vec x) (string_of_rows p))
        | JUnknown -> result id "UNK" "feas" "kernel-unknown")
     | _ ->
       (match empty_cert (nat_of_int n) (relax tau_margin p) with
        | Some false -> bump "feas_true_certified"
        | Some true -> fail "feas-true-but-empty" (Printf.sprintf "is_feasible=true but the set relaxed by 1e-6*|a|_1 is empty; P=%s" (string_of_rows p))
        | None -> result id "UNK" "feas" "kernel-unknown");
       (match sst with St Infeasible -> fail "feas-inconsistent" "is_feasible=true although status()=Infeasible" | _ -> ()));
    (* solve_linprog *)
    let nonempty = ref false in
    List.iter (fun l ->
      match l with
      | List [Atom "lp"; Atom okind; c; s] ->
        bump ("obj_" ^ okind);
        let s' = status_of s in
        (match s' with St Infeasible -> () | _ -> nonempty := true);
        referee_one ~id ~ctx:"lp" ~tol n p (vec_of c) s' fail
      | _ -> raise (Parse_error "lp")) lps;
    (* chebyshev_center: deciding = the verdict of the implementation's program, judged against the REFERENCE
       Chebyshev program of P (model cheb_sys with checked norms); mirror = the implementation's system is literally
       (a_i, norm_i | b_i) + radius row with objective (0,..,0,-1) *)
    (match cheb with
     | List [Atom "cheb"; Atom "panic"] -> fail "cheb-panic" (Printf.sprintf "chebyshev_center panicked; P=%s" (string_of_rows p))
     | List [Atom "cheb"; sysa; c; s] ->
       (match ref_norms p with
        | None -> result id "UNK" "cheb" "reference norms rejected"
        | Some ns ->
          let sys_ref = cheb_sys (nat_of_int n) p ns in
          let c_ref = cheb_obj (nat_of_int n) in
          referee_one ~id ~ctx:"cheb" ~tol:(tol_for (nat_of_int (n + 1)) sys_ref) (n + 1) sys_ref c_ref (status_of s) fail;
          let same = (try
                        let sa = aff_of sysa in
                        int_of_nat sa.a_in = n + 1 && rows_eq (rows_of_aff sa) sys_ref && veqb (vec_of c) c_ref
                      with Nonfinite -> false) in
          if same then bump "mirror_agree"
          else begin
            bump "mirror_mismatch";
            result id "MIRROR" "cheb-system" (Printf.sprintf "the constructed program differs from (a_i, |a_i| | b_i) + radius row, objective (0,..,0,-1): sys=%s c=%s P=%s" (Sexp.to_string sysa) (Sexp.to_string c) (string_of_rows p))
          end)
     | _ -> raise (Parse_error "cheb"));
    if n >= 2 && List.length p >= 3 && !nonempty then bump "nontrivial";
    if !ok then result id "OK" kind ""
  | _ -> result "?" "ERR" "parse" "unrecognised case"

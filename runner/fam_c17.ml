(* fam_c17.ml -- C17: predefined trees equal their mathematical definitions.
   Deciding comparison: the implementation's dumped tree is equivalent FOR ALL INPUTS (certified tree_equiv) to the
   tree form of the textbook definition (SchemaSpec.v: proved to denote the definition) and to the model tree
   (Schema.v: the generator as coded, proved to denote the definition); evaluate() on breakpoint/tie lattice points
   against the executable definition.  Mirror: same shape and coefficients as the model tree. *)
open Model
open Conv
open Sexp
open Common

let qc_of s = qc_of_token (atom s)
let oqc_of s = match s with Atom "-" -> None | a -> Some (qc_of a)
let params_of s = match s with List (Atom "params" :: ps) -> List.map qc_of ps | _ -> raise (Parse_error "params")
let pts_of s = match s with List (Atom "pts" :: ps) -> ps | _ -> raise (Parse_error "pts")
let mask_of s = match s with List (Atom "mask" :: bs) -> List.map (fun b -> atom b = "1") bs | _ -> raise (Parse_error "mask")
let ref_of s = match s with
  | List (Atom "ref" :: vs) -> List.map (fun v -> if atom v = "nan" then None else Some (qc_of v)) vs
  | _ -> raise (Parse_error "ref")
let oaff_of s = match s with Atom "-" -> None | a -> Some (aff_of a)

let string_of_params ps = String.concat "," (List.map string_of_qc ps)
let rec nth_int l k = match l with [] -> None | a :: r -> if k = 0 then Some a else nth_int r (k - 1)

(* the implementation's tree against the textbook tree and the model tree, for all inputs of dimension n *)
let both_equiv ~id ~tag n th spec model =
  let ok1 = equiv_check ~id ~tag n th spec in
  let ok2 = if ok1 then equiv_check ~id ~tag:(tag ^ "-model") n th model else false in
  if ptree_eq th model then bump "mirror_agree" else bump "mirror_mismatch";
  ok1 && ok2

(* evaluate() on the dumped points against an executable definition; tol_row = Some i: component i may differ by
   2^-52 (hard sigmoid: s*v + 1/2 is rounded twice in f64), all other components exactly *)
let tol = qc_of_float (z_of_int 1) (z_of_int (-52))
let vec_close tol_row (v : vec) (w : vec) : bool =
  List.length v = List.length w &&
  List.for_all (fun b -> b) (List.mapi (fun k a ->
      match nth_int w k with
      | None -> false
      | Some b -> if Some k = tol_row then qleb (qabs (qcminus a b)) tol else qeqb a b) v)
let def_points ~id ?(tol_row = None) (def : vec -> vec option) (pts : Sexp.t list) : bool =
  List.for_all (fun p ->
    match (try Some (pt_of p) with Nonfinite -> None) with
    | None -> bump "points_nonfinite"; true
    | Some (x, out) ->
      bump "points";
      let m = def x in
      let ok = (match out, m with
          | PNone, None -> true
          | PSome v, Some w -> vec_close tol_row v w
          | _ -> false) in
      if not ok then
        result id "VIOL" "evaluate" (Printf.sprintf "x=%s impl=%s definition=%s" (string_of_vec x)
          (match out with PNone -> "none" | PPanic -> "panic" | PSome v -> string_of_vec v) (string_of_ovec m));
      ok) pts

(* all terminal functions of a tree *)
let rec terminals t = match t with U -> [] | T f -> [f] | D (_, ch) -> List.concat_map terminals ch

(* outcome bookkeeping: the generators assert their preconditions; a panic on valid arguments is a violation,
   acceptance of invalid ones is outside the property (mirror only) *)
let outcome ~id ~tag ~(defined : bool) (oc : string) (k : unit -> unit) : unit =
  match oc, defined with
  | "ok", true -> k ()
  | "ok", false -> bump "mirror_mismatch"; result id "MIRROR" "outcome" (tag ^ ": the implementation accepted arguments the model rejects")
  | _, true -> result id "VIOL" "outcome" (Printf.sprintf "%s: %s on valid arguments" tag oc)
  | _, false -> bump "rejected_both"; result id "OK" "rejected" ""

let with_tree ~id (s : Sexp.t) (k : itree -> ptree -> unit) : unit =
  let it = itree_of s in
  match ptree_of it with
  | None -> result id "VIOL" "abs" "result arena is not a tree"
  | Some t -> k it t

let check_act id name n i ps oc st pts =
  let nn = nat_of_int n and ni = nat_of_int i in
  bump ("act_" ^ name);
  let p k = List.nth ps k in
  let defined = match name with
    | "hard_tanh" -> hard_tanh_defined nn ni (p 0) (p 1)
    | _ -> act_defined nn ni in
  outcome ~id ~tag:name ~defined oc (fun () ->
    with_tree ~id st (fun it th ->
      if n >= 2 then bump "nontrivial";
      let okw = if it.in_dim = n && wfb nn th && outsb nn th then true
        else (result id "VIOL" "wf" (Printf.sprintf "%s(%d,%d): tree is not a well-shaped map R^%d -> R^%d" name n i n n); false) in
      (* hard sigmoid: the slope is read off the dumped coefficients *)
      let slope = lazy (
        let cands = List.filter_map (fun f ->
            match nth_int f.a_mat i with
            | Some r -> (match nth_int r i with
                | Some c when not (qeqb c (qz Z0)) && not (qeqb c (qz (z_of_int 1))) -> Some c
                | _ -> None)
            | None -> None) (terminals th) in
        match cands with c :: _ -> c | [] -> sc_sixth_f64) in
      let okslope = if name <> "hard_sigmoid" then true
        else if qeqb (Lazy.force slope) sc_sixth_f64 then true
        else (result id "VIOL" "hard_sigmoid-slope"
                (Printf.sprintf "slope %s is not the f64 nearest to 1/6" (string_of_qc (Lazy.force slope))); false) in
      let spec_h, model, def = match name with
        | "relu" -> relu_h, partial_relu nn ni, relu_def ni
        | "leaky_relu" -> leaky_relu_h (p 0), partial_leaky_relu nn ni (p 0), leaky_relu_def (p 0) ni
        | "hard_tanh" -> hard_tanh_h (p 0) (p 1), partial_hard_tanh nn ni (p 0) (p 1), hard_tanh_def (p 0) (p 1) ni
        | "hard_shrink" -> hard_shrink_h (p 0), partial_hard_shrink nn ni (p 0), hard_shrink_def (p 0) ni
        | "hard_sigmoid" -> let s = Lazy.force slope in hard_sigmoid_h s, partial_hard_sigmoid nn ni s, hard_sigmoid_def s ni
        | "threshold" -> threshold_h (p 0) (p 1), partial_threshold nn ni (p 0) (p 1), threshold_def (p 0) (p 1) ni
        | _ -> raise (Parse_error ("activation " ^ name)) in
      let ok1 = okw && both_equiv ~id ~tag:name n th (htree nn ni spec_h) model in
      let ok2 = def_points ~id ~tol_row:(if name = "hard_sigmoid" then Some i else None) (fun x -> Some (def x)) pts in
      if ok1 && ok2 && okslope then result id "OK" name ""))

let check (case : Sexp.t) : unit =
  match case with
  | List [Atom "case"; Atom id; Atom "act"; Atom name; n; i; ps; Atom oc; st; pts] ->
    check_act id name (int_of n) (int_of i) (params_of ps) oc st (pts_of pts)
  | List [Atom "case"; Atom id; Atom "argmax"; n; Atom oc; st; pts] ->
    let n = int_of n in let nn = nat_of_int n in
    bump "argmax";
    outcome ~id ~tag:"argmax" ~defined:(argmax_defined nn) oc (fun () ->
      with_tree ~id st (fun it th ->
        if n >= 3 then bump "nontrivial";
        let okw = if it.in_dim = n && wfb nn th && outsb (nat_of_int 1) th then true
          else (result id "VIOL" "wf" (Printf.sprintf "argmax(%d): tree is not a well-shaped map R^%d -> R" n n); false) in
        (* the textbook tree has n^(n-1) terminals: beyond dimension 6 only the (proved) model tree is compared *)
        let ok1 = okw && (if n <= 6 then both_equiv ~id ~tag:"argmax" n th (argmax_spec nn) (argmax nn)
                          else (bump "argmax_model_only"; equiv_check ~id ~tag:"argmax-model" n th (argmax nn))) in
        let ok2 = def_points ~id (fun x -> Some [qnat (argmax_def x)]) (pts_of pts) in
        (* mirror: the stack loop as coded (ArgmaxLoop.v), 2^n pops suffice *)
        (match argmax_loop nn (nat_of_int (1 lsl n)) with
         | Some b when ptree_eq th (to_ptree b) -> bump "argmax_loop_agree"
         | _ -> bump "mirror_mismatch"; result id "MIRROR" "argmax-loop" "tree differs from the one the modelled stack loop builds");
        if ok1 && ok2 then result id "OK" "argmax" ""))
  | List [Atom "case"; Atom id; Atom "class"; n; c; Atom oc; st; pts] ->
    let n = int_of n and c = int_of c in let nn = nat_of_int n and nc = nat_of_int c in
    bump "class";
    outcome ~id ~tag:"class" ~defined:(class_defined nn nc) oc (fun () ->
      with_tree ~id st (fun it th ->
        if n >= 3 then bump "nontrivial";
        let okw = if it.in_dim = n && wfb nn th && outsb (nat_of_int 1) th then true
          else (result id "VIOL" "wf" (Printf.sprintf "class_characterization(%d,%d): not a well-shaped map R^%d -> R" n c n); false) in
        let ok1 = okw && both_equiv ~id ~tag:"class" n th (class_spec nn nc) (class_characterization nn nc) in
        let ok2 = def_points ~id (fun x -> Some [class_def nc x]) (pts_of pts) in
        if ok1 && ok2 then result id "OK" "class" ""))
  | List [Atom "case"; Atom id; Atom "inf_norm"; n; lo; hi; Atom oc; st; pts] ->
    let n = int_of n and lo = oqc_of lo and hi = oqc_of hi in let nn = nat_of_int n in
    bump "inf_norm";
    outcome ~id ~tag:"inf_norm" ~defined:(inf_norm_defined nn lo hi) oc (fun () ->
      with_tree ~id st (fun it th ->
        if n >= 2 then bump "nontrivial";
        let okw = if it.in_dim = n && wfb nn th && outsb (nat_of_int 1) th then true
          else (result id "VIOL" "wf" (Printf.sprintf "inf_norm(%d): not a well-shaped map R^%d -> R" n n); false) in
        let ok1 = okw && both_equiv ~id ~tag:"inf_norm" n th (inf_norm_spec nn lo hi) (inf_norm nn lo hi) in
        let ok2 = def_points ~id (fun x -> Some [inf_norm_def lo hi x]) (pts_of pts) in
        if ok1 && ok2 then result id "OK" "inf_norm" ""))
  | List [Atom "case"; Atom id; Atom "from_poly"; sp; sf; sg; Atom oc; st; pts] ->
    let p = aff_of sp and f = aff_of sf and g = oaff_of sg in
    bump "from_poly";
    (match from_poly_res p f g, oc with
     | SOk model, "ok" ->
       with_tree ~id st (fun it th ->
         let n = int_of_nat f.a_in in
         if List.length p.a_mat >= 2 then bump "nontrivial";
         if g = None then bump "from_poly_partial";
         let okw = if it.in_dim = n && wfb f.a_in th then true
           else (result id "VIOL" "wf" "from_poly: node functions do not all have the polytope's input dimension"; false) in
         let ok1 = okw && both_equiv ~id ~tag:"from_poly" n th (from_poly_spec p f g) model in
         let ok2 = def_points ~id (fun x -> from_poly_def p f g x) (pts_of pts) in
         if ok1 && ok2 then result id "OK" "from_poly" "")
     | SOk _, _ -> result id "VIOL" "outcome" (Printf.sprintf "from_poly: %s on valid arguments" oc)
     | SErr, "err" | SPanic, "panic" -> bump "rejected_both"; result id "OK" "rejected" ""
     | _, _ -> bump "mirror_mismatch"; result id "MIRROR" "outcome" ("from_poly: model and implementation reject/accept differently: " ^ oc))
  | List [Atom "case"; Atom id; Atom "slice"; st; sr; sm; Atom oc; scomp; sres; pts] ->
    bump "slice";
    with_tree ~id st (fun it tt ->
      let n = it.in_dim in
      let r = ref_of sr and mask = mask_of sm in
      let k = List.length (List.filter (fun b -> b) mask) in
      if k = 0 then bump "slice_all_fixed";
      if k = n then bump "slice_none_fixed";
      if not (wfb (nat_of_int n) tt) || List.length r <> n then result id "ERR" "gen" "subject tree is not well-formed"
      else begin
        (* diagnostic only: the intermediate tree from_slice(r).compose(t) on R^n against the model's; remove_axes
           evaluates dropped coordinates at 0, so a difference here need not show in the restriction (C16 owns slice) *)
        (match scomp with
         | Atom _ -> ()
         | _ -> (match ptree_of (itree_of scomp) with
             | Some tc ->
               (match tree_equiv (nat_of_int n) [] tc (compose (from_slice r) tt) with
                | Equal -> bump "from_slice_agree"
                | _ -> bump "mirror_mismatch";
                  result id "MIRROR" "from_slice" "from_slice(r).compose(t) differs from the model's composition before remove_axes")
             | None -> ()));
        match remove_axes (nat_of_int n) mask (compose (from_slice r) tt), oc with
        | SOk model, "ok" ->
          with_tree ~id sres (fun ih th ->
            if k >= 1 && k < n && ptree_size tt > 1 then bump "nontrivial";
            let okd = if ih.in_dim = k then true
              else (result id "VIOL" "slice" (Printf.sprintf "in_dim is %d after keeping %d axes" ih.in_dim k); false) in
            let ok1 = okd && both_equiv ~id ~tag:"slice" k th (restrict_tree r tt) model in
            let ok2 = def_points ~id (fun y -> eval tt (embed r y)) (pts_of pts) in
            if ok1 && ok2 then result id "OK" "slice" "")
        | SOk _, _ -> result id "VIOL" "outcome"
                        (Printf.sprintf "slice: remove_axes answered %s for a mask of the right length (%d of %d axes kept)" oc k n)
        | SErr, "err" | SPanic, "panic" -> bump "rejected_both"; result id "OK" "rejected" ""
        | _, _ -> bump "mirror_mismatch"; result id "MIRROR" "outcome" ("slice: model and implementation reject/accept differently: " ^ oc)
      end)
  | List [Atom "case"; Atom id; Atom "remove_axes"; st; sm; Atom oc; sres; pts] ->
    bump "remove_axes";
    with_tree ~id st (fun it tt ->
      let n = it.in_dim in
      let mask = mask_of sm in
      let k = List.length (List.filter (fun b -> b) mask) in
      if not (wfb (nat_of_int n) tt) then result id "ERR" "gen" "subject tree is not well-formed"
      else
        match remove_axes (nat_of_int n) mask tt, oc with
        | SOk model, "ok" ->
          with_tree ~id sres (fun ih th ->
            if k >= 1 && k < n && ptree_size tt > 1 then bump "nontrivial";
            let okd = if ih.in_dim = k then true
              else (result id "VIOL" "remove_axes" (Printf.sprintf "in_dim is %d after keeping %d axes" ih.in_dim k); false) in
            let ok1 = okd && equiv_check ~id ~tag:"remove_axes" k th model in
            if ptree_eq th model then bump "mirror_agree" else bump "mirror_mismatch";
            let ok2 = def_points ~id (fun y -> eval tt (expand mask y)) (pts_of pts) in
            if ok1 && ok2 then result id "OK" "remove_axes" "")
        | SOk _, _ -> result id "VIOL" "outcome"
                        (Printf.sprintf "remove_axes answered %s for a mask of the right length (%d of %d axes kept)" oc k n)
        | SErr, "err" | SPanic, "panic" -> bump "rejected_both"; result id "OK" "rejected" ""
        | _, _ -> bump "mirror_mismatch"; result id "MIRROR" "outcome" ("remove_axes: model and implementation reject/accept differently: " ^ oc))
  | _ -> result "?" "ERR" "parse" "unrecognised case"

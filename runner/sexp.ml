(* sexp.ml -- minimal s-expression reader (unverified glue) *)
type t = Atom of string | List of t list

exception Parse_error of string

let parse (s : string) : t =
  let n = String.length s in
  let pos = ref 0 in
  let rec skip () = if !pos < n && (s.[!pos] = ' ' || s.[!pos] = '\t' || s.[!pos] = '\r' || s.[!pos] = '\n') then (incr pos; skip ()) in
  let rec item () =
    skip ();
    if !pos >= n then raise (Parse_error "eof")
    else if s.[!pos] = '(' then begin
      incr pos;
      let items = ref [] in
      let rec loop () =
        skip ();
        if !pos >= n then raise (Parse_error "unclosed")
        else if s.[!pos] = ')' then incr pos
        else (items := item () :: !items; loop ())
      in
      loop ();
      List (List.rev !items)
    end
    else if s.[!pos] = '"' then begin
      (* quoted atom with backslash escapes *)
      incr pos;
      let b = Buffer.create 32 in
      let rec loop () =
        if !pos >= n then raise (Parse_error "unclosed string")
        else if s.[!pos] = '"' then incr pos
        else if s.[!pos] = '\\' && !pos + 1 < n then begin
          (match s.[!pos + 1] with
           | 'n' -> Buffer.add_char b '\n'
           | c -> Buffer.add_char b c);
          pos := !pos + 2; loop ()
        end
        else (Buffer.add_char b s.[!pos]; incr pos; loop ())
      in
      loop ();
      Atom (Buffer.contents b)
    end
    else begin
      let start = !pos in
      while !pos < n && s.[!pos] <> ' ' && s.[!pos] <> '(' && s.[!pos] <> ')' && s.[!pos] <> '\t' && s.[!pos] <> '\n' do incr pos done;
      Atom (String.sub s start (!pos - start))
    end
  in
  item ()

let rec to_string = function
  | Atom a -> a
  | List l -> "(" ^ String.concat " " (List.map to_string l) ^ ")"

let atom = function Atom a -> a | List _ -> raise (Parse_error "atom expected")
let list = function List l -> l | Atom a -> raise (Parse_error ("list expected, got " ^ a))
let int_of s = int_of_string (atom s)

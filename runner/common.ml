(* common.ml -- comparison helpers shared by the family checkers (unverified glue around the verified kernel) *)
open Model
open Conv

(* ---- extraction cross-check: a sample of the kernel calls of this process, with the results the extracted code
   obtained, written as Coq terms (VERIF_XCHECK=<file>); bin/check lets Coq re-evaluate them with vm_compute ---- *)
let xcheck_oc = lazy (match Sys.getenv_opt "VERIF_XCHECK" with
    | Some p when p <> "" -> Some (open_out_gen [Open_append; Open_creat] 0o644 p)
    | _ -> None)
let xcheck_count = ref 0
let xcheck_max = 4
let coq_nat n = Printf.sprintf "%d%%nat" (int_of_nat n)
let coq_qc (x : qc) : string =
  let q = this x in Printf.sprintf "(Q2Qc (Qmake (%s)%%Z %s%%positive))" (string_of_z q.qnum) (string_of_pos q.qden)
let coq_list f l = "[" ^ String.concat "; " (List.map f l) ^ "]"
let coq_vec (v : vec) = coq_list coq_qc v
let coq_aff (f : aff) =
  Printf.sprintf "{| a_in := %s; a_mat := %s; a_bias := %s |}" (coq_nat f.a_in) (coq_list coq_vec f.a_mat) (coq_vec f.a_bias)
let rec coq_ptree = function
  | U -> "U"
  | T f -> "(T " ^ coq_aff f ^ ")"
  | D (p, ch) -> "(D " ^ coq_aff p ^ " " ^ coq_list coq_ptree ch ^ ")"
let rec ptree_nodes = function U -> 0 | T _ -> 1 | D (_, ch) -> 1 + List.fold_left (fun a c -> a + ptree_nodes c) 0 ch
let coq_tres = function Equal -> "Equal" | Differ x -> "(Differ " ^ coq_vec x ^ ")" | TUnknown -> "TUnknown"
(* tree_equiv, recorded *)
let tree_equiv_x (n : nat) (t1 : ptree) (t2 : ptree) : tres =
  let r = tree_equiv n [] t1 t2 in
  (match Lazy.force xcheck_oc with
   | Some oc when !xcheck_count < xcheck_max && ptree_nodes t1 + ptree_nodes t2 <= 24 ->
     incr xcheck_count;
     Printf.fprintf oc "Example xcheck_%d_%d : tres_eqb (tree_equiv %s [] %s %s) %s = true.\nProof. vm_compute. reflexivity. Qed.\n"
       0 !xcheck_count (coq_nat n) (coq_ptree t1) (coq_ptree t2) (coq_tres r);
     flush oc
   | _ -> ());
  r

(* certified comparison of two trees for ALL inputs of dimension n; prints a verdict line on failure *)
let equiv_check ~(id : string) ~(tag : string) (n : int) (t_impl : ptree) (t_spec : ptree) : bool =
  match tree_equiv_x (nat_of_int n) t_impl t_spec with
  | Equal -> true
  | Differ x ->
    if check_cex (nat_of_int n) [] t_impl t_spec x then
      result id "VIOL" tag (Printf.sprintf "x=%s impl=%s spec=%s" (string_of_vec x)
                              (string_of_ovec (eval t_impl x)) (string_of_ovec (eval t_spec x)))
    else result id "UNK" tag "counterexample-not-validated";
    false
  | TUnknown -> result id "UNK" tag "kernel-unknown"; false

(* the implementation's evaluate() on sampled points against model eval on the dumped tree *)
let points_check ~(id : string) ~(tag : string) (t : ptree) (pts : Sexp.t list) : bool =
  List.for_all (fun p ->
    match (try Some (pt_of p) with Nonfinite -> None) with
    | None -> bump "points_nonfinite"; true
    | Some (x, out) ->
      bump "points";
      let m = eval t x in
      let ok = (match out, m with
          | PNone, None -> true
          | PSome v, Some w -> veqb v w
          | _ -> false) in
      if not ok then
        result id "VIOL" tag (Printf.sprintf "x=%s impl=%s model=%s" (string_of_vec x)
          (match out with PNone -> "none" | PPanic -> "panic" | PSome v -> string_of_vec v) (string_of_ovec m));
      ok) pts

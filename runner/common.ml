(* common.ml -- comparison helpers shared by the family checkers (unverified glue around the verified kernel) *)
open Model
open Conv

(* certified comparison of two trees for ALL inputs of dimension n; prints a verdict line on failure *)
let equiv_check ~(id : string) ~(tag : string) (n : int) (t_impl : ptree) (t_spec : ptree) : bool =
  match tree_equiv (nat_of_int n) [] t_impl t_spec with
  | Equal -> true
  | Differ x ->
    if check_cex (nat_of_int n) [] t_impl t_spec x then
      result id "VIOL" tag (Printf.sprintf "x=%s impl=%s spec=%s" (string_of_vec x)
                              (string_of_ovec (eval t_impl x)) (string_of_ovec (eval t_spec x)))
    else result id "UNK" tag "counterexample-not-validated";
    false
  | TUnknown -> result id "UNK" tag "kernel-unknown"; false

(* the implementation's evaluate() on sampled points against model eval on the dumped tree *)
let points_check ~(id : string) ~(tag : string) (t : ptree) (pts : Sexp.t list) : bool =
  List.for_all (fun p ->
    match (try Some (pt_of p) with Nonfinite -> None) with
    | None -> bump "points_nonfinite"; true
    | Some (x, out) ->
      bump "points";
      let m = eval t x in
      let ok = (match out, m with
          | PNone, None -> true
          | PSome v, Some w -> veqb v w
          | _ -> false) in
      if not ok then
        result id "VIOL" tag (Printf.sprintf "x=%s impl=%s model=%s" (string_of_vec x)
          (match out with PNone -> "none" | PPanic -> "panic" | PSome v -> string_of_vec v) (string_of_ovec m));
      ok) pts

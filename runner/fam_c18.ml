(* fam_c18.ml -- C18: Architecture shape tracking, extract_range, distillation of accepted architectures, split
   composition, read_layers.
   Deciding comparisons (the observables the property names):
     accept      a call is accepted  <=>  layers_ok (queued layers ++ layers of the call)        (reference notion)
     invariant   after every call: current shape = layers_out_dim of the queued layers, recorded shapes = shapes_after
     state       post-state (layers, shapes, current shape) = post-state of the model step from the implementation's
                 pre-state; a rejected call leaves the architecture untouched
     extract_range   result of extract_range(s,e) = model result on the same architecture
     distill-panic   distillation of an accepted architecture / of a dimension-consistent layer list panicked
     tree-shape  the distilled tree has the architecture's input dimension and every terminal the current shape
     split       tree(extract_range(0,k)) composed with tree(extract_range(k,n)) == tree(whole) for ALL inputs (certified)
     read_layers result on a dialect archive = expand(layer list) (and = model result on the abstract archive)
   Mirror only: error payload numbers, reference tree == distilled tree, model/implementation outcome on archives and
   layer lists outside the property's preconditions. *)
open Model
open Conv
open Sexp

let nat_s n = string_of_int (int_of_nat n)
let natof s = nat_of_int (int_of s)
let chars_of (s : string) : char list = List.init (String.length s) (String.get s)
let string_of_chars (l : char list) : string = String.concat "" (List.map (String.make 1) l)

(* ---------------------------------------------------------------- parsing *)
let layer_of (s : Sexp.t) : layer =
  match s with
  | List [Atom "lin"; a] -> LLinear (aff_of a)
  | List [Atom "relu"; i] -> LReLU (natof i)
  | List [Atom "leaky"; i; a] -> LLeaky (natof i, qc_of_token (atom a))
  | List [Atom "htanh"; i] -> LHardTanh (natof i)
  | List [Atom "hsig"; i] -> LHardSigmoid (natof i)
  | List [Atom "argmax"] -> LArgmax
  | List [Atom "class"; c] -> LClassChar (natof c)
  | _ -> raise (Parse_error "layer")
let call_of (s : Sexp.t) : call =
  match s with
  | List [Atom "linear"; a] -> CLinear (aff_of a)
  | List [Atom "prelu"; i] -> CPRelu (natof i)
  | List [Atom "relu"] -> CRelu
  | List [Atom "pleaky"; i; a] -> CPLeaky (natof i, qc_of_token (atom a))
  | List [Atom "leaky"; a] -> CLeaky (qc_of_token (atom a))
  | List [Atom "phtanh"; i] -> CPHardTanh (natof i)
  | List [Atom "htanh"] -> CHardTanh
  | List [Atom "phsig"; i] -> CPHardSigmoid (natof i)
  | List [Atom "hsig"] -> CHardSigmoid
  | List [Atom "argmax"] -> CArgmax
  | _ -> raise (Parse_error "call")
let arch_of (s : Sexp.t) : arch =
  match s with
  | List [Atom "st"; i; c; List (Atom "ops" :: ops)] ->
    { ar_in = natof i; ar_cur = natof c;
      ar_ops = List.map (fun o -> match o with
          | List [Atom "o"; l; sh] -> (layer_of l, natof sh)
          | _ -> raise (Parse_error "op")) ops }
  | _ -> raise (Parse_error "st")

type ires = IOk | IErr of shape_err | IErrType | IPanic
let ires_of (s : Sexp.t) : ires =
  match s with
  | Atom "ok" -> IOk
  | List [Atom "err"; Atom "dim"; e; g] -> IErr (EDim (natof e, natof g))
  | List [Atom "err"; Atom "index"; i; l] -> IErr (EIndex (natof i, natof l))
  | List [Atom "err"; Atom "type"] -> IErrType
  | Atom "panic" -> IPanic
  | _ -> raise (Parse_error "result")
let err_s = function
  | EDim (e, g) -> Printf.sprintf "Err(Dim expected=%s got=%s)" (nat_s e) (nat_s g)
  | EIndex (i, l) -> Printf.sprintf "Err(Index index=%s len=%s)" (nat_s i) (nat_s l)
let ires_s = function IOk -> "Ok" | IErr e -> err_s e | IErrType -> "Err(Type)" | IPanic -> "panic"
let mres_s = function None -> "Ok" | Some e -> err_s e

(* ---------------------------------------------------------------- printing / equality *)
let layer_s = function
  | LLinear a -> Printf.sprintf "Linear(%sx%s)" (nat_s a.a_in) (nat_s (outdim a))
  | LReLU i -> "ReLU(" ^ nat_s i ^ ")"
  | LLeaky (i, a) -> "LeakyReLU(" ^ nat_s i ^ "," ^ string_of_qc a ^ ")"
  | LHardTanh i -> "HardTanh(" ^ nat_s i ^ ")"
  | LHardSigmoid i -> "HardSigmoid(" ^ nat_s i ^ ")"
  | LArgmax -> "Argmax"
  | LClassChar c -> "ClassChar(" ^ nat_s c ^ ")"
let layers_s ls = "[" ^ String.concat "; " (List.map layer_s ls) ^ "]"
let nats_s l = "[" ^ String.concat " " (List.map nat_s l) ^ "]"
let onat_s = function None -> "none" | Some n -> nat_s n
let layer_eq a b =
  match a, b with
  | LLinear f, LLinear g -> aff_eqb f g
  | LReLU i, LReLU j | LHardTanh i, LHardTanh j | LHardSigmoid i, LHardSigmoid j | LClassChar i, LClassChar j -> i = j
  | LLeaky (i, x), LLeaky (j, y) -> i = j && qeqb x y
  | LArgmax, LArgmax -> true
  | _, _ -> false
let layers_eq a b = List.length a = List.length b && List.for_all2 layer_eq a b
let arch_eq (a : arch) (b : arch) =
  a.ar_in = b.ar_in && a.ar_cur = b.ar_cur && layers_eq (arch_layers a) (arch_layers b) && arch_shapes a = arch_shapes b
let arch_s (a : arch) =
  Printf.sprintf "{in=%s cur=%s layers=%s shapes=%s}" (nat_s a.ar_in) (nat_s a.ar_cur) (layers_s (arch_layers a)) (nats_s (arch_shapes a))
let has_hsig ls = List.exists (function LHardSigmoid _ -> true | _ -> false) ls

(* certified all-input comparison without printing *)
type eq_out = EqYes | EqNo of vec | EqUnk
let equiv_quiet (n : int) (a : ptree) (b : ptree) : eq_out =
  match tree_equiv (nat_of_int n) [] a b with
  | Equal -> EqYes
  | Differ x -> if check_cex (nat_of_int n) [] a b x then EqNo x else EqUnk
  | TUnknown -> EqUnk

(* ---------------------------------------------------------------- extract_range results *)
type ixres = XIOk of arch | XIErr of shape_err | XIOther
let ixres_of (s : Sexp.t) : ixres =
  match s with
  | List [Atom "ok"; st] -> XIOk (arch_of st)
  | List [Atom "err"; Atom "dim"; e; g] -> XIErr (EDim (natof e, natof g))
  | List [Atom "err"; Atom "index"; i; l] -> XIErr (EIndex (natof i, natof l))
  | _ -> XIOther
let ixres_s = function XIOk a -> "Ok" ^ arch_s a | XIErr e -> err_s e | XIOther -> "panic/other"
let xres_s = function XOk a -> "Ok" ^ arch_s a | XErr e -> err_s e

(* returns true when the deciding part agrees *)
let check_xr ~id (st : arch) (s : int) (e : int) (impl : ixres) : bool =
  let m = extract_range st (nat_of_int s) (nat_of_int e) in
  match impl, m with
  | XIOk a, XOk b ->
    if arch_eq a b then true
    else (result id "VIOL" "extract_range" (Printf.sprintf "extract_range(%d,%d) on %s: impl %s model %s" s e (arch_s st) (arch_s a) (arch_s b)); false)
  | XIErr x, XErr y ->
    (match x, y with
     | EDim _, EDim _ | EIndex _, EIndex _ -> if x <> y then bump "mirror_mismatch"; true
     | _ -> result id "VIOL" "extract_range" (Printf.sprintf "extract_range(%d,%d): impl %s model %s" s e (err_s x) (err_s y)); false)
  | _, _ ->
    result id "VIOL" "extract_range" (Printf.sprintf "extract_range(%d,%d) on %s: impl %s model %s" s e (arch_s st) (ixres_s impl) (xres_s m)); false

(* ---------------------------------------------------------------- seq cases *)
let check_seq id (in_dim : int) calls xrs distill splits : unit =
  bump "seq";
  let ok = ref true in
  let fail tag detail = (if !ok then result id "VIOL" tag detail); ok := false in
  let st = ref (arch_new (nat_of_int in_dim)) in
  let n_acc = ref 0 and n_rej = ref 0 in
  List.iter (fun c ->
      match c with
      | List [Atom "c"; sc; sr; sst] ->
        let call = call_of sc and ires = ires_of sr and post = arch_of sst in
        let pre = !st in
        bump "calls";
        (* reference: dimension compatibility of the layers the call stands for *)
        let compat = layers_ok pre.ar_in (arch_layers pre @ call_layers pre.ar_cur call) in
        let (mres, mpost) = arch_step false pre call in
        (match ires with
         | IOk -> incr n_acc; bump "calls_accepted";
           if not compat then
             fail "accept" (Printf.sprintf "call %s accepted on %s although not dimension-compatible (model: %s)"
                              (Sexp.to_string sc) (arch_s pre) (mres_s mres))
         | IErr e -> incr n_rej; bump "calls_rejected";
           if compat then
             fail "accept" (Printf.sprintf "call %s rejected with %s on %s although dimension-compatible"
                              (Sexp.to_string sc) (err_s e) (arch_s pre))
           else begin
             (match mres with
              | Some me ->
                (match e, me with
                 | EDim _, EDim _ | EIndex _, EIndex _ -> if e <> me then (bump "mirror_mismatch") else bump "mirror_agree"
                 | _ -> fail "accept" (Printf.sprintf "call %s: error kind %s, model %s" (Sexp.to_string sc) (err_s e) (err_s me)))
              | None -> fail "accept" "model accepted a call it classifies as incompatible")
           end
         | IErrType | IPanic ->
           fail "accept" (Printf.sprintf "call %s on %s: %s (model: %s)" (Sexp.to_string sc) (arch_s pre) (ires_s ires) (mres_s mres)));
        (* the invariant, directly on the implementation's state *)
        (match layers_out_dim post.ar_in (arch_layers post) with
         | Some d when d = post.ar_cur && shapes_after post.ar_in (arch_layers post) = arch_shapes post -> ()
         | od ->
           fail "invariant" (Printf.sprintf "after %s: current_shape=%s recorded=%s but the queued layers %s on input %s have output dimension %s, running %s"
                               (Sexp.to_string sc) (nat_s post.ar_cur) (nats_s (arch_shapes post)) (layers_s (arch_layers post))
                               (nat_s post.ar_in) (onat_s od) (nats_s (shapes_after post.ar_in (arch_layers post)))));
        (* post-state = model post-state (rejected calls leave the architecture untouched) *)
        if !ok && not (arch_eq post mpost) then
          fail "state" (Printf.sprintf "after %s on %s: impl %s model %s" (Sexp.to_string sc) (arch_s pre) (arch_s post) (arch_s mpost));
        st := post
      | _ -> raise (Parse_error "c")) calls;
  let final = !st in
  let layers = arch_layers final in
  (* extract_range on random ranges *)
  List.iter (fun x ->
      match x with
      | List [Atom "x"; s; e; r] -> bump "extract_range"; if not (check_xr ~id final (int_of s) (int_of e) (ixres_of r)) then ok := false
      | _ -> raise (Parse_error "x")) xrs;
  (* distillation of the accepted architecture *)
  let whole =
    match distill with
    | List [Atom "distill"; Atom "skipped"] -> bump "distill_skipped"; None
    | List [Atom "distill"; Atom "panic"; Atom msg] ->
      bump "distill_panic";
      fail "distill-panic" (Printf.sprintf "accepted architecture %s: distillation panicked: %s (shape model: %s)" (arch_s final) msg
                              (match distill_shape false final.ar_in layers with DOk (d, _) -> "ok " ^ nat_s d | DPanic -> "panic"));
      None
    | List [Atom "distill"; Atom "ok"; t] ->
      bump "distilled";
      let it = itree_of t in
      (match ptree_of it with
       | None -> fail "tree-shape" "distilled arena is not a tree"; None
       | Some pt ->
         if not (it.in_dim = int_of_nat final.ar_in && wfb final.ar_in pt && outsb final.ar_cur pt) then
           fail "tree-shape" (Printf.sprintf "distilled tree of %s: in_dim=%d, wf=%b, all terminals have %s outputs=%b"
                                (arch_s final) it.in_dim (wfb final.ar_in pt) (nat_s final.ar_cur) (outsb final.ar_cur pt));
         (* mirror: the unpruned reference tree *)
         if (not (has_hsig layers)) && List.for_all layer_wfb layers && layers_ok final.ar_in layers then begin
           match equiv_quiet it.in_dim pt (distill_ref sc_sixth_f64 final.ar_in layers) with
           | EqYes -> bump "mirror_agree"
           | EqNo _ -> bump "mirror_mismatch"; result id "MIRROR" "reference-tree" "distilled tree differs from the reference tree (C01)"
           | EqUnk -> bump "mirror_unknown"
         end;
         Some (it, pt))
    | _ -> raise (Parse_error "distill") in
  (* split points *)
  let nsplit = ref 0 in
  List.iter (fun sp ->
      match sp with
      | List [Atom "split"; k; x1; x2; comp] ->
        let k = int_of k in
        let n = List.length final.ar_ops in
        bump "splits";
        let a = check_xr ~id final 0 k (ixres_of x1) in
        let b = check_xr ~id final k n (ixres_of x2) in
        if not (a && b) then ok := false;
        (match comp, whole with
         | List [Atom "ok"; t], Some (it, pt) ->
           let ic = itree_of t in
           (match ptree_of ic with
            | None -> fail "split" "composed arena is not a tree"
            | Some pc ->
              if ic.in_dim <> it.in_dim then fail "split" "composed tree has another input dimension"
              else (match equiv_quiet it.in_dim pc pt with
                  | EqYes -> incr nsplit; bump "splits_equal"
                  | EqNo x ->
                    fail "split" (Printf.sprintf "k=%d of %s: x=%s composed=%s whole=%s" k (layers_s layers) (string_of_vec x)
                                    (string_of_ovec (eval pc x)) (string_of_ovec (eval pt x)))
                  | EqUnk -> (if !ok then result id "UNK" "split" "kernel-unknown"); ok := false))
         | List [Atom "panic"; Atom msg], _ ->
           fail "split-panic" (Printf.sprintf "k=%d of %s: distillation/composition of the parts panicked: %s" k (layers_s layers) msg)
         | Atom "skipped", _ -> if a && b then fail "extract_range" (Printf.sprintf "split k=%d: parts were not produced" k)
         | _, None -> ()
         | _ -> raise (Parse_error "comp"))
      | _ -> raise (Parse_error "split")) splits;
  if !n_acc >= 2 && !n_rej >= 1 && (!nsplit >= 1 || whole <> None) then bump "nontrivial";
  if !ok then result id "OK" "seq" ""

(* ---------------------------------------------------------------- raw layer lists *)
let check_distill id (in_dim : int) layers outcome : unit =
  bump "distill_cases";
  let ls = List.map layer_of layers in
  let m = distill_shape false (nat_of_int in_dim) ls in
  match outcome, m with
  | List [Atom "ok"; i; o], DOk (d, _) ->
    bump "nontrivial";
    if int_of i = in_dim && (match o with Atom "-" -> false | a -> int_of a = int_of_nat d) then result id "OK" "distill" ""
    else result id "VIOL" "tree-shape" (Printf.sprintf "layers %s on input %d: tree in_dim=%s terminal outdim=%s, expected %d / %s"
                                          (layers_s ls) in_dim (atom i) (atom o) in_dim (nat_s d))
  | List [Atom "panic"; Atom msg], DOk (d, _) ->
    result id "VIOL" "distill-panic" (Printf.sprintf "dimension-consistent layer list %s on input %d (output %s) panicked: %s" (layers_s ls) in_dim (nat_s d) msg)
  | List [Atom "panic"; _], DPanic -> bump "malformed_both_reject"; result id "OK" "distill" ""
  | List [Atom "ok"; _; _], DPanic ->
    bump "mirror_mismatch"; result id "MIRROR" "distill" (Printf.sprintf "layer list %s on input %d is not dimension-consistent but was distilled" (layers_s ls) in_dim)
  | _ -> raise (Parse_error "distill outcome")

(* ---------------------------------------------------------------- npz *)
let payload_of (s : Sexp.t) : payload =
  match s with
  | List [Atom "mat"; c; m] -> PMat (natof c, mat_of m)
  | List [Atom "vec"; v] -> PVec (vec_of v)
  | List [Atom "other"] -> POther
  | _ -> raise (Parse_error "payload")
let payload_eq a b =
  match a, b with
  | PMat (c, m), PMat (d, k) -> c = d && meqb m k
  | PVec v, PVec w -> veqb v w
  | POther, POther -> true
  | _ -> false
let flayer_of (s : Sexp.t) : flayer =
  match s with
  | List [Atom "lin"; a] -> FLinear (aff_of a)
  | Atom "relu" -> FRelu | Atom "hard_tanh" -> FHardTanh | Atom "hard_sigmoid" -> FHardSigmoid
  | _ -> raise (Parse_error "flayer")
let rres_s = function ROk ls -> "Ok" ^ layers_s ls | RErr -> "Err" | RPanic -> "panic"

let check_npz id (cls : int) entries fl sfx res : unit =
  bump "npz";
  let ar : archive = List.map (fun e -> match e with
      | List [Atom "e"; Atom n; p] -> (chars_of n, payload_of p)
      | _ -> raise (Parse_error "entry")) entries in
  let fl = List.map flayer_of fl in
  let sfx = List.map (fun s -> atom s = "1") sfx in
  let impl = (match res with
      | List (Atom "ok" :: ls) -> ROk (List.map layer_of ls)
      | Atom "err" -> RErr
      | List [Atom "panic"; _] -> RPanic
      | List [Atom "writefail"; Atom m] -> failwith ("npz write failed: " ^ m)
      | _ -> raise (Parse_error "npz result")) in
  let model = read_layers_model ar in
  let same = (match impl, model with
      | ROk a, ROk b -> layers_eq a b
      | RErr, RErr | RPanic, RPanic -> true
      | _ -> false) in
  if cls <= 5 then begin
    (* documented dialect: check the premises of C18_read_layers_dialect on this archive, then compare with expand fl *)
    bump "npz_dialect";
    let sfx_fun i = (try List.nth sfx (int_of_nat i) with _ -> false) in
    let enc = encode sfx_fun (fun _ -> POther) fl in
    let is_marker n = List.exists (fun (m, p) -> m = n && p = POther) enc in
    let names = List.map fst ar in
    let nodup = List.length (List.sort_uniq compare names) = List.length names in
    let enc_present = List.for_all (fun (n, p) ->
        match List.assoc_opt n ar with
        | Some q -> is_marker n || payload_eq p q
        | None -> false) enc in
    let junk_ok = List.for_all (fun (n, _) -> List.mem_assoc n enc || ignorable n) ar in
    let small = List.length fl <= 1000 in
    let fl_ok = List.for_all (function FLinear a -> List.length a.a_mat = List.length a.a_bias | _ -> true) fl in
    if not (nodup && enc_present && junk_ok && small && fl_ok) then
      result id "ERR" "npz-premise" "generated archive is not in the dialect (harness / encode mismatch)"
    else begin
      let spec = expand fl in
      if List.length fl >= 2 && List.exists (function FLinear _ -> false | _ -> true) fl then bump "nontrivial";
      (match model with
       | ROk m when layers_eq m spec -> ()
       | _ -> result id "ERR" "npz-theorem" "model result differs from expand fl although the premises hold");
      match impl with
      | ROk a when layers_eq a spec -> bump "mirror_agree"; result id "OK" "npz" ""
      | _ ->
        result id "VIOL" "read_layers" (Printf.sprintf "archive names %s: read_layers = %s, dialect meaning = Ok%s"
                                          (String.concat "," (List.map (fun (n, _) -> string_of_chars n) ar)) (rres_s impl) (layers_s spec))
    end
  end else begin
    bump "npz_offdialect";
    (match model with ROk _ -> () | RErr -> bump "npz_model_err" | RPanic -> bump "npz_model_panic");
    if same then (bump "mirror_agree"; result id "OK" "npz" "")
    else begin
      bump "mirror_mismatch";
      result id "MIRROR" "read_layers" (Printf.sprintf "archive names %s: read_layers = %s, model = %s"
                                          (String.concat "," (List.map (fun (n, _) -> string_of_chars n) ar)) (rres_s impl) (rres_s model))
    end
  end

let check (case : Sexp.t) : unit =
  match case with
  | List [Atom "case"; Atom id; Atom "seq"; ind; List (Atom "calls" :: calls); List (Atom "xr" :: xrs); distill; List (Atom "splits" :: splits)] ->
    check_seq id (int_of ind) calls xrs distill splits
  | List [Atom "case"; Atom id; Atom "distill"; ind; List (Atom "layers" :: layers); outcome] ->
    check_distill id (int_of ind) layers outcome
  | List [Atom "case"; Atom id; Atom "npz"; cls; List (Atom "archive" :: entries); List (Atom "fl" :: fl); List (Atom "sfx" :: sfx); res] ->
    check_npz id (int_of cls) entries fl sfx res
  | _ -> result "?" "ERR" "parse" "unrecognised case"

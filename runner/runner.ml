(* runner.ml -- reads case lines produced by the harness, runs the extracted model and the deciding
   comparisons, prints one verdict line per case (R <id> OK|VIOL|MIRROR|UNK|ERR <tag> <detail>) and statistics. *)
let families : (string * (Sexp.t -> unit)) list = [
  ("c02", Fam_c02.check);
]

let () =
  let fam = Sys.argv.(1) in
  let check = try List.assoc fam families with Not_found -> (prerr_endline ("unknown family " ^ fam); exit 2) in
  (try
     while true do
       let line = input_line stdin in
       if String.length line > 0 then begin
         (try check (Sexp.parse line)
          with
          | Sexp.Parse_error m -> Conv.result "?" "ERR" "parse" m
          | Conv.Nonfinite -> Conv.result "?" "ERR" "nonfinite" "non-finite float in dump"
          | Stack_overflow -> Conv.result "?" "ERR" "stack" "stack overflow"
          | e -> Conv.result "?" "ERR" "exception" (Printexc.to_string e));
         Conv.bump "cases"
       end
     done
   with End_of_file -> ());
  Conv.dump_stats ()

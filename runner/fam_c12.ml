(* fam_c12.ml -- C12: arena consistency under any operation sequence.
   Every step of a dumped sequence is replayed in the extracted model FROM THE IMPLEMENTATION'S STATE BEFORE THE STEP
   (step-wise resync; the allocator oracle is fed the key the implementation returned, after checking that it was
   unoccupied).  Deciding comparisons (the observable of C12 is the full discrete state, so mirror = deciding):
   outcome kind and value, post-state = model post-state (full arena and root), unchanged state on Err/panic,
   executable invariant invb (proved sound: invb_sound) on every dump, len = #node_iter = #dfs-reachable. *)
open Model
open Conv
open Sexp

let onat (s : Sexp.t) : nat option = match s with Atom "-" -> None | a -> Some (nat_of_int (int_of a))
let nat_s n = string_of_int (int_of_nat n)
let onat_s = function None -> "-" | Some n -> nat_s n

type dumped = { st : tstate; len : int; idxs : int list; dfs : int list option; root : int option }

let cell_of p ch lf v : nat cell =
  { c_val = nat_of_int (int_of v); c_parent = onat p; c_children = List.map onat ch; c_leaf = (atom lf = "1") }

let dumped_of (s : Sexp.t) : dumped =
  match s with
  | List [Atom "st"; root; len; List (Atom "nodes" :: nodes); List (Atom "dfs" :: dfs)] ->
    let cells = List.map (fun nd -> match nd with
        | List [Atom "n"; i; p; List ch; lf; v] -> (int_of i, cell_of p ch lf v)
        | _ -> raise (Parse_error "n")) nodes in
    let maxi = List.fold_left (fun m (i, _) -> max m i) (-1) cells in
    let arr = Array.make (maxi + 1) None in
    List.iter (fun (i, c) -> arr.(i) <- Some c) cells;
    { st = { t_arena = Array.to_list arr; t_root = onat root };
      len = int_of len; idxs = List.map fst cells;
      dfs = (match dfs with [Atom "panic"] -> None | l -> Some (List.map int_of l));
      root = opt_idx root }
  | _ -> raise (Parse_error "st")

let cell_s (c : nat cell) =
  Printf.sprintf "val=%s parent=%s children=(%s) leaf=%b" (nat_s c.c_val) (onat_s c.c_parent)
    (String.concat " " (List.map onat_s c.c_children)) c.c_leaf

(* first index on which two states differ (pointwise on keys; trailing vacant cells are irrelevant) *)
let state_diff (a : tstate) (b : tstate) : string option =
  if a.t_root <> b.t_root then Some (Printf.sprintf "root %s vs %s" (onat_s a.t_root) (onat_s b.t_root))
  else begin
    let n = max (List.length a.t_arena) (List.length b.t_arena) in
    let rec go i =
      if i >= n then None
      else
        let x = aget a.t_arena (nat_of_int i) and y = aget b.t_arena (nat_of_int i) in
        if x = y then go (i + 1)
        else Some (Printf.sprintf "cell %d: %s vs %s" i
                     (match x with None -> "vacant" | Some c -> cell_s c)
                     (match y with None -> "vacant" | Some c -> cell_s c))
    in go 0
  end

type iout = IOk of retval | IErr of string | IPanic

let iout_of (s : Sexp.t) : iout =
  match s with
  | List [Atom "ok"; Atom "idx"; k] -> IOk (RIdx (nat_of_int (int_of k)))
  | List [Atom "ok"; Atom "val"; v] -> IOk (RVal (nat_of_int (int_of v)))
  | List [Atom "ok"; Atom "cnt"; n] -> IOk (RCount (nat_of_int (int_of n)))
  | List [Atom "ok"; Atom "node"; v; p; List ch; lf] -> IOk (RNode (cell_of p ch lf v))
  | List [Atom "err"; Atom k] -> IErr k
  | List [Atom "panic"] -> IPanic
  | _ -> raise (Parse_error "outcome")

let errkind_s = function
  | EInvalidIndex -> "InvalidIndex" | EMissingChild -> "MissingChild" | EMissingParent -> "MissingParent"
  | ENodeExists -> "NodeExists" | EChildExists -> "ChildExists" | ERootNode -> "RootNode" | ENodeNotFound -> "NodeNotFound"

let retval_s = function
  | RIdx i -> "idx " ^ nat_s i | RVal v -> "val " ^ nat_s v | RCount n -> "cnt " ^ nat_s n
  | RNode c -> "node " ^ cell_s c

let mout_s = function
  | TOk (_, r) -> "ok " ^ retval_s r | TErr (_, e) -> "err " ^ errkind_s e | TPanic _ -> "panic"

let first_free (st : tstate) : nat =
  let rec go i = match aget st.t_arena (nat_of_int i) with None -> nat_of_int i | Some _ -> go (i + 1) in go 0

(* the op with the allocator oracle's key filled in; None if the oracle's key was occupied *)
let op_of ?(hint : int option) (pre : tstate) (s : Sexp.t) (o : iout) : (op * string) option =
  let n x = nat_of_int (int_of x) in
  match s with
  | List [Atom "add"; p; l; v] ->
    (* a failing add does not tell its key; if a cell appeared nevertheless (D1), that is the key the allocator gave *)
    let key = (match o, hint with IOk (RIdx k), _ -> k | _, Some h -> nat_of_int h | _, None -> first_free pre) in
    if aget pre.t_arena key <> None then None else Some (OAddChild (n p, n l, n v, key), "add")
  | List [Atom "tryrm"; p; l] -> Some (OTryRemove (n p, n l), "tryrm")
  | List [Atom "rm"; p; l] -> Some (ORemove (n p, n l), "rm")
  | List [Atom "rad"; x] -> Some (ORemoveDesc (n x), "rad")
  | List [Atom "merge"; p; l] -> Some (OMerge (n p, n l), "merge")
  | List [Atom "upd"; i; v] -> Some (OUpdate (n i, n v), "upd")
  | _ -> raise (Parse_error "op")

(* observable well-formedness of one dump: invariant, len, reachability *)
let dump_check (k : int) (d : dumped) : (string * string) option =
  if not (invb (nat_of_int k) d.st) then Some ("inv", "the dumped arena violates the invariant (invb = false)")
  else if d.len <> List.length d.idxs then
    Some ("reach", Printf.sprintf "len()=%d but node_iter yields %d nodes" d.len (List.length d.idxs))
  else match d.dfs with
    | None -> Some ("reach", "dfs_iter panicked")
    | Some l ->
      let sl = List.sort_uniq compare l and si = List.sort_uniq compare d.idxs in
      if List.length sl <> List.length l then Some ("reach", "dfs_iter visits a node twice")
      else if sl <> si then
        Some ("reach", Printf.sprintf "len()=%d but %d nodes are reachable from the root" d.len (List.length l))
      else None

(* runner argument "--model-v0": mirror-compare against the model of the code as found (add_child_node_v0, defect D1)
   and skip the property checks; used once to confirm that the refuted model is the code that was found *)
let use_v0 = Array.exists (fun a -> a = "--model-v0") Sys.argv

let check (case : Sexp.t) : unit =
  match case with
  | List (Atom "case" :: Atom id :: Atom "seq" :: Atom ks :: List [Atom "init"; key0; v0; s0] :: steps) ->
    let k = int_of_string ks in
    bump ("K" ^ ks);
    let hist = Buffer.create 256 in
    Buffer.add_string hist (Printf.sprintf "K=%s add_root(%s)->%s" ks (atom v0) (atom key0));
    let fail tag msg = result id "VIOL" tag (Printf.sprintf "%s :: history: %s" msg (Buffer.contents hist)) in
    let d0 = dumped_of s0 in
    (* add_root on the empty tree *)
    let m0 = out_state (add_root (nat_of_int k) empty_tree (nat_of_int (int_of v0)) (nat_of_int (int_of key0))) in
    (match state_diff d0.st m0 with
     | Some diff -> fail "state" ("after add_root: implementation vs model: " ^ diff)
     | None ->
       match dump_check k d0 with
       | Some (tag, msg) -> fail tag ("after add_root: " ^ msg)
       | None ->
         let freed = Hashtbl.create 16 in
         let n_removal = ref 0 and n_fail = ref 0 in
         let rec go (pre : dumped) (steps : Sexp.t list) (i : int) : bool =
           match steps with
           | [] -> true
           | List [Atom "step"; sop; soc; spost] :: rest ->
             let io = iout_of soc in
             let post = dumped_of spost in
             Buffer.add_string hist (Printf.sprintf " ; %s->%s" (Sexp.to_string sop) (Sexp.to_string soc));
             bump "steps";
             let hint = List.find_opt (fun j -> not (List.mem j pre.idxs)) post.idxs in
             (match op_of ?hint pre.st sop io with
              | None -> fail "oracle" (Printf.sprintf "step %d: the allocator returned an occupied key" i); false
              | Some (o, oname) ->
                bump ("op_" ^ oname);
                (match io with
                 | IOk (RIdx key) -> if Hashtbl.mem freed (int_of_nat key) then bump "index_reuse"
                 | _ -> ());
                (match io with
                 | IOk _ -> bump "out_ok"
                 | IErr e -> bump ("err_" ^ e); incr n_fail
                 | IPanic -> bump "out_panic"; incr n_fail);
                let mo = if use_v0 then step_v0 (nat_of_int k) pre.st o else step (nat_of_int k) pre.st o in
                let mst = out_state mo in
                (* 1. outcome kind and value *)
                let same_outcome = (match io, mo with
                    | IOk r, TOk (_, r') -> r = r'
                    | IErr e, TErr (_, e') -> e = errkind_s e'
                    | IPanic, TPanic _ -> true
                    | _ -> false) in
                (* 2. unchanged state on failure, 3. post-state *)
                let failing = (match io with IOk _ -> false | _ -> true) in
                let unchanged = if failing && not use_v0 then state_diff post.st pre.st else None in
                if unchanged <> None then begin
                  fail "err-unchanged" (Printf.sprintf "step %d: the operation failed (%s) but changed the tree: %s" i
                                          (Sexp.to_string soc) (match unchanged with Some d -> d | None -> ""));
                  false end
                else if not same_outcome then begin
                  fail "outcome" (Printf.sprintf "step %d: implementation %s, model %s" i (Sexp.to_string soc) (mout_s mo));
                  false end
                else match state_diff post.st mst with
                  | Some diff -> fail "state" (Printf.sprintf "step %d: implementation vs model: %s" i diff); false
                  | None ->
                    match (if use_v0 then None else dump_check k post) with
                    | Some (tag, msg) -> fail tag (Printf.sprintf "step %d: %s" i msg); false
                    | None ->
                      (* bookkeeping for the statistics *)
                      let gone = List.filter (fun j -> not (List.mem j post.idxs)) pre.idxs in
                      List.iter (fun j -> Hashtbl.replace freed j ()) gone;
                      if gone <> [] then incr n_removal;
                      bump "mirror_agree";
                      go post rest (i + 1))
           | _ -> raise (Parse_error "step")
         in
         if go d0 steps 1 then begin
           if !n_removal > 0 && !n_fail > 0 then bump "nontrivial";
           result id "OK" "seq" ""
         end)
  | _ -> result "?" "ERR" "parse" "unrecognised case"

(* fam_c13.ml -- C13: traversals and tree metrics.
   The property's observable is the item stream and size_hint() of each traversal, and the value of each metric.
   DECIDING comparisons (against the SPECIFICATION, computed on the itree unfolded from the dumped arena):
     * every run (kind, start node, Next/Skip script): item after every Next = item of the forest machine
       (spec_pre_run / spec_bfs_run / spec_edge_run of IterSpec.v); size_hint brackets the number of items still to
       come (lb <= remaining <= ub) right after new() and after every command; no panic;
     * all-Next scripts: the stream is the direct recursive listing (pre / level_order / pree) and ends after
       size t items;
     * metrics = direct recursive definitions (size, nleaves, height, leafdepths, path_find, sorted indices).
   MIRROR comparison: every observation equals the coded-machine model of Iter.v (v_cur) including the exact hint
   values; for start indices that are not in the tree (the property does not speak about them) only the mirror is
   compared.
   Runner argument "--model-v0": compare with the model of the code as found (v_orig) instead, exactly, and skip the
   specification checks (used to confirm that the refuted model is the code that was found). *)
open Model
open Conv
open Sexp

let ni = nat_of_int
let ii = int_of_nat
let onat (s : Sexp.t) : nat option = match s with Atom "-" -> None | a -> Some (ni (int_of a))
let oint (s : Sexp.t) : int option = match s with Atom "-" -> None | a -> Some (int_of a)

type triple = int * int * int
type iobs =
  | IInit of int * int option
  | IItem of triple * int * int option       (* node: depth index n_remaining; edge: src label dest *)
  | IEnd of int * int option
  | ISkip of int * int option
  | IPanic

let iobs_of (s : Sexp.t) : iobs =
  match s with
  | Atom "p" -> IPanic
  | List [Atom "i"; lb; ub] -> IInit (int_of lb, oint ub)
  | List [Atom "e"; lb; ub] -> IEnd (int_of lb, oint ub)
  | List [Atom "s"; lb; ub] -> ISkip (int_of lb, oint ub)
  | List [Atom ("n" | "g"); a; b; c; lb; ub] -> IItem ((int_of a, int_of b, int_of c), int_of lb, oint ub)
  | List [Atom "n"; a; b; c; lb; ub; _npreds] -> IItem ((int_of a, int_of b, int_of c), int_of lb, oint ub)
  | _ -> raise (Parse_error "obs")

let npreds_of (s : Sexp.t) : (int * int) option =
  match s with List [Atom "n"; d; _; _; _; _; np] -> Some (int_of d, int_of np) | _ -> None

let arena_of_sexp (s : Sexp.t) : int * unit arena * int list =
  match s with
  | List (Atom "arena" :: root :: nodes) ->
    let cells = List.map (fun nd -> match nd with
        | List [Atom "node"; i; p; List ch; lf] ->
          (int_of i, { c_val = (); c_parent = onat p; c_children = List.map onat ch; c_leaf = (atom lf = "1") })
        | _ -> raise (Parse_error "node")) nodes in
    let maxi = List.fold_left (fun m (i, _) -> max m i) (-1) cells in
    let arr = Array.make (maxi + 1) None in
    List.iter (fun (i, c) -> arr.(i) <- Some c) cells;
    (int_of root, Array.to_list arr, List.map fst cells)
  | _ -> raise (Parse_error "arena")

let trip_s (a, b, c) = Printf.sprintf "(%d %d %d)" a b c
let hint_s lb ub = Printf.sprintf "(%d, %s)" lb (match ub with Some u -> "Some(" ^ string_of_int u ^ ")" | None -> "None")
let iobs_s = function
  | IInit (lb, ub) -> "new" ^ hint_s lb ub
  | IItem (t, lb, ub) -> "item" ^ trip_s t ^ hint_s lb ub
  | IEnd (lb, ub) -> "None" ^ hint_s lb ub
  | ISkip (lb, ub) -> "skip" ^ hint_s lb ub
  | IPanic -> "panic"

let nd_trip (e : nd) : triple = (ii e.n_depth, ii e.n_index, ii e.n_rem)
let ed_trip (e : ed) : triple = (ii e.e_src, ii e.e_label, ii e.e_dest)
let edge_trip (((s, l), d) : (nat * nat) * nat) : triple = (ii s, ii l, ii d)

(* normalised specification stream: (item option, remaining) for Next, remaining for Skip *)
type sstep = SN of triple option * int | SS of int
let norm_spec (item : 'a -> triple) (l : 'a sobs list) : sstep list =
  List.map (function SNext (o, rem) -> SN ((match o with Some x -> Some (item x) | None -> None), ii rem)
                   | SSkip rem -> SS (ii rem)) l
(* normalised coded-machine stream *)
let norm_model (item : 'a -> triple) (l : 'a obs list) : iobs list =
  List.map (function
      | ONext (Some e, lb, ub) -> IItem (item e, ii lb, Some (ii ub))
      | ONext (None, lb, ub) -> IEnd (ii lb, Some (ii ub))
      | OSkip (lb, ub) -> ISkip (ii lb, Some (ii ub))
      | OPanic -> IPanic) l

(* "--model-v0" = "--variant 000000"; "--variant b1..b6" selects, defect by defect (D2 D3 D4 D5 D6 D7), the code before
   (0) or after (1) the corresponding fix commit: used once per commit to confirm that each flag is that commit *)
let variant_arg : variant option =
  let r = ref None in
  Array.iteri (fun i a ->
      if a = "--model-v0" then r := Some v_orig
      else if a = "--variant" && i + 1 < Array.length Sys.argv then begin
        let b = Sys.argv.(i + 1) in
        let f k = (b.[k] = '1') in
        r := Some { v_lb_after = f 0; v_clear = f 1; v_seed = f 2; v_edge_lb = f 3; v_bfs_down = f 4; v_poly = f 5 }
      end) Sys.argv;
  !r
let use_v0 = (variant_arg <> None)

let script_s sc = String.concat "" (List.map (function Next -> "N" | Skip -> "S") sc)

(* one violation per tag and case *)
let viols : (string, string) Hashtbl.t = Hashtbl.create 16
let viol tag detail = if not (Hashtbl.mem viols tag) then Hashtbl.replace viols tag detail

let where kind start sc k = Printf.sprintf "%s traversal from node %d, script %s, after command %d" kind start (script_s sc) k

(* deciding walk: implementation observations against the specification stream *)
let check_hint kind start sc k (lb, ub) rem =
  if lb > rem then
    viol (kind ^ "-hint-lb") (Printf.sprintf "%s: size_hint %s but %d items are still to come" (where kind start sc k) (hint_s lb ub) rem);
  (match ub with
   | Some u when u < rem ->
     viol (kind ^ "-hint-ub") (Printf.sprintf "%s: size_hint %s but %d items are still to come" (where kind start sc k) (hint_s lb ub) rem)
   | _ -> ())

let rec walk kind start sc k (impl : iobs list) (spec : sstep list) : unit =
  match impl, spec with
  | [], [] -> ()
  | IPanic :: _, _ ->
    viol (kind ^ "-panic") (Printf.sprintf "%s: the implementation panicked; the specification %s" (where kind start sc k)
                              (match spec with
                               | SN (Some t, _) :: _ -> "yields item " ^ trip_s t
                               | SN (None, _) :: _ -> "yields None"
                               | SS r :: _ -> Printf.sprintf "skips (%d items remain)" r
                               | [] -> "has ended"))
  | IItem (t, lb, ub) :: impl', SN (Some st, rem) :: spec' ->
    if t = st then (check_hint kind start sc k (lb, ub) rem; walk kind start sc (k + 1) impl' spec')
    else begin
      let (a, b, _) = t and (a', b', _) = st in
      let tag = if kind <> "edge" && a = a' && b = b' then kind ^ "-counter" else kind ^ "-order" in
      viol tag (Printf.sprintf "%s: implementation item %s, specification %s" (where kind start sc k) (trip_s t) (trip_s st))
    end
  | IEnd (lb, ub) :: impl', SN (None, rem) :: spec' ->
    check_hint kind start sc k (lb, ub) rem; walk kind start sc (k + 1) impl' spec'
  | ISkip (lb, ub) :: impl', SS rem :: spec' ->
    check_hint kind start sc k (lb, ub) rem; walk kind start sc (k + 1) impl' spec'
  | IItem (t, _, _) :: _, SN (None, _) :: _ ->
    viol (kind ^ "-order") (Printf.sprintf "%s: implementation item %s, but every item of the subtree has been delivered or skipped"
                              (where kind start sc k) (trip_s t))
  | IEnd _ :: _, SN (Some st, _) :: _ ->
    viol (kind ^ "-order") (Printf.sprintf "%s: implementation returned None, specification item %s" (where kind start sc k) (trip_s st))
  | _, _ -> viol "shape" (Printf.sprintf "%s: observation list does not fit the script" (where kind start sc k))

let rec first_diff k (a : iobs list) (b : iobs list) : (int * string * string) option =
  match a, b with
  | [], [] -> None
  | x :: a', y :: b' -> if x = y then first_diff (k + 1) a' b' else Some (k, iobs_s x, iobs_s y)
  | x :: _, [] -> Some (k, iobs_s x, "nothing")
  | [], y :: _ -> Some (k, "nothing", iobs_s y)

let mirror_note : string option ref = ref None

let check_run (arena : unit arena) (root : int) (fuel : nat) (r : Sexp.t) : unit =
  match r with
  | List [Atom "run"; Atom kind; st; List sc; List obs] ->
    let start = int_of st in
    let script = List.map (function Atom "N" -> Next | _ -> Skip) sc in
    let impl_all = List.map iobs_of obs in
    bump ("runs_" ^ kind);
    let nskip = List.length (List.filter (fun c -> c = Skip) script) in
    if nskip > 0 then bump "runs_with_skip";
    let rec has_double = function Skip :: Skip :: _ -> true | _ :: r -> has_double r | [] -> false in
    if has_double script then bump "runs_with_repeated_skip";
    if start <> root then bump "runs_nonroot_start";
    let v = (match variant_arg with Some v -> v | None -> v_cur) in
    (* the coded machine (mirror) *)
    let model : iobs list =
      (match kind with
       | "pre" -> norm_model nd_trip (dfspre_run v arena (ni root) (ni start) script)
       | "bfs" -> norm_model nd_trip (bfs_run v arena (ni root) (ni start) script)
       | "edge" -> norm_model ed_trip (dfsedge_run v arena (ni root) (ni start) script)
       | "poly" -> norm_model nd_trip (poly_run v arena (ni root) script)
       | _ -> raise (Parse_error "kind")) in
    let model_init : iobs =
      (match kind with
       | "pre" -> let m = dfspre_new arena (ni root) (ni start) in IInit (ii m.m_lb, Some (ii m.m_ub))
       | "bfs" -> let m = bfs_new arena (ni root) (ni start) in IInit (ii m.m_lb, Some (ii m.m_ub))
       | "edge" -> (match dfsedge_new v arena (ni root) (ni start) with
           | ROk m -> IInit (ii m.m_lb, Some (ii m.m_ub)) | RPanic -> IPanic)
       | _ -> let m = dfspre_new arena (ni root) (ni start) in
         if v.v_poly then IInit (ii m.m_lb, Some (ii m.m_ub)) else IInit (ii (alen arena), Some (ii (alen arena)))) in
    let model_all = (match model_init, model with IPanic, _ -> [IPanic] | i, m -> i :: m) in
    let mirror_ok = (first_diff 0 impl_all model_all = None) in
    if mirror_ok then bump "mirror_agree"
    else begin
      bump "mirror_mismatch";
      (match first_diff 0 impl_all model_all with
       | Some (k, a, b) when !mirror_note = None ->
         mirror_note := Some (Printf.sprintf "%s: implementation %s, coded-machine model %s" (where kind start script k) a b)
       | _ -> ())
    end;
    if use_v0 then begin
      if not mirror_ok then
        (match first_diff 0 impl_all model_all with
         | Some (k, a, b) -> viol "v0-mirror" (Printf.sprintf "%s: implementation %s, model of the code as found %s" (where kind start script k) a b)
         | None -> ())
    end
    else begin
      match unfold arena fuel (ni start) with
      | None -> bump "runs_absent_start"   (* not a node of the tree: mirror only *)
      | Some t ->
        let spec : sstep list =
          (match kind with
           | "pre" | "poly" -> norm_spec (fun se -> nd_trip (sent_item se)) (spec_pre_run script t)
           | "bfs" -> norm_spec (fun se -> nd_trip (sent_item se)) (spec_bfs_run script t)
           | _ -> norm_spec (fun se -> edge_trip (sedge_item se)) (spec_edge_run script t)) in
        let rem0 = if kind = "edge" then ii (size t) - 1 else ii (size t) in
        (match impl_all with
         | IInit (lb, ub) :: rest ->
           check_hint kind start script 0 (lb, ub) rem0;
           walk kind start script 1 rest spec
         | _ -> viol (kind ^ "-panic") (Printf.sprintf "%s traversal from node %d: new() panicked" kind start));
        (* all-Next scripts: the direct recursive listing, each item once, then None *)
        if nskip = 0 then begin
          let direct : triple list =
            (match kind with
             | "pre" | "poly" -> List.map nd_trip (pre O O t)
             | "bfs" -> List.map nd_trip (level_order t)
             | _ -> List.map edge_trip (pree t)) in
          let items = List.filter_map (function IItem (x, _, _) -> Some x | _ -> None) impl_all in
          let nnext = List.length script in
          let expect = List.filteri (fun i _ -> i < nnext) direct in
          if items <> expect then
            viol (kind ^ "-direct") (Printf.sprintf "%s traversal from node %d without skips: implementation yields [%s], the recursive listing is [%s]"
                                       kind start (String.concat " " (List.map trip_s items)) (String.concat " " (List.map trip_s expect)))
        end;
        (* PolyhedraIter: the number of path predicates of an item is its depth *)
        if kind = "poly" then
          List.iter (fun o -> match npreds_of o with
              | Some (d, np) when d <> np -> viol "poly-order" (Printf.sprintf "item at depth %d carries %d path predicates" d np)
              | _ -> ()) obs
    end
  | _ -> raise (Parse_error "run")

(* ---------------------------------------------------------------- metrics *)
let qc_of_int (k : int) : qc = qz (z_of_int k)
let close (tok : string) (exact : qc) : bool =
  match (try Some (qc_of_token tok) with Nonfinite -> None) with
  | None -> false
  | Some x ->
    (* |x - exact| <= 2^-40 * max(1, |exact|) *)
    let tol = qc_of_float (z_of_int 1) (z_of_int (-40)) in
    let m = if qleb (qc_of_int 1) (qabs exact) then qabs exact else qc_of_int 1 in
    qleb (qabs (qcminus x exact)) (qcmult tol m)

let ints l = String.concat " " (List.map string_of_int l)

let check_metrics (arena : unit arena) (root : int) (fuel : nat) (idxs : int list) (m : Sexp.t list) : unit =
  match unfold arena fuel (ni root) with
  | None -> viol "metrics-tree" "the dumped arena does not unfold to a tree from its root"
  | Some t ->
    let all_idx = List.sort compare (List.map ii (indices t)) in
    let term_idx = List.sort compare (List.map ii (leaf_indices t)) and dec_idx = List.sort compare (List.map ii (inner_indices t)) in
    let lds = List.map ii (leafdepths O t) in
    List.iter (fun e ->
        match e with
        | List (Atom "num_nodes" :: l) ->
          List.iter (function
              | List [i; Atom "p"] -> viol "metrics-num_nodes" (Printf.sprintf "num_nodes(%d) panicked" (int_of i))
              | List [i; k] ->
                bump "metric_values";
                let i = int_of i in
                (match unfold arena fuel (ni i) with
                 | Some s ->
                   if ii (size s) <> int_of k then
                     viol "metrics-num_nodes" (Printf.sprintf "num_nodes(%d) = %d, the subtree has %d nodes" i (int_of k) (ii (size s)));
                   (match num_nodes arena (ni root) (ni i) with
                    | ROk n when ii n = int_of k -> () | _ -> bump "mirror_mismatch")
                 | None -> viol "metrics-num_nodes" (Printf.sprintf "num_nodes(%d): not a node" i))
              | _ -> raise (Parse_error "num_nodes")) l
        | List [Atom "num_terminals"; k] ->
          bump "metric_values";
          if atom k = "p" || int_of k <> ii (nleaves t) then
            viol "metrics-num_terminals" (Printf.sprintf "num_terminals = %s, the tree has %d nodes without children" (atom k) (ii (nleaves t)));
          if atom k <> "p" && int_of k <> ii (num_terminals arena) then bump "mirror_mismatch"
        | List [Atom "depth"; k] ->
          bump "metric_values";
          if atom k = "p" || int_of k <> ii (height t) then
            viol "metrics-depth" (Printf.sprintf "depth = %s, the longest downward path has %d edges" (atom k) (ii (height t)));
          (match depth_of arena (ni root) with ROk d when atom k <> "p" && ii d = int_of k -> () | _ -> bump "mirror_mismatch")
        | List [Atom "depth_stats"; Atom "p"] -> viol "metrics-depth_stats" "depth_stats panicked"
        | List [Atom "depth_stats"; mn; mean; var; mx] ->
          bump "metric_values";
          let (((dmin, dmean), dvar), dmax) = depth_stats_direct t in
          let exact_tok name tok (o : nat option) =
            (match o with
             | Some k -> if not (try qeqb (qc_of_token tok) (qc_of_int (ii k)) with Nonfinite -> false) then
                 viol "metrics-depth_stats" (Printf.sprintf "depth_stats %s = %s, terminal depths are [%s]" name tok (ints lds))
             | None -> ()) in
          exact_tok "min" (atom mn) dmin;
          exact_tok "max" (atom mx) dmax;
          (match dmean with
           | Some mu -> if not (close (atom mean) mu) then
               viol "metrics-depth_stats" (Printf.sprintf "depth_stats mean = %s, exact mean %s of terminal depths [%s]" (atom mean) (string_of_qc mu) (ints lds))
           | None -> ());
          (match dvar with
           | Some s2 -> if not (close (atom var) s2) then
               viol "metrics-depth_stats" (Printf.sprintf "depth_stats variance = %s, exact sample variance %s of terminal depths [%s]" (atom var) (string_of_qc s2) (ints lds))
           | None -> if atom var <> "nan" then
               viol "metrics-depth_stats" (Printf.sprintf "depth_stats variance = %s for fewer than two terminals (NaN documented)" (atom var)));
          (match depth_stats arena (ni root) with ROk st when st = depth_stats_direct t -> () | _ -> bump "mirror_mismatch")
        | List (Atom "paths" :: l) ->
          List.iter (function
              | List [i; res] ->
                bump "metric_values";
                let i = int_of i in
                let got = (match res with
                    | Atom "err" -> `Err | Atom "p" -> `Panic
                    | List (Atom "ok" :: steps) -> `Ok (List.map (function List [a; b] -> (int_of a, int_of b) | _ -> raise (Parse_error "path")) steps)
                    | _ -> raise (Parse_error "path")) in
                let expect = (match path_find (ni i) t with Some p -> `Ok (List.map (fun (a, b) -> (ii a, ii b)) p) | None -> `Err) in
                if got <> expect then
                  viol "metrics-path_to_node"
                    (Printf.sprintf "path_to_node(%d) = %s, the path from the root is %s" i
                       (match got with `Err -> "Err" | `Panic -> "panic" | `Ok p -> "[" ^ String.concat " " (List.map (fun (a, b) -> Printf.sprintf "(%d,%d)" a b) p) ^ "]")
                       (match expect with `Ok p -> "[" ^ String.concat " " (List.map (fun (a, b) -> Printf.sprintf "(%d,%d)" a b) p) ^ "]" | _ -> "absent (Err expected)"));
                (match path_to_node arena (ni i), got with
                 | ROk None, `Err | RPanic, `Panic -> ()
                 | ROk (Some p), `Ok q when List.map (fun (a, b) -> (ii a, ii b)) p = q -> ()
                 | _ -> bump "mirror_mismatch")
              | _ -> raise (Parse_error "paths")) l
        | List [Atom "len"; k] ->
          bump "metric_values";
          if int_of k <> ii (size t) then viol "metrics-len" (Printf.sprintf "len() = %d, %d nodes are reachable from the root" (int_of k) (ii (size t)))
        | List (Atom (("node_iter" | "node_indices" | "nodes") as nm) :: l) ->
          bump "metric_values";
          if List.map int_of l <> all_idx then
            viol "metrics-index-iter" (Printf.sprintf "%s yields [%s], the nodes of the tree in index order are [%s]" nm (ints (List.map int_of l)) (ints all_idx));
          if List.map int_of l <> List.map ii (node_indices arena) then bump "mirror_mismatch"
        | List (Atom (("terminal_indices" | "terminals" | "terminals_mut") as nm) :: l) ->
          bump "metric_values";
          if List.map int_of l <> term_idx then
            viol "metrics-index-iter" (Printf.sprintf "%s yields [%s], the nodes without children in index order are [%s]" nm (ints (List.map int_of l)) (ints term_idx));
          if List.map int_of l <> List.map ii (terminal_indices arena) then bump "mirror_mismatch"
        | List (Atom (("decision_indices" | "decisions") as nm) :: l) ->
          bump "metric_values";
          if List.map int_of l <> dec_idx then
            viol "metrics-index-iter" (Printf.sprintf "%s yields [%s], the nodes with children in index order are [%s]" nm (ints (List.map int_of l)) (ints dec_idx));
          if List.map int_of l <> List.map ii (decision_indices arena) then bump "mirror_mismatch"
        | List (Atom "dfs_iter" :: l) ->
          bump "metric_values";
          let got = List.map (function List [Atom "n"; a; b; c] -> Some (int_of a, int_of b, int_of c) | _ -> None) l in
          if got <> List.map (fun e -> Some (nd_trip e)) (pre O O t) then
            viol "pre-direct" "dfs_iter() differs from the recursive pre-order listing"
        | List (Atom "dfs_edge_iter" :: l) ->
          bump "metric_values";
          let got = List.map (function List [Atom "g"; a; b; c] -> Some (int_of a, int_of b, int_of c) | _ -> None) l in
          if got <> List.map (fun e -> Some (edge_trip e)) (pree t) then
            viol "edge-direct" (Printf.sprintf "dfs_edge_iter() yields %d edges, the recursive edge listing has %d" (List.length got) (List.length (pree t)))
        | _ -> raise (Parse_error "metric")) m;
    ignore idxs

let finish id kindtag =
  if Hashtbl.length viols = 0 then result id "OK" kindtag ""
  else begin
    let l = Hashtbl.fold (fun t d acc -> (t, d) :: acc) viols [] in
    List.iter (fun (t, d) -> result id "VIOL" t d) (List.sort compare l)
  end;
  (match !mirror_note with
   | Some d when Hashtbl.length viols = 0 && not use_v0 -> result id "MIRROR" "coded-machine" d
   | _ -> ())

let check (case : Sexp.t) : unit =
  Hashtbl.reset viols;
  mirror_note := None;
  match case with
  | List [Atom "case"; Atom id; Atom "tree"; Atom ks; List [Atom "gen"; removed; reused]; ar; List (Atom "metrics" :: m); List (Atom "runs" :: runs)] ->
    bump ("K" ^ ks);
    if int_of removed > 0 then bump "arenas_after_removals";
    if int_of reused > 0 then bump "arenas_with_reused_indices";
    let (root, arena, idxs) = arena_of_sexp ar in
    let fuel = ni (List.length arena + 1) in
    let holes = List.length arena - List.length idxs in
    if holes > 0 then bump "arenas_with_holes";
    (* the hypothesis of the theorems: the arena is a tree below its root and holds nothing else *)
    (match minvb arena (ni root) with
     | Some _ -> ()
     | None -> viol "tree-inv" "the dumped arena violates the hypothesis of the C13 theorems (minvb = None: not exactly a tree below its root, or leaf flags / parent links inconsistent)");
    if not use_v0 then check_metrics arena root fuel idxs m;
    List.iter (check_run arena root fuel) runs;
    if List.length idxs > 3 && (holes > 0 || int_of reused > 0 || ks = "3") then bump "nontrivial";
    finish id "tree"
  | List [Atom "case"; Atom id; Atom "poly"; Atom _; ar; List (Atom "runs" :: runs)] ->
    bump "poly_cases";
    let (root, arena, idxs) = arena_of_sexp ar in
    let fuel = ni (List.length arena + 1) in
    if List.length arena > List.length idxs then bump "arenas_with_holes";
    (match minvb arena (ni root) with
     | Some _ -> ()
     | None -> viol "tree-inv" "the dumped arena violates the hypothesis of the C13 theorems (minvb = None)");
    List.iter (check_run arena root fuel) runs;
    if List.length idxs > 3 then bump "nontrivial";
    finish id "poly"
  | _ -> result "?" "ERR" "parse" "unrecognised case"

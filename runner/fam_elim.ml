(* fam_elim.ml -- pruning family: C03 (function preserved), C05 (caches sound), C06 (effective, idempotent),
   C11 (fail-safe under injected LP faults). Mode = first runner argument. *)
open Model
open Conv
open Sexp
open Common

let mode = if Array.length Sys.argv > 1 then Sys.argv.(1) else "c03"
let tau = qfrac (z_of_int 1) (pos_of_int 1000000)      (* 1e-6: margin around minilp's EPS = 1e-8 *)
let tol = qfrac (z_of_int 1) (pos_of_int 100000000)    (* 1e-8: Polytope::contains *)

let first_out t =
  let rec go = function U -> None | T f -> Some (int_of_nat (outdim f))
                        | D (_, ch) -> List.fold_left (fun a c -> match a with Some _ -> a | None -> go c) None ch in go t

(* certified equivalence; a difference is tolerated only inside a region that is certified thin *)
let equiv_mod_thin ~id ~tag n (t_impl : ptree) (t_ref : ptree) : bool =
  (* verified comparison (Cert/EquivThin.v): cells of the REFERENCE tree whose closed region is certified thin are
     skipped, everything else must agree for all inputs; a Differ comes with a point outside every skipped cell *)
  (match tree_equiv_skip (thin_skip (nat_of_int n) tau) (nat_of_int n) [] t_ref t_impl with
   | Equal ->
     (match tree_equiv_x (nat_of_int n) t_impl t_ref with Equal -> () | _ -> bump "thin_region_difference_allowed"); true
   | TUnknown -> result id "UNK" tag "kernel-unknown"; false
   | Differ x ->
     if check_cex (nat_of_int n) [] t_impl t_ref x then
       result id "VIOL" tag (Printf.sprintf "x=%s after=%s before=%s" (string_of_vec x)
                               (string_of_ovec (eval t_impl x)) (string_of_ovec (eval t_ref x)))
     else result id "UNK" tag "counterexample-not-validated";
     false)

(* well-formedness of a dumped tree (C04's predicate): tree-shaped arena, binary one-row decisions with a child,
   every node function on R^n, terminals with one common output dimension *)
let wf_dump ~id ~tag (t : itree) : ptree option =
  match ptree_of t with
  | None -> result id "VIOL" tag "result arena is not a tree"; None
  | Some pt ->
    let n = t.in_dim in
    let m = match first_out pt with Some m -> m | None -> 0 in
    let childless_dec = List.exists (fun nd -> (not nd.leaf) && List.for_all (fun c -> c = None) nd.children) t.nodes in
    let leaf_with_children = List.exists (fun nd -> nd.leaf && List.exists (fun c -> c <> None) nd.children) t.nodes in
    if not (binb pt && wfb (nat_of_int n) pt && outsb (nat_of_int m) pt) || childless_dec || leaf_with_children then
      (result id "VIOL" tag (Printf.sprintf "ill-formed tree: binary=%b shapes=%b outdims=%b childless-decision=%b leaf-with-children=%b"
                               (binb pt) (wfb (nat_of_int n) pt) (outsb (nat_of_int m) pt) childless_dec leaf_with_children); None)
    else Some pt

let cache_ok ~id ~tag (t : itree) : bool =
  let root = (match t.root with Some r -> r | None -> 0) in
  match cache_check (nat_of_int t.in_dim) tol tau (arena_of t) (nat_of_int root) with
  | None -> result id "UNK" tag "kernel-unknown in cache check"; false
  | Some [] -> true
  | Some bad ->
    result id "VIOL" tag (Printf.sprintf "unsound cached state at node(s) %s"
                            (String.concat "," (List.map (fun i -> string_of_int (int_of_nat i)) bad))); false

let count_states (t : itree) =
  List.iter (fun nd -> match nd.nstate with
      | Indet -> bump "state_indet" | Infeas -> bump "state_infeas" | Feas -> bump "state_feas"
      | FeasW ws -> bump "state_witness"; bump_by "witnesses" (List.length ws)) t.nodes

let log_stats (log : Sexp.t list) =
  List.iter (function
      | List (Atom "lp" :: _ :: _ :: st :: _) ->
        bump "lp_calls";
        (match st with Atom "infeasible" -> bump "lp_infeasible" | Atom "unbounded" -> bump "lp_unbounded"
                     | Atom "error" -> bump "lp_error" | _ -> bump "lp_optimal")
      | List (Atom "mir" :: _) -> bump "mirror_calls"
      | _ -> ()) log

(* C06: effectiveness on a total tree *)
let effective ~id (before : itree) (pb : ptree) (after : itree) (pa : ptree) : bool =
  let n = after.in_dim in
  let root = (match after.root with Some r -> r | None -> 0) in
  match node_rows (arena_of after) (nat_of_int root) with
  | None -> result id "VIOL" "effective" "result arena is not a tree"; false
  | Some nrs ->
    let ok_regions = List.for_all (fun (i, rs) ->
        if int_of_nat i = root then true else
          match empty_cert (nat_of_int n) rs with
          | Some false -> true
          | None -> result id "UNK" "effective" "kernel-unknown"; false
          | Some true ->
            (match empty_cert (nat_of_int n) (relax tau rs) with
             | Some false -> bump "thin_region_kept"; true
             | None -> result id "UNK" "effective" "kernel-unknown"; false
             | Some true ->
               result id "VIOL" "effective" (Printf.sprintf "node %d survives although its closed path polytope is empty by more than the tolerance" (int_of_nat i)); false)) nrs in
    let ok_single = List.for_all (fun nd ->
        if nd.leaf || nd.parent = None then true else
          let k = List.length (List.filter (fun c -> c <> None) nd.children) in
          if k = 1 then (result id "VIOL" "single-branch" (Printf.sprintf "decision %d below the root is left with a single branch" nd.idx); false) else true)
        after.nodes in
    (* counting sentence: #full-dimensional cells <= #terminals(after) <= #non-empty closed cells, cells of the tree before *)
    let ok_count =
      (match pieces (nat_of_int n) pb [] with
       | None -> true
       | Some _ ->
         (match node_rows (arena_of before) (nat_of_int (match before.root with Some r -> r | None -> 0)) with
          | None -> true
          | Some brs ->
            let terms = List.filter (fun (i, _) -> match find_node before (int_of_nat i) with Some nd -> nd.leaf | None -> false) brs in
            let upper = List.length (List.filter (fun (_, rs) -> empty_cert (nat_of_int n) rs = Some false) terms) in
            let lower = List.length (List.filter (fun (_, rs) ->
                match solve (nat_of_int n) (List.map (fun (r, b) -> { coef = r; rhs = b; strict = true }) rs) with Sat _ -> true | _ -> false) terms) in
            let nt = List.length (List.filter (fun nd -> nd.leaf) after.nodes) in
            bump_by "regions_fulldim" lower; bump_by "regions_closed" upper; bump_by "terminals_after" nt;
            (* count-mask (mirror of Pwl/ElimCount.v elim_count): the terminals after are exactly the terminals before
               (same arena index) whose exact closed region is non-empty; thin regions may go either way *)
            (let kept i = List.exists (fun nd -> nd.leaf && nd.idx = i) after.nodes in
             let bad = List.filter_map (fun (i, rs) ->
                 let i' = int_of_nat i in
                 match empty_cert (nat_of_int n) rs with
                 | Some false when not (kept i') ->
                   if thin_cert (nat_of_int n) tau rs = Some true then (bump "count_mask_thin"; None)
                   else Some (Printf.sprintf "terminal %d removed although its closed region is non-empty and not thin" i')
                 | Some true when kept i' ->
                   if empty_cert (nat_of_int n) (relax tau rs) = Some false then (bump "count_mask_thin"; None)
                   else Some (Printf.sprintf "terminal %d kept although its closed region is empty by more than the tolerance" i')
                 | _ -> None) terms in
             let fresh_terms = List.filter (fun nd -> nd.leaf && not (List.exists (fun (i, _) -> int_of_nat i = nd.idx) terms)) after.nodes in
             bump "count_mask_compared";
             match bad, fresh_terms with
             | [], [] -> bump "count_mask_agree"
             | w :: _, _ -> result id "MIRROR" "count-mask" w
             | [], nd :: _ -> result id "MIRROR" "count-mask" (Printf.sprintf "terminal %d of the result is not a terminal of the input" nd.idx));
            if lower <= nt && nt <= upper then true
            else (result id "VIOL" "region-count" (Printf.sprintf "terminals after elimination %d, full-dimensional regions %d, non-empty closed regions %d" nt lower upper); false))) in
    ok_regions && ok_single && ok_count

(* T2: replay of the logged oracle answers into the model's elimination; structural comparison incl. states *)
let lpans_of = function
  | Atom "infeasible" -> LInf | Atom "unbounded" -> LUnb | Atom "error" -> LErr
  | List [Atom "optimal"; w] -> LOpt (vec_of w)
  | _ -> raise (Parse_error "lp status")
let replay_elim (b : itree) (a : itree) (log : Sexp.t list) : unit =
  let lps = List.filter_map (function List (Atom "lp" :: _ :: _ :: st :: _) -> Some (lpans_of st) | _ -> None) log in
  let mirs = List.filter_map (function
      | List [Atom "mir"; _; _; _; Atom "none"] -> Some None
      | List [Atom "mir"; _; _; _; List [Atom "some"; m; _]] -> Some (Some (mat_of m))
      | _ -> None) log in
  let fuel arena = nat_of_int (List.length arena + 1) in
  let ab = arena_of b and aa = arena_of a in
  let rt t = nat_of_int (match t.root with Some r -> r | None -> 0) in
  match cabs (fuel ab) ab (rt b), cabs (fuel aa) aa (rt a) with
  | Some cb, Some ca ->
    let (res, k) = elim (oracle_of_logs lps mirs) tol cb in
    let used_all = (int_of_nat k.k_lp = List.length lps && int_of_nat k.k_mir = List.length mirs) in
    if ctree_eqb res ca && used_all then bump "mirror_agree"
    else if ctree_eqb res ca then bump "mirror_agree_tree_only"
    else bump "mirror_mismatch"
  | _ -> bump "mirror_not_a_tree"

(* T2 for the pruned composition: the logged answers, keyed by the query polytope, replayed into Pwl/CPrune.v;
   comparison of shape, coefficients and cached states (arena indices of new nodes are not compared) *)
let replay_cprune (f : itree) (g : itree) (h1 : itree) (log : Sexp.t list) : unit =
  let lplog = List.filter_map (function
      | List (Atom "lp" :: poly :: _ :: st :: _) ->
        let p = aff_of poly in Some (List.combine p.a_mat p.a_bias, lpans_of st)
      | _ -> None) log in
  let fuel arena = nat_of_int (List.length arena + 1) in
  let af = arena_of f and ah = arena_of h1 in
  let rt t = nat_of_int (match t.root with Some r -> r | None -> 0) in
  match cabs (fuel af) af (rt f), cabs (fuel ah) ah (rt h1), ptree_of g with
  | Some cf, Some ch, Some pg ->
    let (res, k) = compose_prune (oracle_by_rows lplog) tol cf pg in
    if ctree_eqb_shape res ch then
      (if int_of_nat k.k_lp = List.length lplog then bump "mirror_agree" else bump "mirror_agree_tree_only")
    else bump "mirror_mismatch"
  | _ -> bump "mirror_not_a_tree"

(* x-acprune begin ---------------------------------------------------------------------------------------------
   arena-level machine of the pruned composition (Pwl/ACPrune.v: add_child_node / is_edge_feasible through the parent
   pointers / remove_child / merge_child_with_parent on the dumped arena of the receiver, LP answers replayed by query
   polytope) against the dumped arena of the result, cell by cell.  The dump does not contain the slab's free list, so
   the keys of NEW nodes are compared up to a bijection (built from the root downwards); every decision of the
   receiver must keep its key, value, state, parent.  In addition the run is repeated with an allocator that
   simulates the slab (free list = stack; initial free list guessed as the holes of the dump in ascending order) and
   identical arenas are counted (acprune_arena_exact_keys). *)
let occupied_keys (a : acont arena) : int list =
  List.concat (List.mapi (fun i o -> match o with Some _ -> [i] | None -> []) a)
let slab_alloc (a0 : acont arena) : acont arena -> nat =
  let len = ref (List.length a0) in
  let free = ref (List.concat (List.mapi (fun i o -> match o with None -> [i] | Some _ -> []) a0)) in
  let last : (int * int list) option ref = ref None in
  fun a ->
    let occ = occupied_keys a in
    (match !last with
     | Some (k, prev) ->
       (* freed since the previous insertion: the child inserted then (removed at once when its edge was infeasible)
          first, the merged node after it *)
       let gone = List.filter (fun j -> not (List.mem j occ)) prev in
       let gone = (if List.mem k gone then [k] else []) @ List.filter (fun j -> j <> k) gone in
       List.iter (fun j -> free := j :: !free) gone
     | None -> ());
    let key = (match !free with j :: r -> free := r; j | [] -> let j = !len in len := j + 1; j) in
    last := Some (key, key :: occ);
    nat_of_int key
let arena_iso (root : int) (pre : acont arena) (am : acont arena) (ar : acont arena) : string option =
  let vm = Array.of_list am and vr = Array.of_list ar in
  let get v i = if i < Array.length v then v.(i) else None in
  let phi = Hashtbl.create 64 and psi = Hashtbl.create 64 in
  let bad = ref None in
  let fail s = if !bad = None then bad := Some s in
  let onat = function None -> None | Some n -> Some (int_of_nat n) in
  let rec go pm pr i j =
    if Hashtbl.mem phi i || Hashtbl.mem psi j then fail (Printf.sprintf "key %d/%d reached twice" i j) else begin
      Hashtbl.add phi i j; Hashtbl.add psi j i;
      match get vm i, get vr j with
      | Some c, Some d ->
        if not (aff_eqb c.c_val.ac_aff d.c_val.ac_aff) then fail (Printf.sprintf "value differs at %d/%d" i j)
        else if not (st_eqb c.c_val.ac_state d.c_val.ac_state) then fail (Printf.sprintf "state differs at %d/%d" i j)
        else if c.c_leaf <> d.c_leaf then fail (Printf.sprintf "leaf flag differs at %d/%d" i j)
        else if onat c.c_parent <> pm || onat d.c_parent <> pr then fail (Printf.sprintf "parent pointer wrong at %d/%d" i j)
        else if List.length c.c_children <> List.length d.c_children then fail (Printf.sprintf "arity differs at %d/%d" i j)
        else List.iter2 (fun x y -> match x, y with
            | None, None -> ()
            | Some x, Some y -> go (Some i) (Some j) (int_of_nat x) (int_of_nat y)
            | _ -> fail (Printf.sprintf "child slots differ at %d/%d" i j)) c.c_children d.c_children
      | _ -> fail (Printf.sprintf "missing cell %d/%d" i j)
    end in
  go None None root root;
  let nm = List.length (occupied_keys am) and nr = List.length (occupied_keys ar) in
  if !bad = None && (nm <> Hashtbl.length phi || nr <> Hashtbl.length phi) then
    fail (Printf.sprintf "cells outside the tree: model %d, implementation %d, tree %d" nm nr (Hashtbl.length phi));
  (* the decisions of the receiver keep their keys *)
  List.iteri (fun i o -> match o with
      | Some c when not c.c_leaf ->
        if (try Hashtbl.find phi i <> i with Not_found -> true) then fail (Printf.sprintf "decision %d of the receiver moved" i)
      | _ -> ()) pre;
  !bad
(* do the assumptions of C03_arena_compose_prune_refines hold for this case?  (root at key 0; from the root: parent
   pointers consistent, two child slots, no key twice, terminals without children; no terminal cell outside the tree;
   lhs: two slots per decision, one of them occupied, not empty) -- counted only *)
let acprune_hyps (f : itree) (pg : ptree) : bool =
  let rec karity = function U -> true | T _ -> true
                            | D (_, ch) -> List.length ch = 2 && List.exists (fun c -> c <> U) ch && List.for_all karity ch in
  let seen = Hashtbl.create 64 in
  let rec go par i =
    match find_node f i with
    | None -> false
    | Some nd ->
      if Hashtbl.mem seen i then false else begin
        Hashtbl.add seen i ();
        nd.parent = par && List.length nd.children = 2 &&
        (if nd.leaf then List.for_all (fun c -> c = None) nd.children
         else List.for_all (function None -> true | Some c -> go (Some i) c) nd.children)
      end in
  f.root = Some 0 && go None 0 && pg <> U && karity pg &&
  List.for_all (fun nd -> (not nd.leaf) || Hashtbl.mem seen nd.idx) f.nodes
let replay_acprune ~id (f : itree) (g : itree) (h1 : itree) (log : Sexp.t list) : unit =
  let lplog = List.filter_map (function
      | List (Atom "lp" :: poly :: _ :: st :: _) ->
        let p = aff_of poly in Some (List.combine p.a_mat p.a_bias, lpans_of st)
      | _ -> None) log in
  let af = arena_of f and ah = arena_of h1 in
  let root = (match f.root with Some r -> r | None -> 0) in
  match ptree_of g with
  | None -> bump "acprune_arena_not_a_tree"
  | Some pg ->
    bump (if acprune_hyps f pg then "acprune_thm_assumptions_hold" else "acprune_thm_assumptions_fail");
    let big = nat_of_int (List.length af + 2 * ptree_size pg * (1 + List.length f.nodes) + 4) in
    let run alloc = acompose_prune alloc (oracle_by_rows lplog) tol big (nat_of_int root) big pg af in
    (match run next_key with
     | None -> bump "acprune_arena_mismatch"; result id "MIRROR" "acprune-arena" "the arena-level machine does not return Ok"
     | Some (am, k) ->
       (match arena_iso root af am ah with
        | None ->
          bump "acprune_arena_agree";
          if int_of_nat k.k_lp = List.length lplog then bump "acprune_arena_lp_count_agree"
        | Some why -> bump "acprune_arena_mismatch"; result id "MIRROR" "acprune-arena" why));
    (match run (slab_alloc af) with
     | Some (am, _) ->
       let strip a = List.rev (let rec drop = function None :: r -> drop r | l -> l in drop (List.rev a)) in
       let cell_eq x y = (match x, y with
           | None, None -> true
           | Some c, Some d -> aff_eqb c.c_val.ac_aff d.c_val.ac_aff && st_eqb c.c_val.ac_state d.c_val.ac_state &&
                               c.c_leaf = d.c_leaf && c.c_parent = d.c_parent && c.c_children = d.c_children
           | _ -> false) in
       let a1 = strip am and a2 = strip ah in
       if List.length a1 = List.length a2 && List.for_all2 cell_eq a1 a2 then bump "acprune_arena_exact_keys"
       else if List.for_all (fun o -> o <> None) af then bump "acprune_arena_exact_keys_miss_without_holes"
       else bump "acprune_arena_exact_keys_miss_with_holes"
     | None -> ())
(* x-acprune end ----------------------------------------------------------------------------------------------- *)

(* x-aelim begin -----------------------------------------------------------------------------------------------
   arena-level machine of infeasible_elimination (Pwl/AElim.v: DfsPre stack / last_push / skip_subtree, the predicates
   stack of PolyhedraGen, the to_remove queue, forward_if_redundant = remove_child + merge_child_with_parent in the
   middle of the traversal, the final removal loop) run on the dumped arena BEFORE with the logged LP / mirror answers;
   the arena it returns is compared cell by cell, by index (value, state, parent, children, leaf flag), with the dumped
   arena AFTER.  AElimRefine.v proves that the machine computes Elim.v's `elim` (C03_arena_elim_refines). *)
let replay_aelim ~id (b : itree) (a : itree) (log : Sexp.t list) : unit =
  let lps = List.filter_map (function List (Atom "lp" :: _ :: _ :: st :: _) -> Some (lpans_of st) | _ -> None) log in
  let mirs = List.filter_map (function
      | List [Atom "mir"; _; _; _; Atom "none"] -> Some None
      | List [Atom "mir"; _; _; _; List [Atom "some"; m; _]] -> Some (Some (mat_of m))
      | _ -> None) log in
  let ab = arena_of b and aa = arena_of a in
  let root = (match b.root with Some r -> r | None -> 0) in
  (* the assumptions of C03_arena_elim_refines, decided on the dump (C03_arena_ok_sound) and on the logged mirror answers *)
  if arena_okb ab (nat_of_int root) && List.for_all (function Some [] -> false | _ -> true) mirs
  then bump "aelim_theorem_assumptions_hold" else bump "aelim_theorem_assumptions_fail";
  match aelim (oracle_of_logs lps mirs) tol ab (nat_of_int root) with
  | None -> bump "aelim_arena_differs"; result id "MIRROR" "aelim-arena" "the arena-level machine panics or runs out of fuel"
  | Some (am, k) ->
    if arena_eqb am aa then begin
      bump "aelim_arena_same";
      if int_of_nat k.k_lp = List.length lps && int_of_nat k.k_mir = List.length mirs then bump "aelim_arena_same_and_call_counts"
    end else begin
      bump "aelim_arena_differs";
      let get l i = (match List.nth_opt l i with Some (Some c) -> Some c | _ -> None) in
      let n = max (List.length am) (List.length aa) in
      let rec first i = if i >= n then -1 else
          (match get am i, get aa i with
           | None, None -> first (i + 1)
           | Some x, Some y when acell_eqb x y -> first (i + 1)
           | _ -> i) in
      let i = first 0 in
      let what = (match get am i, get aa i with
          | Some _, None -> "present in the model only" | None, Some _ -> "present in the implementation only"
          | _ -> "cells differ") in
      result id "MIRROR" "aelim-arena" (Printf.sprintf "first difference at index %d: %s" i what)
    end
(* x-aelim end ------------------------------------------------------------------------------------------------- *)

(* x-kprune begin ----------------------------------------------------------------------------------------------
   pruned composition for K = 4 (two-row predicates, labels 0..3; case kind kcprune).  Deciding: the pruned result is
   equivalent, for all inputs modulo certified-thin cells, to the unpruned result and to the K-generic model lifting
   `compose` of the dumped operands; evaluate() on points.  Mirror: Pwl/KPrune.v's kcompose_prune replayed with the
   logged LP answers keyed by the query polytope, compared with the dumped result up to arena indices. *)
let replay_kcprune ~id (f : itree) (g : itree) (h1 : itree) (log : Sexp.t list) : unit =
  let lplog = List.filter_map (function
      | List (Atom "lp" :: poly :: _ :: st :: _) ->
        let p = aff_of poly in Some (List.combine p.a_mat p.a_bias, lpans_of st)
      | _ -> None) log in
  let fuel arena = nat_of_int (List.length arena + 1) in
  let af = arena_of f and ah = arena_of h1 in
  let rt t = nat_of_int (match t.root with Some r -> r | None -> 0) in
  let arity = (match f.nodes with nd :: _ -> List.length nd.children | [] -> 0) in
  match kabs (fuel af) af (rt f), kabs (fuel ah) ah (rt h1), ptree_of g with
  | Some kf, Some kh, Some pg ->
    let (res, k) = kcompose_prune (oracle_by_rows lplog) tol (nat_of_int arity) kf pg in
    if ktree_eqb_shape res kh then
      (if int_of_nat k.k_lp = List.length lplog then bump "kcprune_mirror_agree" else bump "kcprune_mirror_agree_tree_only")
    else (bump "kcprune_mirror_mismatch";
          result id "MIRROR" "kcprune-model" "Pwl/KPrune.v's kcompose_prune replayed with the logged LP answers differs from the dumped result");
    (* statistics: did a node get forwarded?  with arity + 1 the forwarding test created + skipped == K never holds *)
    let rec ndec = function KU -> 0 | KN (_, leaf, _, _, ch) -> (if leaf then 0 else 1) + List.fold_left (fun a c -> a + ndec c) 0 ch in
    let (res', _) = kcompose_prune (oracle_by_rows lplog) tol (nat_of_int (arity + 1)) kf pg in
    if ndec res <> ndec res' then bump "kcprune_forwarded"
  | _ -> bump "kcprune_mirror_not_a_tree"
(* x-c05k begin: cached states of a K-ary dump against the EXACT per-row path polytopes (EdgeRegion.label_rows per edge;
   the binary cache_ok / Cache.cache_check only knows labels 0, 1): every stored witness list is non-empty, every
   witness has the input dimension and lies within tol in the closed path polytope of its node (KPruneCache.kwit_okb),
   every Infeasible mark is certified thin.  None = kernel unknown; Some l = indices of the offending nodes.
   kcprune_cache: the cases whose RECEIVER passes this check (the hypothesis of C05_kprune_witnesses / _marks; the
   harness plants exact states) must pass it on the pruned result -- deciding, tag kcprune-cache. *)
let kcache_bad (n : int) (t : ktree) : int list option =
  let unknown = ref false and bad = ref [] in
  let rec go q = function
    | KU -> ()
    | KN (i, _, p, st, ch) ->
      (match st with
       | FeasW ws ->
         if (match ws with [] -> true | _ -> false) || not (List.for_all (fun w -> List.length w = n && contains_tol tol q w) ws)
         then bad := int_of_nat i :: !bad
       | Infeas ->
         (match thin_cert (nat_of_int n) tau q with
          | Some true -> () | Some false -> bad := int_of_nat i :: !bad | None -> unknown := true)
       | _ -> ());
      List.iteri (fun l c -> go (q @ label_rows p (nat_of_int l)) c) ch in
  go [] t;
  if !unknown then None else Some (List.rev !bad)
let kcprune_cache ~id (f : itree) (h1 : itree) : bool =
  let fuel arena = nat_of_int (List.length arena + 1) in
  let rt t = nat_of_int (match t.root with Some r -> r | None -> 0) in
  let af = arena_of f and ah = arena_of h1 in
  let cached t = List.exists (fun nd -> match nd.nstate with FeasW _ | Infeas -> true | _ -> false) t.nodes in
  match kabs (fuel af) af (rt f), kabs (fuel ah) ah (rt h1) with
  | Some kf, Some kh ->
    (match kcache_bad f.in_dim kf with
     | Some [] ->
       bump "kcprune_cache_checked";
       if cached f then bump "kcprune_cache_operand_cached";
       if cached h1 then bump "kcprune_cache_result_cached";
       (match kcache_bad h1.in_dim kh with
        | Some [] -> true
        | Some bad ->
          result id "VIOL" "kcprune-cache"
            (Printf.sprintf "unsound cached state at node(s) %s of the pruned composition (K = 4) although every cached state of the receiver is sound"
               (String.concat "," (List.map string_of_int bad))); false
        | None -> result id "UNK" "kcprune-cache" "kernel-unknown in cache check"; false)
     | Some _ -> bump "kcprune_cache_operand_unsound"; true
     | None -> bump "kcprune_cache_operand_unknown"; true)
  | _ -> true
(* x-c05k end *)
let check_kcprune ~id sf sg s0 s1 (log : Sexp.t list) (pts : Sexp.t list) : unit =
  bump "kcprune";
  log_stats log;
  let f = itree_of sf and g = itree_of sg in
  let n = f.in_dim in
  match s0, s1 with
  | Atom "panic", Atom "panic" -> bump "malformed_both_reject"; result id "OK" "malformed" ""
  | Atom "panic", _ -> result id "MIRROR" "outcome" "unpruned composition panicked, pruned did not"
  | _, Atom "panic" -> if mode = "c03" then result id "VIOL" "panic" "pruned composition (K = 4) panicked where the unpruned one succeeds" else result id "OK" "skipped" ""
  | _, _ ->
    let h0 = itree_of s0 and h1 = itree_of s1 in
    if List.length h1.nodes < List.length h0.nodes then (bump "nontrivial"; bump "kcprune_nontrivial");
    bump_by "nodes_pruned" (List.length h0.nodes - List.length h1.nodes);
    (match mode with
     | "c03" ->
       (match ptree_of h0, ptree_of h1, ptree_of f, ptree_of g with
        | Some p0, Some p1, Some pf, Some pg ->
          if ptree_has_u pg || ptree_has_u pf then bump "partial";
          let rec true_partial = function U -> false | T _ -> false
                                        | D (p, ch) -> List.exists true_partial ch ||
                                                       (let k = 1 lsl (List.length p.a_mat) in
                                                        List.exists (fun c -> c = U) (List.filteri (fun i _ -> i < k) ch)) in
          if true_partial pg then bump "kcprune_arg_partial";
          (try replay_kcprune ~id f g h1 log with Nonfinite -> bump "kcprune_mirror_nonfinite");
          let ok1 = equiv_mod_thin ~id ~tag:"kcompose-prune-preserves" n p1 p0 in
          let ok2 = equiv_mod_thin ~id ~tag:"kcompose-prune-law" n p1 (compose pf pg) in
          let ok3 = points_check ~id ~tag:"evaluate" p1 pts in
          let ok4 = (try kcprune_cache ~id f h1 with Nonfinite -> true) (* x-c05k *) in
          if ok1 && ok2 && ok3 && ok4 then result id "OK" "kcprune" ""
        | _ -> result id "VIOL" "abs" "an arena is not a tree")
     | "c05" ->
       (* C05_kprune_witnesses / _marks: the caches of the pruned K = 4 composition, re-checked exactly *)
       let ok = (try kcprune_cache ~id f h1 with Nonfinite -> true) in
       if ok then result id "OK" "kcprune-cache" ""
     | _ -> result id "OK" "skipped" "")
(* x-kprune end ------------------------------------------------------------------------------------------------ *)

(* x-kelim begin -----------------------------------------------------------------------------------------------
   infeasible_elimination for K = 4 (case kind kelim; two-row predicates, labels 0..3).  Deciding: the tree after is
   equivalent to the tree before for all inputs modulo certified-thin cells (C03_kelim_preserves); evaluate() on points;
   a panic is a violation.  Mirror: Pwl/KElim.v's kelim replayed with the logged LP / mirror answers by call number,
   compared EXACTLY with the dumped result (elimination keeps the arena index of every surviving node): indices, leaf
   flags, functions, cached states, child slots, and both call counters.  The same replay is run on every binary
   elimination case (K = 2, counters kelim2_...), where KElimBin.v proves it equal to Elim.v. *)
let replay_kelim ~id ~pre (b : itree) (a : itree) (log : Sexp.t list) : unit =
  let lps = List.filter_map (function List (Atom "lp" :: _ :: _ :: st :: _) -> Some (lpans_of st) | _ -> None) log in
  let mirs = List.filter_map (function
      | List [Atom "mir"; _; _; _; Atom "none"] -> Some None
      | List [Atom "mir"; _; _; _; List [Atom "some"; m; _]] -> Some (Some (mat_of m))
      | _ -> None) log in
  let fuel arena = nat_of_int (List.length arena + 1) in
  let ab = arena_of b and aa = arena_of a in
  let rt t = nat_of_int (match t.root with Some r -> r | None -> 0) in
  let arity = (match b.nodes with nd :: _ -> List.length nd.children | [] -> 0) in
  match kabs (fuel ab) ab (rt b), kabs (fuel aa) aa (rt a) with
  | Some kb, Some ka ->
    let (res, k) = kelim (oracle_of_logs lps mirs) tol (nat_of_int arity) kb in
    let used_all = (int_of_nat k.k_lp = List.length lps && int_of_nat k.k_mir = List.length mirs) in
    if ktree_eqb res ka && used_all then bump (pre ^ "_mirror_agree")
    else if ktree_eqb res ka then bump (pre ^ "_mirror_agree_tree_only")
    else (bump (pre ^ "_mirror_mismatch");
          result id "MIRROR" "kelim-model" "Pwl/KElim.v's kelim replayed with the logged LP / mirror answers differs from the dumped result");
    (* statistics: did a decision get forwarded?  with arity + 1 the test infeasible == K - 1 never holds *)
    let rec ndec = function KU -> 0 | KN (_, leaf, _, _, ch) -> (if leaf then 0 else 1) + List.fold_left (fun a c -> a + ndec c) 0 ch in
    let (res', _) = kelim (oracle_of_logs lps mirs) tol (nat_of_int (arity + 1)) kb in
    if ndec res <> ndec res' then bump (pre ^ "_forwarded")
  | _ -> bump (pre ^ "_mirror_not_a_tree")
let check_kelim ~id gen sb oc sa (log : Sexp.t list) sa2 (pts : Sexp.t list) : unit =
  bump "kelim"; bump ("kelim_" ^ gen);
  log_stats log;
  let b = itree_of sb in
  let n = b.in_dim in
  match ptree_of b with
  | None -> result id "ERR" "abs" "operand arena is not a tree"
  | Some pb ->
    if ptree_has_u pb then bump "partial";
    if oc = "panic" then
      (if mode = "c03" then result id "VIOL" "panic" "infeasible_elimination (K = 4) panicked" else result id "OK" "skipped" "")
    else begin
      let a = itree_of sa in
      if List.length a.nodes < List.length b.nodes then (bump "nontrivial"; bump "kelim_nontrivial");
      bump_by "nodes_removed" (List.length b.nodes - List.length a.nodes);
      if List.exists (fun nd -> nd.nstate <> Indet) b.nodes then bump "kelim_warm_start";
      match mode with
      | "c03" ->
        (match ptree_of a with
         | None -> result id "VIOL" "abs" "result arena is not a tree"
         | Some pa ->
           (try replay_kelim ~id ~pre:"kelim" b a log with Nonfinite -> bump "kelim_mirror_nonfinite");
           let ok1 = equiv_mod_thin ~id ~tag:"kelim-preserves" n pa pb in
           let ok2 = points_check ~id ~tag:"evaluate" pa pts in
           let ok3 = (match sa2 with
               | Atom "panic" -> result id "VIOL" "panic" "a second infeasible_elimination (K = 4) panicked"; false
               | s2 ->
                 (match ptree_of (itree_of s2) with
                  | None -> result id "VIOL" "abs" "arena after the second run is not a tree"; false
                  | Some p2 -> equiv_mod_thin ~id ~tag:"kelim-preserves" n p2 pb)) in
           if ok1 && ok2 && ok3 then result id "OK" "kelim" "")
      | _ -> result id "OK" "skipped" ""
    end
(* x-kelim end ------------------------------------------------------------------------------------------------- *)

(* x-c11k begin ------------------------------------------------------------------------------------------------
   fault injection on infeasible_elimination for K = 4 (case kind kfault).  Deciding (the existing C11 comparisons): no
   panic, no non-finite number stored, the dump is a well-formed AffTree<4>, the faulted result is equivalent to the
   tree before for all inputs modulo certified-thin cells (C11_kelim_function_unchanged).  Mirror: Pwl/KElim.v's kelim
   replayed with the logged (faulted) LP / mirror answers -- the run of kelim (faulty o hit bad) -- compared exactly
   with the dump (counters kfault_mirror_...); C11_kfault_elim_removes_nothing: when every call was faulted and the
   tree before holds no Infeasible mark, no node may disappear. *)
let check_kfault ~id op sb (plan : Sexp.t list) sff sres (log : Sexp.t list) : unit =
  bump "kfault"; bump ("kfault_" ^ op);
  log_stats log;
  List.iter (function List [_; Atom k] -> bump ("fault_kind_" ^ k) | _ -> ()) plan;
  let all_faulted = (match plan with [List [Atom "all"; _]] -> true | _ -> false) in
  if List.length plan > 1 || all_faulted then bump "multi_fault";
  let nfaulted = List.length (List.filter (function List (Atom "lp" :: _ :: _ :: _ :: Atom f :: _) -> f <> "-" | _ -> false) log) in
  if nfaulted > 0 then bump "nontrivial";
  match sres with
  | Atom "panic" -> result id "VIOL" "fault-panic" (Printf.sprintf "%s (K = 4) panicked under fault plan %s" op (Sexp.to_string (List plan)))
  | _ when (try ignore (itree_of sres); false with Nonfinite -> true) ->
    result id "VIOL" "fault-cache" (Printf.sprintf "a non-finite number is stored in the tree after %s (K = 4) under fault plan %s" op (Sexp.to_string (List plan)))
  | _ ->
    let res = itree_of sres and before = itree_of sb and ff = itree_of sff in
    let n = res.in_dim in
    (match ptree_of res, ptree_of before with
     | None, _ -> result id "VIOL" "fault-wellformed" "result arena is not a tree"
     | _, None -> result id "ERR" "abs" "operand arena is not a tree"
     | Some pr, Some pb ->
       let m = match first_out pr with Some m -> m | None -> 0 in
       let childless_dec = List.exists (fun nd -> (not nd.leaf) && List.for_all (fun c -> c = None) nd.children) res.nodes in
       let leaf_with_children = List.exists (fun nd -> nd.leaf && List.exists (fun c -> c <> None) nd.children) res.nodes in
       let four = List.for_all (fun nd -> List.length nd.children = 4) res.nodes in
       let ok0 =
         if wfb (nat_of_int n) pr && outsb (nat_of_int m) pr && four && not childless_dec && not leaf_with_children then true
         else (result id "VIOL" "fault-wellformed"
                 (Printf.sprintf "ill-formed AffTree<4>: shapes=%b outdims=%b four-slots=%b childless-decision=%b leaf-with-children=%b"
                    (wfb (nat_of_int n) pr) (outsb (nat_of_int m) pr) four childless_dec leaf_with_children); false) in
       (try replay_kelim ~id ~pre:"kfault" before res log with Nonfinite -> bump "kfault_mirror_nonfinite");
       let ok1 = equiv_mod_thin ~id ~tag:"fault-preserves" n pr pb in
       if List.length res.nodes > List.length ff.nodes then bump "fault_less_pruning_observed";
       (* every call faulted, no cached Infeasible mark before: nothing is removed (C11_kfault_elim_removes_nothing) *)
       if all_faulted && not (List.exists (fun nd -> nd.nstate = Infeas) before.nodes) then begin
         if List.length res.nodes = List.length before.nodes then bump "kfault_all_faulted_nothing_removed"
         else (bump "kfault_all_faulted_mismatch";
               result id "MIRROR" "kfault-removes-nothing" "every LP call was faulted, yet a node disappeared (C11_kfault_elim_removes_nothing)")
       end;
       if ok0 && ok1 then result id "OK" "kfault" "")
(* x-c11k end -------------------------------------------------------------------------------------------------- *)

let check (case : Sexp.t) : unit =
  match case with
  | List [Atom "case"; Atom id; Atom "elim"; Atom gen; sb; Atom oc; sa; counter; List (Atom "log" :: log); sa2; counter2; List (Atom "pts" :: pts)] ->
    bump ("elim_" ^ gen);
    let b = itree_of sb in
    let n = b.in_dim in
    log_stats log;
    (match ptree_of b with
     | None -> result id "ERR" "abs" "operand arena is not a tree"
     | Some pb ->
       if ptree_has_u pb then bump "partial";
       if oc = "panic" then
         (if mode = "c03" || mode = "c06" then result id "VIOL" "panic" "infeasible_elimination panicked" else result id "OK" "skipped" "")
       else begin
         let a = itree_of sa in
         count_states a;
         if List.length a.nodes < List.length b.nodes then bump "nontrivial";
         bump_by "nodes_removed" (List.length b.nodes - List.length a.nodes);
         match mode with
         | "c03" ->
           (match ptree_of a with
            | None -> result id "VIOL" "abs" "result arena is not a tree"
            | Some pa ->
              (try replay_elim b a log with Nonfinite -> bump "mirror_nonfinite");
              (* x-aelim *) (try replay_aelim ~id b a log with Nonfinite -> bump "aelim_arena_nonfinite");
              (* x-kelim *) (try replay_kelim ~id ~pre:"kelim2" b a log with Nonfinite -> bump "kelim2_mirror_nonfinite");
              let ok1 = equiv_mod_thin ~id ~tag:"elim-preserves" n pa pb in
              let ok2 = points_check ~id ~tag:"evaluate" pa pts in
              if ok1 && ok2 then result id "OK" "elim" "")
         | "c05" ->
           let ok1 = cache_ok ~id ~tag:"cache" a in
           let ok2 = (match sa2 with Atom "panic" -> true | s2 -> cache_ok ~id ~tag:"cache-second-run" (itree_of s2)) in
           if ok1 && ok2 then result id "OK" "cache" ""
         | "c06" when gen = "distilled" ->
           (* a tree the builder has just returned: it eliminated after every activation, so one more elimination
              finds nothing to do -- same tree, every node answered from the cache *)
           let same = (Sexp.to_string sa = Sexp.to_string sb) in
           let lps = (match counter with List (Atom "counter" :: l) -> int_of (List.nth l 5) | _ -> -1) in
           if same && lps = 0 then result id "OK" "distilled" ""
           else result id "VIOL" "distilled-not-pruned"
               (Printf.sprintf "a further elimination of a freshly distilled tree: tree identical=%b, LPs solved=%d (nodes before %d, after %d)"
                  same lps (List.length b.nodes) (List.length a.nodes))
         | "c06" ->
           if not (fullb pb) then (bump "not_total_skipped"; result id "OK" "not-total" "")
           else
             (match ptree_of a with
              | None -> result id "VIOL" "abs" "result arena is not a tree"
              | Some pa ->
                let ok1 = effective ~id b pb a pa in
                let ok2 = (match sa2 with
                    | Atom "panic" -> result id "VIOL" "idempotent" "second run panicked"; false
                    | s2 ->
                      let same = (Sexp.to_string s2 = Sexp.to_string sa) in
                      let lps2 = (match counter2 with List (Atom "counter" :: l) -> int_of (List.nth l 5) | _ -> -1) in
                      if same && lps2 = 0 then true
                      else (result id "VIOL" "idempotent" (Printf.sprintf "second run: tree identical=%b, LPs solved=%d" same lps2); false)) in
                if ok1 && ok2 then result id "OK" "effective" "")
         | _ -> result id "OK" "skipped" ""
       end)
  | List [Atom "case"; Atom id; Atom "cprune"; sf; sg; s0; s1; List (Atom "log" :: log); List (Atom "pts" :: pts)] ->
    bump "cprune";
    log_stats log;
    let f = itree_of sf and g = itree_of sg in
    let n = f.in_dim in
    (match s0, s1 with
     | Atom "panic", Atom "panic" -> bump "malformed_both_reject"; result id "OK" "malformed" ""
     | Atom "panic", _ -> result id "MIRROR" "outcome" "unpruned composition panicked, pruned did not"
     | _, Atom "panic" -> if mode = "c03" then result id "VIOL" "panic" "pruned composition panicked where the unpruned one succeeds" else result id "OK" "skipped" ""
     | _, _ ->
       let h0 = itree_of s0 and h1 = itree_of s1 in
       if List.length h1.nodes < List.length h0.nodes then bump "nontrivial";
       bump_by "nodes_pruned" (List.length h0.nodes - List.length h1.nodes);
       (match mode with
        | "c03" ->
          (match ptree_of h0, ptree_of h1, ptree_of f, ptree_of g with
           | Some p0, Some p1, Some pf, Some pg ->
             if ptree_has_u pg || ptree_has_u pf then bump "partial";
             (try replay_cprune f g h1 log with Nonfinite -> bump "mirror_nonfinite");
             (* x-acprune *) (try replay_acprune ~id f g h1 log with Nonfinite -> bump "acprune_arena_nonfinite");
             let ok1 = equiv_mod_thin ~id ~tag:"compose-prune-preserves" n p1 p0 in
             let ok2 = equiv_mod_thin ~id ~tag:"compose-prune-law" n p1 (compose pf pg) in
             let ok3 = points_check ~id ~tag:"evaluate" p1 pts in
             if ok1 && ok2 && ok3 then result id "OK" "cprune" ""
           | _ -> result id "VIOL" "abs" "an arena is not a tree")
        | "c05" -> count_states h1; if cache_ok ~id ~tag:"cache" h1 then result id "OK" "cache" ""
        | _ -> result id "OK" "skipped" ""))
  (* x-kelim: infeasible_elimination of an AffTree<4> *)
  | List [Atom "case"; Atom id; Atom "kelim"; Atom gen; sb; Atom oc; sa; _counter; List (Atom "log" :: log); sa2; _counter2; List (Atom "pts" :: pts)] ->
    check_kelim ~id gen sb oc sa log sa2 pts
  (* x-kprune: pruned composition of AffTree<4> operands *)
  | List [Atom "case"; Atom id; Atom "kcprune"; sf; sg; s0; s1; List (Atom "log" :: log); List (Atom "pts" :: pts)] ->
    check_kcprune ~id sf sg s0 s1 log pts
  (* x-c11k: fault injection on the elimination of an AffTree<4> *)
  | List [Atom "case"; Atom id; Atom "kfault"; Atom op; sb; List (Atom "plan" :: plan); sff; sres; List (Atom "log" :: log)] ->
    check_kfault ~id op sb plan sff sres log
  | List [Atom "case"; Atom id; Atom "fault"; Atom op; sb; List (Atom "plan" :: plan); sref; sff; sres; List (Atom "log" :: log)] ->
    bump ("fault_" ^ op);
    log_stats log;
    List.iter (function List [_; Atom k] -> bump ("fault_kind_" ^ k) | _ -> ()) plan;
    if List.length plan > 1 then bump "multi_fault";
    let nfaulted = List.length (List.filter (function List (Atom "lp" :: _ :: _ :: _ :: Atom f :: _) -> f <> "-" | _ -> false) log) in
    if nfaulted > 0 then bump "nontrivial";
    (match sres with
     | Atom "panic" -> result id "VIOL" "fault-panic" (Printf.sprintf "%s panicked under fault plan %s" op (Sexp.to_string (List plan)))
     | _ when (try ignore (itree_of sres); false with Nonfinite -> true) ->
       (* the operands contain finite numbers only (the same trees parse two lines below in every other case) *)
       result id "VIOL" "fault-cache" (Printf.sprintf "a non-finite number is stored in the tree after %s under fault plan %s (a NaN / infinite 'witness' lies in no polytope)" op (Sexp.to_string (List plan)))
     | _ ->
       let res = itree_of sres and rf = itree_of sref and ff = itree_of sff in
       let n = res.in_dim in
       (match wf_dump ~id ~tag:"fault-wellformed" res, ptree_of rf with
        | Some pr, Some pref ->
          let ok1 = equiv_mod_thin ~id ~tag:"fault-preserves" n pr pref in
          let ok2 = cache_ok ~id ~tag:"fault-cache" res in
          (* less pruning only: every node that disappears is one an exact oracle may remove as well --
             its closed path polytope (in the tree before) is empty/thin, or it is a decision all of whose
             other branches are such nodes (spliced out) *)
          let ok3 =
            if op = "elim" then begin
              let before = itree_of sb in
              let broot = (match before.root with Some r -> r | None -> 0) in
              match node_rows (arena_of before) (nat_of_int broot) with
              | None -> true
              | Some brs ->
                let thin_node i = (match List.find_opt (fun (j, _) -> int_of_nat j = i) brs with
                    | Some (_, rs) -> thin_cert (nat_of_int n) tau rs = Some true
                    | None -> false) in
                List.for_all (fun nd ->
                    match find_node res nd.idx with
                    | Some _ -> true
                    | None ->
                      if thin_node nd.idx then true
                      else if (not nd.leaf) &&
                              List.length (List.filter (function Some c -> not (thin_node c) | None -> false) nd.children) <= 1 then true
                      else (result id "VIOL" "fault-less-pruning"
                              (Printf.sprintf "node %d disappears under the fault plan although its region is not empty and it is not a redundant decision" nd.idx); false))
                  before.nodes
            end else true in
          if List.length res.nodes > List.length ff.nodes then bump "fault_less_pruning_observed";
          if ok1 && ok2 && ok3 then result id "OK" "fault" ""
        | None, _ -> ()
        | _, None -> result id "ERR" "abs" "reference arena is not a tree"))
  | List [Atom "case"; Atom id; Atom "raxes"; sb; List (Atom "mask" :: _); sa; sa2] ->
    bump "remove_axes";
    (match sa with
     | Atom "panic" -> result id "VIOL" "remove-axes-panic" "remove_axes panicked on a mask of the right length"
     | Atom "err" -> result id "VIOL" "remove-axes-panic" "remove_axes returned Err on a mask of the right length"
     | _ ->
       let a = itree_of sa in
       count_states a;
       if List.exists (fun nd -> nd.nstate <> Indet) (itree_of sb).nodes then bump "nontrivial";
       let ok1 = cache_ok ~id ~tag:"cache-remove-axes" a in
       let ok2 = (match sa2 with Atom "panic" -> true | s2 -> cache_ok ~id ~tag:"cache-remove-axes-then-elim" (itree_of s2)) in
       if ok1 && ok2 then result id "OK" "cache" "")
  | List [Atom "case"; Atom id; Atom "mirror"; sp; spts; Atom iters; sres] ->
    bump "mirror_case";
    let p = aff_of sp in
    let rows = List.combine p.a_mat p.a_bias in
    (match sres with
     | Atom "none" -> bump "mirror_none"; result id "OK" "mirror" ""
     | Atom "panic" -> result id "VIOL" "mirror-panic" "mirror_points panicked"
     | List [Atom "some"; m; _] ->
       bump "mirror_some"; bump "nontrivial";
       if (try ignore (mat_of m); false with Nonfinite -> true) then
         result id "VIOL" "mirror-member" "a returned point has a NaN / infinite coordinate: it lies in no polytope"
       else
       let pts = mat_of m in
       let bad = List.filter (fun x -> not (in_rowsb rows x)) pts in
       if bad = [] then result id "OK" "mirror" ""
       else result id "VIOL" "mirror-member" (Printf.sprintf "returned point %s is outside the polytope" (string_of_vec (List.hd bad)))
     | _ -> result id "ERR" "parse" "mirror result")
  | _ -> result "?" "ERR" "parse" "unrecognised case"

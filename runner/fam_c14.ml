(* fam_c14.ml -- C14: polytope constructors and transformations are set-exact.
   Deciding comparisons (VIOL):
     outcome  ok/panic of the implementation = Some/None of the model (guards of the theorems);
     set      certified two-way inclusion (Cert/PolyInc.poly_equiv through the verified Farkas kernel) between the
              implementation's result rows and the model's result: a failure carries a rational point that is in
              one set and not in the other;
     contains implementation contains(x) = model contains_tol(1e-8) on the model's result, and
     spec     = the membership the property states (x - d in P, f(x) in P, inv (y - c) in P, |x_i| <= r, ...)
              evaluated in exact arithmetic on lattice / boundary / image points;
     raw/distance  distance_raw exact; distance(): sign of every entry = sign of b_i - a_i.x, +-inf tokens on zero
              rows (NaN = D12), magnitude through the implied norm (|nrm^2 - a.a| <= 2^-44 a.a).
   MIRROR: the rows differ although the sets are equal. *)
open Model
open Conv
open Sexp

type mres = MOk of aff | MPanic
let opt = function Some a -> MOk a | None -> MPanic

let bad s = raise (Parse_error ("arg " ^ s))
let arg_n = function List [Atom "n"; a] -> int_of a | _ -> bad "n"
let arg_q = function List [Atom "q"; a] -> qc_of_token (atom a) | _ -> bad "q"
let arg_v = function List [Atom "v"; v] -> vec_of v | _ -> bad "v"
let arg_m = function List [Atom "m"; r; c; m] -> (int_of r, int_of c, mat_of m) | _ -> bad "m"
let bound_of (s : string) : ebound =
  match s with "inf" -> BPInf | "-inf" -> BNInf | "nan" -> BNaN | t -> BFin (qc_of_token t)
let arg_b = function List [Atom "b"; a] -> bound_of (atom a) | _ -> bad "b"
let arg_ivs = function
  | List (Atom "ivs" :: l) -> List.map (function List [Atom "iv"; a; b] -> (bound_of (atom a), bound_of (atom b)) | _ -> bad "iv") l
  | _ -> bad "ivs"
let arg_polys = function List (Atom "polys" :: l) -> List.map aff_of l | _ -> bad "polys"

let q0 = qc_of_token "0:0"
let q1 = qc_of_token "1:0"
let pow2 e = qc_of_float (z_of_int 1) (z_of_int e)
let qlt a b = qltb a b
let is_zero q = qeqb q q0

let string_of_aff (a : aff) =
  Printf.sprintf "(aff %d (%s) %s)" (int_of_nat a.a_in) (String.concat " " (List.map string_of_vec a.a_mat)) (string_of_vec a.a_bias)

(* every entry is a small dyadic number: f64 arithmetic of the library on it is exact *)
let small_dyadic (q : qc) : bool =
  let t = this q in
  let rec plen p = match p with XH -> 1 | XO p' | XI p' -> 1 + plen p' in
  let rec is_pow2 p = match p with XH -> true | XO p' -> is_pow2 p' | XI _ -> false in
  is_pow2 t.qden && plen t.qden <= 35 && (match t.qnum with Z0 -> true | Zpos p | Zneg p -> plen p <= 40)
let exact_aff (a : aff) : bool =
  List.for_all (List.for_all small_dyadic) a.a_mat && List.for_all small_dyadic a.a_bias

(* s = sqrt(n+1) as the implementation used it, read off its own matrix: mat[0][0] = 1 + -(1 + s + n) *)
let simplex_s (n : int) (impl : aff option) : qc option =
  if n = 0 then Some q1 else
  match impl with
  | Some b -> (match b.a_mat with (d :: _) :: _ -> Some (qcminus (qcopp d) (qn (nat_of_int n))) | _ -> None)
  | None -> None

let model (op : string) (args : Sexp.t list) (impl : aff option) : mres =
  match op, args with
  | "unbounded", [n] -> MOk (p_unbounded (nat_of_int (arg_n n)))
  | "empty", [n] -> MOk (p_empty (nat_of_int (arg_n n)))
  | "from_normal", [a; b] ->
    let (_, c1, nm) = arg_m a and (_, c2, pm) = arg_m b in
    opt (p_from_normal (nat_of_int c1) nm (nat_of_int c2) pm)
  | "hypercube", [n; q] -> MOk (p_hypercube (nat_of_int (arg_n n)) (arg_q q))
  | "hyperrectangle", [ivs] -> opt (p_hyperrectangle (arg_ivs ivs))
  | "axis_bounds", [n; ax; l; u] -> opt (p_axis_bounds (nat_of_int (arg_n n)) (nat_of_int (arg_n ax)) (arg_b l) (arg_b u))
  | "simplex", [n] ->
    let n = arg_n n in
    (match simplex_s n impl with
     | Some s -> MOk (p_simplex (nat_of_int n) s)
     | None -> MOk (p_simplex (nat_of_int n) q1))
  | "cross_polytope", [n] -> MOk (p_cross_polytope (nat_of_int (arg_n n)))
  | "intersection", [p; q] -> opt (p_intersection (aff_of p) (aff_of q))
  | "intersection_n", [n; ps] -> opt (p_intersection_n (nat_of_int (arg_n n)) (arg_polys ps))
  | "translate", [p; d] -> opt (p_translate (aff_of p) (arg_v d))
  | "apply_pre", [p; f] -> opt (p_apply_pre (aff_of p) (aff_of f))
  | "apply_post", [p; inv; c; _] -> let (_, k, im) = arg_m inv in opt (p_apply_post (aff_of p) (nat_of_int k) im (arg_v c))
  | "rotate", [p; r] -> let (_, k, rm) = arg_m r in opt (p_rotate (aff_of p) (nat_of_int k) rm)
  | "pquery", [p] -> MOk (aff_of p)
  | _ -> raise (Parse_error ("unknown op " ^ op))

(* the membership the property states, evaluated exactly (None: no independent statement for this op) *)
let lo_ok l v = match l with BFin q -> qleb q v | BNInf -> true | _ -> false
let hi_ok u v = match u with BFin q -> qleb v q | BPInf -> true | _ -> false
let spec (op : string) (args : Sexp.t list) : (vec -> bool) option =
  match op, args with
  | "unbounded", _ -> Some (fun _ -> true)
  | "empty", _ -> Some (fun _ -> false)
  | "hypercube", [_; q] -> let r = arg_q q in Some (fun x -> List.for_all (fun xi -> qleb (qabs xi) r) x)
  | "cross_polytope", _ -> Some (fun x -> qleb (sum_abs x) q1)
  | "axis_bounds", [n; ax; l; u] ->
    let ax = arg_n ax and l = arg_b l and u = arg_b u in
    if ax < arg_n n then Some (fun x -> let v = List.nth x ax in lo_ok l v && hi_ok u v) else None
  | "hyperrectangle", [ivs] ->
    let ivs = arg_ivs ivs in
    Some (fun x -> List.for_all2 (fun (l, u) v -> lo_ok l v && hi_ok u v) ivs x)
  | "from_normal", [a; b] ->
    let (r1, c1, nm) = arg_m a and (r2, c2, pm) = arg_m b in
    if c1 = c2 && (r1 = r2 || r2 = 1) then
      let pm = if r1 = r2 then pm else List.map (fun _ -> List.hd pm) nm in
      Some (fun x -> List.for_all2 (fun nr pr -> qleb q0 (dot nr (vsub x pr))) nm pm)
    else None
  | "intersection", [p; q] -> let p = aff_of p and q = aff_of q in Some (fun x -> in_polyb p x && in_polyb q x)
  | "intersection_n", [_; ps] -> let ps = arg_polys ps in Some (fun x -> List.for_all (fun p -> in_polyb p x) ps)
  | "translate", [p; d] -> let p = aff_of p and d = arg_v d in Some (fun x -> in_polyb p (vsub x d))
  | "apply_pre", [p; f] -> let p = aff_of p and f = aff_of f in Some (fun x -> in_polyb p (apply f x))
  | "apply_post", [p; inv; c; _] ->
    let p = aff_of p and (_, _, im) = arg_m inv and c = arg_v c in
    Some (fun y -> in_polyb p (matvec im (vsub y c)))
  | "rotate", [p; r] ->
    let p = aff_of p and (_, k, rm) = arg_m r in
    Some (fun y -> in_polyb p (matvec (transpose (nat_of_int k) rm) y))
  | _ -> None

let row_nonaxis (r : vec) = List.length (List.filter (fun c -> not (is_zero c)) r) >= 2

(* tolerance comparisons for values that went through sqrt or inexact rows *)
let qabsdiff a b = qabs (qcminus a b)
let close_abs_rel (x : qc) (y : qc) (e : int) : bool = qleb (qabsdiff x y) (qcmult (qcplus q1 (qabs y)) (pow2 e))

let check (case : Sexp.t) : unit =
  match case with
  | List [Atom "case"; Atom id; Atom op; List (Atom "args" :: args); List [Atom "res"; Atom oc; rs]; List (Atom "pts" :: pts)] ->
    bump ("op_" ^ op);
    let ok = ref true in
    let viol kind detail =
      ok := false;
      result id "VIOL" op (Printf.sprintf "kind=%s op=%s %s args=%s" kind op detail (Sexp.to_string (List args))) in
    let impl = if oc = "ok" then Some (aff_of rs) else None in
    let m = model op args impl in
    (match m, impl with
     | MPanic, None -> bump "malformed_both_reject"
     | MPanic, Some b -> viol "outcome" (Printf.sprintf "implementation returned %s, model: panic (guard violated)" (string_of_aff b))
     | MOk a, None -> viol "outcome" (Printf.sprintf "implementation panicked, model: %s" (string_of_aff a))
     | MOk a, Some b ->
       let n = int_of_nat a.a_in in
       if n >= 2 && List.exists row_nonaxis a.a_mat then bump "nontrivial";
       (* simplex: the square root the implementation used *)
       (if op = "simplex" then
          match args with
          | [nn] ->
            let nn = arg_n nn in
            (match simplex_s nn impl with
             | Some s ->
               let target = qcplus (qn (nat_of_int nn)) q1 in
               if not (qlt q0 s && qleb (qabsdiff (qcmult s s) target) (pow2 (-44))) then
                 viol "sqrt" (Printf.sprintf "s=%s s*s differs from n+1=%s by more than 2^-44" (string_of_qc s) (string_of_qc target))
               else bump "simplex_s_ok"
             | None -> viol "sqrt" "cannot read s off the result")
          | _ -> ());
       if int_of_nat b.a_in <> n then viol "dim" (Printf.sprintf "impl indim %d model indim %d" (int_of_nat b.a_in) n)
       else begin
         let mirror = aff_eqb b a in
         if mirror then bump "mirror_agree";
         let rows = List.length a.a_mat + List.length b.a_mat in
         (* identical rows denote identical sets; the kernel is still run on them when the system is small *)
         if (not mirror) || rows <= 14 then begin
           bump "kernel_equiv";
           match poly_equiv a.a_in b a with
           | PEqual ->
             if not mirror then begin
               bump "mirror_mismatch";
               result id "MIRROR" op (Printf.sprintf "rows differ, sets equal: impl=%s model=%s" (string_of_aff b) (string_of_aff a))
             end
           | PDiffer (x, side) ->
             viol "set" (Printf.sprintf "x=%s is in the %s result only: impl=%s model=%s" (string_of_vec x)
                           (if side then "implementation's" else "model's") (string_of_aff b) (string_of_aff a))
           | PUnknown -> ok := false; result id "UNK" op "kernel-unknown"
         end else bump "equiv_by_identity";
         (* points *)
         let exact = exact_aff a && mirror in
         let exact_b = exact_aff b in
         let sp = spec op args in
         List.iter (fun p ->
           bump "points";
           match p with
           | List [Atom "pt"; x; Atom c; raw; dist] ->
             let xv = vec_of x in
             let xs = string_of_vec xv in
             let xsmall = List.for_all small_dyadic xv in
             let exact = exact && xsmall and exact_b = exact_b && xsmall in
             (* contains *)
             (match p_contains a xv, c with
              | None, "panic" -> bump "points_malformed_both_reject"
              | None, o -> viol "contains" (Printf.sprintf "x=%s impl=%s model=panic (wrong length)" xs o)
              | Some _, "panic" -> viol "contains" (Printf.sprintf "x=%s impl=panic" xs)
              | Some _, o when o <> "t" && o <> "f" -> viol "contains" (Printf.sprintf "x=%s owned and view queries differ: %s" xs o)
              | Some mb, o ->
                let ib = (o = "t") in
                if mb <> ib then viol "contains" (Printf.sprintf "x=%s impl contains=%b model contains_tol(1e-8)=%b result=%s" xs ib mb (string_of_aff a));
                if ib then bump "points_inside";
                (match sp with
                 | Some f when exact_b ->
                   let s = f xv in
                   bump "spec_points";
                   if s <> ib then viol "spec" (Printf.sprintf "x=%s impl contains=%b, membership stated by the property=%b" xs ib s)
                 | _ -> ()));
             (* distance_raw *)
             (match p_distance_raw a xv, raw with
              | None, Atom "panic" -> ()
              | Some rv, List [Atom "v"; w] ->
                (match (try Some (vec_of w) with Nonfinite -> None) with
                 | Some wv when List.length wv = List.length rv ->
                   if exact then begin
                     if not (veqb wv rv) then viol "raw" (Printf.sprintf "x=%s impl=%s model=%s" xs (string_of_vec wv) (string_of_vec rv))
                   end else if mirror && not (List.for_all2 (fun u v -> close_abs_rel u v (-36)) wv rv) then
                     viol "raw" (Printf.sprintf "x=%s impl=%s model=%s (tolerance 2^-36)" xs (string_of_vec wv) (string_of_vec rv))
                 | _ -> viol "raw" (Printf.sprintf "x=%s impl=%s model=%s" xs (Sexp.to_string w) (string_of_vec rv)))
              | _, o -> viol "raw" (Printf.sprintf "x=%s impl=%s outcome differs from the model" xs (Sexp.to_string o)));
             (* distance *)
             (match p_distance_raw a xv, dist with
              | None, Atom "panic" -> ()
              | Some rv, List [Atom "v"; List toks] when mirror && List.length toks = List.length rv ->
                (* norms the implementation used, implied by its own quotients (1 where nothing can be said) *)
                let norms = List.map2 (fun r t ->
                    match (try Some (qc_of_token (atom t)) with Nonfinite -> None) with
                    | Some d when not (is_zero d) && not (is_zero r) && qlt q0 (qcdiv r d) -> qcdiv r d
                    | _ -> q1) rv toks in
                (match p_distance a norms xv with
                 | None -> viol "distance" (Printf.sprintf "x=%s model panics" xs)
                 | Some ds ->
                   List.iteri (fun i ((d, t), (r, row)) ->
                     bump "distance_entries";
                     let ts = atom t in
                     let bad what = viol "distance" (Printf.sprintf "x=%s row=%d impl=%s raw=%s: %s" xs i ts (string_of_qc r) what) in
                     match d with
                     | DPInf -> if ts <> "inf" then bad "zero row whose half-space holds every point: INFINITY expected" else bump "distance_inf"
                     | DNInf -> if ts <> "-inf" then bad "zero row with negative bias: -inf expected" else bump "distance_inf"
                     | DNaN -> bad "model NaN"
                     | DFin _ ->
                       (match (try Some (qc_of_token ts) with Nonfinite -> None) with
                        | None -> bad "finite value expected for a non-zero row"
                        | Some dv ->
                          let sgn = qsign dv and sr = qsign r in
                          let near0 = not exact && qleb (qabs r) (pow2 (-30)) in
                          if sgn <> sr && not near0 then bad "sign differs from the sign of b_i - a_i.x"
                          else if not (is_zero r) && not near0 then begin
                            let nrm = qcdiv r dv in
                            let aa = dot row row in
                            if not (qleb (qabsdiff (qcmult nrm nrm) aa) (qcmult aa (pow2 (if exact then (-44) else (-30))))) then
                              bad (Printf.sprintf "magnitude: implied norm^2=%s, a.a=%s" (string_of_qc (qcmult nrm nrm)) (string_of_qc aa))
                          end))
                     (List.combine (List.combine ds toks) (List.combine rv a.a_mat)))
              | Some _, List [Atom "v"; _] -> bump "distance_skipped_mirror"
              | _, o -> viol "distance" (Printf.sprintf "x=%s impl=%s outcome differs from the model" xs (Sexp.to_string o)))
           | List (Atom "draw" :: Atom k :: rest) ->
             (* distances_raw on the first k points as columns: column j = distance_raw of point j (C14_distances_raw) *)
             bump "distances_raw";
             let k = int_of_string k in
             let xvs = List.filter_map (function List (Atom "pt" :: x :: _) -> Some (vec_of x) | _ -> None) pts in
             let cols_in = List.filteri (fun i _ -> i < k) xvs in
             (match p_distances_raw a cols_in, rest with
              | None, [Atom "panic"] -> bump "distances_raw_both_reject"
              | Some d, (Atom m :: cols) when List.length cols = List.length d ->
                if int_of_string m <> List.length a.a_bias then
                  viol "draw" (Printf.sprintf "result has %s rows, polytope has %d" m (List.length a.a_bias));
                List.iteri (fun j (c, (rv, xv)) ->
                    let xs = string_of_vec xv in
                    match c with
                    | List [Atom "v"; w] ->
                      (match (try Some (vec_of w) with Nonfinite -> None) with
                       | Some wv when List.length wv = List.length rv ->
                         if exact && List.for_all small_dyadic xv then begin
                           if not (veqb wv rv) then viol "draw" (Printf.sprintf "column %d x=%s impl=%s model=%s" j xs (string_of_vec wv) (string_of_vec rv))
                           else bump "distances_raw_columns_exact"
                         end else if mirror && not (List.for_all2 (fun u v -> close_abs_rel u v (-36)) wv rv) then
                           viol "draw" (Printf.sprintf "column %d x=%s impl=%s model=%s (tolerance 2^-36)" j xs (string_of_vec wv) (string_of_vec rv))
                       | _ -> viol "draw" (Printf.sprintf "column %d x=%s impl=%s model=%s" j xs (Sexp.to_string w) (string_of_vec rv)))
                    | _ -> viol "draw" "column expected")
                  (List.combine cols (List.combine d cols_in))
              | Some d, [Atom "panic"] ->
                viol "draw" (Printf.sprintf "distances_raw panicked on %d points of the right length (%d rows, dimension %d); model: one column of raw distances per point"
                               (List.length cols_in) (List.length a.a_bias) (int_of_nat a.a_in))
              | _, o -> viol "draw" (Printf.sprintf "impl=%s outcome differs from the model" (Sexp.to_string (List o))))
           | List (Atom "drawbad" :: Atom _ :: rest) ->
             (* points with the wrong number of coordinates: mat.dot panics *)
             (match rest with
              | [Atom "panic"] -> bump "distances_raw_both_reject"
              | o -> viol "draw" (Printf.sprintf "points of the wrong length accepted: %s" (Sexp.to_string (List o))))
           | _ -> raise (Parse_error "pt")) pts
       end);
    (* apply_post: the generator promises M = inverse of inverse_mat on the well-formed stream *)
    (match op, args with
     | "apply_post", [p; inv; _; mm] ->
       let (r1, c1, im) = arg_m inv and (r2, c2, m) = arg_m mm in
       let n = int_of_nat (aff_of p).a_in in
       if r1 = n && c1 = n && r2 = n && c2 = n then begin
         let nn = nat_of_int n in
         if meqb (matmul nn im m) (eye nn) && meqb (matmul nn m im) (eye nn) then bump "apply_post_inverse_checked"
         else bump "apply_post_not_inverse"
       end
     | "rotate", [p; r] ->
       let (r1, c1, rm) = arg_m r in
       let n = int_of_nat (aff_of p).a_in in
       if r1 = n && c1 = n then begin
         let nn = nat_of_int n in
         if meqb (matmul nn (transpose nn rm) rm) (eye nn) && meqb (matmul nn rm (transpose nn rm)) (eye nn) then bump "rotate_orthogonal"
         else bump "rotate_not_orthogonal"
       end
     | _ -> ());
    if !ok then result id "OK" op ""
  | _ -> result "?" "ERR" "parse" "unrecognised case"

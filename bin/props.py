# per-property configuration of bin/check
PROPS = {
    "C02": dict(
        family="c02", quick_n=300, thorough_n=20000,
        theorem="C02_compose_eval / C02_apply_func_eval (coq/Props/C02.v)",
        theorems={"compose-law": "C02_compose_eval", "apply_func-law": "C02_apply_func_eval",
                  "frame": "C02 frame clause (indices of the left operand survive)",
                  "right-operand": "C02 clause: right operand unchanged",
                  "evaluate": "tie: AffTree::evaluate = model eval on the dumped tree",
                  "panic": "C02: total on dimension-compatible operands"},
        rule="generated tree pairs (K in {2,4}, depth 0-3, dims 1-3, partial/leaf-rooted operands, 1/12 malformed) "
             "and tree/affine pairs; a case is non-trivial when both operands contain a decision (apply_func: the tree does); "
             "distinct = distinct case text; every case is compared for ALL inputs by the certified tree_equiv",
        assumptions=["f64 arithmetic is exact on the generated dyadic data (checked indirectly: certified equality of coefficients)",
                     "ndarray/slab modelled, not verified"],
        trusted_base=["model coq/Pwl/PTree.v is hand-written; tie = certified equivalence of the implementation's result with "
                      "compose(abs f, abs g) for all inputs + evaluate() on lattice/boundary points + index frame check"],
    ),
}

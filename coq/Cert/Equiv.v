(* Cert/Equiv.v -- certified semantic comparison of piece-wise linear trees:
   pieces (exact path cells with pruning by the certified solver) and tree_equiv, with soundness proofs.
   A verdict Equal is a theorem instance "forall x in the cell, eval t1 x = eval t2 x". *)
From AT Require Import Num Vec Aff Farkas FM PTree.

Lemma solve_unsat n cs l : solve n cs = Unsat l -> forall x, length x = n -> ~ all_hold cs x.
Proof. intros H. pose proof (solve_sound n cs) as S. rewrite H in S. exact S. Qed.
Lemma solve_sat n cs x : solve n cs = Sat x -> length x = n /\ all_hold cs x.
Proof. intros H. pose proof (solve_sound n cs) as S. rewrite H in S. exact S. Qed.

(* the half-space selected by one decision bit: true: r.x <= b ; false: r.x > b *)
Definition bit_constr (r : vec) (b : Qc) (bit : bool) : constr :=
  if bit then {| coef := r; rhs := b; strict := false |}
  else {| coef := vopp r; rhs := - b; strict := true |}.
Fixpoint bv_constrs (A : mat) (b : vec) (bv : list bool) : list constr :=
  match A, b, bv with
  | r :: A', b0 :: b', bit :: bv' => bit_constr r b0 bit :: bv_constrs A' b' bv'
  | _, _, _ => []
  end.
Fixpoint all_bvs (r : nat) : list (list bool) :=
  match r with
  | O => [[]]
  | S r' => flat_map (fun bv => [true :: bv; false :: bv]) (all_bvs r')
  end.

Lemma bit_constr_holds r b bit x : holds (bit_constr r b bit) x <-> qleb (dot r x) b = bit.
Proof.
  unfold bit_constr, holds. destruct bit; simpl.
  - symmetry. apply qleb_spec.
  - rewrite dot_vopp, qleb_false. split; intros H; qlra.
Qed.

Lemma bv_constrs_bits A b x : all_hold (bv_constrs A b (bits A b x)) x.
Proof.
  revert b; induction A as [|r A IH]; intros [|b0 b]; simpl; try constructor.
  - apply bit_constr_holds. reflexivity.
  - apply IH.
Qed.
Lemma bv_constrs_exact A b bv x : length bv = length (bits A b x) ->
  all_hold (bv_constrs A b bv) x -> bits A b x = bv.
Proof.
  revert b bv; induction A as [|r A IH]; intros [|b0 b] [|bit bv] Hl H; simpl in *; try discriminate; auto.
  apply Forall_cons_iff in H as [H0 H]. apply bit_constr_holds in H0. f_equal; auto.
Qed.
Lemma length_bits A b x : length (bits A b x) = Nat.min (length A) (length b).
Proof. revert b; induction A as [|r A IH]; intros [|b0 b]; simpl; auto. Qed.
Lemma all_bvs_complete r bv : length bv = r -> In bv (all_bvs r).
Proof.
  revert bv; induction r as [|r IH]; intros [|b bv] H; simpl in *; try discriminate; auto.
  apply in_flat_map. exists bv. split; [apply IH; lia|]. destruct b; simpl; auto.
Qed.
Lemma all_bvs_length r bv : In bv (all_bvs r) -> length bv = r.
Proof.
  revert bv; induction r as [|r IH]; intros bv H; simpl in *.
  - destruct H as [<-|[]]; auto.
  - apply in_flat_map in H as [bv' [H1 H2]]. apply IH in H1. destruct H2 as [<-|[<-|[]]]; simpl; lia.
Qed.

Definition piece := (list constr * option aff)%type.

Fixpoint concat_opt {A} (l : list (option (list A))) : option (list A) :=
  match l with
  | [] => Some []
  | None :: _ => None
  | Some a :: l' => match concat_opt l' with Some r => Some (a ++ r) | None => None end
  end.
Lemma concat_opt_in {A} (l : list (option (list A))) r a x :
  concat_opt l = Some r -> In (Some a) l -> In x a -> In x r.
Proof.
  revert r; induction l as [|o l IH]; intros r H Hin Hx; simpl in *; [contradiction|].
  destruct o as [a'|]; try discriminate. destruct (concat_opt l) as [r'|] eqn:E; try discriminate.
  inversion H; subst. apply in_or_app. destruct Hin as [Hin|Hin].
  - inversion Hin; subst. auto.
  - right. eapply IH; eauto.
Qed.
Lemma concat_opt_none {A} (l : list (option (list A))) r : concat_opt l = Some r -> ~ In None l.
Proof.
  revert r; induction l as [|o l IH]; intros r H Hin; simpl in *; auto.
  destruct o as [a'|]; try discriminate. destruct (concat_opt l) as [r'|] eqn:E; try discriminate.
  destruct Hin as [Hin|Hin]; try discriminate. eapply IH; eauto.
Qed.
Lemma concat_opt_inv {A} (l : list (option (list A))) r x :
  concat_opt l = Some r -> In x r -> exists a, In (Some a) l /\ In x a.
Proof.
  revert r; induction l as [|o l IH]; intros r H Hx; simpl in *.
  - inversion H; subst. contradiction.
  - destruct o as [a'|]; try discriminate. destruct (concat_opt l) as [r'|] eqn:E; try discriminate.
    inversion H; subst. apply in_app_or in Hx as [Hx|Hx].
    + exists a'. auto.
    + destruct (IH _ eq_refl Hx) as [a [H1 H2]]. exists a. auto.
Qed.

(* all non-empty exact cells of t inside the cell cs, each with the terminal function reached there
   (None = undefined); None as a result = the solver answered Unknown somewhere *)
Fixpoint pieces (n : nat) (t : ptree) (cs : list constr) {struct t} : option (list piece) :=
  match t with
  | U => Some [(cs, None)]
  | T f => Some [(cs, Some f)]
  | D p ch =>
      let subs := map (pieces n) ch in
      let r := Nat.min (length (a_mat p)) (length (a_bias p)) in
      concat_opt (map (fun bv =>
        let cs' := bv_constrs (a_mat p) (a_bias p) bv ++ cs in
        match solve n cs' with
        | Unsat _ => Some []
        | Unknown => None
        | Sat _ => nth (label_of bv) subs (fun c => Some [(c, None)]) cs'
        end) (all_bvs r))
  end.

Lemma all_hold_app cs1 cs2 x : all_hold (cs1 ++ cs2) x <-> all_hold cs1 x /\ all_hold cs2 x.
Proof. unfold all_hold. apply Forall_app. Qed.

Lemma nth_subs n ch k c :
  nth k (map (pieces n) ch) (fun c => Some [(c, None)]) c = pieces n (nth k ch U) c.
Proof. revert k; induction ch as [|a ch IH]; intros [|k]; simpl; auto. Qed.
Lemma nth_term ch k x : nth k (map (fun c => term c x) ch) None = term (nth k ch U) x.
Proof. revert k; induction ch as [|a ch IH]; intros [|k]; simpl; auto. Qed.
Lemma nth_Forall {A} (P : A -> Prop) l k d : Forall P l -> P d -> P (nth k l d).
Proof. intros H Hd. revert k; induction H; intros [|k]; simpl; auto. Qed.

(* every point of the cell lies in one of the returned pieces, which tells its terminal *)
Lemma pieces_cover n t : forall cs ps, pieces n t cs = Some ps ->
  forall x, length x = n -> all_hold cs x ->
  exists c, all_hold c x /\ In (c, term t x) ps.
Proof.
  induction t as [| f | p ch IH] using ptree_ind'; intros cs ps H x Hx Hcs; simpl in *.
  - inversion H; subst. exists cs. simpl; auto.
  - inversion H; subst. exists cs. simpl; auto.
  - set (bv := bits (a_mat p) (a_bias p) x).
    set (cs' := bv_constrs (a_mat p) (a_bias p) bv ++ cs).
    assert (Hcs' : all_hold cs' x).
    { apply all_hold_app. split; auto. apply bv_constrs_bits. }
    assert (Hin : In bv (all_bvs (Nat.min (length (a_mat p)) (length (a_bias p))))).
    { apply all_bvs_complete. apply length_bits. }
    set (F := fun bv0 => let cs'0 := bv_constrs (a_mat p) (a_bias p) bv0 ++ cs in
        match solve n cs'0 with
        | Unsat _ => Some []
        | Unknown => None
        | Sat _ => nth (label_of bv0) (map (pieces n) ch) (fun c => Some [(c, None)]) cs'0
        end) in *.
    assert (HF : In (F bv) (map F (all_bvs (Nat.min (length (a_mat p)) (length (a_bias p)))))) by (apply in_map; auto).
    destruct (F bv) as [a|] eqn:EF.
    2:{ exfalso. eapply concat_opt_none; eauto. }
    unfold F in EF. fold cs' in EF. cbv zeta in EF.
    destruct (solve n cs') as [y|l|] eqn:ES; try discriminate.
    2:{ exfalso. eapply solve_unsat; eauto. }
    rewrite nth_subs in EF.
    assert (IHk : forall cs ps, pieces n (nth (label_of bv) ch U) cs = Some ps ->
        forall x, length x = n -> all_hold cs x -> exists c, all_hold c x /\ In (c, term (nth (label_of bv) ch U) x) ps).
    { apply (nth_Forall (fun t => forall cs ps, pieces n t cs = Some ps -> forall x, length x = n -> all_hold cs x ->
         exists c, all_hold c x /\ In (c, term t x) ps)); auto.
      intros cs0 ps0 H0 x0 _ Hx0. simpl in H0. inversion H0; subst. exists cs0. simpl; auto. }
    destruct (IHk _ _ EF x Hx Hcs') as [c [Hc1 Hc2]].
    exists c. split; auto. unfold decide. fold bv. rewrite nth_term.
    eapply concat_opt_in; eauto.
Qed.

(* every piece is inside the cell and exactly determines the terminal *)
Lemma pieces_exact n t : forall cs ps, pieces n t cs = Some ps ->
  forall c o, In (c, o) ps -> forall x, all_hold c x -> all_hold cs x /\ term t x = o.
Proof.
  induction t as [| f | p ch IH] using ptree_ind'; intros cs ps H c o Hin x Hc; simpl in *.
  - inversion H; subst. destruct Hin as [Hin|[]]. inversion Hin; subst. auto.
  - inversion H; subst. destruct Hin as [Hin|[]]. inversion Hin; subst. auto.
  - destruct (concat_opt_inv _ _ _ H Hin) as [a [Ha1 Ha2]].
    apply in_map_iff in Ha1 as [bv [Hbv1 Hbv2]]. cbv zeta in Hbv1.
    set (cs' := bv_constrs (a_mat p) (a_bias p) bv ++ cs) in *.
    destruct (solve n cs') as [y|l|] eqn:ES; try discriminate.
    2:{ inversion Hbv1; subst. contradiction. }
    rewrite nth_subs in Hbv1.
    assert (IHk : forall cs ps, pieces n (nth (label_of bv) ch U) cs = Some ps ->
        forall c o, In (c, o) ps -> forall x, all_hold c x -> all_hold cs x /\ term (nth (label_of bv) ch U) x = o).
    { apply (nth_Forall (fun t => forall cs ps, pieces n t cs = Some ps ->
        forall c o, In (c, o) ps -> forall x, all_hold c x -> all_hold cs x /\ term t x = o)); auto.
      intros cs0 ps0 H0 c0 o0 Hin0 x0 Hx0. simpl in H0. inversion H0; subst. destruct Hin0 as [Hin0|[]]. inversion Hin0; subst. auto. }
    destruct (IHk _ _ Hbv1 _ _ Ha2 x Hc) as [H1 H2].
    unfold cs' in H1. apply all_hold_app in H1 as [H1a H1b]. split; auto.
    apply all_bvs_length in Hbv2.
    assert (Hb : bits (a_mat p) (a_bias p) x = bv).
    { apply bv_constrs_exact; auto. rewrite length_bits. auto. }
    unfold decide. rewrite Hb, nth_term. exact H2.
Qed.

(* ---- comparison of two outcomes on a cell ---- *)
Inductive tres := Equal | Differ (x : vec) | TUnknown.
Definition tres_and (a b : tres) : tres := match a with Equal => b | _ => a end.
Fixpoint tres_all {A} (f : A -> tres) (l : list A) : tres :=
  match l with [] => Equal | a :: l' => tres_and (f a) (tres_all f l') end.
Lemma tres_all_equal {A} (f : A -> tres) l : tres_all f l = Equal -> forall a, In a l -> f a = Equal.
Proof.
  induction l as [|b l IH]; simpl; intros H a Hin; [contradiction|].
  destruct (f b) eqn:E; simpl in H; try discriminate. destruct Hin as [<-|Hin]; auto.
Qed.

Definition witness (n : nat) (c : list constr) : tres :=
  match solve n c with Sat x => Differ x | Unsat _ => Equal | Unknown => TUnknown end.

(* rows (r1,b1) and (r2,b2) give the same value everywhere on the cell *)
Definition row_equal (n : nat) (c : list constr) (r1 : vec) (b1 : Qc) (r2 : vec) (b2 : Qc) : tres :=
  if negb (Nat.eqb (length r1) n && Nat.eqb (length r2) n) then TUnknown else
  if veqb r1 r2 && qeqb b1 b2 then Equal else
  tres_and (witness n ({| coef := vsub r1 r2; rhs := b2 - b1; strict := true |} :: c))
           (witness n ({| coef := vsub r2 r1; rhs := b1 - b2; strict := true |} :: c)).
Fixpoint rows_equal (n : nat) (c : list constr) (A1 : mat) (b1 : vec) (A2 : mat) (b2 : vec) : tres :=
  match A1, b1, A2, b2 with
  | [], [], [], [] => Equal
  | r1 :: A1', x1 :: b1', r2 :: A2', x2 :: b2' =>
      tres_and (row_equal n c r1 x1 r2 x2) (rows_equal n c A1' b1' A2' b2')
  | _, _, _, _ => TUnknown
  end.
Definition cmp_out (n : nat) (c : list constr) (o1 o2 : option aff) : tres :=
  match o1, o2 with
  | None, None => Equal
  | Some f, Some g =>
      if Nat.eqb (length (a_mat f)) (length (a_mat g)) && Nat.eqb (length (a_bias f)) (length (a_bias g))
      then rows_equal n c (a_mat f) (a_bias f) (a_mat g) (a_bias g)
      else witness n c
  | _, _ => witness n c
  end.

Lemma witness_equal n c : witness n c = Equal -> forall x, length x = n -> ~ all_hold c x.
Proof. unfold witness. destruct (solve n c) eqn:E; try discriminate. intros _. eapply solve_unsat; eauto. Qed.

Lemma row_equal_sound n c r1 b1 r2 b2 : row_equal n c r1 b1 r2 b2 = Equal ->
  forall x, length x = n -> all_hold c x -> dot r1 x + b1 = dot r2 x + b2.
Proof.
  unfold row_equal. destruct (Nat.eqb (length r1) n && Nat.eqb (length r2) n) eqn:EL; simpl; try discriminate.
  apply andb_true_iff in EL as [E1 E2]. apply Nat.eqb_eq in E1, E2.
  destruct (veqb r1 r2 && qeqb b1 b2) eqn:EE.
  - intros _ x _ _. apply andb_true_iff in EE as [Ea Eb]. apply veqb_spec in Ea. apply qeqb_spec in Eb. subst. reflexivity.
  - intros H x Hx Hc.
    destruct (witness n ({| coef := vsub r1 r2; rhs := b2 - b1; strict := true |} :: c)) eqn:W1; simpl in H; try discriminate.
    pose proof (witness_equal _ _ W1 x Hx) as N1. pose proof (witness_equal _ _ H x Hx) as N2.
    assert (A1 : ~ dot r1 x - dot r2 x < b2 - b1).
    { intros C. apply N1. constructor; auto. unfold holds; simpl. rewrite dot_vsub by congruence. exact C. }
    assert (A2 : ~ dot r2 x - dot r1 x < b1 - b2).
    { intros C. apply N2. constructor; auto. unfold holds; simpl. rewrite dot_vsub by congruence. exact C. }
    apply Qcnot_lt_le in A1, A2. qlra.
Qed.

Lemma rows_equal_sound n c A1 b1 A2 b2 : rows_equal n c A1 b1 A2 b2 = Equal ->
  forall x, length x = n -> all_hold c x -> vadd (matvec A1 x) b1 = vadd (matvec A2 x) b2.
Proof.
  revert b1 A2 b2; induction A1 as [|r1 A1 IH]; intros [|x1 b1] [|r2 A2] [|x2 b2] H x Hx Hc; simpl in *; try discriminate; auto.
  destruct (row_equal n c r1 x1 r2 x2) eqn:E; simpl in H; try discriminate.
  unfold vadd in *. simpl. f_equal.
  - eapply row_equal_sound; eauto.
  - eapply IH; eauto.
Qed.

Lemma cmp_out_sound n c o1 o2 : cmp_out n c o1 o2 = Equal ->
  forall x, length x = n -> all_hold c x ->
  option_map (fun f => apply f x) o1 = option_map (fun f => apply f x) o2.
Proof.
  unfold cmp_out. intros H x Hx Hc. destruct o1 as [f|], o2 as [g|]; simpl; auto.
  - destruct (_ && _)%bool.
    + f_equal. unfold apply. eapply rows_equal_sound; eauto.
    + exfalso. eapply witness_equal; eauto.
  - exfalso. eapply witness_equal; eauto.
  - exfalso. eapply witness_equal; eauto.
Qed.

(* ---- equivalence of two trees on a cell ---- *)
Definition tree_equiv (n : nat) (cs : list constr) (t1 t2 : ptree) : tres :=
  match pieces n t1 cs with
  | None => TUnknown
  | Some ps1 =>
      tres_all (fun p1 : piece =>
        match pieces n t2 (fst p1) with
        | None => TUnknown
        | Some ps2 => tres_all (fun p2 : piece => cmp_out n (fst p2) (snd p1) (snd p2)) ps2
        end) ps1
  end.

Theorem tree_equiv_sound n cs t1 t2 : tree_equiv n cs t1 t2 = Equal ->
  forall x, length x = n -> all_hold cs x -> eval t1 x = eval t2 x.
Proof.
  unfold tree_equiv. intros H x Hx Hcs.
  destruct (pieces n t1 cs) as [ps1|] eqn:E1; try discriminate.
  destruct (pieces_cover _ _ _ _ E1 x Hx Hcs) as [c1 [Hc1 Hin1]].
  pose proof (tres_all_equal _ _ H _ Hin1) as H1. simpl in H1.
  destruct (pieces n t2 c1) as [ps2|] eqn:E2; try discriminate.
  destruct (pieces_cover _ _ _ _ E2 x Hx Hc1) as [c2 [Hc2 Hin2]].
  pose proof (tres_all_equal _ _ H1 _ Hin2) as H2. simpl in H2.
  rewrite !eval_term. eapply cmp_out_sound; eauto.
Qed.

(* the executable re-validation of a counterexample: x lies in the cell and the two trees disagree on it *)
Definition out_eqb (a b : option vec) : bool :=
  match a, b with None, None => true | Some u, Some v => veqb u v | _, _ => false end.
Definition check_cex (n : nat) (cs : list constr) (t1 t2 : ptree) (x : vec) : bool :=
  check_model n cs x && negb (out_eqb (eval t1 x) (eval t2 x)).
Lemma check_cex_sound n cs t1 t2 x : check_cex n cs t1 t2 x = true ->
  length x = n /\ all_hold cs x /\ eval t1 x <> eval t2 x.
Proof.
  unfold check_cex. rewrite andb_true_iff, negb_true_iff. intros [H1 H2].
  apply check_model_sound in H1 as [Hl Hc]. repeat split; auto.
  intros E. rewrite E in H2. destruct (eval t2 x); simpl in H2; try discriminate.
  assert (veqb v v = true) by (apply veqb_spec; auto). congruence.
Qed.

(* Cert/PolyInc.v -- certified polytope inclusion / equality through the verified solver (Cert/FM.v `solve`):
   P <= Q iff for every row q of Q the system  P /\ not q  is unsatisfiable (Farkas certificate re-checked);
   otherwise a concrete rational point of P outside Q (re-evaluated by check_model). *)
From AT Require Import Num Vec Aff Poly Farkas FM.

Definition row_constr (rb : vec * Qc) : constr := {| coef := fst rb; rhs := snd rb; strict := false |}.
(* the complement of the row r.x <= b :  -r.x < -b *)
Definition neg_constr (rb : vec * Qc) : constr := {| coef := vopp (fst rb); rhs := - snd rb; strict := true |}.
Definition poly_constrs (P : aff) : list constr := map row_constr (combine (a_mat P) (a_bias P)).

Inductive incl_res := Incl | NotIncl (x : vec) | IUnknown.
Fixpoint incl_rows (n : nat) (cs : list constr) (rows : list (vec * Qc)) : incl_res :=
  match rows with
  | [] => Incl
  | rb :: rows' =>
      match solve n (neg_constr rb :: cs) with
      | Unsat _ => incl_rows n cs rows'
      | Sat x => NotIncl x
      | Unknown => IUnknown
      end
  end.
Definition poly_incl (n : nat) (P Q : aff) : incl_res :=
  if Nat.eqb (length (a_mat P)) (length (a_bias P)) && Nat.eqb (length (a_mat Q)) (length (a_bias Q))
  then incl_rows n (poly_constrs P) (combine (a_mat Q) (a_bias Q)) else IUnknown.
Inductive equiv_res := PEqual | PDiffer (x : vec) (in_first : bool) | PUnknown.
(* PDiffer x true: x is in P but not in Q; PDiffer x false: x is in Q but not in P *)
Definition poly_equiv (n : nat) (P Q : aff) : equiv_res :=
  match poly_incl n P Q with
  | NotIncl x => PDiffer x true
  | IUnknown => PUnknown
  | Incl => match poly_incl n Q P with
            | NotIncl x => PDiffer x false
            | IUnknown => PUnknown
            | Incl => PEqual
            end
  end.

Lemma in_poly_rows_iff A b x : length A = length b ->
  (in_poly (mk 0 A b) x <-> Forall (fun rb => dot (fst rb) x <= snd rb) (combine A b)).
Proof.
  unfold in_poly; simpl. revert b; induction A as [|r A IH]; intros [|b0 b] H; simpl in *; try discriminate.
  - split; intros; [constructor | apply vle_nil].
  - rewrite vle_cons, Forall_cons_iff, IH by lia. reflexivity.
Qed.
Lemma in_poly_combine P x : length (a_mat P) = length (a_bias P) ->
  (in_poly P x <-> Forall (fun rb => dot (fst rb) x <= snd rb) (combine (a_mat P) (a_bias P))).
Proof. intros H. rewrite <- in_poly_rows_iff by auto. unfold in_poly; simpl. reflexivity. Qed.
Lemma all_hold_poly P x : length (a_mat P) = length (a_bias P) -> (all_hold (poly_constrs P) x <-> in_poly P x).
Proof.
  intros H. rewrite in_poly_combine by auto. unfold all_hold, poly_constrs. rewrite Forall_map.
  split; intros HF; eapply Forall_impl; try exact HF; intros rb Hrb; exact Hrb.
Qed.
Lemma neg_constr_holds rb x : holds (neg_constr rb) x <-> ~ dot (fst rb) x <= snd rb.
Proof.
  unfold holds, neg_constr; simpl. rewrite dot_vopp. split.
  - intros H C. qlra.
  - intros H. destruct (qleb (dot (fst rb) x) (snd rb)) eqn:E.
    + apply qleb_spec in E. contradiction.
    + apply qleb_false in E. qlra.
Qed.

Lemma incl_rows_sound n cs rows : incl_rows n cs rows = Incl ->
  forall x, length x = n -> all_hold cs x -> Forall (fun rb => dot (fst rb) x <= snd rb) rows.
Proof.
  induction rows as [|rb rows IH]; intros H x Hx Hcs; [constructor|]. simpl in H.
  pose proof (solve_sound n (neg_constr rb :: cs)) as S. destruct (solve n (neg_constr rb :: cs)) as [y|l|]; try discriminate.
  constructor; [|apply IH; auto].
  destruct (qleb (dot (fst rb) x) (snd rb)) eqn:E; [apply qleb_spec; auto|].
  exfalso. apply (S x Hx). constructor; auto. apply neg_constr_holds. intros C. apply qleb_spec in C. congruence.
Qed.
Lemma incl_rows_cex n cs rows x : incl_rows n cs rows = NotIncl x ->
  length x = n /\ all_hold cs x /\ ~ Forall (fun rb => dot (fst rb) x <= snd rb) rows.
Proof.
  induction rows as [|rb rows IH]; intros H; [discriminate|]. simpl in H.
  pose proof (solve_sound n (neg_constr rb :: cs)) as S. destruct (solve n (neg_constr rb :: cs)) as [y|l|]; try discriminate.
  - inversion H; subst y. destruct S as [Hx Hall]. apply Forall_cons_iff in Hall as [Hneg Hcs]. split; auto. split; auto.
    intros C. apply Forall_cons_iff in C as [C _]. apply neg_constr_holds in Hneg. contradiction.
  - destruct (IH H) as [Hx [Hcs Hn]]. split; auto. split; auto. intros C. apply Forall_cons_iff in C as [_ C]. contradiction.
Qed.

(* a verdict Incl is a theorem instance: every point of P (of the right length) is a point of Q *)
Theorem poly_incl_sound n P Q : poly_incl n P Q = Incl ->
  forall x, length x = n -> in_poly P x -> in_poly Q x.
Proof.
  unfold poly_incl. destruct (Nat.eqb (length (a_mat P)) (length (a_bias P))) eqn:E1; [|discriminate].
  destruct (Nat.eqb (length (a_mat Q)) (length (a_bias Q))) eqn:E2; [|discriminate]. simpl.
  apply Nat.eqb_eq in E1, E2. intros H x Hx Hin.
  apply in_poly_combine; auto. apply (incl_rows_sound n _ _ H x Hx). apply all_hold_poly; auto.
Qed.
(* a verdict NotIncl x comes with a point of P that is not in Q *)
Theorem poly_incl_cex n P Q x : poly_incl n P Q = NotIncl x -> length x = n /\ in_poly P x /\ ~ in_poly Q x.
Proof.
  unfold poly_incl. destruct (Nat.eqb (length (a_mat P)) (length (a_bias P))) eqn:E1; [|discriminate].
  destruct (Nat.eqb (length (a_mat Q)) (length (a_bias Q))) eqn:E2; [|discriminate]. simpl.
  apply Nat.eqb_eq in E1, E2. intros H. destruct (incl_rows_cex n _ _ x H) as [Hx [Hcs Hn]].
  split; auto. split; [apply all_hold_poly; auto|]. intros C. apply Hn. apply in_poly_combine; auto.
Qed.
Theorem poly_equiv_sound n P Q : poly_equiv n P Q = PEqual ->
  forall x, length x = n -> (in_poly P x <-> in_poly Q x).
Proof.
  unfold poly_equiv. destruct (poly_incl n P Q) eqn:E1; try discriminate.
  destruct (poly_incl n Q P) eqn:E2; try discriminate. intros _ x Hx.
  split; [apply (poly_incl_sound n P Q E1 x Hx) | apply (poly_incl_sound n Q P E2 x Hx)].
Qed.
Theorem poly_equiv_cex n P Q x side : poly_equiv n P Q = PDiffer x side ->
  length x = n /\ (if side then in_poly P x /\ ~ in_poly Q x else in_poly Q x /\ ~ in_poly P x).
Proof.
  unfold poly_equiv. destruct (poly_incl n P Q) eqn:E1; try discriminate.
  - destruct (poly_incl n Q P) eqn:E2; try discriminate. intros H. inversion H; subst.
    destruct (poly_incl_cex n Q P x E2) as [Hx [H1 H2]]. auto.
  - intros H. inversion H; subst. destruct (poly_incl_cex n P Q x E1) as [Hx [H1 H2]]. auto.
Qed.

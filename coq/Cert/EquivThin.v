(* Cert/EquivThin.v -- all-input comparison of two trees that ignores the cells of the FIRST tree (the reference) whose
   closed region is certified thin.  This is the deciding comparison for the pruning properties ("only paths whose
   region is thinner than the solver's tolerance may disappear"): verified here, so that the allowance for thin regions
   is part of the kernel and not of the OCaml glue -- in particular a tolerated difference inside one thin cell cannot
   hide a difference elsewhere. *)
From AT Require Import Num Vec Aff Farkas FM Equiv PTree Cells Abs PolyGen Cache.

Definition tree_equiv_skip (skip : list constr -> bool) (n : nat) (cs : list constr) (t1 t2 : ptree) : tres :=
  match pieces n t1 cs with
  | None => TUnknown
  | Some ps1 =>
      tres_all (fun p1 : piece =>
        if skip (fst p1) then Equal else
        match pieces n t2 (fst p1) with
        | None => TUnknown
        | Some ps2 => tres_all (fun p2 : piece => cmp_out n (fst p2) (snd p1) (snd p2)) ps2
        end) ps1
  end.

Theorem tree_equiv_skip_sound skip n cs t1 t2 : tree_equiv_skip skip n cs t1 t2 = Equal ->
  forall x, length x = n -> all_hold cs x -> (forall c, skip c = true -> ~ all_hold c x) -> eval t1 x = eval t2 x.
Proof.
  unfold tree_equiv_skip. intros H x Hx Hcs Hskip.
  destruct (pieces n t1 cs) as [ps1|] eqn:E1; try discriminate.
  destruct (pieces_cover _ _ _ _ E1 x Hx Hcs) as [c1 [Hc1 Hin1]].
  pose proof (tres_all_equal _ _ H _ Hin1) as H1. cbn [fst snd] in H1.
  destruct (skip c1) eqn:Es; [exfalso; exact (Hskip c1 Es Hc1)|].
  destruct (pieces n t2 c1) as [ps2|] eqn:E2; try discriminate.
  destruct (pieces_cover _ _ _ _ E2 x Hx Hc1) as [c2 [Hc2 Hin2]].
  pose proof (tres_all_equal _ _ H1 _ Hin2) as H2. cbn [fst snd] in H2.
  rewrite !eval_term. eapply cmp_out_sound; eauto.
Qed.

(* the skip predicate used by the runner: the closure of the cell, tightened by tau, has a checked Farkas certificate *)
Definition closed_rows (c : list constr) : rows := map (fun k => (coef k, rhs k)) c.
Definition thin_skip (n : nat) (tau : Qc) (c : list constr) : bool :=
  match thin_cert n tau (closed_rows c) with Some true => true | _ => false end.
Lemma all_hold_closed c x : all_hold c x -> in_rows (closed_rows c) x.
Proof.
  unfold all_hold, in_rows, closed_rows. rewrite Forall_map. apply Forall_impl. intros k Hk.
  unfold holds in Hk. cbn [fst snd]. destruct (strict k); [apply Qclt_le_weak; exact Hk | exact Hk].
Qed.
Theorem thin_skip_sound n tau c : thin_skip n tau c = true -> thin n tau (closed_rows c).
Proof.
  unfold thin_skip. destruct (thin_cert n tau (closed_rows c)) as [[|]|] eqn:E; try discriminate.
  intros _. apply thin_cert_sound. exact E.
Qed.
(* Equal: the two trees agree at every input that lies in no certified-thin cell of the reference tree *)
Theorem tree_equiv_mod_thin_sound n tau t_ref t : tree_equiv_skip (thin_skip n tau) n [] t_ref t = Equal ->
  forall x, length x = n ->
    (forall c, thin n tau (closed_rows c) -> ~ in_rows (closed_rows c) x) -> eval t_ref x = eval t x.
Proof.
  intros H x Hx Hthin. eapply tree_equiv_skip_sound; eauto.
  - constructor.
  - intros c Hs Hc. apply (Hthin c (thin_skip_sound _ _ _ Hs)). apply all_hold_closed. exact Hc.
Qed.

(* Cert/Farkas.v -- constraint systems with strict / non-strict rows; model and Farkas certificate checkers; soundness. *)
From AT Require Import Num Vec.

Record constr := { coef : vec; rhs : Qc; strict : bool }.
Definition holds (c : constr) (x : vec) : Prop :=
  if strict c then dot (coef c) x < rhs c else dot (coef c) x <= rhs c.
Definition holdsb (c : constr) (x : vec) : bool :=
  if strict c then qltb (dot (coef c) x) (rhs c) else qleb (dot (coef c) x) (rhs c).
Definition all_hold (cs : list constr) (x : vec) : Prop := Forall (fun c => holds c x) cs.

Definition check_model (n : nat) (cs : list constr) (x : vec) : bool :=
  Nat.eqb (length x) n && forallb (fun c => holdsb c x) cs.

Lemma holdsb_spec c x : holdsb c x = true <-> holds c x.
Proof. unfold holdsb, holds. destruct (strict c); [apply qltb_spec | apply qleb_spec]. Qed.
Lemma check_model_sound n cs x : check_model n cs x = true -> length x = n /\ all_hold cs x.
Proof.
  unfold check_model. rewrite andb_true_iff, Nat.eqb_eq, forallb_forall. intros [H1 H2]. split; auto.
  apply Forall_forall. intros c Hc. apply holdsb_spec; auto.
Qed.

(* combination: sum_i l_i * row_i  (coef, rhs, any strict with l_i>0) *)
Fixpoint comb (n : nat) (cs : list constr) (l : vec) : vec * Qc * bool :=
  match cs, l with
  | c :: cs', li :: l' =>
      let '(v, r, s) := comb n cs' l' in
      (vadd (vscale li (coef c)) v, li * rhs c + r, (strict c && qltb 0 li) || s)
  | _, _ => (vzero n, 0, false)
  end.

Definition check_farkas (n : nat) (cs : list constr) (l : vec) : bool :=
  Nat.eqb (length l) (length cs) &&
  forallb (fun c => Nat.eqb (length (coef c)) n) cs &&
  forallb (fun li => qleb 0 li) l &&
  let '(v, r, s) := comb n cs l in
  vall_zero v && (qltb r 0 || (qeqb r 0 && s)).


Lemma comb_length n cs l : Forall (fun c => length (coef c) = n) cs ->
  length (fst (fst (comb n cs l))) = n.
Proof.
  revert l; induction cs as [|c cs IH]; intros [|li l] H; simpl; auto using length_vzero.
  apply Forall_cons_iff in H as [H0 H]. subst n. specialize (IH l H). destruct (comb (length (coef c)) cs l) as [[v r] s]; simpl in *.
  rewrite length_vadd; rewrite length_vscale; auto.
Qed.


(* key: if x satisfies all rows and l >= 0 then  dot v x <= r, strictly if s *)
Lemma comb_sound n cs l x :
  Forall (fun c => length (coef c) = n) cs ->
  forallb (fun li => qleb 0 li) l = true ->
  all_hold cs x ->
  let '(v, r, s) := comb n cs l in
  dot v x <= r /\ (s = true -> dot v x < r).
Proof.
  revert l; induction cs as [|c cs IH]; intros [|li l] Hn Hl Hx; simpl;
    try (rewrite dot_vzero; split; [apply Qcle_refl | discriminate]).
  apply Forall_cons_iff in Hn as [Hn0 Hn]. apply Forall_cons_iff in Hx as [H3 Hx]. subst n.
  simpl in Hl. apply andb_true_iff in Hl as [Hl0 Hl].
  apply qleb_spec in Hl0.
  specialize (IH l Hn Hl Hx).
  pose proof (comb_length _ cs l Hn) as Hlen.
  destruct (comb (length (coef c)) cs l) as [[v r] s]; simpl in *.
  destruct IH as [IH1 IH2].
  rewrite dot_vadd by (rewrite length_vscale; auto). rewrite dot_vscale.
  unfold holds in H3.
  assert (Hc : dot (coef c) x <= rhs c).
  { destruct (strict c); auto. apply Qclt_le_weak; auto. }
  split.
  - qnra.
  - intros Hs. apply orb_true_iff in Hs as [Hs|Hs].
    + apply andb_true_iff in Hs as [Hs1 Hs2]. rewrite Hs1 in H3. apply qltb_spec in Hs2. qnra.
    + specialize (IH2 Hs). qnra.
Qed.

Theorem check_farkas_sound n cs l :
  check_farkas n cs l = true -> forall x, length x = n -> ~ all_hold cs x.
Proof.
  unfold check_farkas. intros H x Hx Hall.
  apply andb_true_iff in H as [H Hfin].
  apply andb_true_iff in H as [H Hpos].
  apply andb_true_iff in H as [_ Hdim].
  assert (Hn : Forall (fun c => length (coef c) = n) cs).
  { apply Forall_forall. intros c Hc. rewrite forallb_forall in Hdim. apply Nat.eqb_eq. auto. }
  pose proof (comb_sound n cs l x Hn Hpos Hall) as S.
  destruct (comb n cs l) as [[v r] s].
  apply andb_true_iff in Hfin as [Hz Hr].
  destruct S as [S1 S2]. rewrite (dot_all_zero _ _ Hz) in *.
  apply orb_true_iff in Hr as [Hr|Hr].
  - apply qltb_spec in Hr. qlra.
  - apply andb_true_iff in Hr as [Hr Hs]. apply qeqb_spec in Hr. subst r. specialize (S2 Hs). qlra.
Qed.

(* Cert/Xcheck.v -- comparison of kernel results, used by the generated extraction cross-check files: the runner
   (extracted OCaml) writes a sample of its tree_equiv calls with the result it obtained as Coq terms; the
   orchestrator lets Coq re-evaluate them with vm_compute.  Both evaluators must agree. *)
From AT Require Import Num Vec Aff Farkas FM Equiv PTree.

Definition tres_eqb (a b : tres) : bool :=
  match a, b with
  | Equal, Equal => true
  | Differ x, Differ y => veqb x y
  | TUnknown, TUnknown => true
  | _, _ => false
  end.
Definition verdict_eqb (a b : verdict) : bool :=
  match a, b with
  | Sat x, Sat y => veqb x y
  | Unsat l, Unsat m => veqb l m
  | Unknown, Unknown => true
  | _, _ => false
  end.

(* Cert/LPInst.v -- concrete instances for the C10 property file: the two witnesses of D14 (the verdicts the code
   as found gave are refuted by the referee, and lie in the class "optimal face unbounded"), and a non-vacuity
   example in which the referee accepts correct verdicts of every kind and rejects wrong ones. *)
From AT Require Import Num Vec Farkas FM Equiv Cache LP Cheb.

Definition d14_quadrant : rows := [([1; 0], 1); ([0; 1], 1)].            (* x <= 1, y <= 1 *)
Definition d14_slab : rows := [([1; 0], 1); ([- (1); 0], 1)].           (* -1 <= x <= 1 in R^2 *)
Definition half : Qc := 1 / (1 + 1).

(* min -x over the quadrant: the minimum -1 exists; "Unbounded" (the answer of the code as found) is not correct *)
Lemma d14_quadrant_refuted :
  ~ Correct tau_margin tol_member delta_obj 2 d14_quadrant [- (1); 0] Unbounded /\
  OptimalFaceUnbounded 2 d14_quadrant [- (1); 0].
Proof.
  split.
  - apply rejected_sound. vm_compute. reflexivity.
  - apply (chk_face_ray_sound 2 d14_quadrant [- (1); 0] [1; 0] [1; 0] [0; - (1)]); vm_compute; reflexivity.
Qed.
(* Chebyshev centre of the slab: radius 1 exists (centre anywhere on the line x = 0); "Unbounded" is not correct *)
Lemma d14_slab_refuted :
  ~ Correct tau_margin tol_member delta_obj 3 (cheb_sys 2 d14_slab [1; 1]) (cheb_obj 2) Unbounded /\
  OptimalFaceUnbounded 3 (cheb_sys 2 d14_slab [1; 1]) (cheb_obj 2).
Proof.
  split.
  - apply rejected_sound. vm_compute. reflexivity.
  - apply (chk_face_ray_sound 3 _ _ [0; 0; 1] [half; half; 0] [0; 1; 0]); vm_compute; reflexivity.
Qed.

Definition ex_square : rows := [([1; 0], 1); ([- (1); 0], 1); ([0; 1], 1); ([0; - (1)], 1)].
Lemma lp_nonvacuous :
  referee tau_margin tol_member delta_obj 2 ex_square [1; 1] (Optimal [- (1); - (1)]) = true /\
  referee tau_margin tol_member delta_obj 2 ex_square [1; 1] (Optimal [0; 0]) = false /\
  referee tau_margin tol_member delta_obj 2 ex_square [1; 1] Unbounded = false /\
  referee tau_margin tol_member delta_obj 2 ex_square [0; 0] Infeasible = false /\
  referee tau_margin tol_member delta_obj 2 d14_quadrant [1; 1] Unbounded = true /\
  referee tau_margin tol_member delta_obj 2 d14_quadrant [- (1); 0] (Optimal [1; - (1 + 1 + 1)]) = true /\
  referee tau_margin tol_member delta_obj 1 [([1], 0); ([- (1)], - (1))] [1] Infeasible = true /\
  referee tau_margin tol_member delta_obj 3 (cheb_sys 2 ex_square [1; 1; 1; 1]) (cheb_obj 2) (Optimal [0; 0; 1]) = true /\
  referee tau_margin tol_member delta_obj 3 (cheb_sys 2 d14_slab [1; 1]) (cheb_obj 2) (Optimal [0; 1 + 1 + 1; 1]) = true.
Proof. vm_compute. repeat split; reflexivity. Qed.

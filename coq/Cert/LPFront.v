(* Cert/LPFront.v -- the front end of the LP layer (polyhedron.rs: as_linprog, solve_linprog) as coded.
   A minilp problem is a list of variables (objective coefficient, lower bound or -inf; the upper bound is always
   +inf here) and a list of "<=" constraints, each a list of (variable, coefficient) pairs with a right-hand side.
   as_linprog_v0 : the code as found -- one free variable per coordinate.
   as_linprog    : the repaired code -- coordinate i is the difference of the two non-negative variables 2i, 2i+1
                   (x = x_pos - x_neg), the backend never sees an infinite bound; solve_linprog recombines the pairs.
   Both denote exactly {x | A x <= b} with objective c.x (as_linprog_*_denotes / _sound / _complete), and a backend
   answer that is right for the program handed over yields a PolytopeStatus that is Correct (frontend_correct).
   D14 was not a wrong encoding: minilp mishandles free variables with zero reduced cost; see Props/C10.v. *)
From AT Require Import Num Vec Farkas FM Equiv Cache LP.

Record linprog := { lp_obj : vec; lp_lower : list (option Qc); lp_cons : list (list (nat * Qc) * Qc) }.
Definition term_sum (ts : list (nat * Qc)) (y : vec) : Qc :=
  fold_right (fun t acc => snd t * nth (fst t) y 0 + acc) 0 ts.
Definition bound_ok (lb : option Qc) (v : Qc) : Prop := match lb with Some l => l <= v | None => True end.
Definition lp_sat (lp : linprog) (y : vec) : Prop :=
  Forall2 bound_ok (lp_lower lp) y /\ Forall (fun cr => term_sum (fst cr) y <= snd cr) (lp_cons lp).
Definition lp_val (lp : linprog) (y : vec) : Qc := dot (lp_obj lp) y.

(* ---- the code as found: zip(vars, row) with vars = 0 .. len(cost)-1, every variable free ---- *)
Definition as_linprog_v0 (P : rows) (c : vec) : linprog :=
  {| lp_obj := c; lp_lower := repeat None (length c);
     lp_cons := map (fun rb => (combine (seq 0 (length c)) (fst rb), snd rb)) P |}.

(* ---- the repaired code ---- *)
Fixpoint dup_obj (c : vec) : vec := match c with [] => [] | a :: c' => a :: - a :: dup_obj c' end.
Definition split_terms (ts : list (nat * Qc)) : list (nat * Qc) :=
  flat_map (fun t => [((2 * fst t)%nat, snd t); (S (2 * fst t), - snd t)]) ts.
Definition as_linprog (P : rows) (c : vec) : linprog :=
  {| lp_obj := dup_obj c; lp_lower := repeat (Some 0) (2 * length c);
     lp_cons := map (fun rb => (split_terms (combine (seq 0 (length c)) (fst rb)), snd rb)) P |}.
(* vars.chunks(2).map(|pair| sol[pair[0]] - sol[pair[1]]) *)
Fixpoint recombine (y : vec) : vec := match y with p :: q :: y' => (p - q) :: recombine y' | _ => [] end.
(* a solver point for a given x: positive and negative parts *)
Fixpoint split_vec (x : vec) : vec := match x with [] => [] | a :: x' => qmax a 0 :: qmax (- a) 0 :: split_vec x' end.

(* ---- lemmas ---- *)
Lemma skipn_nth_cons (x : vec) k : (k < length x)%nat -> skipn k x = nth k x 0 :: skipn (S k) x.
Proof.
  revert k; induction x as [|a x IH]; intros [|k] H; simpl in *; try lia; auto.
  apply IH. lia.
Qed.
Lemma term_sum_combine r : forall k m x, m = length r ->
  term_sum (combine (seq k m) r) x = dot r (skipn k x).
Proof.
  induction r as [|r0 r IH]; intros k m x Hm; subst m; simpl.
  - reflexivity.
  - rewrite (IH (S k) (length r) x eq_refl).
    destruct (Nat.lt_ge_cases k (length x)) as [Hk|Hk].
    + rewrite (skipn_nth_cons x k Hk). reflexivity.
    + rewrite (nth_overflow x 0 Hk). rewrite (skipn_all2 x Hk).
      assert (E : skipn (S k) x = []) by (apply skipn_all2; lia). rewrite E. rewrite dot_nil_r. ring.
Qed.
Lemma length_dup_obj r : length (dup_obj r) = (2 * length r)%nat.
Proof. induction r as [|a r IH]; simpl; auto. rewrite IH. lia. Qed.
Lemma split_terms_combine r : forall k,
  split_terms (combine (seq k (length r)) r) = combine (seq (2 * k) (2 * length r)) (dup_obj r).
Proof.
  induction r as [|a r IH]; intros k.
  - reflexivity.
  - cbn [length]. replace (2 * S (length r))%nat with (S (S (2 * length r))) by lia.
    cbn [seq combine dup_obj]. unfold split_terms in *. cbn [flat_map fst snd app].
    rewrite IH. replace (2 * S k)%nat with (S (S (2 * k))) by lia. reflexivity.
Qed.
Lemma dot_dup_obj r : forall y, length y = (2 * length r)%nat -> dot (dup_obj r) y = dot r (recombine y).
Proof.
  induction r as [|a r IH]; intros y Hy.
  - destruct y; reflexivity.
  - destruct y as [|p [|q y]]; cbn [length] in Hy; try lia.
    cbn [dup_obj dot recombine]. rewrite IH by lia. ring.
Qed.
Lemma length_recombine : forall n y, length y = (2 * n)%nat -> length (recombine y) = n.
Proof.
  induction n as [|n IH]; intros y Hy.
  - destruct y; simpl in *; auto; lia.
  - destruct y as [|p [|q y]]; cbn [length] in Hy; try lia. cbn [recombine length]. rewrite IH by lia. reflexivity.
Qed.
Lemma length_split_vec x : length (split_vec x) = (2 * length x)%nat.
Proof. induction x as [|a x IH]; simpl; auto. rewrite IH. lia. Qed.
Lemma recombine_split x : recombine (split_vec x) = x.
Proof.
  induction x as [|a x IH]; cbn [split_vec recombine]; auto. rewrite IH. f_equal.
  unfold qmax. destruct (qleb a 0) eqn:E1; destruct (qleb (- a) 0) eqn:E2;
    try apply qleb_spec in E1; try apply qleb_spec in E2; try apply qleb_false in E1; try apply qleb_false in E2; qlra.
Qed.
Lemma split_vec_nonneg x : Forall (fun v => 0 <= v) (split_vec x).
Proof.
  induction x as [|a x IH]; cbn [split_vec]; constructor; [|constructor]; auto; unfold qmax.
  - destruct (qleb a 0) eqn:E; [apply Qcle_refl|]. apply qleb_false in E. qlra.
  - destruct (qleb (- a) 0) eqn:E; [apply Qcle_refl|]. apply qleb_false in E. qlra.
Qed.
Lemma F2_cons {A B} (R : A -> B -> Prop) a u b v : Forall2 R (a :: u) (b :: v) <-> R a b /\ Forall2 R u v.
Proof. split; [intros H; inversion H; subst; auto | intros [H1 H2]; constructor; auto]. Qed.
Lemma F2_nil_l {A B} (R : A -> B -> Prop) v : Forall2 R [] v <-> v = [].
Proof. split; [intros H; inversion H; auto | intros ->; constructor]. Qed.
Lemma bounds_free m y : Forall2 bound_ok (repeat None m) y <-> length y = m.
Proof.
  revert y; induction m as [|m IH]; intros y; cbn [repeat].
  - rewrite F2_nil_l. destruct y; simpl; split; intros H; auto; discriminate.
  - destruct y as [|v y].
    + split; intros H; [inversion H | discriminate].
    + rewrite F2_cons, IH. simpl. split; [intros [_ H]; lia | intros H; split; [exact I | lia]].
Qed.
Lemma bounds_nonneg m y : Forall2 bound_ok (repeat (Some 0) m) y <-> length y = m /\ Forall (fun v => 0 <= v) y.
Proof.
  revert y; induction m as [|m IH]; intros y; cbn [repeat].
  - rewrite F2_nil_l. destruct y; simpl; split; intros H; auto; try discriminate. destruct H; discriminate.
  - destruct y as [|v y].
    + split; intros H; [inversion H | destruct H; discriminate].
    + rewrite F2_cons, IH, Forall_cons_iff. simpl. split.
      * intros [H1 [H2 H3]]. split; [lia | auto].
      * intros [H1 [H2 H3]]. split; [exact H2 | split; [lia | exact H3]].
Qed.

(* ---- denotation ---- *)
Theorem as_linprog_v0_denotes P c x : wf_rows (length c) P ->
  (lp_sat (as_linprog_v0 P c) x <-> feas (length c) P x) /\ lp_val (as_linprog_v0 P c) x = dot c x.
Proof.
  intros Hwf. split; [|reflexivity]. unfold lp_sat, feas, as_linprog_v0, in_rows, wf_rows in *; cbn [lp_lower lp_cons].
  rewrite bounds_free, Forall_map. split; intros [Hl H]; split; auto.
  - rewrite Forall_forall in *. intros rb Hrb. specialize (H rb Hrb). specialize (Hwf rb Hrb). cbn [fst snd] in H.
    rewrite term_sum_combine in H by auto. exact H.
  - rewrite Forall_forall in *. intros rb Hrb. specialize (H rb Hrb). specialize (Hwf rb Hrb). cbn [fst snd].
    rewrite term_sum_combine by auto. exact H.
Qed.

Lemma split_row_val n r y : length r = n -> length y = (2 * n)%nat ->
  term_sum (split_terms (combine (seq 0 n) r)) y = dot r (recombine y).
Proof.
  intros Hr Hy. subst n. rewrite split_terms_combine. rewrite term_sum_combine by (rewrite length_dup_obj; reflexivity).
  cbn [skipn Nat.mul]. apply dot_dup_obj. exact Hy.
Qed.
Theorem as_linprog_sound P c y : wf_rows (length c) P -> lp_sat (as_linprog P c) y ->
  feas (length c) P (recombine y) /\ lp_val (as_linprog P c) y = dot c (recombine y).
Proof.
  intros Hwf [Hb Hc]. unfold as_linprog in *; cbn [lp_lower lp_cons lp_obj] in *.
  apply bounds_nonneg in Hb as [Hl _]. split; [split|].
  - apply length_recombine; auto.
  - unfold in_rows, wf_rows in *. rewrite Forall_map in Hc. rewrite Forall_forall in *. intros rb Hrb.
    specialize (Hc rb Hrb). specialize (Hwf rb Hrb). cbn [fst snd] in Hc.
    rewrite (split_row_val (length c)) in Hc by auto. exact Hc.
  - unfold lp_val; cbn [lp_obj]. apply dot_dup_obj. exact Hl.
Qed.
Theorem as_linprog_complete P c x : wf_rows (length c) P -> feas (length c) P x ->
  lp_sat (as_linprog P c) (split_vec x) /\ recombine (split_vec x) = x.
Proof.
  intros Hwf [Hl Hin]. split; [|apply recombine_split]. unfold lp_sat, as_linprog; cbn [lp_lower lp_cons]. split.
  - apply bounds_nonneg. split; [rewrite length_split_vec; lia | apply split_vec_nonneg].
  - unfold in_rows, wf_rows in *. rewrite Forall_map. rewrite Forall_forall in *. intros rb Hrb.
    specialize (Hin rb Hrb). specialize (Hwf rb Hrb). cbn [fst snd].
    rewrite (split_row_val (length c)) by (auto; rewrite length_split_vec; lia). rewrite recombine_split. exact Hin.
Qed.

(* ---- solve_linprog: the mapping of the backend's outcome, and what it yields when the backend is right ---- *)
Inductive backend := BInfeasible | BUnbounded | BSolution (y : vec).
Definition backend_correct (lp : linprog) (r : backend) : Prop :=
  match r with
  | BInfeasible => forall y, ~ lp_sat lp y
  | BUnbounded => forall M, exists y, lp_sat lp y /\ lp_val lp y < M
  | BSolution y => lp_sat lp y /\ forall y', lp_sat lp y' -> lp_val lp y <= lp_val lp y'
  end.
(* (the non-finite test of solve_linprog has no counterpart over Qc: a rational solution is finite) *)
Definition solve_linprog_of (r : backend) : status :=
  match r with
  | BInfeasible => Infeasible
  | BUnbounded => Unbounded
  | BSolution y => Optimal (recombine y)
  end.

Lemma in_rows_contains tol P x : 0 <= tol -> in_rows P x -> contains_tol tol P x = true.
Proof.
  intros Ht H. unfold contains_tol. apply forallb_forall. intros rb Hrb. unfold in_rows in H. rewrite Forall_forall in H.
  specialize (H rb Hrb). apply qleb_spec. qlra.
Qed.
Theorem frontend_correct tau tol delta P c r : 0 <= tau -> 0 <= tol -> 0 <= delta -> wf_rows (length c) P ->
  backend_correct (as_linprog P c) r -> Correct tau tol delta (length c) P c (solve_linprog_of r).
Proof.
  intros Htau Htol Hdelta Hwf. destruct r as [| |y]; cbn [backend_correct solve_linprog_of Correct].
  - intros H. apply empty_thin; auto. intros x Hx Hin.
    destruct (as_linprog_complete P c x Hwf (conj Hx Hin)) as [Hs _]. exact (H _ Hs).
  - intros H. assert (U : unbounded_below (length c) P c).
    { intros M. destruct (H M) as [y [Hs Hv]]. destruct (as_linprog_sound P c y Hwf Hs) as [Hf Hval].
      exists (recombine y). split; auto. rewrite <- Hval. exact Hv. }
    split; auto. destruct (U 0) as [x [Hf _]]. exists x. exact Hf.
  - intros [Hs Hmin]. destruct (as_linprog_sound P c y Hwf Hs) as [[Hl Hin] Hval]. split; auto. split.
    + apply in_rows_contains; auto.
    + exists (recombine y). split; [split; [split; auto|]|split; qlra].
      intros x Hf. destruct (as_linprog_complete P c x Hwf Hf) as [Hsx Hrx].
      specialize (Hmin _ Hsx). destruct (as_linprog_sound P c _ Hwf Hsx) as [_ Hvx]. rewrite Hrx in Hvx.
      rewrite <- Hval, <- Hvx. exact Hmin.
Qed.

(* Cert/Cheb.v -- the Chebyshev-centre program of affine.rs:1048 (chebyshev_center).
   As coded: every row a_i gets an extra column holding norm_i = sqrt(sum a_ij^2); one extra row (0,..,0,-1) <= 0
   keeps the radius non-negative; the objective is (0,..,0,-1) (minimised: the radius is maximised).
   The square roots enter the model as an argument ns; the theorems hold under ns_i >= 0 /\ ns_i^2 = a_i.a_i.
   (x,r) is feasible for the constructed system  <->  r >= 0 and the ball {x+u | u.u <= r^2} lies in P
   (Cauchy-Schwarz over Qc); a minimiser of the program is the centre and radius of a largest inscribed ball. *)
From AT Require Import Num Vec Farkas FM Equiv Cache LP.

Lemma sq_nonneg (t : Qc) : 0 <= t * t.
Proof. qnra. Qed.
Lemma dot_self_nonneg a : 0 <= dot a a.
Proof. induction a as [|a0 a IH]; cbn [dot]. apply Qcle_refl. qnra. Qed.

Theorem cauchy_schwarz a : forall u, dot a u * dot a u <= dot a a * dot u u.
Proof.
  induction a as [|a0 a IH]; intros [|u0 u]; cbn [dot].
  - qnra.
  - qnra.
  - pose proof (dot_self_nonneg a). pose proof (sq_nonneg a0). qnra.
  - specialize (IH u). pose proof (dot_self_nonneg a) as HA. pose proof (dot_self_nonneg u) as HU.
    set (s := dot a u) in *. set (A := dot a a) in *. set (U := dot u u) in *. clearbody s A U.
    destruct (Qclt_le_dec 0 A) as [HApos|HAz].
    + (* A > 0 :  A * (a0^2 U + A u0^2 - 2 a0 u0 s) >= (a0 s - A u0)^2 >= 0 *)
      pose proof (sq_nonneg (a0 * s - A * u0)) as H1.
      assert (H2 : 0 <= a0 * a0 * (A * U - s * s)) by (pose proof (sq_nonneg a0); qnra).
      assert (H3 : 0 <= A * (a0 * a0 * U + A * u0 * u0 - (1 + 1) * a0 * u0 * s)) by qnra.
      assert (H4 : 0 <= a0 * a0 * U + A * u0 * u0 - (1 + 1) * a0 * u0 * s).
      { destruct (Qclt_le_dec (a0 * a0 * U + A * u0 * u0 - (1 + 1) * a0 * u0 * s) 0) as [C|C]; auto. exfalso. qnra. }
      qnra.
    + assert (EA : A = 0) by qlra. subst A.
      assert (Es : s = 0).
      { assert (Hs : s * s <= 0) by qnra. destruct (Qc_eq_dec s 0) as [E|E]; auto. exfalso.
        assert (0 < s * s).
        { destruct (Qclt_le_dec 0 s) as [C|C]. qnra. assert (s < 0). { destruct (Qclt_le_dec s 0); auto. exfalso. apply E. qlra. } qnra. }
        qlra. }
      subst s. assert (0 <= a0 * a0 * U) by (pose proof (sq_nonneg a0); qnra). qnra.
Qed.

Lemma dot_app a a' : forall x x', length a = length x -> dot (a ++ a') (x ++ x') = dot a x + dot a' x'.
Proof.
  induction a as [|a0 a IH]; intros [|x0 x] x' H; simpl in *; try discriminate.
  - ring.
  - rewrite IH by lia. ring.
Qed.

Lemma dot_snoc a v : forall x r, length a = length x -> dot (a ++ [v]) (x ++ [r]) = dot a x + v * r.
Proof.
  induction a as [|a0 a IH]; intros [|x0 x] r H; cbn [app dot length] in *; try discriminate.
  - ring.
  - rewrite IH by lia. ring.
Qed.

(* ---- the construction ---- *)
Definition cheb_rows (P : rows) (ns : vec) : rows :=
  map (fun pn => (fst (fst pn) ++ [snd pn], snd (fst pn))) (combine P ns).
Definition cheb_sys (n : nat) (P : rows) (ns : vec) : rows := cheb_rows P ns ++ [(vzero n ++ [- (1)], 0)].
Definition cheb_obj (n : nat) : vec := vzero n ++ [- (1)].
Definition norms_ok (P : rows) (ns : vec) : Prop :=
  Forall2 (fun rb nu => 0 <= nu /\ nu * nu = dot (fst rb) (fst rb)) P ns.
Definition ball_in (n : nat) (P : rows) (x : vec) (r : Qc) : Prop :=
  forall u, length u = n -> dot u u <= r * r -> in_rows P (vadd x u).

(* one row: a.x + nu*r <= b  <->  the ball of radius r around x satisfies a.y <= b *)
Lemma row_ball n a b nu x r : 0 <= nu -> nu * nu = dot a a -> length a = n -> length x = n -> 0 <= r ->
  (dot a x + nu * r <= b <-> forall u, length u = n -> dot u u <= r * r -> dot a (vadd x u) <= b).
Proof.
  intros Hnu Hsq Ha Hx Hr. split.
  - intros H u Hu Hball. rewrite dot_vadd_r by congruence.
    pose proof (cauchy_schwarz a u) as CS. rewrite <- Hsq in CS.
    set (s := dot a u) in *. set (U := dot u u) in *. clearbody s U.
    assert (Hs : s <= nu * r).
    { destruct (Qclt_le_dec (nu * r) s) as [C|C]; auto. exfalso.
      assert (0 <= nu * r) by qnra.
      assert (nu * r * (nu * r) < s * s) by qnra.
      assert (nu * nu * U <= nu * nu * (r * r)) by (pose proof (sq_nonneg nu); qnra).
      qnra. }
    qlra.
  - intros H. destruct (Qc_eq_dec nu 0) as [E|E].
    + subst nu. specialize (H (vzero n)). rewrite dot_vadd_r in H by (rewrite length_vzero; auto).
      rewrite !dot_vzero_r in H. pose proof (sq_nonneg r) as H0.
      specialize (H (length_vzero n) H0). qlra.
    + specialize (H (vscale (r / nu) a)). rewrite dot_vadd_r in H by (rewrite length_vscale; congruence).
      rewrite dot_vscale_r in H. rewrite dot_vscale, dot_vscale_r in H. rewrite <- Hsq in H.
      assert (E1 : r / nu * (r / nu * (nu * nu)) = r * r) by (field; exact E).
      assert (E2 : r / nu * (nu * nu) = nu * r) by (field; exact E).
      rewrite E1, E2 in H. apply H.
      * rewrite length_vscale. exact Ha.
      * apply Qcle_refl.
Qed.

Lemma cheb_rows_ball n P ns x r : norms_ok P ns -> wf_rows n P -> length x = n -> 0 <= r ->
  (in_rows (cheb_rows P ns) (x ++ [r]) <-> ball_in n P x r).
Proof.
  intros Hns. unfold ball_in. induction Hns as [|rb nu P ns [Hnu Hsq] Hns IH]; intros Hwf Hx Hr.
  - unfold cheb_rows, in_rows; simpl. split; constructor.
  - apply Forall_cons_iff in Hwf as [Ha Hwf]. specialize (IH Hwf Hx Hr).
    unfold cheb_rows in *. cbn [combine map]. unfold in_rows in *. rewrite Forall_cons_iff. cbn [fst snd].
    rewrite dot_snoc by congruence.
    rewrite (row_ball n (fst rb) (snd rb) nu x r Hnu Hsq Ha Hx Hr). rewrite IH. split.
    + intros [H1 H2] u Hu Hb. constructor; auto.
    + intros H. split; intros u Hu Hb; specialize (H u Hu Hb); apply Forall_cons_iff in H as [H1 H2]; auto.
Qed.

Lemma radius_row n x r : length x = n -> (dot (vzero n ++ [- (1)]) (x ++ [r]) <= 0 <-> 0 <= r).
Proof.
  intros Hx. rewrite dot_snoc by (rewrite length_vzero; auto). rewrite dot_vzero. split; intros H; qlra.
Qed.

Theorem cheb_feasible_iff n P ns x r : norms_ok P ns -> wf_rows n P -> length x = n ->
  (in_rows (cheb_sys n P ns) (x ++ [r]) <-> 0 <= r /\ ball_in n P x r).
Proof.
  intros Hns Hwf Hx. unfold cheb_sys, in_rows. rewrite Forall_app, Forall_cons_iff. simpl.
  rewrite (radius_row n x r Hx). split.
  - intros [H1 [Hr _]]. split; auto. apply (cheb_rows_ball n P ns x r Hns Hwf Hx Hr). exact H1.
  - intros [Hr Hb]. split; [|split; auto]. apply (cheb_rows_ball n P ns x r Hns Hwf Hx Hr). exact Hb.
Qed.

Lemma cheb_obj_val n x r : length x = n -> dot (cheb_obj n) (x ++ [r]) = - r.
Proof. intros Hx. unfold cheb_obj. rewrite dot_snoc by (rewrite length_vzero; auto). rewrite dot_vzero. ring. Qed.

(* a minimiser of the constructed program is a largest inscribed ball *)
Theorem cheb_largest n P ns x r : norms_ok P ns -> wf_rows n P -> length x = n ->
  is_min (S n) (cheb_sys n P ns) (cheb_obj n) (x ++ [r]) ->
  0 <= r /\ ball_in n P x r /\
  forall x' r', length x' = n -> 0 <= r' -> ball_in n P x' r' -> r' <= r.
Proof.
  intros Hns Hwf Hx [[Hl Hin] Hmin].
  apply (cheb_feasible_iff n P ns x r Hns Hwf Hx) in Hin as [Hr Hb]. split; auto. split; auto.
  intros x' r' Hx' Hr' Hb'.
  assert (F : feas (S n) (cheb_sys n P ns) (x' ++ [r'])).
  { split. rewrite app_length; simpl; lia. apply (cheb_feasible_iff n P ns x' r' Hns Hwf Hx'). auto. }
  specialize (Hmin _ F). rewrite !cheb_obj_val in Hmin by auto. qlra.
Qed.

(* Cert/LP.v -- the LP layer of polyhedron.rs as a specification with verified certificate checkers.
   minilp's simplex is third-party code: nothing is proved about it.  What is proved:
   - (Cert/LPFront.v: the program as_linprog hands to the backend denotes exactly {x | A x <= b} with objective c.x)
   - Correct: what a PolytopeStatus has to mean (the property text with explicit margins)
   - certificate checkers with soundness: chk_infeasible (Farkas on the tightened system => thin), chk_member,
     chk_dual / chk_bounded (dual feasible => bounded below), chk_optimal (weak duality), chk_unbounded (ray)
   - judge: the referee; an unverified Fourier-Motzkin projection produces the exact optimum, the dual multipliers,
     rays and Farkas vectors, the checkers re-check them:  judge = JOk -> Correct,  judge = JBad .. -> ~ Correct,
     JUnknown when a produced certificate is rejected (never a pass). *)
From AT Require Import Num Vec Farkas FM Equiv Cache.

(* ------------------------------------------------------------------ feasible set *)
Definition feas (n : nat) (P : rows) (x : vec) : Prop := length x = n /\ in_rows P x.
Definition feasb (n : nat) (P : rows) (x : vec) : bool := Nat.eqb (length x) n && in_rowsb P x.
Lemma feasb_spec n P x : feasb n P x = true <-> feas n P x.
Proof. unfold feasb, feas. rewrite andb_true_iff, Nat.eqb_eq, in_rowsb_spec. tauto. Qed.

Definition wf_rows (n : nat) (P : rows) : Prop := Forall (fun rb => length (fst rb) = n) P.
Definition wf_rowsb (n : nat) (P : rows) : bool := forallb (fun rb => Nat.eqb (length (fst rb)) n) P.
Lemma wf_rowsb_spec n P : wf_rowsb n P = true <-> wf_rows n P.
Proof.
  unfold wf_rowsb, wf_rows. rewrite forallb_forall, Forall_forall.
  split; intros H rb Hrb; apply Nat.eqb_eq; auto.
Qed.

(* ------------------------------------------------------------------ what an answer has to mean *)
Inductive status := Infeasible | Unbounded | Optimal (w : vec) | SolverError.

Definition is_min (n : nat) (P : rows) (c xs : vec) : Prop :=
  feas n P xs /\ forall x, feas n P x -> dot c xs <= dot c x.
Definition unbounded_below (n : nat) (P : rows) (c : vec) : Prop :=
  forall M, exists x, feas n P x /\ dot c x < M.

(* tau: thinness margin (tau_allow = tau_req); tol: raw containment tolerance of a witness (Polytope::contains);
   delta: tolerance on the objective value.
   Infeasible : only for a set that has no point with slack tau*|a|_1 on every row (empty or thin) -- equivalently,
                a set that is non-empty by the margin tau is never reported infeasible;
   Optimal w  : w belongs to the set (raw tolerance), the minimum exists and c.w is the minimum up to delta;
   Unbounded  : the set is non-empty and the objective is unbounded below on it;
   an error is never correct (the default backend has no such outcome). *)
Definition Correct (tau tol delta : Qc) (n : nat) (P : rows) (c : vec) (st : status) : Prop :=
  match st with
  | Infeasible => thin n tau P
  | Optimal w => length w = n /\ contains_tol tol P w = true /\
                 exists xs, is_min n P c xs /\ dot c xs - delta <= dot c w /\ dot c w <= dot c xs + delta
  | Unbounded => (exists x, feas n P x) /\ unbounded_below n P c
  | SolverError => False
  end.

Lemma min_value_unique n P c xs ys : is_min n P c xs -> is_min n P c ys -> dot c xs = dot c ys.
Proof. intros [F1 M1] [F2 M2]. specialize (M1 _ F2). specialize (M2 _ F1). qlra. Qed.
Lemma min_not_unbounded n P c xs : is_min n P c xs -> ~ unbounded_below n P c.
Proof. intros [F1 M1] U. destruct (U (dot c xs)) as [x [Fx Hx]]. specialize (M1 _ Fx). qlra. Qed.

(* the clauses of the property as consequences of Correct *)
Lemma Correct_infeasible_thin tau tol delta n P c : Correct tau tol delta n P c Infeasible -> thin n tau P.
Proof. intros H. exact H. Qed.
Lemma Correct_unbounded_inv tau tol delta n P c : Correct tau tol delta n P c Unbounded ->
  (exists x, feas n P x) /\ unbounded_below n P c.
Proof. intros H. exact H. Qed.
Theorem Correct_margin tau tol delta n P c x : length x = n -> in_rows (tighten tau P) x ->
  ~ Correct tau tol delta n P c Infeasible.
Proof. intros Hx Hin H. exact (H x Hx Hin). Qed.
Theorem Correct_status_not_unbounded tau tol delta n P : ~ Correct tau tol delta n P (vzero n) Unbounded.
Proof. intros [_ U]. destruct (U 0) as [x [_ Hx]]. rewrite dot_vzero in Hx. qlra. Qed.
Theorem Correct_min_exists tau tol delta n P c xs st : is_min n P c xs -> Correct tau tol delta n P c st ->
  match st with
  | Optimal w => contains_tol tol P w = true /\ dot c xs - delta <= dot c w /\ dot c w <= dot c xs + delta
  | Infeasible => thin n tau P
  | _ => False
  end.
Proof.
  intros Hm. destruct st as [| |w|]; simpl; auto.
  - intros [_ U]. exact (min_not_unbounded _ _ _ _ Hm U).
  - intros [_ [Hc [ys [Hy Hn]]]]. rewrite (min_value_unique _ _ _ _ _ Hm Hy). auto.
Qed.
Theorem Correct_unbounded tau tol delta n P c st : unbounded_below n P c -> Correct tau tol delta n P c st ->
  st = Unbounded \/ (st = Infeasible /\ thin n tau P).
Proof.
  intros U. destruct st as [| |w|]; simpl; auto.
  - intros [_ [_ [xs [Hm _]]]]. exfalso. exact (min_not_unbounded _ _ _ _ Hm U).
  - tauto.
Qed.

(* ------------------------------------------------------------------ checkers *)
Definition chk_infeasible (n : nat) (tau : Qc) (P : rows) (l : vec) : bool :=
  check_farkas n (constrs_of (tighten tau P)) l.
Theorem chk_infeasible_sound n tau P l : chk_infeasible n tau P l = true -> thin n tau P.
Proof.
  unfold chk_infeasible, thin. intros H x Hx Hin.
  apply (check_farkas_sound _ _ _ H x Hx). apply all_hold_constrs_of. exact Hin.
Qed.
Definition chk_empty (n : nat) (P : rows) (l : vec) : bool := check_farkas n (constrs_of P) l.
Theorem chk_empty_sound n P l : chk_empty n P l = true -> forall x, ~ feas n P x.
Proof.
  unfold chk_empty. intros H x [Hx Hin].
  apply (check_farkas_sound _ _ _ H x Hx). apply all_hold_constrs_of. exact Hin.
Qed.

Definition chk_member (n : nat) (tol : Qc) (P : rows) (w : vec) : bool :=
  Nat.eqb (length w) n && contains_tol tol P w.
Lemma chk_member_spec n tol P w : chk_member n tol P w = true <-> length w = n /\ contains_tol tol P w = true.
Proof. unfold chk_member. rewrite andb_true_iff, Nat.eqb_eq. tauto. Qed.

(* dual feasibility: l >= 0 and  sum_i l_i a_i = -c *)
Definition chk_dual (n : nat) (P : rows) (c l : vec) : bool :=
  Nat.eqb (length l) (length P) && wf_rowsb n P && forallb (fun li => qleb 0 li) l &&
  veqb (vecmat n l (map fst P)) (vopp c).
Lemma dot_mono_rows P : forall l x, forallb (fun li => qleb 0 li) l = true -> in_rows P x ->
  dot l (map (fun rb => dot (fst rb) x) P) <= dot l (map snd P).
Proof.
  induction P as [|rb P IH]; intros [|l0 l] x Hl Hin; simpl; try apply Qcle_refl.
  simpl in Hl. apply andb_true_iff in Hl as [H0 Hl]. apply qleb_spec in H0.
  apply Forall_cons_iff in Hin as [Hr Hin]. specialize (IH l x Hl Hin). qnra.
Qed.
Theorem chk_dual_bound n P c l : chk_dual n P c l = true ->
  forall x, in_rows P x -> - dot l (map snd P) <= dot c x.
Proof.
  unfold chk_dual. intros H x Hin.
  apply andb_true_iff in H as [H Heq]. apply andb_true_iff in H as [H Hpos]. apply andb_true_iff in H as [_ Hwf].
  apply veqb_spec in Heq. apply wf_rowsb_spec in Hwf.
  assert (Hc : cols n (map fst P)).
  { unfold cols. rewrite Forall_map. exact Hwf. }
  pose proof (dot_vecmat n l (map fst P) x Hc) as E. rewrite Heq, dot_vopp in E.
  unfold matvec in E. rewrite map_map in E.
  pose proof (dot_mono_rows P l x Hpos Hin) as Hm. rewrite <- E in Hm. qlra.
Qed.
(* chk_bounded: a dual feasible point shows the objective bounded below, so "Unbounded" is wrong *)
Definition chk_bounded := chk_dual.
Theorem chk_bounded_sound n P c l : chk_bounded n P c l = true -> ~ unbounded_below n P c.
Proof.
  intros H U. destruct (U (- dot l (map snd P))) as [x [[_ Hin] Hx]].
  pose proof (chk_dual_bound _ _ _ _ H x Hin). qlra.
Qed.

(* optimality by weak duality: xs feasible, l dual feasible, c.xs <= -b.l *)
Definition chk_optimal (n : nat) (P : rows) (c xs l : vec) : bool :=
  feasb n P xs && chk_dual n P c l && qleb (dot c xs) (- dot l (map snd P)).
Theorem chk_optimal_sound n P c xs l : chk_optimal n P c xs l = true -> is_min n P c xs.
Proof.
  unfold chk_optimal. intros H. apply andb_true_iff in H as [H Hv]. apply andb_true_iff in H as [Hf Hd].
  apply feasb_spec in Hf. apply qleb_spec in Hv. split; auto.
  intros x [_ Hin]. pose proof (chk_dual_bound _ _ _ _ Hd x Hin). qlra.
Qed.
Definition chk_near (delta : Qc) (c xs w : vec) : bool :=
  qleb (dot c xs - delta) (dot c w) && qleb (dot c w) (dot c xs + delta).

(* unboundedness: x0 feasible, A d <= 0, c.d < 0 *)
Definition chk_unbounded (n : nat) (P : rows) (c x0 d : vec) : bool :=
  feasb n P x0 && Nat.eqb (length d) n && forallb (fun rb => qleb (dot (fst rb) d) 0) P && qltb (dot c d) 0.
Lemma qabs_ge y : y <= qabs y.
Proof. unfold qabs. destruct (qleb 0 y) eqn:E; [apply Qcle_refl|]. apply qleb_false in E. qlra. Qed.
Lemma div_mul_cancel a g : g <> 0 -> a / g * g = a.
Proof. intros H. field. exact H. Qed.
Theorem chk_unbounded_sound n P c x0 d : chk_unbounded n P c x0 d = true ->
  (exists x, feas n P x) /\ unbounded_below n P c.
Proof.
  unfold chk_unbounded. intros H.
  apply andb_true_iff in H as [H Hc]. apply andb_true_iff in H as [H Hd]. apply andb_true_iff in H as [Hf Hl].
  apply feasb_spec in Hf. apply Nat.eqb_eq in Hl. apply qltb_spec in Hc. destruct Hf as [Hx0 Hin0].
  split; [exists x0; split; auto|].
  intros M.
  set (g := - dot c d). assert (Hg : 0 < g) by (unfold g; qlra).
  assert (Hgz : g <> 0) by (intros C; rewrite C in Hg; qlra).
  set (k := (qabs (dot c x0 - M) + 1) / g).
  assert (Hkg : k * g = qabs (dot c x0 - M) + 1) by (unfold k; apply div_mul_cancel; exact Hgz).
  pose proof (qabs_ge (dot c x0 - M)) as Ha. pose proof (qabs_nonneg (dot c x0 - M)) as Hn.
  assert (Eg : g = - dot c d) by reflexivity.
  clearbody k g.
  assert (Hk : 0 <= k).
  { destruct (Qclt_le_dec k 0) as [C|C]; auto. exfalso. qnra. }
  assert (Hlen : length x0 = length (vscale k d)) by (rewrite length_vscale; congruence).
  exists (vadd x0 (vscale k d)). split; [split|].
  - rewrite length_vadd by exact Hlen. exact Hx0.
  - unfold in_rows in *. rewrite Forall_forall in *. intros rb Hrb.
    rewrite dot_vadd_r by exact Hlen. rewrite dot_vscale_r.
    specialize (Hin0 rb Hrb). rewrite forallb_forall in Hd. specialize (Hd rb Hrb). apply qleb_spec in Hd. qnra.
  - rewrite dot_vadd_r by exact Hlen. rewrite dot_vscale_r. qnra.
Qed.

(* ------------------------------------------------------------------ unverified search: Fourier-Motzkin projection
   variables (x_1 .. x_n, t); rows  a_i.x <= b_i  and  c.x - t <= 0;  x is eliminated, what is left bounds t. *)
Fixpoint fm_proj (k nv : nat) (rws : list row) : list row :=
  match nv with
  | O => rws
  | S nv' =>
     let pos := filter (fun r => match qsgn (hdc r) with Gt => true | _ => false end) rws in
     let neg := filter (fun r => match qsgn (hdc r) with Lt => true | _ => false end) rws in
     let zer := filter (fun r => match qsgn (hdc r) with Eq => true | _ => false end) rws in
     let npos := map (fun r => scale_row (/ hdc r) r) pos in
     let nneg := map (fun r => scale_row (/ (- hdc r)) r) neg in
     let combos := flat_map (fun p => map (fun q => tail_row (add_row p q)) nneg) npos in
     let combos := filter (fun r => Nat.leb (support r) (S (S k))) combos in
     fm_proj (S k) nv' (map tail_row zer ++ combos)
  end.

Inductive lp_class := LInf (l : vec) | LOpt (xs l : vec) | LUnb (x0 d : vec) | LUnk.

Definition obj_system (P : rows) (c : vec) : list constr :=
  map (fun rb => {| coef := fst rb ++ [0]; rhs := snd rb; strict := false |}) P ++
  [{| coef := c ++ [- (1)]; rhs := 0; strict := false |}].
(* the best lower bound on t among the projected rows  alpha*t <= beta  with alpha < 0 *)
Fixpoint best_lower (rs : list row) (acc : option (Qc * row)) : option (Qc * row) :=
  match rs with
  | [] => acc
  | r :: rs' =>
      let acc' := match qsgn (hdc r) with
                  | Lt => let v := r_rhs r / hdc r in
                          match acc with
                          | Some (w, _) => if qltb w v then Some (v, r) else acc
                          | None => Some (v, r)
                          end
                  | _ => acc
                  end in
      best_lower rs' acc'
  end.
Definition ray_system (P : rows) (c : vec) : list constr :=
  map (fun rb => {| coef := fst rb; rhs := 0; strict := false |}) P ++ [{| coef := c; rhs := - (1); strict := false |}].

Definition lp_search (n : nat) (P : rows) (c : vec) : lp_class :=
  let m := length P in
  let cs := obj_system P c in
  let pr := fm_proj 0 n (init_rows (S m) 0 cs) in
  match find (fun r => match qsgn (hdc r) with Eq => contradictory r | _ => false end) pr with
  | Some r => LInf (firstn m (r_lam r))
  | None =>
    match best_lower pr None with
    | Some (t, r) =>
        let mu := nth m (r_lam r) 0 in
        let l := vscale (/ mu) (firstn m (r_lam r)) in
        match solve n (constrs_of P ++ [{| coef := c; rhs := t; strict := false |}]) with
        | Sat xs => LOpt xs l
        | _ => LUnk
        end
    | None =>
        match solve n (constrs_of P) with
        | Sat x0 => match solve n (ray_system P c) with Sat d => LUnb x0 d | _ => LUnk end
        | Unsat l => LInf l
        | Unknown => LUnk
        end
    end
  end.

(* search + re-check: the class is only reported when its certificate passes the verified checker *)
Definition classify (n : nat) (P : rows) (c : vec) : lp_class :=
  match lp_search n P c with
  | LInf l => if chk_empty n P l then LInf l else LUnk
  | LOpt xs l => if chk_optimal n P c xs l then LOpt xs l else LUnk
  | LUnb x0 d => if chk_unbounded n P c x0 d then LUnb x0 d else LUnk
  | LUnk => LUnk
  end.
Theorem classify_sound n P c :
  match classify n P c with
  | LInf _ => forall x, ~ feas n P x
  | LOpt xs _ => is_min n P c xs
  | LUnb _ _ => (exists x, feas n P x) /\ unbounded_below n P c
  | LUnk => True
  end.
Proof.
  unfold classify. destruct (lp_search n P c) as [l|xs l|x0 d|]; auto.
  - destruct (chk_empty n P l) eqn:E; auto. eapply chk_empty_sound; eauto.
  - destruct (chk_optimal n P c xs l) eqn:E; auto. eapply chk_optimal_sound; eauto.
  - destruct (chk_unbounded n P c x0 d) eqn:E; auto. eapply chk_unbounded_sound; eauto.
Qed.

(* ------------------------------------------------------------------ the referee *)
Inductive reason :=
  | RError              (* the solver reported an error *)
  | RNonemptyByMargin   (* Infeasible, but x has slack tau*|a|_1 on every row *)
  | RWitnessOutside     (* Optimal w, but w violates a row by more than tol (or has the wrong length) *)
  | RNotMinimal         (* Optimal w, but the minimum is attained at xs and c.w differs from it by more than delta *)
  | REmptyOptimal       (* Optimal w, but the set is empty (Farkas vector) *)
  | RUnboundedOptimal   (* Optimal w, but the objective is unbounded below (x0, ray) *)
  | RMinExists          (* Unbounded, but the minimum exists (minimiser, dual multipliers) *)
  | REmptyUnbounded.    (* Unbounded, but the set is empty (Farkas vector) *)
Inductive judgement := JOk | JBad (why : reason) (x y : vec) | JUnknown.

Definition judge (tau tol delta : Qc) (n : nat) (P : rows) (c : vec) (st : status) : judgement :=
  match st with
  | SolverError => JBad RError [] []
  | Infeasible =>
      match solve n (constrs_of (tighten tau P)) with
      | Unsat _ => JOk
      | Sat x => JBad RNonemptyByMargin x []
      | Unknown => JUnknown
      end
  | Optimal w =>
      if negb (chk_member n tol P w) then JBad RWitnessOutside w []
      else match classify n P c with
           | LOpt xs l => if chk_near delta c xs w then JOk else JBad RNotMinimal xs l
           | LInf l => JBad REmptyOptimal l []
           | LUnb x0 d => JBad RUnboundedOptimal x0 d
           | LUnk => JUnknown
           end
  | Unbounded =>
      match classify n P c with
      | LUnb _ _ => JOk
      | LOpt xs l => JBad RMinExists xs l
      | LInf l => JBad REmptyUnbounded l []
      | LUnk => JUnknown
      end
  end.
Definition referee (tau tol delta : Qc) (n : nat) (P : rows) (c : vec) (st : status) : bool :=
  match judge tau tol delta n P c st with JOk => true | _ => false end.

Theorem judge_ok tau tol delta n P c st : judge tau tol delta n P c st = JOk -> Correct tau tol delta n P c st.
Proof.
  unfold judge. destruct st as [| |w|]; simpl.
  - destruct (solve n (constrs_of (tighten tau P))) as [x|l|] eqn:E; try discriminate. intros _.
    intros x Hx Hin. apply (solve_unsat _ _ _ E x Hx). apply all_hold_constrs_of. exact Hin.
  - pose proof (classify_sound n P c) as S. destruct (classify n P c); try discriminate. intros _. exact S.
  - destruct (chk_member n tol P w) eqn:Em; simpl; try discriminate.
    pose proof (classify_sound n P c) as S. destruct (classify n P c) as [l|xs l|x0 d|]; try discriminate.
    destruct (chk_near delta c xs w) eqn:En; try discriminate. intros _.
    apply chk_member_spec in Em as [Hl Hc]. unfold chk_near in En. apply andb_true_iff in En as [E1 E2].
    apply qleb_spec in E1. apply qleb_spec in E2. split; auto. split; auto. exists xs. auto.
  - discriminate.
Qed.
Theorem judge_bad tau tol delta n P c st why x y :
  judge tau tol delta n P c st = JBad why x y -> ~ Correct tau tol delta n P c st.
Proof.
  unfold judge. destruct st as [| |w|]; simpl.
  - destruct (solve n (constrs_of (tighten tau P))) as [x'|l|] eqn:E; try discriminate. intros _ Ht.
    destruct (solve_sat _ _ _ E) as [Hx Hall]. apply (Ht x' Hx). apply all_hold_constrs_of. exact Hall.
  - pose proof (classify_sound n P c) as S. destruct (classify n P c) as [l|xs l|x0 d|]; try discriminate; intros _ [[x' Hf] U].
    + exact (S x' Hf).
    + exact (min_not_unbounded _ _ _ _ S U).
  - destruct (chk_member n tol P w) eqn:Em; simpl.
    + pose proof (classify_sound n P c) as S. destruct (classify n P c) as [l|xs l|x0 d|]; try discriminate.
      * intros _ [_ [_ [ys [[Hf _] _]]]]. exact (S ys Hf).
      * destruct (chk_near delta c xs w) eqn:En; try discriminate. intros _ [_ [_ [ys [Hy [H1 H2]]]]].
        rewrite (min_value_unique _ _ _ _ _ Hy S) in H1, H2.
        unfold chk_near in En. apply andb_false_iff in En as [En|En]; apply qleb_false in En; qlra.
      * intros _ [_ [_ [ys [Hy _]]]]. destruct S as [_ U]. exact (min_not_unbounded _ _ _ _ Hy U).
    + intros _ [Hl [Hc _]]. assert (T : chk_member n tol P w = true) by (apply chk_member_spec; auto). congruence.
  - intros _ F. exact F.
Qed.
Theorem referee_sound tau tol delta n P c st : referee tau tol delta n P c st = true -> Correct tau tol delta n P c st.
Proof. unfold referee. destruct (judge tau tol delta n P c st) eqn:E; try discriminate. intros _. apply judge_ok; auto. Qed.

Definition rejected (tau tol delta : Qc) (n : nat) (P : rows) (c : vec) (st : status) : bool :=
  match judge tau tol delta n P c st with JBad _ _ _ => true | _ => false end.
Theorem rejected_sound tau tol delta n P c st : rejected tau tol delta n P c st = true -> ~ Correct tau tol delta n P c st.
Proof. unfold rejected. destruct (judge tau tol delta n P c st) eqn:E; try discriminate. intros _. eapply judge_bad; eauto. Qed.

(* ------------------------------------------------------------------ the class "optimal face unbounded" (D14)
   the minimum exists and the recession cone contains a direction d <> 0 with c.d = 0 *)
Definition recession (n : nat) (P : rows) (d : vec) : Prop :=
  length d = n /\ Forall (fun rb => dot (fst rb) d <= 0) P.
Definition OptimalFaceUnbounded (n : nat) (P : rows) (c : vec) : Prop :=
  (exists xs, is_min n P c xs) /\ exists d, recession n P d /\ dot c d = 0 /\ exists i, nth i d 0 <> 0.
Definition chk_face_ray (n : nat) (P : rows) (c d : vec) : bool :=
  Nat.eqb (length d) n && forallb (fun rb => qleb (dot (fst rb) d) 0) P && qeqb (dot c d) 0 &&
  existsb (fun v => negb (qeqb v 0)) d.
Lemma existsb_nth (f : Qc -> bool) d : existsb f d = true -> exists i, f (nth i d 0) = true.
Proof.
  induction d as [|a d IH]; simpl; try discriminate. rewrite orb_true_iff. intros [H|H].
  - exists 0%nat. exact H.
  - destruct (IH H) as [i Hi]. exists (S i). exact Hi.
Qed.
Theorem chk_face_ray_sound n P c xs l d : chk_optimal n P c xs l = true -> chk_face_ray n P c d = true ->
  OptimalFaceUnbounded n P c.
Proof.
  intros Ho H. split; [exists xs; eapply chk_optimal_sound; eauto|].
  unfold chk_face_ray in H. apply andb_true_iff in H as [H Hnz]. apply andb_true_iff in H as [H Hc].
  apply andb_true_iff in H as [Hl Hd]. exists d. split; [split|split].
  - apply Nat.eqb_eq; auto.
  - apply Forall_forall. intros rb Hrb. rewrite forallb_forall in Hd. apply qleb_spec. auto.
  - apply qeqb_spec; auto.
  - destruct (existsb_nth _ _ Hnz) as [i Hi]. exists i. apply negb_true_iff in Hi. apply qeqb_false in Hi. exact Hi.
Qed.
(* search for such a direction: for each coordinate and sign, A d <= 0, c.d = 0, (+-)d_i >= 1 *)
Definition face_ray_system (n : nat) (P : rows) (c : vec) (i : nat) (sg : bool) : list constr :=
  map (fun rb => {| coef := fst rb; rhs := 0; strict := false |}) P ++
  [{| coef := c; rhs := 0; strict := false |}; {| coef := vopp c; rhs := 0; strict := false |};
   {| coef := (if sg then vopp (unitv n i) else unitv n i); rhs := - (1); strict := false |}].
Fixpoint find_face_ray_from (n : nat) (P : rows) (c : vec) (is : list nat) : option vec :=
  match is with
  | [] => None
  | i :: is' =>
      match solve n (face_ray_system n P c i true) with
      | Sat d => Some d
      | _ => match solve n (face_ray_system n P c i false) with
             | Sat d => Some d
             | _ => find_face_ray_from n P c is'
             end
      end
  end.
Definition find_face_ray (n : nat) (P : rows) (c : vec) : option vec :=
  match find_face_ray_from n P c (seq 0 n) with
  | Some d => if chk_face_ray n P c d then Some d else None
  | None => None
  end.

(* ------------------------------------------------------------------ the margins used by the tie *)
Definition tau_margin : Qc := qfrac 1 1000000.     (* tau_allow = tau_req = 1e-6, around minilp's EPS = 1e-8 *)
Definition tol_member : Qc := qfrac 1 100000000.   (* Polytope::contains: raw distance >= -1e-8 *)
Definition delta_obj : Qc := qfrac 1 1000000.      (* objective value within 1e-6 of the exact minimum *)
(* on a system that is itself certified thin (no point with slack tau*|a|_1: thinner than the solver tolerance) the
   containment of a witness can only be asked up to the same margin: the tie uses tol_thin instead of tol_member there *)
Definition tol_thin : Qc := qfrac 1 1000000.
Definition tol_for (n : nat) (P : rows) : Qc :=
  match thin_cert n tau_margin P with Some true => tol_thin | _ => tol_member end.

(* Cert/FM.v -- Fourier-Motzkin search with certificate tracking and Kohler pruning (unverified producer),
   re-checked by the verified checkers of Farkas.v: solve_sound. *)
From AT Require Import Num Vec Farkas.

Record row := { r_coef : vec; r_rhs : Qc; r_strict : bool; r_lam : vec }.

Definition qsgn (q : Qc) : comparison := (this q ?= 0)%Q.

Definition scale_row (k : Qc) (r : row) : row :=
  {| r_coef := vscale k (r_coef r); r_rhs := k * r_rhs r; r_strict := r_strict r; r_lam := vscale k (r_lam r) |}.
Definition add_row (p q : row) : row :=
  {| r_coef := vadd (r_coef p) (r_coef q); r_rhs := r_rhs p + r_rhs q;
     r_strict := r_strict p || r_strict q; r_lam := vadd (r_lam p) (r_lam q) |}.
Definition tail_row (r : row) : row :=
  {| r_coef := tl (r_coef r); r_rhs := r_rhs r; r_strict := r_strict r; r_lam := r_lam r |}.
Definition hdc (r : row) : Qc := hd 0 (r_coef r).

Inductive verdict := Sat (x : vec) | Unsat (l : vec) | Unknown.

Definition contradictory (r : row) : bool := qltb (r_rhs r) 0 || (qeqb (r_rhs r) 0 && r_strict r).

(* bound value of a row for x0 given the rest x' : (rhs - tail.x')/c *)
Definition bnd (r : row) (x' : vec) : Qc := (r_rhs r - dot (tl (r_coef r)) x') / hdc r.

Fixpoint maxb (l : list (Qc * bool)) : option (Qc * bool) :=
  match l with [] => None | (v,s) :: l' =>
    match maxb l' with None => Some (v,s) | Some (w,t) =>
      if qltb w v then Some (v,s) else if qltb v w then Some (w,t) else Some (v, s || t) end end.
Fixpoint minb (l : list (Qc * bool)) : option (Qc * bool) :=
  match l with [] => None | (v,s) :: l' =>
    match minb l' with None => Some (v,s) | Some (w,t) =>
      if qltb v w then Some (v,s) else if qltb w v then Some (w,t) else Some (v, s || t) end end.


Definition support (r : row) : nat := length (filter (fun l => negb (qeqb l 0)) (r_lam r)).
Fixpoint fm (k : nat) (nv : nat) (rows : list row) : verdict :=
  match nv with
  | O => match find contradictory rows with Some r => Unsat (r_lam r) | None => Sat [] end
  | S nv' =>
     let pos := filter (fun r => match qsgn (hdc r) with Gt => true | _ => false end) rows in
     let neg := filter (fun r => match qsgn (hdc r) with Lt => true | _ => false end) rows in
     let zer := filter (fun r => match qsgn (hdc r) with Eq => true | _ => false end) rows in
     let npos := map (fun r => scale_row (/ hdc r) r) pos in          (* x0 + ... <= ... *)
     let nneg := map (fun r => scale_row (/ (- hdc r)) r) neg in      (* -x0 + ... <= ... *)
     let combos := flat_map (fun p => map (fun q => tail_row (add_row p q)) nneg) npos in
     let combos := filter (fun r => Nat.leb (support r) (S (S k))) combos in
     match fm (S k) nv' (map tail_row zer ++ combos) with
     | Unsat l => Unsat l
     | Unknown => Unknown
     | Sat x' =>
        let ub := minb (map (fun r => (bnd r x', r_strict r)) pos) in
        let lb := maxb (map (fun r => (bnd r x', r_strict r)) neg) in
        let x0 := match lb, ub with
                  | None, None => 0
                  | Some (l,_), None => l + 1
                  | None, Some (u,_) => u - 1
                  | Some (l,_), Some (u,_) => (l + u) / two
                  end in
        Sat (x0 :: x')
     end
  end.

Fixpoint init_rows (m : nat) (i : nat) (cs : list constr) : list row :=
  match cs with [] => [] | c :: cs' =>
    {| r_coef := coef c; r_rhs := rhs c; r_strict := strict c; r_lam := unitv m i |} :: init_rows m (S i) cs' end.

Definition solve (n : nat) (cs : list constr) : verdict :=
  match fm 0 n (init_rows (length cs) 0 cs) with
  | Sat x => if check_model n cs x then Sat x else Unknown
  | Unsat l => if check_farkas n cs l then Unsat l else Unknown
  | Unknown => Unknown
  end.

Theorem solve_sound n cs :
  match solve n cs with
  | Sat x => length x = n /\ all_hold cs x
  | Unsat _ => forall x, length x = n -> ~ all_hold cs x
  | Unknown => True
  end.
Proof.
  unfold solve. destruct (fm 0 n _) as [x|l|]; auto.
  - destruct (check_model n cs x) eqn:E; auto. apply check_model_sound; auto.
  - destruct (check_farkas n cs l) eqn:E; auto. eapply check_farkas_sound; eauto.
Qed.


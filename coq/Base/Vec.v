(* Base/Vec.v -- vectors and matrices over Qc as lists; linear algebra lemmas. *)
From AT Require Import Num.

Definition vec := list Qc.
Definition mat := list vec.

Fixpoint dot (a x : vec) : Qc :=
  match a, x with a0 :: a', x0 :: x' => a0 * x0 + dot a' x' | _, _ => 0 end.
Fixpoint vzip (f : Qc -> Qc -> Qc) (u v : vec) : vec :=
  match u, v with u0 :: u', v0 :: v' => f u0 v0 :: vzip f u' v' | _, _ => [] end.
Definition vadd := vzip Qcplus.
Definition vsub := vzip Qcminus.
Definition vmul := vzip Qcmult.
Definition vscale (c : Qc) (v : vec) : vec := map (Qcmult c) v.
Definition vopp (v : vec) : vec := map Qcopp v.
Definition vzero (n : nat) : vec := repeat 0 n.
Definition vconst (n : nat) (c : Qc) : vec := repeat c n.
Definition unitv (n i : nat) : vec := map (fun j => if Nat.eqb j i then 1 else 0) (seq 0 n).

Definition matvec (A : mat) (x : vec) : vec := map (fun r => dot r x) A.
Fixpoint vecmat (n : nat) (r : vec) (M : mat) : vec :=
  match r, M with
  | r0 :: r', m0 :: M' => vadd (vscale r0 m0) (vecmat n r' M')
  | _, _ => vzero n
  end.
Definition matmul (n : nat) (A M : mat) : mat := map (fun r => vecmat n r M) A.
Definition cols (n : nat) (M : mat) := Forall (fun r => length r = n) M.
Definition colsb (n : nat) (M : mat) : bool := forallb (fun r => Nat.eqb (length r) n) M.
Definition eye (n : nat) : mat := map (unitv n) (seq 0 n).
Definition mzero (m n : nat) : mat := repeat (vzero n) m.
Definition mopp (A : mat) : mat := map vopp A.
Definition mscale (c : Qc) (A : mat) : mat := map (vscale c) A.
Fixpoint mzip (f : Qc -> Qc -> Qc) (A B : mat) : mat :=
  match A, B with a :: A', b :: B' => vzip f a b :: mzip f A' B' | _, _ => [] end.

Definition veqb (u v : vec) : bool :=
  Nat.eqb (length u) (length v) && forallb (fun p => qeqb (fst p) (snd p)) (combine u v).
Definition meqb (A B : mat) : bool :=
  Nat.eqb (length A) (length B) && forallb (fun p => veqb (fst p) (snd p)) (combine A B).
Definition vall_zero (v : vec) : bool := forallb (fun c => qeqb c 0) v.

Lemma colsb_spec n M : colsb n M = true <-> cols n M.
Proof. unfold colsb, cols. rewrite forallb_forall, Forall_forall. split; intros H r Hr; apply Nat.eqb_eq; auto. Qed.

Lemma veqb_spec u v : veqb u v = true <-> u = v.
Proof.
  unfold veqb. revert v; induction u as [|a u IH]; intros [|b v]; simpl; split; intros H; try discriminate; auto.
  - apply andb_true_iff in H as [H1 H2]. apply andb_true_iff in H2 as [H2 H3]. apply qeqb_spec in H2. subst.
    f_equal. apply IH. rewrite H1, H3. reflexivity.
  - inversion H; subst. rewrite qeqb_refl. simpl. apply IH. reflexivity.
Qed.
Lemma meqb_spec A B : meqb A B = true <-> A = B.
Proof.
  unfold meqb. revert B; induction A as [|a A IH]; intros [|b B]; simpl; split; intros H; try discriminate; auto.
  - apply andb_true_iff in H as [H1 H2]. apply andb_true_iff in H2 as [H2 H3]. apply veqb_spec in H2. subst.
    f_equal. apply IH. rewrite H1, H3. reflexivity.
  - inversion H; subst. assert (E : veqb b b = true) by (apply veqb_spec; auto). rewrite E. simpl. apply IH. reflexivity.
Qed.

(* ---- lengths ---- *)
Lemma length_vzip f u v : length (vzip f u v) = Nat.min (length u) (length v).
Proof. revert v; induction u; intros [|]; simpl; auto. Qed.
Lemma length_vadd u v : length u = length v -> length (vadd u v) = length u.
Proof. intros H. unfold vadd. rewrite length_vzip. lia. Qed.
Lemma length_vsub u v : length u = length v -> length (vsub u v) = length u.
Proof. intros H. unfold vsub. rewrite length_vzip. lia. Qed.
Lemma length_vscale c v : length (vscale c v) = length v. Proof. apply map_length. Qed.
Lemma length_vopp v : length (vopp v) = length v. Proof. apply map_length. Qed.
Lemma length_vzero n : length (vzero n) = n. Proof. apply repeat_length. Qed.
Lemma length_unitv n i : length (unitv n i) = n. Proof. unfold unitv. rewrite map_length, seq_length. auto. Qed.
Lemma length_matvec A x : length (matvec A x) = length A. Proof. apply map_length. Qed.
Lemma length_vecmat n r M : cols n M -> length (vecmat n r M) = n.
Proof.
  revert M; induction r as [|r0 r IH]; intros [|m0 M] H; simpl; auto using length_vzero.
  apply Forall_cons_iff in H as [H0 H]. rewrite length_vadd; rewrite length_vscale; auto. rewrite IH; auto.
Qed.
Lemma cols_matmul n A M : cols n M -> cols n (matmul n A M).
Proof. intros H. unfold cols, matmul. apply Forall_forall. intros r Hr. apply in_map_iff in Hr as [r' [<- _]]. apply length_vecmat; auto. Qed.
Lemma length_matmul n A M : length (matmul n A M) = length A. Proof. apply map_length. Qed.

(* ---- dot ---- *)
Lemma dot_nil_r a : dot a [] = 0. Proof. destruct a; auto. Qed.
Lemma dot_vzero n x : dot (vzero n) x = 0.
Proof. revert x; induction n; intros [|x0 x]; simpl; auto. rewrite IHn; ring. Qed.
Lemma dot_vzero_r a n : dot a (vzero n) = 0.
Proof. revert n; induction a; intros [|n]; simpl; auto. rewrite IHa; ring. Qed.
Lemma dot_vscale c v x : dot (vscale c v) x = c * dot v x.
Proof. revert x; induction v as [|v0 v IH]; intros [|x0 x]; simpl; try ring. rewrite IH; ring. Qed.
Lemma dot_vscale_r c v x : dot v (vscale c x) = c * dot v x.
Proof. revert x; induction v as [|v0 v IH]; intros [|x0 x]; simpl; try ring. rewrite IH; ring. Qed.
Lemma dot_vopp v x : dot (vopp v) x = - dot v x.
Proof. revert x; induction v as [|v0 v IH]; intros [|x0 x]; simpl; try ring. rewrite IH; ring. Qed.
Lemma dot_vadd u v x : length u = length v -> dot (vadd u v) x = dot u x + dot v x.
Proof.
  revert v x; induction u as [|u0 u IH]; intros [|v0 v] [|x0 x] H; simpl in *; try discriminate; try ring.
  unfold vadd in IH. rewrite IH by lia. ring.
Qed.
Lemma dot_vsub u v x : length u = length v -> dot (vsub u v) x = dot u x - dot v x.
Proof.
  revert v x; induction u as [|u0 u IH]; intros [|v0 v] [|x0 x] H; simpl in *; try discriminate; try ring.
  unfold vsub in IH. rewrite IH by lia. ring.
Qed.
Lemma dot_vadd_r r u v : length u = length v -> dot r (vadd u v) = dot r u + dot r v.
Proof.
  revert u v; induction r as [|r0 r IH]; intros [|u0 u] [|v0 v] H; simpl in *; try discriminate; try ring.
  unfold vadd in IH. rewrite IH by lia. ring.
Qed.
Lemma dot_vsub_r r u v : length u = length v -> dot r (vsub u v) = dot r u - dot r v.
Proof.
  revert u v; induction r as [|r0 r IH]; intros [|u0 u] [|v0 v] H; simpl in *; try discriminate; try ring.
  unfold vsub in IH. rewrite IH by lia. ring.
Qed.
Lemma dot_comm u v : dot u v = dot v u.
Proof. revert v; induction u as [|a u IH]; intros [|b v]; simpl; auto. rewrite IH. ring. Qed.
Lemma dot_all_zero v x : vall_zero v = true -> dot v x = 0.
Proof.
  unfold vall_zero. revert x; induction v as [|v0 v IH]; intros [|x0 x]; simpl; auto.
  rewrite andb_true_iff. intros [H1 H2]. apply qeqb_spec in H1. subst. rewrite IH by auto. ring.
Qed.

Lemma dot_vecmat n r M x : cols n M -> dot (vecmat n r M) x = dot r (matvec M x).
Proof.
  revert M; induction r as [|r0 r IH]; intros [|m0 M] H; simpl; auto using dot_vzero.
  apply Forall_cons_iff in H as [H0 H].
  rewrite dot_vadd, dot_vscale, IH; auto.
  rewrite length_vscale, length_vecmat; auto.
Qed.
Lemma matvec_matmul n A M x : cols n M -> matvec (matmul n A M) x = matvec A (matvec M x).
Proof. intros H. unfold matvec, matmul. rewrite map_map. apply map_ext. intros r. apply dot_vecmat; auto. Qed.
Lemma matvec_vadd A u v : length u = length v -> matvec A (vadd u v) = vadd (matvec A u) (matvec A v).
Proof. intros H. induction A as [|r A IH]; simpl; auto. unfold vadd in *. simpl. rewrite IH. f_equal. apply dot_vadd_r; auto. Qed.
Lemma vadd_assoc u v w : vadd (vadd u v) w = vadd u (vadd v w).
Proof. unfold vadd. revert v w; induction u; intros [|] [|]; simpl; auto. rewrite IHu. f_equal. ring. Qed.
Lemma vadd_comm u v : vadd u v = vadd v u.
Proof. unfold vadd. revert v; induction u; intros [|]; simpl; auto. rewrite IHu. f_equal. ring. Qed.

(* ---- nth ---- *)
Lemma nth_vzip f u v i d : (i < length u)%nat -> (i < length v)%nat ->
  nth i (vzip f u v) d = f (nth i u d) (nth i v d).
Proof.
  revert v i; induction u as [|a u IH]; intros [|b v] [|i] H1 H2; simpl in *; try lia; auto.
  apply IH; lia.
Qed.
Lemma nth_matvec A x i : (i < length A)%nat -> nth i (matvec A x) 0 = dot (nth i A []) x.
Proof.
  unfold matvec. intros H. rewrite (nth_indep _ 0 (dot [] x)) by (rewrite map_length; auto).
  apply (map_nth (fun r => dot r x)).
Qed.
Lemma nth_unitv n i j : (j < n)%nat -> nth j (unitv n i) 0 = if Nat.eqb j i then 1 else 0.
Proof.
  intros H. unfold unitv.
  rewrite (nth_indep _ 0 ((fun j => if Nat.eqb j i then 1 else 0) 0%nat)) by (rewrite map_length, seq_length; auto).
  rewrite (map_nth (fun j => if Nat.eqb j i then 1 else 0)). rewrite seq_nth by auto. reflexivity.
Qed.

Lemma dot_unitv_gen n i k x : dot (map (fun j => if Nat.eqb j i then 1 else 0) (seq k n)) x =
  if (Nat.leb k i && Nat.ltb i (k + n))%bool then nth (i - k) x 0 else 0.
Proof.
  revert k x; induction n as [|n IH]; intros k x; simpl.
  - destruct (Nat.leb k i) eqn:E1; simpl; auto. destruct (Nat.ltb i (k + 0)) eqn:E2; auto.
    apply Nat.leb_le in E1. apply Nat.ltb_lt in E2. lia.
  - destruct x as [|x0 x].
    + destruct (_ && _)%bool; auto. destruct (i - k)%nat; auto.
    + rewrite IH. destruct (Nat.eqb k i) eqn:E.
      * apply Nat.eqb_eq in E. subst k. rewrite Nat.leb_refl. replace (Nat.ltb i (i + S n)) with true by (symmetry; apply Nat.ltb_lt; lia).
        replace (Nat.leb (S i) i) with false by (symmetry; apply Nat.leb_gt; lia). simpl. rewrite Nat.sub_diag. ring.
      * apply Nat.eqb_neq in E. destruct (Nat.leb k i) eqn:E1.
        -- apply Nat.leb_le in E1. replace (Nat.leb (S k) i) with true by (symmetry; apply Nat.leb_le; lia).
           replace (S k + n)%nat with (k + S n)%nat by lia. simpl. destruct (Nat.ltb i (k + S n)); try ring.
           replace (i - k)%nat with (S (i - S k)) by lia. simpl. ring.
        -- apply Nat.leb_gt in E1. replace (Nat.leb (S k) i) with false by (symmetry; apply Nat.leb_gt; lia). simpl. ring.
Qed.
Lemma dot_unitv n i x : (i < n)%nat -> dot (unitv n i) x = nth i x 0.
Proof.
  intros H. unfold unitv. rewrite dot_unitv_gen. simpl. replace (Nat.ltb i n) with true by (symmetry; apply Nat.ltb_lt; auto).
  rewrite Nat.sub_0_r. reflexivity.
Qed.

Lemma matvec_eye_gen n k m x : length x = n -> (k + m <= n)%nat ->
  map (fun r => dot r x) (map (unitv n) (seq k m)) = firstn m (skipn k x).
Proof.
  intros Hx. revert k; induction m as [|m IH]; intros k Hk; simpl; auto.
  rewrite IH by lia. rewrite dot_unitv by lia.
  assert (Hlt : (k < length x)%nat) by lia.
  clear IH. revert Hlt. generalize x as y. induction k as [|k IHk]; intros [|y0 y] Hlt; simpl in *; try lia; auto.
  apply IHk; lia.
Qed.
Lemma matvec_eye n x : length x = n -> matvec (eye n) x = x.
Proof.
  intros H. unfold matvec, eye. rewrite (matvec_eye_gen n 0 n x H) by lia. simpl. subst n. apply firstn_all.
Qed.

(* Base/Aff.v -- affine maps / polytopes as (input dimension, matrix, bias). *)
From AT Require Import Num Vec.

Record aff := { a_in : nat; a_mat : mat; a_bias : vec }.
Definition apply (f : aff) (x : vec) : vec := vadd (matvec (a_mat f) x) (a_bias f).
Definition wf_aff (f : aff) : Prop := cols (a_in f) (a_mat f) /\ length (a_mat f) = length (a_bias f).
Definition wf_affb (f : aff) : bool := colsb (a_in f) (a_mat f) && Nat.eqb (length (a_mat f)) (length (a_bias f)).
Definition outdim (f : aff) : nat := length (a_mat f).
Definition acompose (f g : aff) : aff :=
  {| a_in := a_in g; a_mat := matmul (a_in g) (a_mat f) (a_mat g); a_bias := apply f (a_bias g) |}.
Definition aff_eqb (f g : aff) : bool :=
  Nat.eqb (a_in f) (a_in g) && meqb (a_mat f) (a_mat g) && veqb (a_bias f) (a_bias g).

Lemma wf_affb_spec f : wf_affb f = true <-> wf_aff f.
Proof. unfold wf_affb, wf_aff. rewrite andb_true_iff, colsb_spec, Nat.eqb_eq. tauto. Qed.

Lemma aff_eqb_spec f g : aff_eqb f g = true <-> f = g.
Proof.
  unfold aff_eqb. rewrite !andb_true_iff, Nat.eqb_eq, meqb_spec, veqb_spec.
  destruct f, g; simpl. split; [intros [[-> ->] ->]; reflexivity | intros H; inversion H; auto].
Qed.

Lemma length_apply f x : wf_aff f -> length (apply f x) = outdim f.
Proof. intros [_ H]. unfold apply, outdim. rewrite length_vadd; rewrite length_matvec; auto. Qed.

Lemma apply_acompose f g x : wf_aff f -> wf_aff g -> a_in f = outdim g ->
  apply (acompose f g) x = apply f (apply g x).
Proof.
  intros [Hf1 Hf2] [Hg1 Hg2] Hd. unfold apply, acompose; simpl.
  rewrite matvec_matmul by auto.
  rewrite matvec_vadd. 2:{ rewrite length_matvec. auto. }
  rewrite vadd_assoc. reflexivity.
Qed.

Lemma wf_acompose f g : wf_aff f -> wf_aff g -> a_in f = outdim g -> wf_aff (acompose f g).
Proof.
  intros [Hf1 Hf2] [Hg1 Hg2] Hd. unfold acompose, wf_aff; simpl. split.
  - apply cols_matmul; auto.
  - rewrite length_matmul. unfold apply. rewrite length_vadd; rewrite length_matvec; auto.
Qed.
Lemma outdim_acompose f g : outdim (acompose f g) = outdim f.
Proof. unfold outdim, acompose; simpl. apply length_matmul. Qed.

(* coefficient-wise operators (impl_ops.rs); aop_div is undefined (None) on a zero divisor coefficient *)
Definition aop (fo : Qc -> Qc -> Qc) (f g : aff) : aff :=
  {| a_in := a_in f; a_mat := mzip fo (a_mat f) (a_mat g); a_bias := vzip fo (a_bias f) (a_bias g) |}.
Definition aadd := aop Qcplus.
Definition asub := aop Qcminus.
Definition amul := aop Qcmult.
Definition aneg (f : aff) : aff := {| a_in := a_in f; a_mat := mopp (a_mat f); a_bias := vopp (a_bias f) |}.
Definition same_shape (f g : aff) : Prop :=
  a_in f = a_in g /\ outdim f = outdim g.
Definition same_shapeb (f g : aff) : bool := Nat.eqb (a_in f) (a_in g) && Nat.eqb (outdim f) (outdim g).

Lemma mzip_length fo A B : length (mzip fo A B) = Nat.min (length A) (length B).
Proof. revert B; induction A; intros [|]; simpl; auto. Qed.
Lemma cols_mzip fo n A B : cols n A -> cols n B -> cols n (mzip fo A B).
Proof.
  revert B; induction A as [|a A IH]; intros [|b B] HA HB; simpl; try constructor.
  - apply Forall_cons_iff in HA as [Ha HA]. apply Forall_cons_iff in HB as [Hb HB]. rewrite length_vzip. lia.
  - apply Forall_cons_iff in HA as [Ha HA]. apply Forall_cons_iff in HB as [Hb HB]. apply IH; auto.
Qed.
Lemma wf_aop fo f g : wf_aff f -> wf_aff g -> same_shape f g -> wf_aff (aop fo f g).
Proof.
  intros [Hf1 Hf2] [Hg1 Hg2] [Hi Ho]. unfold aop, wf_aff, outdim in *; simpl. split.
  - apply cols_mzip; auto. rewrite Hi; auto.
  - rewrite mzip_length, length_vzip. lia.
Qed.

Lemma matvec_mzip_add A B x : cols (length x) A -> cols (length x) B -> length A = length B ->
  matvec (mzip Qcplus A B) x = vadd (matvec A x) (matvec B x).
Proof.
  revert B; induction A as [|a A IH]; intros [|b B] HA HB HL; simpl in *; try discriminate; auto.
  apply Forall_cons_iff in HA as [Ha HA]. apply Forall_cons_iff in HB as [Hb HB].
  unfold vadd in *. simpl. f_equal; [ | apply IH; auto].
  apply (dot_vadd a b x). congruence.
Qed.
Lemma matvec_mzip_sub A B x : cols (length x) A -> cols (length x) B -> length A = length B ->
  matvec (mzip Qcminus A B) x = vsub (matvec A x) (matvec B x).
Proof.
  revert B; induction A as [|a A IH]; intros [|b B] HA HB HL; simpl in *; try discriminate; auto.
  apply Forall_cons_iff in HA as [Ha HA]. apply Forall_cons_iff in HB as [Hb HB].
  unfold vsub in *. simpl. f_equal; [ | apply IH; auto].
  apply (dot_vsub a b x). congruence.
Qed.
Lemma vzip_add4 a b c d : length a = length b -> length b = length c -> length c = length d ->
  vadd (vadd a b) (vadd c d) = vadd (vadd a c) (vadd b d).
Proof.
  unfold vadd. revert b c d; induction a as [|a0 a IH]; intros [|b0 b] [|c0 c] [|d0 d] H1 H2 H3; simpl in *; try discriminate; auto.
  f_equal; [ring | apply IH; lia].
Qed.
Lemma vzip_sub4 a b c d : length a = length b -> length b = length c -> length c = length d ->
  vadd (vsub a b) (vsub c d) = vsub (vadd a c) (vadd b d).
Proof.
  unfold vadd, vsub. revert b c d; induction a as [|a0 a IH]; intros [|b0 b] [|c0 c] [|d0 d] H1 H2 H3; simpl in *; try discriminate; auto.
  f_equal; [ring | apply IH; lia].
Qed.

Lemma apply_aadd f g x : wf_aff f -> wf_aff g -> same_shape f g -> length x = a_in f ->
  apply (aadd f g) x = vadd (apply f x) (apply g x).
Proof.
  intros [Hf1 Hf2] [Hg1 Hg2] [Hi Ho] Hx. unfold apply, aadd, aop, outdim in *; simpl.
  rewrite matvec_mzip_add; try congruence.
  apply vzip_add4; rewrite ?length_matvec; congruence.
Qed.
Lemma apply_asub f g x : wf_aff f -> wf_aff g -> same_shape f g -> length x = a_in f ->
  apply (asub f g) x = vsub (apply f x) (apply g x).
Proof.
  intros [Hf1 Hf2] [Hg1 Hg2] [Hi Ho] Hx. unfold apply, asub, aop, outdim in *; simpl.
  rewrite matvec_mzip_sub; try congruence.
  apply vzip_sub4; rewrite ?length_matvec; congruence.
Qed.
Lemma dot_vopp_l a x : dot (vopp a) x = - dot a x. Proof. apply dot_vopp. Qed.
Lemma apply_aneg f x : wf_aff f -> apply (aneg f) x = vopp (apply f x).
Proof.
  intros [Hf1 Hf2]. unfold apply, aneg; simpl. unfold matvec, mopp, vadd, vopp. rewrite map_map.
  revert Hf2. generalize (a_bias f). induction (a_mat f) as [|r A IH]; intros [|b0 b] H; simpl in *; try discriminate; auto.
  apply Forall_cons_iff in Hf1 as [_ Hf1]. f_equal; [ | apply IH; auto].
  rewrite dot_vopp. ring.
Qed.

(* Base/PolySimplex.v -- C14: Polytope::simplex(dim).  The code uses sqrt(dim + 1); the model takes s with
   s * s = dim + 1, s > 0 as an argument.  Proved for every dim >= 1: the dim + 1 vertices e_0..e_{dim-1},
   ((1 - s)/dim) * (1..1) satisfy every row, each with exactly dim rows tight; pairwise squared distance 2 (edge
   length sqrt 2); the origin is strictly inside; and the polytope IS the convex hull of the vertices
   (barycentric coordinates). *)
From AT Require Import Num Vec Aff Poly AffOps PolyCtor PolyCtorProofs.

(* ---- the rational of a natural number ---- *)
Lemma qn_0 : qn 0 = 0.
Proof. apply Qc_is_canon. reflexivity. Qed.
Lemma qn_S n : qn (S n) = qn n + 1.
Proof.
  unfold qn, qz. apply Qc_is_canon. rewrite this_add. cbn [this Q2Qc]. rewrite !Qred_correct.
  unfold Qeq, Qplus. cbn [Qnum Qden]. rewrite Nat2Z.inj_succ. change (this 1) with 1%Q. cbn [Qnum Qden]. lia.
Qed.
Lemma qn_nonneg n : 0 <= qn n.
Proof. induction n as [|n IH]; [rewrite qn_0; qlra | rewrite qn_S; qlra]. Qed.
Lemma qn_pos n : (1 <= n)%nat -> 0 < qn n.
Proof. destruct n as [|n]; [lia|]. intros _. rewrite qn_S. pose proof (qn_nonneg n). qlra. Qed.

(* ---- sums and constant vectors ---- *)
Lemma vsum_vconst n c : vsum (vconst n c) = qn n * c.
Proof. unfold vconst, vsum. induction n as [|n IH]; cbn [repeat fold_right]; [rewrite qn_0; ring | rewrite IH, qn_S; ring]. Qed.
Lemma nth_vconst n c i : (i < n)%nat -> nth i (vconst n c) 0 = c.
Proof. unfold vconst. revert i; induction n as [|n IH]; intros [|i] H; simpl; try lia; auto. apply IH; lia. Qed.
Lemma length_vconst n c : length (vconst n c) = n.
Proof. apply repeat_length. Qed.
Lemma dot_ones n x : length x = n -> dot (vconst n 1) x = vsum x.
Proof. intros <-. apply dot_vconst_one. Qed.
Lemma vsum_unitv n k : (k < n)%nat -> vsum (unitv n k) = 1.
Proof. intros H. rewrite <- (dot_ones n) by apply length_unitv. rewrite dot_comm, dot_unitv, nth_vconst by auto. reflexivity. Qed.

(* ---- the rows ---- *)
Definition simplex_rowvec (n : nat) (s : Qc) (i : nat) : vec := if Nat.ltb i n then simplex_row n s i else vconst n 1.
Lemma simplex_mat n s : a_mat (p_simplex n s) = map (simplex_rowvec n s) (seq 0 (S n)).
Proof.
  unfold p_simplex; simpl a_mat. rewrite seq_S, map_app. simpl. f_equal.
  - apply map_ext_in. intros i Hi. apply in_seq in Hi. unfold simplex_rowvec.
    replace (Nat.ltb i n) with true by (symmetry; apply Nat.ltb_lt; lia). reflexivity.
  - unfold simplex_rowvec. rewrite Nat.ltb_irrefl. reflexivity.
Qed.
Lemma dot_simplex_row n s i x : (i < n)%nat -> length x = n ->
  dot (simplex_row n s i) x = vsum x - (1 + s + qn n) * nth i x 0.
Proof.
  intros Hi Hx. unfold simplex_row, simplex_diag. rewrite dot_vset by (rewrite length_vconst; auto).
  rewrite dot_ones, nth_vconst by auto. ring.
Qed.
Lemma dot_simplex_rowvec n s i x : length x = n ->
  dot (simplex_rowvec n s i) x = if Nat.ltb i n then vsum x - (1 + s + qn n) * nth i x 0 else vsum x.
Proof.
  intros Hx. unfold simplex_rowvec. destruct (Nat.ltb i n) eqn:E.
  - apply Nat.ltb_lt in E. apply dot_simplex_row; auto.
  - apply dot_ones; auto.
Qed.
Lemma wf_simplex n s : wf_aff (p_simplex n s).
Proof.
  split.
  - rewrite simplex_mat. simpl a_in. unfold cols. rewrite Forall_map. apply Forall_forall. intros i _.
    unfold simplex_rowvec, simplex_row, vset. destruct (Nat.ltb i n); rewrite ?length_lset; apply length_vconst.
  - rewrite simplex_mat, map_length, seq_length. unfold p_simplex, vconst, mk; cbn [a_bias]. rewrite repeat_length. reflexivity.
Qed.
(* membership row by row *)
Lemma in_simplex_rows n s x : length x = n ->
  (in_poly (p_simplex n s) x <-> forall i, (i <= n)%nat -> dot (simplex_rowvec n s i) x <= 1).
Proof.
  intros Hx. unfold in_poly. rewrite simplex_mat. change (a_bias (p_simplex n s)) with (vconst (S n) 1). unfold matvec. rewrite map_map.
  unfold vconst. rewrite vle_repeat by (rewrite map_length, seq_length; auto). rewrite Forall_map, Forall_forall.
  split; intros H i Hi; [apply H; apply in_seq; lia | apply H; apply in_seq in Hi; lia].
Qed.

(* ---- vertices ---- *)
Lemma length_simplex_vertex n s k : length (simplex_vertex n s k) = n.
Proof. unfold simplex_vertex, simplex_apex. destruct (Nat.ltb k n); [apply length_unitv | apply length_vconst]. Qed.
Lemma nth_unitv' n k i : (i < n)%nat -> nth i (unitv n k) 0 = if Nat.eqb i k then 1 else 0.
Proof. apply nth_unitv. Qed.
(* row i at vertex k: tight (= 1) unless i = k, where it is strictly slack *)
Lemma simplex_incidence n s : (1 <= n)%nat -> s * s = qn n + 1 -> 0 < s ->
  forall k i, (k <= n)%nat -> (i <= n)%nat ->
    (i <> k -> dot (simplex_rowvec n s i) (simplex_vertex n s k) = 1) /\
    (i = k -> dot (simplex_rowvec n s i) (simplex_vertex n s k) < 1).
Proof.
  intros Hn Hs Hpos k i Hk Hi. pose proof (qn_pos n Hn) as HN.
  rewrite dot_simplex_rowvec by apply length_simplex_vertex. unfold simplex_vertex.
  destruct (Nat.ltb k n) eqn:Ek.
  - apply Nat.ltb_lt in Ek. rewrite vsum_unitv by auto. destruct (Nat.ltb i n) eqn:Ei.
    + apply Nat.ltb_lt in Ei. rewrite nth_unitv by auto. destruct (Nat.eqb i k) eqn:E.
      * apply Nat.eqb_eq in E. split; [congruence|]. intros _. qlra.
      * apply Nat.eqb_neq in E. split; [intros _; ring | congruence].
    + apply Nat.ltb_ge in Ei. split; [auto | lia].
  - apply Nat.ltb_ge in Ek. assert (k = n) by lia. subst k. unfold simplex_apex. rewrite vsum_vconst.
    assert (HN0 : qn n <> 0) by (intros C; rewrite C in HN; qlra).
    destruct (Nat.ltb i n) eqn:Ei.
    + apply Nat.ltb_lt in Ei. rewrite nth_vconst by auto. split; [|lia]. intros _.
      assert (E : qn n = s * s - 1) by (rewrite Hs; ring). rewrite E in *. field. exact HN0.
    + split; [intros C; apply Nat.ltb_ge in Ei; lia|]. intros _.
      assert (E : qn n * ((1 - s) / qn n) = 1 - s) by (field; exact HN0). rewrite E. qlra.
Qed.
Lemma simplex_vertex_in n s k : (1 <= n)%nat -> s * s = qn n + 1 -> 0 < s -> (k <= n)%nat ->
  in_poly (p_simplex n s) (simplex_vertex n s k).
Proof.
  intros Hn Hs Hpos Hk. apply in_simplex_rows; [apply length_simplex_vertex|]. intros i Hi.
  destruct (simplex_incidence n s Hn Hs Hpos k i Hk Hi) as [H1 H2].
  destruct (Nat.eq_dec i k) as [E|E]; [specialize (H2 E); qlra | rewrite (H1 E); qlra].
Qed.
(* the origin is strictly inside *)
Lemma simplex_origin n s : forall i, (i <= n)%nat -> dot (simplex_rowvec n s i) (vzero n) < 1.
Proof. intros i _. rewrite dot_vzero_r. qlra. Qed.
Lemma simplex_origin_in n s : in_poly (p_simplex n s) (vzero n).
Proof. apply in_simplex_rows; [apply length_vzero|]. intros i Hi. pose proof (simplex_origin n s i Hi). qlra. Qed.

(* squared Euclidean distance *)
Definition sqdist (u v : vec) : Qc := dot (vsub u v) (vsub u v).
Lemma sqdist_expand u v : length u = length v -> sqdist u v = dot u u - (1 + 1) * dot u v + dot v v.
Proof.
  intros H. unfold sqdist. rewrite dot_vsub by auto. rewrite !dot_vsub_r by auto. rewrite (dot_comm v u). ring.
Qed.
Lemma dot_unitv_unitv n j k : (j < n)%nat -> (k < n)%nat -> dot (unitv n j) (unitv n k) = if Nat.eqb j k then 1 else 0.
Proof. intros Hj Hk. rewrite dot_unitv by auto. apply nth_unitv; auto. Qed.
Lemma simplex_edges n s : (1 <= n)%nat -> s * s = qn n + 1 ->
  forall j k, (j <= n)%nat -> (k <= n)%nat -> j <> k -> sqdist (simplex_vertex n s j) (simplex_vertex n s k) = 1 + 1.
Proof.
  intros Hn Hs j k Hj Hk Hne. pose proof (qn_pos n Hn) as HN.
  assert (HN0 : qn n <> 0) by (intros C; rewrite C in HN; qlra).
  assert (E : qn n = s * s - 1) by (rewrite Hs; ring).
  rewrite sqdist_expand by (rewrite !length_simplex_vertex; auto).
  assert (Hapex : forall m, (m < n)%nat ->
            dot (unitv n m) (unitv n m) - (1 + 1) * dot (unitv n m) (simplex_apex n s) + dot (simplex_apex n s) (simplex_apex n s) = 1 + 1).
  { intros m Hm. rewrite dot_unitv_unitv, Nat.eqb_refl by auto. unfold simplex_apex.
    rewrite dot_unitv, nth_vconst by auto. rewrite dot_vconst_r by apply length_vconst. rewrite vsum_vconst.
    rewrite E in *. field. exact HN0. }
  unfold simplex_vertex. destruct (Nat.ltb j n) eqn:Ej; destruct (Nat.ltb k n) eqn:Ek.
  - apply Nat.ltb_lt in Ej, Ek. rewrite !dot_unitv_unitv, !Nat.eqb_refl by auto.
    replace (Nat.eqb j k) with false by (symmetry; apply Nat.eqb_neq; auto). ring.
  - apply Nat.ltb_lt in Ej. apply Hapex; auto.
  - apply Nat.ltb_lt in Ek. rewrite (dot_comm (simplex_apex n s) (unitv n k)). etransitivity; [|exact (Hapex k Ek)]. ring.
  - apply Nat.ltb_ge in Ej, Ek. lia.
Qed.

(* ---- convex combinations ---- *)
Lemma dot_weights_le l : forall vals b, length l = length vals -> Forall (fun a => 0 <= a) l ->
  Forall (fun v => v <= b) vals -> dot l vals <= b * vsum l.
Proof.
  induction l as [|a l IH]; intros [|v vals] b HL Hl Hv; simpl in *; try discriminate; [qlra|].
  apply Forall_cons_iff in Hl as [Ha Hl]. apply Forall_cons_iff in Hv as [Hv0 Hv].
  specialize (IH vals b). unfold vsum in *. assert (H := IH ltac:(lia) Hl Hv). qnra.
Qed.
(* a polytope is convex: a convex combination of points of P is a point of P *)
Lemma in_poly_convex P lam vs : wf_aff P -> length lam = length vs -> cols (a_in P) vs ->
  Forall (fun a => 0 <= a) lam -> vsum lam = 1 -> Forall (in_poly P) vs ->
  in_poly P (vecmat (a_in P) lam vs).
Proof.
  intros [HPc HPl] HL Hc Hpos Hsum Hin. unfold in_poly in *.
  assert (Hrows : forall r b, (forall v, In v vs -> dot r v <= b) -> dot r (vecmat (a_in P) lam vs) <= b).
  { intros r b Hr. rewrite dot_comm, dot_vecmat by auto.
    assert (H := dot_weights_le lam (matvec vs r) b). rewrite length_matvec in H. specialize (H HL Hpos).
    rewrite Hsum in H. replace (b * 1) with b in H by ring. apply H. unfold matvec. rewrite Forall_map.
    apply Forall_forall. intros v Hv. rewrite dot_comm. auto. }
  revert HPl Hin. generalize (a_bias P). clear HPc. intros bb. revert bb.
  induction (a_mat P) as [|r A IH]; intros [|b0 bb] HPl Hin; simpl in *; try discriminate; [apply vle_nil|].
  apply vle_cons. split.
  - apply Hrows. intros v Hv. rewrite Forall_forall in Hin. specialize (Hin v Hv). apply vle_cons in Hin. tauto.
  - apply IH; [lia|]. eapply Forall_impl; [|exact Hin]. intros v Hv. apply vle_cons in Hv. tauto.
Qed.

(* ---- vecmat against a list of unit vectors ---- *)
Lemma nth_vscale c v i : nth i (vscale c v) 0 = c * nth i v 0.
Proof. unfold vscale. revert i; induction v as [|a v IH]; intros [|i]; simpl; try ring; auto. Qed.
Lemma nth_vecmat n j : (j < n)%nat -> forall r M, cols n M -> nth j (vecmat n r M) 0 = dot r (mcol j M).
Proof.
  intros Hj. induction r as [|r0 r IH]; intros [|m0 M] Hc; simpl; try apply nth_vzero.
  apply Forall_cons_iff in Hc as [Hm Hc]. unfold vadd. rewrite nth_vzip by (rewrite ?length_vscale, ?length_vecmat; auto; lia).
  rewrite nth_vscale, IH by auto. reflexivity.
Qed.
Lemma mcol_eye n j : (j < n)%nat -> mcol j (eye n) = unitv n j.
Proof.
  intros Hj. unfold mcol, eye, unitv. rewrite map_map. apply map_ext_in. intros i Hi. apply in_seq in Hi.
  fold (unitv n i). rewrite nth_unitv by auto. rewrite Nat.eqb_sym. reflexivity.
Qed.
Lemma vecmat_eye n l : length l = n -> vecmat n l (eye n) = l.
Proof.
  intros Hl. apply (nth_ext _ _ 0 0).
  - rewrite length_vecmat by apply cols_eye. auto.
  - intros j Hj. rewrite length_vecmat in Hj by apply cols_eye.
    rewrite nth_vecmat, mcol_eye by (auto; apply cols_eye). rewrite dot_comm. apply dot_unitv; auto.
Qed.
Lemma vadd_vzero_l n w : length w = n -> vadd (vzero n) w = w.
Proof. intros H. rewrite vadd_comm. apply vadd_vzero_r; auto. Qed.
Lemma vecmat_app n : forall l1 M1 l2 M2, length l1 = length M1 -> cols n M1 -> cols n M2 ->
  vecmat n (l1 ++ l2) (M1 ++ M2) = vadd (vecmat n l1 M1) (vecmat n l2 M2).
Proof.
  induction l1 as [|a l1 IH]; intros [|m M1] l2 M2 HL H1 H2; simpl in *; try discriminate.
  - symmetry. apply vadd_vzero_l. apply length_vecmat; auto.
  - apply Forall_cons_iff in H1 as [Hm H1]. rewrite IH by (auto; lia). symmetry. apply vadd_assoc.
Qed.

(* ---- barycentric coordinates ---- *)
Definition bary (s : Qc) (x : vec) : vec :=
  map (fun xk => (1 - vsum x) / (s * (s + 1)) + xk) x ++ [(1 - vsum x) / s].
Lemma vsum_app u v : vsum (u ++ v) = vsum u + vsum v.
Proof. unfold vsum. induction u as [|a u IH]; simpl; [ring | rewrite IH; ring]. Qed.
Lemma vsum_map_shift c x : vsum (map (fun xk => c + xk) x) = qn (length x) * c + vsum x.
Proof. unfold vsum. induction x as [|a x IH]; [simpl; rewrite qn_0; ring|]. cbn [map fold_right length]. rewrite IH, qn_S. ring. Qed.
Lemma bary_sum n s x : length x = n -> s * s = qn n + 1 -> 0 < s -> vsum (bary s x) = 1.
Proof.
  intros Hx Hs Hpos. unfold bary. rewrite vsum_app, vsum_map_shift, Hx.
  assert (E : qn n = s * s - 1) by (rewrite Hs; ring). rewrite E.
  assert (E1 : forall a, vsum [a] = a) by (intros a; unfold vsum; cbn [fold_right]; ring). rewrite E1.
  assert (Hs0 : s <> 0) by (intros C; qlra).
  assert (Hs1 : s + 1 <> 0) by (intros C; qlra).
  set (S := vsum x). clearbody S. field. split; assumption.
Qed.
Lemma vadd_map_const c d x : vadd (map (fun xk => c + xk) x) (vconst (length x) d) = map (fun xk => c + xk + d) x.
Proof. unfold vadd, vconst. induction x as [|a x IH]; simpl; auto. rewrite IH. reflexivity. Qed.
Lemma vscale_vconst t n c : vscale t (vconst n c) = vconst n (t * c).
Proof. unfold vscale, vconst. induction n; simpl; auto. rewrite IHn. reflexivity. Qed.
Lemma bary_point n s x : (1 <= n)%nat -> length x = n -> s * s = qn n + 1 -> 0 < s ->
  vecmat n (bary s x) (simplex_vertices n s) = x.
Proof.
  intros Hn Hx Hs Hpos. pose proof (qn_pos n Hn) as HN. unfold bary, simplex_vertices.
  rewrite vecmat_app.
  2:{ rewrite map_length, length_eye; auto. }
  2:{ apply cols_eye. }
  2:{ constructor; [apply length_vconst | constructor]. }
  rewrite vecmat_eye by (rewrite map_length; auto).
  cbn [vecmat]. rewrite vadd_vzero_r by (rewrite length_vscale; apply length_vconst).
  unfold simplex_apex. rewrite vscale_vconst. rewrite <- Hx at 1. rewrite vadd_map_const.
  transitivity (map (fun a : Qc => a) x); [|apply map_id]. apply map_ext. intros a.
  assert (E : qn n = s * s - 1) by (rewrite Hs; ring). rewrite E. rewrite E in HN.
  assert (Hs0 : s <> 0) by (intros C; qlra).
  assert (Hs1 : s + 1 <> 0) by (intros C; qlra).
  assert (HN0 : s * s - 1 <> 0) by (intros C; rewrite C in HN; qlra).
  field. repeat split; assumption.
Qed.
Lemma bary_nonneg n s x : length x = n -> s * s = qn n + 1 -> 0 < s ->
  (in_poly (p_simplex n s) x <-> Forall (fun a => 0 <= a) (bary s x)).
Proof.
  intros Hx Hs Hpos. rewrite in_simplex_rows by auto. unfold bary. rewrite Forall_app, Forall_map.
  assert (Hss : 0 < s * (s + 1)) by qnra.
  assert (E : s * (s + 1) = 1 + s + qn n) by (assert (E0 : qn n = s * s - 1) by (rewrite Hs; ring); rewrite E0; ring).
  assert (Hs0 : s <> 0) by (intros C; qlra).
  assert (Hs1 : s + 1 <> 0) by (intros C; qlra).
  assert (D1 : forall r, r = r / (s * (s + 1)) * (s * (s + 1))) by (intros r; field; split; assumption).
  assert (D2 : forall r, r = r / s * s) by (intros r; field; assumption).
  split.
  - intros H. split.
    + apply Forall_forall. intros a Ha. destruct (In_nth _ _ 0 Ha) as [i [Hi Hnth]]. rewrite Hx in Hi.
      assert (Hr := H i ltac:(lia)). rewrite dot_simplex_rowvec in Hr by auto.
      replace (Nat.ltb i n) with true in Hr by (symmetry; apply Nat.ltb_lt; auto). rewrite Hnth in Hr.
      pose proof (D1 (1 - vsum x)) as Hd. set (q := (1 - vsum x) / (s * (s + 1))) in *. clearbody q.
      rewrite <- E in Hr. qnra.
    + constructor; [|constructor]. assert (Hr := H n ltac:(lia)). rewrite dot_simplex_rowvec in Hr by auto.
      rewrite Nat.ltb_irrefl in Hr. pose proof (D2 (1 - vsum x)) as Hd. set (q := (1 - vsum x) / s) in *. clearbody q. qnra.
  - intros [H1 H2] i Hi. rewrite dot_simplex_rowvec by auto. destruct (Nat.ltb i n) eqn:Ei.
    + apply Nat.ltb_lt in Ei. rewrite Forall_forall in H1. assert (Ha := H1 (nth i x 0) ltac:(apply nth_In; lia)).
      pose proof (D1 (1 - vsum x)) as Hd. set (q := (1 - vsum x) / (s * (s + 1))) in *. clearbody q.
      rewrite <- E. qnra.
    + apply Forall_cons_iff in H2 as [H2 _]. pose proof (D2 (1 - vsum x)) as Hd. set (q := (1 - vsum x) / s) in *. clearbody q. qnra.
Qed.
Lemma cols_simplex_vertices n s : cols n (simplex_vertices n s).
Proof. unfold simplex_vertices. apply Forall_app. split; [apply cols_eye | constructor; [apply length_vconst | constructor]]. Qed.
Lemma length_simplex_vertices n s : length (simplex_vertices n s) = S n.
Proof. unfold simplex_vertices. rewrite app_length, length_eye. simpl. lia. Qed.
Lemma simplex_vertices_nth n s : simplex_vertices n s = map (simplex_vertex n s) (seq 0 (S n)).
Proof.
  unfold simplex_vertices. rewrite seq_S, map_app. simpl. f_equal.
  - unfold eye. apply map_ext_in. intros k Hk. apply in_seq in Hk. unfold simplex_vertex.
    replace (Nat.ltb k n) with true by (symmetry; apply Nat.ltb_lt; lia). reflexivity.
  - unfold simplex_vertex. rewrite Nat.ltb_irrefl. reflexivity.
Qed.
(* the simplex polytope is exactly the convex hull of its dim + 1 vertices *)
Lemma simplex_hull n s x : (1 <= n)%nat -> s * s = qn n + 1 -> 0 < s -> length x = n ->
  (in_poly (p_simplex n s) x <->
   exists lam, length lam = S n /\ Forall (fun a => 0 <= a) lam /\ vsum lam = 1 /\
               x = vecmat n lam (simplex_vertices n s)).
Proof.
  intros Hn Hs Hpos Hx. split.
  - intros H. exists (bary s x). split; [unfold bary; rewrite app_length, map_length; simpl; lia|].
    split; [apply (bary_nonneg n); auto|]. split; [apply (bary_sum n); auto|]. symmetry. apply bary_point; auto.
  - intros [lam [HL [Hp [Hsum ->]]]].
    apply (in_poly_convex (p_simplex n s) lam (simplex_vertices n s)); auto.
    + apply wf_simplex.
    + rewrite length_simplex_vertices; auto.
    + apply cols_simplex_vertices.
    + rewrite simplex_vertices_nth, Forall_map. apply Forall_forall. intros k Hk. apply in_seq in Hk.
      apply simplex_vertex_in; auto; lia.
Qed.

(* Base/PolyCtorProofs.v -- C14: membership theorems for the polytope constructors and transformations of
   PolyCtor.v, for every dimension, argument and point. *)
From AT Require Import Num Vec Aff Poly AffOps PolyCtor.

(* ------------------------------------------------------------------ helpers *)
Lemma wf_mk_lengths P : wf_aff P -> length (a_mat P) = length (a_bias P).
Proof. intros [_ H]; exact H. Qed.
Lemma vsub_vadd_cancel u c : length u = length c -> vsub (vadd u c) c = u.
Proof.
  unfold vsub, vadd. revert c; induction u as [|a u IH]; intros [|b c] H; simpl in *; try discriminate; auto.
  rewrite IH by lia. f_equal. ring.
Qed.
Lemma vadd_vsub_cancel u c : length u = length c -> vadd (vsub u c) c = u.
Proof.
  unfold vsub, vadd. revert c; induction u as [|a u IH]; intros [|b c] H; simpl in *; try discriminate; auto.
  rewrite IH by lia. f_equal. ring.
Qed.
Lemma matvec_vsub A u v : length u = length v -> matvec A (vsub u v) = vsub (matvec A u) (matvec A v).
Proof. intros H. induction A as [|r A IH]; simpl; auto. unfold vsub in *. simpl. rewrite IH. f_equal. apply dot_vsub_r; auto. Qed.
Lemma vle_shift u b w : length u = length b -> length w = length b ->
  (vle u (vadd b w) <-> vle (vsub u w) b).
Proof.
  unfold vadd, vsub. revert b w; induction u as [|u0 u IH]; intros [|b0 b] [|w0 w] H1 H2; simpl in *; try discriminate.
  - split; intros; apply vle_nil.
  - rewrite !vle_cons, IH by lia. split; intros [Ha Hb]; split; auto; qlra.
Qed.
Lemma vle_shift_opp u b w : length u = length b -> length w = length b ->
  (vle u (vadd (vopp w) b) <-> vle (vadd u w) b).
Proof.
  unfold vadd, vopp. revert b w; induction u as [|u0 u IH]; intros [|b0 b] [|w0 w] H1 H2; simpl in *; try discriminate.
  - split; intros; apply vle_nil.
  - rewrite !vle_cons, IH by lia. split; intros [Ha Hb]; split; auto; qlra.
Qed.
Lemma length_vsub' u v : length u = length v -> length (vsub u v) = length v.
Proof. intros H. rewrite length_vsub; auto. Qed.

(* ------------------------------------------------------------------ unbounded, empty *)
Lemma in_unbounded n x : in_poly (p_unbounded n) x.
Proof. unfold in_poly, p_unbounded; simpl. apply vle_cons. split; [|apply vle_nil]. rewrite dot_vzero. qlra. Qed.
Lemma in_empty n x : ~ in_poly (p_empty n) x.
Proof. unfold in_poly, p_empty; simpl. intros H. apply vle_cons in H as [H _]. rewrite dot_vzero in H. qlra. Qed.
Lemma wf_unbounded n : wf_aff (p_unbounded n).
Proof. split; simpl; auto. constructor; auto. apply length_vzero. Qed.
Lemma wf_empty n : wf_aff (p_empty n).
Proof. split; simpl; auto. constructor; auto. apply length_vzero. Qed.

(* ------------------------------------------------------------------ hypercube *)
Lemma qabs_le x r : qabs x <= r <-> x <= r /\ - x <= r.
Proof.
  unfold qabs. destruct (qleb 0 x) eqn:E.
  - apply qleb_spec in E. split; [intros H; split; qlra | intros [H1 H2]; qlra].
  - apply qleb_false in E. split; [intros H; split; qlra | intros [H1 H2]; qlra].
Qed.
Lemma Forall_vopp_le x r : Forall (fun a => a <= r) (vopp x) <-> Forall (fun a => - a <= r) x.
Proof. unfold vopp. rewrite Forall_map. reflexivity. Qed.
Lemma Forall_and_iff {A} (P Q : A -> Prop) l : Forall P l /\ Forall Q l <-> Forall (fun a => P a /\ Q a) l.
Proof.
  induction l as [|a l IH]; simpl.
  - split; intros; [constructor | split; constructor].
  - rewrite !Forall_cons_iff, <- IH. tauto.
Qed.
Lemma in_hypercube n r x : length x = n ->
  (in_poly (p_hypercube n r) x <-> Forall (fun xi => qabs xi <= r) x).
Proof.
  intros Hx. unfold p_hypercube. rewrite repeat_app.
  rewrite in_poly_app by (rewrite length_eye, repeat_length; auto).
  unfold in_poly; simpl. rewrite matvec_mopp, matvec_eye by auto.
  rewrite !vle_repeat by (rewrite ?length_vopp; auto).
  rewrite Forall_vopp_le, Forall_and_iff.
  split; intros H; eapply Forall_impl; try exact H; intros a Ha; apply qabs_le; auto.
Qed.
Lemma wf_hypercube n r : wf_aff (p_hypercube n r).
Proof.
  split; simpl.
  - apply Forall_app. split; [apply cols_eye|]. unfold mopp, cols. rewrite Forall_map.
    eapply Forall_impl; [|apply cols_eye]. intros a Ha. simpl. rewrite length_vopp. auto.
  - rewrite app_length. unfold mopp. rewrite map_length, length_eye, repeat_length. reflexivity.
Qed.

(* ------------------------------------------------------------------ translate *)
Lemma in_translate P d x : wf_aff P -> length d = a_in P -> length x = a_in P ->
  exists Q, p_translate P d = Some Q /\ wf_aff Q /\ (in_poly Q x <-> in_poly P (vsub x d)).
Proof.
  intros [Hc HL] Hd Hx. unfold p_translate. rewrite Hd, Nat.eqb_refl. eexists; split; [reflexivity|]. split.
  - split; simpl; auto. rewrite length_vadd; rewrite ?length_matvec; auto.
  - unfold in_poly; simpl. rewrite matvec_vsub by congruence.
    apply vle_shift; rewrite !length_matvec; auto.
Qed.
Lemma translate_panics P d : length d <> a_in P -> p_translate P d = None.
Proof. intros H. unfold p_translate. apply Nat.eqb_neq in H. rewrite H. reflexivity. Qed.

(* ------------------------------------------------------------------ intersection, intersection_n *)
Lemma in_intersection P Q x : wf_aff P -> wf_aff Q -> a_in P = a_in Q ->
  exists R, p_intersection P Q = Some R /\ wf_aff R /\ (in_poly R x <-> in_poly P x /\ in_poly Q x).
Proof.
  intros HP HQ Hd. destruct (stack_rs_apply P Q x HP HQ Hd) as [R [HR [Hw _]]].
  exists R. split; auto. split; auto.
  unfold p_intersection, stack_rs in HR. rewrite Hd, Nat.eqb_refl in HR. inversion HR; subst R.
  unfold astack. apply in_poly_app. destruct HP; auto.
Qed.
Lemma intersection_panics P Q : a_in P <> a_in Q -> p_intersection P Q = None.
Proof. apply stack_rs_panics. Qed.

Lemma in_poly_concat n ps x : Forall (fun p => length (a_mat p) = length (a_bias p)) ps ->
  (in_poly (mk n (concat (map a_mat ps)) (concat (map a_bias ps))) x <-> Forall (fun p => in_poly p x) ps).
Proof.
  induction 1 as [|p ps Hp Hps IH]; simpl.
  - split; intros; [constructor | apply vle_nil].
  - rewrite in_poly_app by auto. rewrite IH, Forall_cons_iff. unfold in_poly; simpl. tauto.
Qed.
Lemma in_intersection_n_nil dim x : exists R, p_intersection_n dim [] = Some R /\ wf_aff R /\ in_poly R x.
Proof. exists (p_unbounded dim). split; [reflexivity|]. split; [apply wf_unbounded | apply in_unbounded]. Qed.
Lemma concat_lengths ps : Forall wf_aff ps -> length (concat (map a_mat ps)) = length (concat (map a_bias ps)).
Proof. induction 1 as [|p l [_ Hp] Hl IH]; simpl; auto. rewrite !app_length. lia. Qed.
Lemma concat_cols n ps : Forall wf_aff ps -> Forall (fun p => a_in p = n) ps -> cols n (concat (map a_mat ps)).
Proof.
  unfold cols. induction 1 as [|p l [Hp _] Hl IH]; intros Hall; simpl; [constructor|].
  apply Forall_cons_iff in Hall as [Hp0 Hall]. apply Forall_app. split; [rewrite <- Hp0; auto | apply IH; auto].
Qed.
Lemma in_intersection_n dim p0 ps x : Forall wf_aff (p0 :: ps) -> Forall (fun p => a_in p = a_in p0) ps ->
  exists R, p_intersection_n dim (p0 :: ps) = Some R /\ wf_aff R /\ a_in R = a_in p0 /\
            (in_poly R x <-> Forall (fun p => in_poly p x) (p0 :: ps)).
Proof.
  intros Hw Hd. unfold p_intersection_n.
  assert (E : forallb (fun p => Nat.eqb (a_in p) (a_in p0)) (p0 :: ps) = true).
  { apply forallb_forall. intros p [<-|Hp]; [apply Nat.eqb_refl|]. rewrite Forall_forall in Hd. apply Nat.eqb_eq; auto. }
  rewrite E. unfold from_mats_rs.
  rewrite (concat_lengths _ Hw), Nat.eqb_refl. eexists; split; [reflexivity|]. split; [|split; [reflexivity|]].
  - split; [|apply (concat_lengths _ Hw)]. apply concat_cols; auto.
  - apply in_poly_concat. eapply Forall_impl; [|exact Hw]. intros p [_ Hp]; auto.
Qed.
Lemma intersection_n_panics dim p0 ps : ~ Forall (fun p => a_in p = a_in p0) ps -> p_intersection_n dim (p0 :: ps) = None.
Proof.
  intros H. unfold p_intersection_n.
  destruct (forallb (fun p => Nat.eqb (a_in p) (a_in p0)) (p0 :: ps)) eqn:E; auto.
  exfalso. apply H. rewrite forallb_forall in E. apply Forall_forall. intros p Hp. apply Nat.eqb_eq. apply E. right; auto.
Qed.

(* ------------------------------------------------------------------ apply_pre *)
Lemma in_apply_pre P f x : wf_aff P -> wf_aff f -> a_in P = outdim f ->
  exists Q, p_apply_pre P f = Some Q /\ wf_aff Q /\ a_in Q = a_in f /\ (in_poly Q x <-> in_poly P (apply f x)).
Proof.
  intros [HPc HPl] [Hfc Hfl] Hd. unfold p_apply_pre. rewrite Hd, Nat.eqb_refl.
  eexists; split; [reflexivity|]. split; [|split; [reflexivity|]].
  - split; simpl; [apply cols_matmul; auto|].
    rewrite length_matmul, length_vadd; rewrite length_vopp, length_matvec; auto.
  - unfold in_poly, apply; simpl. rewrite matvec_matmul by auto.
    rewrite matvec_vadd by (rewrite length_matvec; auto).
    apply vle_shift_opp; rewrite !length_matvec; auto.
Qed.
Lemma apply_pre_panics P f : a_in P <> outdim f -> p_apply_pre P f = None.
Proof. intros H. unfold p_apply_pre. apply Nat.eqb_neq in H. rewrite H. reflexivity. Qed.

(* ------------------------------------------------------------------ apply_post *)
(* the polytope built from (inverse matrix, bias) holds y iff inverse * (y - bias) is in P *)
Lemma in_apply_post P inv c y : wf_aff P -> cols (a_in P) inv -> length inv = a_in P -> length c = a_in P ->
  length y = a_in P ->
  exists Q, p_apply_post P (a_in P) inv c = Some Q /\ wf_aff Q /\ a_in Q = a_in P /\
            (in_poly Q y <-> in_poly P (matvec inv (vsub y c))).
Proof.
  intros [HPc HPl] Hic Hil Hcl Hy. unfold p_apply_post. rewrite Hil, Hcl, !Nat.eqb_refl. simpl andb.
  eexists; split; [reflexivity|]. split; [|split; [reflexivity|]].
  - split; simpl; [apply cols_matmul; auto|].
    rewrite length_matmul, length_vadd; rewrite !length_matvec; auto.
  - unfold in_poly; simpl. rewrite matvec_matmul by auto.
    rewrite matvec_vsub by congruence. rewrite matvec_vsub by (rewrite !length_matvec; auto).
    rewrite (vadd_comm _ (a_bias P)).
    apply vle_shift; rewrite !length_matvec; auto.
Qed.
Lemma apply_post_panics P k inv c :
  a_in P <> length inv \/ length inv <> length c \/ k <> length c -> p_apply_post P k inv c = None.
Proof.
  intros H. unfold p_apply_post.
  destruct (Nat.eqb (a_in P) (length inv)) eqn:E1; auto. destruct (Nat.eqb (length inv) (length c)) eqn:E2; auto.
  destruct (Nat.eqb k (length c)) eqn:E3; auto.
  apply Nat.eqb_eq in E1, E2, E3. exfalso. destruct H as [H|[H|H]]; auto.
Qed.
(* exactly the images of P's points under x |-> M x + c, M the inverse of the matrix handed in *)
Lemma apply_post_image P M inv c y : wf_aff P -> cols (a_in P) inv -> length inv = a_in P ->
  cols (a_in P) M -> length M = a_in P ->
  matmul (a_in P) inv M = eye (a_in P) -> matmul (a_in P) M inv = eye (a_in P) ->
  length c = a_in P -> length y = a_in P ->
  exists Q, p_apply_post P (a_in P) inv c = Some Q /\ wf_aff Q /\
            (in_poly Q y <-> exists x, length x = a_in P /\ in_poly P x /\ y = vadd (matvec M x) c).
Proof.
  intros HP Hic Hil HMc HMl HiM HMi Hcl Hy.
  destruct (in_apply_post P inv c y HP Hic Hil Hcl Hy) as [Q [HQ [Hw [_ Hiff]]]].
  exists Q. split; auto. split; auto. rewrite Hiff. split.
  - intros H. exists (matvec inv (vsub y c)). split; [rewrite length_matvec; auto|]. split; auto.
    rewrite <- (matvec_matmul (a_in P)) by auto. rewrite HMi. rewrite matvec_eye by (rewrite length_vsub; congruence).
    symmetry. apply vadd_vsub_cancel. congruence.
  - intros [x [Hx [Hin ->]]].
    rewrite vsub_vadd_cancel by (rewrite length_matvec; congruence).
    rewrite <- (matvec_matmul (a_in P)) by auto. rewrite HiM. rewrite matvec_eye by auto. exact Hin.
Qed.

(* ------------------------------------------------------------------ rotate *)
Lemma length_mcol j M : length (mcol j M) = length M.
Proof. apply map_length. Qed.
Lemma length_transpose k M : length (transpose k M) = k.
Proof. unfold transpose. rewrite map_length, seq_length. reflexivity. Qed.
Lemma cols_transpose k M : cols (length M) (transpose k M).
Proof. unfold cols, transpose. rewrite Forall_map. apply Forall_forall. intros j _. apply length_mcol. Qed.
(* y is in rotate(P, R) iff R^T y is in P -- no assumption on R beyond its shape *)
Lemma in_rotate P R y : wf_aff P -> length R = a_in P -> length y = a_in P ->
  exists Q, p_rotate P (a_in P) R = Some Q /\ wf_aff Q /\ a_in Q = a_in P /\
            (in_poly Q y <-> in_poly P (matvec (transpose (a_in P) R) y)).
Proof.
  intros HP HRl Hy. unfold p_rotate. rewrite HRl.
  destruct (in_apply_post P (transpose (a_in P) R) (vzero (a_in P)) y HP) as [Q [HQ [Hw [Hi Hiff]]]]; auto.
  - rewrite <- HRl at 1. apply cols_transpose.
  - apply length_transpose.
  - apply length_vzero.
  - exists Q. split; auto. split; auto. split; auto. rewrite Hiff.
    replace (vsub y (vzero (a_in P))) with y; [reflexivity|].
    clear - Hy. unfold vsub, vzero. revert Hy. generalize (a_in P). induction y as [|a y IH]; intros [|n] H; simpl in *; try discriminate; auto.
    rewrite <- IH by lia. f_equal. ring.
Qed.
(* for an orthogonal R (R^T R = R R^T = I): exactly the images R x of P's points *)
Lemma rotate_image P R y : wf_aff P -> length R = a_in P -> cols (a_in P) R ->
  matmul (a_in P) (transpose (a_in P) R) R = eye (a_in P) ->
  matmul (a_in P) R (transpose (a_in P) R) = eye (a_in P) ->
  length y = a_in P ->
  exists Q, p_rotate P (a_in P) R = Some Q /\ wf_aff Q /\
            (in_poly Q y <-> exists x, length x = a_in P /\ in_poly P x /\ y = matvec R x).
Proof.
  intros HP HRl HRc H1 H2 Hy. unfold p_rotate. rewrite HRl.
  destruct (apply_post_image P R (transpose (a_in P) R) (vzero (a_in P)) y HP) as [Q [HQ [Hw Hiff]]]; auto.
  - rewrite <- HRl at 1. apply cols_transpose.
  - apply length_transpose.
  - apply length_vzero.
  - exists Q. split; auto. split; auto. rewrite Hiff.
    split; intros [x [Hx [Hin He]]]; exists x; split; auto; split; auto.
    + rewrite He. apply vadd_vzero_r. rewrite length_matvec; auto.
    + rewrite He. symmetry. apply vadd_vzero_r. rewrite length_matvec; auto.
Qed.
(* with R^T R = I alone: every image R x of a point of P is in the result *)
Lemma rotate_image_incl P R x : wf_aff P -> length R = a_in P -> cols (a_in P) R ->
  matmul (a_in P) (transpose (a_in P) R) R = eye (a_in P) -> length x = a_in P -> in_poly P x ->
  exists Q, p_rotate P (a_in P) R = Some Q /\ in_poly Q (matvec R x).
Proof.
  intros HP HRl HRc H1 Hx Hin.
  destruct (in_rotate P R (matvec R x) HP HRl) as [Q [HQ [_ [_ Hiff]]]]; [rewrite length_matvec; auto|].
  exists Q. split; auto. apply Hiff. rewrite <- (matvec_matmul (a_in P)) by auto. rewrite H1, matvec_eye by auto. exact Hin.
Qed.
Lemma rotate_panics P k R : length R <> a_in P \/ k <> a_in P -> p_rotate P k R = None.
Proof.
  intros H. unfold p_rotate. apply apply_post_panics. rewrite length_transpose, length_vzero.
  destruct H as [H|H]; [right; right; auto | left; auto].
Qed.

(* ------------------------------------------------------------------ from_normal *)
Lemma vsum_vmul_dot r p : vsum (vzip Qcmult r p) = dot r p.
Proof. revert p; induction r as [|a r IH]; intros [|b p]; simpl; auto. rewrite IH. reflexivity. Qed.
Lemma from_normal_rows n x : length x = n -> forall N Pm, length N = length Pm -> cols n Pm ->
  (vle (matvec (mopp N) x) (vopp (map vsum (mzip Qcmult N Pm))) <->
   Forall2 (fun nr pr => 0 <= dot nr (vsub x pr)) N Pm).
Proof.
  intros Hx. induction N as [|nr N IH]; intros [|pr Pm] HL Hc; simpl in *; try discriminate.
  - split; intros; [constructor | apply vle_nil].
  - apply Forall_cons_iff in Hc as [Hp Hc]. rewrite vle_cons, F2_cons_iff, IH by (auto; lia).
    rewrite vsum_vmul_dot, dot_vopp, dot_vsub_r by congruence.
    split; intros [H1 H2]; split; auto; qlra.
Qed.
(* normals and points of equal shape: the half-spaces n_i . (x - p_i) >= 0 (inward normals, as
   test_poly_normal_constructor pins it) *)
Lemma in_from_normal n N Pm x : cols n N -> cols n Pm -> length N = length Pm -> length x = n ->
  exists Q, p_from_normal n N n Pm = Some Q /\ wf_aff Q /\ a_in Q = n /\
            (in_poly Q x <-> Forall2 (fun nr pr => 0 <= dot nr (vsub x pr)) N Pm).
Proof.
  intros HNc HPc HL Hx. unfold p_from_normal. rewrite <- HL, !bdim_same.
  rewrite (bmat_same (length N) n N), (bmat_same (length N) n Pm) by auto. unfold from_mats_rs.
  assert (E : length (mopp N) = length (vopp (map vsum (mzip Qcmult N Pm)))).
  { unfold mopp, vopp. rewrite !map_length, mzip_length. lia. }
  rewrite E, Nat.eqb_refl. eexists; split; [reflexivity|]. split; [|split; [reflexivity|]].
  - split; auto. simpl. unfold mopp, cols. rewrite Forall_map. eapply Forall_impl; [|exact HNc].
    intros a Ha. simpl. rewrite length_vopp; auto.
  - unfold in_poly; simpl. apply (from_normal_rows n); auto.
Qed.
(* more points than normals (rows) cannot be broadcast into the normals: from_mats' assertion fails *)
Lemma from_normal_panics nn N np Pm :
  bdim (length N) (length Pm) = None \/ bdim nn np = None \/
  (exists m, bdim (length N) (length Pm) = Some m /\ m <> length N) -> p_from_normal nn N np Pm = None.
Proof.
  unfold p_from_normal. intros [H|[H|[m [H Hm]]]]; rewrite H; auto.
  - destruct (bdim (length N) (length Pm)); auto.
  - destruct (bdim nn np) as [k|]; auto. unfold from_mats_rs.
    replace (Nat.eqb (length (mopp N)) (length (vopp (map vsum (mzip Qcmult (bmat m k N) (bmat m k Pm)))))) with false; auto.
    symmetry. apply Nat.eqb_neq. unfold mopp, vopp. rewrite !map_length, mzip_length.
    assert (Hb : forall A, length (bmat m k A) = m).
    { intros A. unfold bmat. destruct (Nat.eqb (length (map (bvec k) A)) m) eqn:E; [apply Nat.eqb_eq; auto | apply repeat_length]. }
    rewrite !Hb. lia.
Qed.

(* ------------------------------------------------------------------ axis_bounds, hyperrectangle *)
Lemma dot_axis n axis c x : (axis < n)%nat -> dot (vset (vzero n) axis c) x = c * nth axis x 0.
Proof. intros H. rewrite dot_vset by (rewrite length_vzero; auto). rewrite dot_vzero, nth_vzero. ring. Qed.
Lemma lo_row_sat n axis l x : (axis < n)%nat -> l <> BNaN ->
  (dot (fst (lo_row n axis l)) x <= snd (lo_row n axis l) <-> lo_sat l (nth axis x 0)).
Proof.
  intros H Hn. destruct l as [q| | |]; simpl; try congruence.
  - rewrite dot_axis by auto. split; intros; qlra.
  - rewrite dot_vzero. split; [intros; qlra | tauto].
  - rewrite dot_vzero. split; [tauto | intros; qlra].
Qed.
Lemma hi_row_sat n axis u x : (axis < n)%nat -> u <> BNaN ->
  (dot (fst (hi_row n axis u)) x <= snd (hi_row n axis u) <-> hi_sat u (nth axis x 0)).
Proof.
  intros H Hn. destruct u as [q| | |]; simpl; try congruence.
  - rewrite dot_axis by auto. split; intros; qlra.
  - rewrite dot_vzero. split; [tauto | intros; qlra].
  - rewrite dot_vzero. split; [intros; qlra | tauto].
Qed.
Lemma ebleb_not_nan l u : ebleb l u = true -> l <> BNaN /\ u <> BNaN.
Proof. destruct l, u; simpl; intros H; split; congruence. Qed.
Lemma length_lo_row n axis l : length (fst (lo_row n axis l)) = n.
Proof. destruct l; simpl; unfold vset; rewrite ?length_lset; apply length_vzero. Qed.
Lemma length_hi_row n axis u : length (fst (hi_row n axis u)) = n.
Proof. destruct u; simpl; unfold vset; rewrite ?length_lset; apply length_vzero. Qed.
Lemma wf_of_rows n rows : Forall (fun rb => length (fst rb) = n) rows -> wf_aff (of_rows n rows).
Proof. intros H. split; simpl; [unfold cols; rewrite Forall_map; auto | rewrite !map_length; auto]. Qed.
Lemma in_axis_bounds n axis l u x : (axis < n)%nat -> ebleb l u = true ->
  exists P, p_axis_bounds n axis l u = Some P /\ wf_aff P /\ a_in P = n /\
            (in_poly P x <-> lo_sat l (nth axis x 0) /\ hi_sat u (nth axis x 0)).
Proof.
  intros Ha Hle. unfold p_axis_bounds, axis_rows. apply Nat.ltb_lt in Ha as Ha'. rewrite Ha', Hle. simpl.
  eexists; split; [reflexivity|]. split; [|split; [reflexivity|]].
  - apply wf_of_rows. repeat constructor; [apply length_lo_row | apply length_hi_row].
  - destruct (ebleb_not_nan _ _ Hle) as [Hl Hu]. rewrite in_poly_rows, !Forall_cons_iff.
    rewrite lo_row_sat, hi_row_sat by auto. split; [intros [H1 [H2 _]]; auto | intros [H1 H2]; repeat split; auto].
Qed.
Lemma axis_bounds_panics n axis l u : (n <= axis)%nat \/ ebleb l u = false -> p_axis_bounds n axis l u = None.
Proof.
  unfold p_axis_bounds, axis_rows. intros [H|H].
  - apply Nat.ltb_ge in H. rewrite H. reflexivity.
  - rewrite H. destruct (Nat.ltb axis n); reflexivity.
Qed.

Lemma hyper_rows_sat n : forall ivs k pre post, length pre = k -> length post = length ivs ->
  (k + length ivs <= n)%nat -> Forall (fun iv => ebleb (fst iv) (snd iv) = true) ivs ->
  exists rows, hyper_rows n k ivs = Some rows /\ Forall (fun rb => length (fst rb) = n) rows /\
    (Forall (fun rb => dot (fst rb) (pre ++ post) <= snd rb) rows <-> Forall2 iv_sat ivs post).
Proof.
  induction ivs as [|[l u] ivs IH]; intros k pre [|xi post] Hpre Hpost Hk Hle; simpl in *; try discriminate.
  - exists []. split; auto. split; [constructor|]. split; constructor.
  - apply Forall_cons_iff in Hle as [Hle0 Hle]. simpl in Hle0.
    destruct (IH (S k) (pre ++ [xi]) post) as [rows [Hr [Hlen Hiff]]]; auto; try lia.
    { rewrite app_length; simpl; lia. }
    unfold axis_rows. rewrite Hle0, Hr. eexists; split; [reflexivity|]. split.
    + repeat constructor; [apply length_lo_row | apply length_hi_row | exact Hlen].
    + destruct (ebleb_not_nan _ _ Hle0) as [Hl Hu].
      rewrite <- app_assoc in Hiff. simpl in Hiff.
      cbn [app]. rewrite !Forall_cons_iff, Hiff, F2_cons_iff.
      rewrite lo_row_sat, hi_row_sat by (auto; lia).
      rewrite <- Hpre, nth_middle. unfold iv_sat; simpl. tauto.
Qed.
Lemma in_hyperrectangle ivs x : Forall (fun iv => ebleb (fst iv) (snd iv) = true) ivs -> length x = length ivs ->
  exists P, p_hyperrectangle ivs = Some P /\ wf_aff P /\ a_in P = length ivs /\
            (in_poly P x <-> Forall2 iv_sat ivs x).
Proof.
  intros Hle Hx. destruct (hyper_rows_sat (length ivs) ivs 0 [] x) as [rows [Hr [Hlen Hiff]]]; auto.
  unfold p_hyperrectangle. rewrite Hr. simpl. eexists; split; [reflexivity|]. split; [|split; [reflexivity|]].
  - apply wf_of_rows; auto.
  - rewrite in_poly_rows. exact Hiff.
Qed.
Lemma hyper_rows_panics n : forall ivs k, Exists (fun iv => ebleb (fst iv) (snd iv) = false) ivs -> hyper_rows n k ivs = None.
Proof.
  induction ivs as [|[l u] ivs IH]; intros k H; [inversion H|].
  apply Exists_cons in H as [H|H]; simpl in *.
  - unfold axis_rows. rewrite H. reflexivity.
  - rewrite IH by auto. destruct (axis_rows n k l u); reflexivity.
Qed.
Lemma hyperrectangle_panics ivs : Exists (fun iv => ebleb (fst iv) (snd iv) = false) ivs -> p_hyperrectangle ivs = None.
Proof. intros H. unfold p_hyperrectangle. rewrite hyper_rows_panics; auto. Qed.
(* the code as found: an infinite bound of the "wrong" sign was treated as no bound at all:
   axis_bounds(1, 0, +inf, +inf) held every point although no number is >= +inf *)
Lemma axis_bounds_old_refuted :
  exists n axis l u P x, (axis < n)%nat /\ ebleb l u = true /\ p_axis_bounds_old n axis l u = Some P /\ length x = n /\
    in_poly P x /\ ~ (lo_sat l (nth axis x 0) /\ hi_sat u (nth axis x 0)).
Proof.
  exists 1%nat, 0%nat, BPInf, BPInf, (of_rows 1 [(vzero 1, 1); (vzero 1, 1)]), [0].
  split; [lia|]. split; [reflexivity|]. split; [reflexivity|]. split; [reflexivity|]. split.
  - apply in_polyb_spec. vm_compute. reflexivity.
  - simpl. tauto.
Qed.

(* ------------------------------------------------------------------ cross_polytope *)
Lemma cross_row_S n i :
  cross_row (S n) i = (if Nat.odd i then - (1) else 1) :: cross_row n (Nat.div2 i).
Proof.
  unfold cross_row. simpl seq. simpl map. f_equal. rewrite <- seq_shift, map_map. reflexivity.
Qed.
Lemma qabs_nonneg' a : 0 <= qabs a. Proof. apply qabs_nonneg. Qed.
Lemma sum_abs_nonneg x : 0 <= sum_abs x.
Proof. unfold sum_abs. induction x as [|a x IH]; simpl; [qlra|]. pose proof (qabs_nonneg a). qlra. Qed.
Lemma qabs_cases a : (a <= qabs a) /\ (- a <= qabs a) /\ (qabs a = a \/ qabs a = - a).
Proof.
  unfold qabs. destruct (qleb 0 a) eqn:E.
  - apply qleb_spec in E. repeat split; auto; qlra.
  - apply qleb_false in E. repeat split; auto; qlra.
Qed.
Lemma dot_sign_le r : Forall (fun c => c = 1 \/ c = - (1)) r -> forall x, dot r x <= sum_abs x.
Proof.
  induction 1 as [|c r Hc Hr IH]; intros x.
  - destruct x; simpl; apply sum_abs_nonneg.
  - destruct x as [|x0 x]; [simpl; apply sum_abs_nonneg|].
    specialize (IH x). unfold sum_abs in *. simpl. destruct (qabs_cases x0) as [H1 [H2 _]].
    destruct Hc as [-> | ->]; qlra.
Qed.
Lemma cross_row_signs n i : Forall (fun c => c = 1 \/ c = - (1)) (cross_row n i).
Proof. unfold cross_row. rewrite Forall_map. apply Forall_forall. intros j _. destruct (Nat.testbit i j); auto. Qed.
Fixpoint sign_idx (x : vec) : nat :=
  match x with [] => 0 | x0 :: x' => (if qltb x0 0 then 1 else 0) + 2 * sign_idx x' end.
Lemma sign_idx_bound x : (sign_idx x < Nat.pow 2 (length x))%nat.
Proof. induction x as [|x0 x IH]; simpl; [lia|]. destruct (qltb x0 0); lia. Qed.
Lemma qabs_ltb a : qabs a = if qltb a 0 then - a else a.
Proof.
  unfold qabs. destruct (qltb a 0) eqn:E.
  - apply qltb_spec in E. replace (qleb 0 a) with false by (symmetry; apply qleb_false; auto). reflexivity.
  - apply qltb_false in E. replace (qleb 0 a) with true by (symmetry; apply qleb_spec; auto). reflexivity.
Qed.
Lemma sign_idx_row x : dot (cross_row (length x) (sign_idx x)) x = sum_abs x.
Proof.
  induction x as [|x0 x IH]; [reflexivity|].
  cbn [length]. rewrite cross_row_S. cbn [sign_idx dot]. unfold sum_abs in *. cbn [map vsum fold_right].
  rewrite Nat.odd_add_mul_2.
  assert (Hd : Nat.div2 ((if qltb x0 0 then 1 else 0) + 2 * sign_idx x) = sign_idx x).
  { destruct (qltb x0 0); [apply Nat.div2_succ_double | apply Nat.div2_double]. }
  rewrite Hd, IH, qabs_ltb. unfold vsum. destruct (qltb x0 0).
  - change (Nat.odd 1) with true. cbv iota. ring.
  - change (Nat.odd 0) with false. cbv iota. ring.
Qed.
Lemma in_cross_rows n x :
  in_poly (p_cross_polytope n) x <-> forall i, (i < Nat.pow 2 n)%nat -> dot (cross_row n i) x <= 1.
Proof.
  unfold in_poly, p_cross_polytope, vconst; simpl. unfold matvec. rewrite map_map.
  rewrite vle_repeat by (rewrite map_length, seq_length; auto). rewrite Forall_map, Forall_forall.
  split; intros H i Hi; [apply H; apply in_seq; lia | apply H; apply in_seq in Hi; lia].
Qed.
Lemma in_cross_polytope n x : length x = n -> (in_poly (p_cross_polytope n) x <-> sum_abs x <= 1).
Proof.
  intros Hx. rewrite in_cross_rows. split.
  - intros H. rewrite <- sign_idx_row. subst n. apply H. apply sign_idx_bound.
  - intros H i _. pose proof (dot_sign_le _ (cross_row_signs n i) x). qlra.
Qed.
Lemma wf_cross_polytope n : wf_aff (p_cross_polytope n).
Proof.
  split; simpl.
  - unfold cols. rewrite Forall_map. apply Forall_forall. intros i _. unfold cross_row. rewrite map_length, seq_length. auto.
  - unfold vconst. rewrite map_length, seq_length, repeat_length. auto.
Qed.

(* ------------------------------------------------------------------ distance_raw, distance, contains *)
Lemma distance_raw_spec P x : length x = a_in P -> length (a_mat P) = length (a_bias P) ->
  p_distance_raw P x = Some (raw_dist P x) /\
  (in_poly P x <-> Forall (fun d => 0 <= d) (raw_dist P x)).
Proof.
  intros Hx HL. unfold p_distance_raw. rewrite Hx, Nat.eqb_refl. split; auto.
  unfold in_poly, raw_dist, vsub.
  assert (H : length (matvec (a_mat P) x) = length (a_bias P)) by (rewrite length_matvec; auto).
  revert H. generalize (matvec (a_mat P) x) (a_bias P). intros u. induction u as [|u0 u IH]; intros [|b0 b] H; simpl in *; try discriminate.
  - split; intros; [constructor | apply vle_nil].
  - rewrite vle_cons, Forall_cons_iff, IH by lia. split; intros [H1 H2]; split; auto; qlra.
Qed.
Lemma div_sign raw nrm : 0 < nrm -> raw = raw / nrm * nrm.
Proof. intros H. field. intros C. rewrite C in H. qlra. Qed.
(* an entry of distance() is >= 0 exactly when the point satisfies the row's inequality (raw = b_i - a_i.x) *)
Lemma dist_entry_nonneg row nrm raw : (vall_zero row = false -> 0 < nrm) ->
  (ed_nonneg (dist_entry row nrm raw) <-> 0 <= raw).
Proof.
  intros Hn. unfold dist_entry. destruct (vall_zero row).
  - destruct (qltb raw 0) eqn:E; simpl.
    + apply qltb_spec in E. split; [tauto | intros; qlra].
    + apply qltb_false in E. tauto.
  - specialize (Hn eq_refl). simpl. pose proof (div_sign raw nrm Hn) as E.
    set (d := raw / nrm) in *. clearbody d. split; intros H; subst raw; qnra.
Qed.
Lemma qsign_cases q : (q < 0 /\ qsign q = (-1)%Z) \/ (q = 0 /\ qsign q = 0%Z) \/ (0 < q /\ qsign q = 1%Z).
Proof.
  unfold qsign. destruct (qltb q 0) eqn:E1.
  - left. apply qltb_spec in E1. auto.
  - apply qltb_false in E1. destruct (qeqb q 0) eqn:E2.
    + right; left. apply qeqb_spec in E2. auto.
    + right; right. apply qeqb_false in E2. split; auto. qlra.
Qed.
(* sign of an entry: the sign of raw for a non-zero row (whatever positive norm is used); for a zero row
   +inf when the half-space 0 <= b_i holds everything, -inf when it is empty *)
Lemma dist_entry_sign row nrm raw : (vall_zero row = false -> 0 < nrm) ->
  ed_sign (dist_entry row nrm raw) =
  Some (if vall_zero row then (if qltb raw 0 then (-1)%Z else 1%Z) else qsign raw).
Proof.
  intros Hn. unfold dist_entry. destruct (vall_zero row).
  - destruct (qltb raw 0); reflexivity.
  - specialize (Hn eq_refl). simpl. f_equal. pose proof (div_sign raw nrm Hn) as E.
    set (d := raw / nrm) in *. clearbody d.
    destruct (qsign_cases d) as [[H1 ->]|[[H1 ->]|[H1 ->]]]; destruct (qsign_cases raw) as [[H2 ->]|[[H2 ->]|[H2 ->]]];
      auto; exfalso; subst raw; qnra.
Qed.
(* with the true norm (nrm^2 = row.row) the entry is the Euclidean distance: entry * nrm = raw *)
Lemma dist_entry_magnitude row nrm raw : vall_zero row = false -> 0 < nrm ->
  exists q, dist_entry row nrm raw = DFin q /\ q * nrm = raw /\ (nrm * nrm = dot row row -> q * q * dot row row = raw * raw).
Proof.
  intros Hz Hn. unfold dist_entry. rewrite Hz. eexists; split; [reflexivity|].
  pose proof (div_sign raw nrm Hn) as E. split; [symmetry; exact E|].
  intros Hs. rewrite <- Hs. set (d := raw / nrm) in *. clearbody d. subst raw. ring.
Qed.
Lemma dist_rows_spec x : forall A norms b,
  length A = length b -> length norms = length A ->
  Forall2 (fun r nr => vall_zero r = false -> 0 < nr) A norms ->
  Forall2 (fun d rb => (ed_nonneg d <-> dot (fst rb) x <= snd rb) /\
                       ed_sign d = Some (if vall_zero (fst rb) then (if qltb (snd rb - dot (fst rb) x) 0 then (-1)%Z else 1%Z)
                                         else qsign (snd rb - dot (fst rb) x)))
          (dist_rows dist_entry A norms (vsub b (matvec A x))) (combine A b).
Proof.
  induction A as [|r A IH]; intros [|n0 norms] [|b0 b] HL HN HP; simpl in *; try discriminate; try constructor.
  - apply F2_cons_iff in HP as [Hp HP]. split.
    + cbn [fst snd]. rewrite dist_entry_nonneg by auto. split; intros; qlra.
    + cbn [fst snd]. apply dist_entry_sign; auto.
  - apply F2_cons_iff in HP as [Hp HP]. apply IH; auto.
Qed.
Lemma in_distance P norms x : wf_aff P -> length x = a_in P -> length norms = length (a_mat P) ->
  Forall2 (fun r nr => vall_zero r = false -> 0 < nr) (a_mat P) norms ->
  exists ds, p_distance P norms x = Some ds /\
    Forall2 (fun d rb => (ed_nonneg d <-> dot (fst rb) x <= snd rb) /\
                         ed_sign d = Some (if vall_zero (fst rb) then (if qltb (snd rb - dot (fst rb) x) 0 then (-1)%Z else 1%Z)
                                           else qsign (snd rb - dot (fst rb) x)))
            ds (combine (a_mat P) (a_bias P)).
Proof.
  intros [_ HL] Hx HN HP. unfold p_distance. rewrite Hx, Nat.eqb_refl. eexists; split; [reflexivity|].
  unfold raw_dist. apply dist_rows_spec; auto.
Qed.
(* hence: the point is in the polytope iff every entry of distance() is >= 0 *)
Lemma F2_forall_iff {A B} (R : A -> B -> Prop) (Pa : A -> Prop) (Pb : B -> Prop) la lb :
  Forall2 (fun a b => Pa a <-> Pb b) la lb -> (Forall Pa la <-> Forall Pb lb).
Proof. induction 1 as [|a b la lb H HF IH]; [split; constructor|]. rewrite !Forall_cons_iff, IH, H. reflexivity. Qed.
Lemma F2_impl {A B} (R S : A -> B -> Prop) la lb : (forall a b, R a b -> S a b) -> Forall2 R la lb -> Forall2 S la lb.
Proof. intros H. induction 1; constructor; auto. Qed.
Lemma distance_nonneg_iff P norms x : wf_aff P -> length x = a_in P -> length norms = length (a_mat P) ->
  Forall2 (fun r nr => vall_zero r = false -> 0 < nr) (a_mat P) norms ->
  exists ds, p_distance P norms x = Some ds /\ (in_poly P x <-> Forall ed_nonneg ds).
Proof.
  intros HP Hx HN Hpos. destruct (in_distance P norms x HP Hx HN Hpos) as [ds [Hd HF]].
  exists ds. split; auto.
  assert (E : in_poly P x <-> Forall (fun rb => dot (fst rb) x <= snd rb) (combine (a_mat P) (a_bias P))).
  { destruct HP as [_ HL]. unfold in_poly. revert HL. generalize (a_mat P) (a_bias P).
    intros A. induction A as [|r A IH]; intros [|b0 b] HL; simpl in *; try discriminate.
    - split; intros; [constructor | apply vle_nil].
    - rewrite vle_cons, Forall_cons_iff, IH by lia. reflexivity. }
  rewrite E. symmetry. apply (F2_forall_iff (fun _ _ => True)).
  eapply F2_impl; [|exact HF]. intros d rb [H _]. exact H.
Qed.
Lemma distance_panics P norms x : length x <> a_in P -> p_distance P norms x = None.
Proof. intros H. unfold p_distance. apply Nat.eqb_neq in H. rewrite H. reflexivity. Qed.
(* D12, the code as found: a zero row with zero bias (the half-space 0 <= 0, which holds every point) gave NaN
   where the documentation promises INFINITY *)
Lemma distance_old_refuted :
  exists P norms x ds, wf_aff P /\ length x = a_in P /\ in_poly P x /\
    p_distance_old P norms x = Some ds /\ ~ Forall ed_nonneg ds /\ In DNaN ds.
Proof.
  exists (mk 1 [[0]] [0]), [0], [1], [DNaN]. split; [apply wf_affb_spec; vm_compute; reflexivity|].
  split; [reflexivity|]. split; [apply in_polyb_spec; vm_compute; reflexivity|].
  split; [vm_compute; reflexivity|]. split; [|left; reflexivity].
  intros H. apply Forall_cons_iff in H as [H _]. exact H.
Qed.
(* the code as found before the second repair: in a 0-dimensional space the satisfied row 0 <= 1 got -inf *)
Lemma distance_v1_refuted :
  exists P norms x ds, wf_aff P /\ length x = a_in P /\ in_poly P x /\
    p_distance_v1 P norms x = Some ds /\ ~ Forall ed_nonneg ds /\ In DNInf ds.
Proof.
  exists (mk 0 [[]] [1]), [1], [], [DNInf]. split; [apply wf_affb_spec; vm_compute; reflexivity|].
  split; [reflexivity|]. split; [apply in_polyb_spec; vm_compute; reflexivity|].
  split; [vm_compute; reflexivity|]. split; [|left; reflexivity].
  intros H. apply Forall_cons_iff in H as [H _]. exact H.
Qed.

Lemma tol8_nonneg : 0 <= tol8.
Proof. apply qleb_spec. vm_compute. reflexivity. Qed.
(* contains(): every row may be violated by at most the raw tolerance 1e-8 *)
Lemma contains_spec P x : length x = a_in P -> length (a_mat P) = length (a_bias P) ->
  exists b, p_contains P x = Some b /\
    (b = true <-> Forall2 (fun l bi => l <= bi + tol8) (matvec (a_mat P) x) (a_bias P)) /\
    (in_poly P x -> b = true).
Proof.
  intros Hx HL. unfold p_contains. rewrite Hx, Nat.eqb_refl. eexists; split; [reflexivity|]. split.
  - apply contains_tol_spec; auto.
  - apply contains_tol_of_in_poly. apply tol8_nonneg.
Qed.
Lemma contains_panics P x : length x <> a_in P -> p_contains P x = None.
Proof. intros H. unfold p_contains. apply Nat.eqb_neq in H. rewrite H. reflexivity. Qed.

(* Base/PolyClean.v -- the constraint clean-ups of affine.rs (remove_rows, remove_zero_rows, normalize,
   remove_tautologies, remove_duplicate_rows) and polyhedron.rs (remove_redundant_row_constraints) on polytopes
   given as row lists [(a_i, b_i)] meaning a_i.x <= b_i, as coded:
   - square roots (normalize) enter as a list of factors: Some s = "norm > epsilon, divide by s", None = "left alone";
     the theorems hold for every positive s;
   - relative_eq on normalised rows (remove_duplicate_rows) is modelled as exact equality of the normalised rows;
   - the LP solver (remove_redundant_row_constraints) is an oracle; set preservation and irredundancy are proved for
     an oracle that is exact on the queries, the subsequence property for every oracle.
   Theorems: the result is a subsequence of the input rows (normalize: row-wise positive multiples); the point set is
   unchanged (an infeasible input may become the canonical empty polytope; remove_tautologies turns an input made of
   tautologies only into the canonical whole-space polytope 0 <= 1, which is NOT a subsequence: taut_all_refuted);
   after remove_redundant_row_constraints no remaining row is implied by the others. *)
From AT Require Import Num Vec Farkas FM Equiv Cache LP.
From AT Require AffOps.

(* ------------------------------------------------------------------ subsequences *)
Inductive subseq {A : Type} : list A -> list A -> Prop :=
| sub_nil : subseq [] []
| sub_skip a l1 l2 : subseq l1 l2 -> subseq l1 (a :: l2)
| sub_keep a l1 l2 : subseq l1 l2 -> subseq (a :: l1) (a :: l2).

Lemma subseq_refl {A} (l : list A) : subseq l l.
Proof. induction l; [apply sub_nil | apply sub_keep; auto]. Qed.
Lemma subseq_nil_l {A} (l : list A) : subseq [] l.
Proof. induction l; [apply sub_nil | apply sub_skip; auto]. Qed.
Lemma subseq_trans {A} (l1 l2 l3 : list A) : subseq l1 l2 -> subseq l2 l3 -> subseq l1 l3.
Proof.
  intros H12 H23. revert l1 H12. induction H23 as [|a m2 m3 H IH|a m2 m3 H IH]; intros l1 H12.
  - exact H12.
  - apply sub_skip. apply IH. exact H12.
  - inversion H12 as [|a' k1 k2 Hk|a' k1 k2 Hk]; subst.
    + apply sub_skip. apply IH. exact Hk.
    + apply sub_keep. apply IH. exact Hk.
Qed.
Lemma subseq_app {A} (a a' b b' : list A) : subseq a a' -> subseq b b' -> subseq (a ++ b) (a' ++ b').
Proof. intros Ha Hb. induction Ha; simpl; [auto | apply sub_skip; auto | apply sub_keep; auto]. Qed.
Lemma subseq_filter {A} (p : A -> bool) (l : list A) : subseq (filter p l) l.
Proof. induction l as [|a l IH]; simpl; [apply sub_nil|]. destruct (p a); [apply sub_keep | apply sub_skip]; auto. Qed.
Lemma subseq_length {A} (l1 l2 : list A) : subseq l1 l2 -> (length l1 <= length l2)%nat.
Proof. induction 1; simpl; lia. Qed.
Lemma subseq_Forall {A} (Q : A -> Prop) (l1 l2 : list A) : subseq l1 l2 -> Forall Q l2 -> Forall Q l1.
Proof.
  induction 1 as [|a l1 l2 H IH|a l1 l2 H IH]; intros HF; auto.
  - apply Forall_cons_iff in HF as [_ HF]. auto.
  - apply Forall_cons_iff in HF as [H0 HF]. constructor; auto.
Qed.
(* dropping rows can only enlarge the point set *)
Lemma subseq_in_rows (R P : rows) x : subseq R P -> in_rows P x -> in_rows R x.
Proof. unfold in_rows. apply subseq_Forall. Qed.

Definition row_eqb (r1 r2 : vec * Qc) : bool := veqb (fst r1) (fst r2) && qeqb (snd r1) (snd r2).
Lemma row_eqb_spec r1 r2 : row_eqb r1 r2 = true <-> r1 = r2.
Proof.
  unfold row_eqb. rewrite andb_true_iff, veqb_spec, qeqb_spec. destruct r1, r2; simpl.
  split; [intros [-> ->]; reflexivity | intros H; inversion H; auto].
Qed.
Fixpoint subseqb (l1 l2 : rows) {struct l2} : bool :=
  match l2 with
  | [] => match l1 with [] => true | _ => false end
  | b :: l2' =>
      match l1 with
      | [] => true
      | a :: l1' => if row_eqb a b then subseqb l1' l2' else subseqb l1 l2'
      end
  end.
Lemma subseqb_sound l2 : forall l1, subseqb l1 l2 = true -> subseq l1 l2.
Proof.
  induction l2 as [|b l2 IH]; intros [|a l1] H; simpl in H; try discriminate.
  - apply sub_nil.
  - apply subseq_nil_l.
  - destruct (row_eqb a b) eqn:E.
    + apply row_eqb_spec in E. subst b. apply sub_keep. apply IH. exact H.
    + apply sub_skip. apply IH. exact H.
Qed.

(* ------------------------------------------------------------------ remove_rows (ascending index iterator; None = panic) *)
Definition remove_rows (P : rows) (idx : list nat) : option rows :=
  let (R, rest) := AffOps.rm_idx 0 P idx in match rest with [] => Some R | _ => None end.
Lemma rm_idx_subseq {A} (l : list A) : forall k idx, subseq (fst (AffOps.rm_idx k l idx)) l.
Proof.
  induction l as [|a l IH]; intros k idx; simpl.
  - apply sub_nil.
  - destruct idx as [|i idx]; simpl.
    + apply subseq_refl.
    + destruct (Nat.eqb k i).
      * apply sub_skip. apply IH.
      * specialize (IH (S k) (i :: idx)). destruct (AffOps.rm_idx (S k) l (i :: idx)) as [o r]. simpl in *. apply sub_keep. exact IH.
Qed.
Theorem remove_rows_subseq P idx R : remove_rows P idx = Some R -> subseq R P.
Proof.
  unfold remove_rows. pose proof (rm_idx_subseq P 0 idx) as H.
  destruct (AffOps.rm_idx 0 P idx) as [R' rest]. destruct rest; try discriminate. intros E. inversion E; subst. exact H.
Qed.
(* removing rows never loses points; the set is unchanged when every input row is implied by the remaining ones *)
Theorem remove_rows_set P idx R x : remove_rows P idx = Some R ->
  (in_rows P x -> in_rows R x) /\ ((forall y, in_rows R y -> in_rows P y) -> (in_rows R x <-> in_rows P x)).
Proof.
  intros H. pose proof (remove_rows_subseq _ _ _ H) as Hs. split.
  - apply subseq_in_rows; auto.
  - intros Himp. split; [apply Himp | apply subseq_in_rows; auto].
Qed.

(* ------------------------------------------------------------------ remove_zero_rows *)
Definition nzrow (rb : vec * Qc) : bool := negb (vall_zero (fst rb)) || negb (qeqb (snd rb) 0).
Definition remove_zero_rows (P : rows) : rows := filter nzrow P.
Theorem remove_zero_rows_subseq P : subseq (remove_zero_rows P) P.
Proof. apply subseq_filter. Qed.
Theorem remove_zero_rows_set P x : in_rows (remove_zero_rows P) x <-> in_rows P x.
Proof.
  unfold remove_zero_rows, in_rows. induction P as [|rb P IH]; simpl; [tauto|].
  destruct (nzrow rb) eqn:E; rewrite !Forall_cons_iff, IH; [tauto|].
  unfold nzrow in E. rewrite orb_false_iff, !negb_false_iff in E. destruct E as [E1 E2].
  rewrite (dot_all_zero _ x E1). apply qeqb_spec in E2. rewrite E2. split; [intros H; split; [apply Qcle_refl | exact H] | tauto].
Qed.

(* ------------------------------------------------------------------ normalize *)
Definition scale_row (s : option Qc) (rb : vec * Qc) : vec * Qc :=
  match s with Some s => (vscale (/ s) (fst rb), snd rb / s) | None => rb end.
Fixpoint normalize_with (ss : list (option Qc)) (P : rows) : rows :=
  match ss, P with
  | s :: ss', rb :: P' => scale_row s rb :: normalize_with ss' P'
  | _, _ => P
  end.
Definition factor_ok (s : option Qc) : Prop := match s with Some s => 0 < s | None => True end.
Lemma inv_pos s : 0 < s -> 0 < / s.
Proof.
  intros H. assert (Hz : s <> 0) by (intros C; rewrite C in H; qlra).
  pose proof (Qcmult_inv_r s Hz) as E. destruct (Qclt_le_dec 0 (/ s)) as [C|C]; auto. exfalso. qnra.
Qed.
Lemma scale_row_holds s rb x : factor_ok s ->
  (dot (fst (scale_row s rb)) x <= snd (scale_row s rb) <-> dot (fst rb) x <= snd rb).
Proof.
  destruct s as [s|]; simpl; [|tauto]. intros Hs. rewrite dot_vscale. unfold Qcdiv.
  pose proof (inv_pos s Hs) as Hi. set (i := / s) in *. clearbody i. split; intros H; qnra.
Qed.
Theorem normalize_set ss : forall P x, Forall factor_ok ss -> (in_rows (normalize_with ss P) x <-> in_rows P x).
Proof.
  induction ss as [|s ss IH]; intros [|rb P] x Hs; simpl; try tauto.
  apply Forall_cons_iff in Hs as [H0 Hs]. unfold in_rows in *. rewrite !Forall_cons_iff, (IH P x Hs).
  rewrite (scale_row_holds s rb x H0). tauto.
Qed.
(* row i of the result is the positive multiple (1/s_i) of row i of the input (or the row itself) *)
Lemma length_normalize_with ss : forall P, length (normalize_with ss P) = length P.
Proof. induction ss as [|s ss IH]; intros [|rb P]; simpl; auto. Qed.
Theorem normalize_rows ss : forall P, length ss = length P ->
  normalize_with ss P = map (fun sr => scale_row (fst sr) (snd sr)) (combine ss P).
Proof.
  induction ss as [|s ss IH]; intros [|rb P] H; simpl in *; try discriminate; auto.
  rewrite IH by lia. reflexivity.
Qed.

(* ------------------------------------------------------------------ remove_tautologies *)
Definition is_zero_row (rb : vec * Qc) : bool := vall_zero (fst rb).
Definition canonical_empty (n : nat) : rows := [(vzero n, - (1))].
Definition canonical_unbounded (n : nat) : rows := [(vzero n, 1)].
Definition remove_tautologies (n : nat) (P : rows) : rows :=
  if existsb (fun rb => is_zero_row rb && qltb (snd rb) 0) P then canonical_empty n
  else match filter (fun rb => negb (is_zero_row rb)) P with
       | [] => canonical_unbounded n
       | R => R
       end.
Lemma canonical_empty_none n x : ~ in_rows (canonical_empty n) x.
Proof. unfold canonical_empty, in_rows. intros H. apply Forall_cons_iff in H as [H _]. simpl in H. rewrite dot_vzero in H. qlra. Qed.
Lemma canonical_unbounded_all n x : in_rows (canonical_unbounded n) x.
Proof. unfold canonical_unbounded, in_rows. constructor; [|constructor]. simpl. rewrite dot_vzero. qlra. Qed.
Lemma taut_filter_set P x : existsb (fun rb => is_zero_row rb && qltb (snd rb) 0) P = false ->
  (in_rows (filter (fun rb => negb (is_zero_row rb)) P) x <-> in_rows P x).
Proof.
  unfold in_rows. induction P as [|rb P IH]; simpl; [tauto|]. rewrite orb_false_iff. intros [E1 E2].
  destruct (is_zero_row rb) eqn:Ez; simpl; rewrite !Forall_cons_iff, (IH E2); [|tauto].
  simpl in E1. apply qltb_false in E1. unfold is_zero_row in Ez. rewrite (dot_all_zero _ x Ez). tauto.
Qed.
Theorem remove_tautologies_set n P x : in_rows (remove_tautologies n P) x <-> in_rows P x.
Proof.
  unfold remove_tautologies. destruct (existsb _ P) eqn:E.
  - split; intros H; [exfalso; exact (canonical_empty_none n x H)|]. exfalso.
    apply existsb_exists in E as [rb [Hin Hb]]. apply andb_true_iff in Hb as [Hz Hneg]. apply qltb_spec in Hneg.
    unfold in_rows in H. rewrite Forall_forall in H. specialize (H rb Hin). unfold is_zero_row in Hz.
    rewrite (dot_all_zero _ x Hz) in H. qlra.
  - rewrite <- (taut_filter_set P x E). destruct (filter _ P) eqn:F; [|tauto].
    split; intros _; [constructor | apply canonical_unbounded_all].
Qed.
Definition all_tautologies (P : rows) : Prop := Forall (fun rb => is_zero_row rb = true /\ 0 <= snd rb) P.
(* shape of the result: the canonical empty polytope (only for an input without points), the canonical whole-space
   polytope (only when every input row is a tautology), or a non-empty subsequence of the input without zero rows *)
Theorem remove_tautologies_shape n P :
  (remove_tautologies n P = canonical_empty n /\ forall x, ~ in_rows P x) \/
  (remove_tautologies n P = canonical_unbounded n /\ all_tautologies P) \/
  (subseq (remove_tautologies n P) P /\ Forall (fun rb => is_zero_row rb = false) (remove_tautologies n P) /\
   remove_tautologies n P <> []).
Proof.
  pose proof (remove_tautologies_set n P) as Hset. unfold remove_tautologies in *. destruct (existsb _ P) eqn:E.
  - left. split; auto. intros x Hx. apply Hset in Hx. exact (canonical_empty_none n x Hx).
  - right. destruct (filter (fun rb => negb (is_zero_row rb)) P) as [|r R] eqn:F.
    + left. split; auto. unfold all_tautologies. apply Forall_forall. intros rb Hin.
      assert (Hz : is_zero_row rb = true).
      { destruct (is_zero_row rb) eqn:Ez; auto. exfalso.
        assert (Hf : In rb (filter (fun rb => negb (is_zero_row rb)) P)) by (apply filter_In; rewrite Ez; auto).
        rewrite F in Hf. exact Hf. }
      split; auto. destruct (Qclt_le_dec (snd rb) 0) as [C|C]; auto. exfalso.
      assert (T : existsb (fun rb => is_zero_row rb && qltb (snd rb) 0) P = true).
      { apply existsb_exists. exists rb. split; auto. rewrite Hz. apply qltb_spec in C. rewrite C. reflexivity. }
      congruence.
    + right. rewrite <- F. split; [apply subseq_filter|]. split.
      * apply Forall_forall. intros rb Hin. apply filter_In in Hin as [_ Hb]. apply negb_true_iff in Hb. exact Hb.
      * rewrite F. discriminate.
Qed.
(* the exception is real: an input made of tautologies only comes back as 0 <= 1, which is not among its rows *)
Lemma taut_all_refuted : exists n P, all_tautologies P /\ (forall x, in_rows P x) /\ ~ subseq (remove_tautologies n P) P.
Proof.
  exists 1%nat, [([0], 1 + 1)]. split; [|split].
  - constructor; [|constructor]. split; [reflexivity|]. simpl. qlra.
  - intros x. constructor; [|constructor]. simpl. destruct x; simpl; qlra.
  - intros H. vm_compute in H. inversion H as [|a l1 l2 H1|a l1 l2 H1]; subst. inversion H1.
Qed.

(* ------------------------------------------------------------------ remove_duplicate_rows
   row i is removed iff the normalised form of an earlier row j < i equals its own (the code runs i and j downwards
   and removes the collected indices at the end: the same set of rows) *)
Fixpoint dedup_aux (seen : rows) (NP : list ((vec * Qc) * (vec * Qc))) : rows :=
  match NP with
  | [] => []
  | (nr, r) :: rest =>
      if existsb (row_eqb nr) seen then dedup_aux (seen ++ [nr]) rest
      else r :: dedup_aux (seen ++ [nr]) rest
  end.
Definition remove_duplicate_rows_with (ss : list (option Qc)) (P : rows) : rows :=
  dedup_aux [] (combine (normalize_with ss P) P).
Lemma dedup_aux_subseq NP : forall seen, subseq (dedup_aux seen NP) (map snd NP).
Proof.
  induction NP as [|[nr r] NP IH]; intros seen; simpl; [apply sub_nil|].
  destruct (existsb (row_eqb nr) seen); [apply sub_skip | apply sub_keep]; apply IH.
Qed.
Lemma map_snd_combine_eq {A B} (l : list A) (m : list B) : length l = length m -> map snd (combine l m) = m.
Proof. revert m; induction l; intros [|] H; simpl in *; try discriminate; auto. rewrite IHl by lia. reflexivity. Qed.
Theorem remove_duplicate_rows_subseq ss P : subseq (remove_duplicate_rows_with ss P) P.
Proof.
  unfold remove_duplicate_rows_with.
  pose proof (dedup_aux_subseq (combine (normalize_with ss P) P) []) as H.
  rewrite map_snd_combine_eq in H by apply length_normalize_with. exact H.
Qed.
(* invariant: every normalised row seen so far holds at x *)
Lemma dedup_aux_set x : forall NP seen,
  Forall (fun p => dot (fst (fst p)) x <= snd (fst p) <-> dot (fst (snd p)) x <= snd (snd p)) NP ->
  in_rows seen x -> in_rows (dedup_aux seen NP) x -> in_rows (map snd NP) x.
Proof.
  induction NP as [|[nr r] NP IH]; intros seen Heq Hseen H; simpl in *; [constructor|].
  apply Forall_cons_iff in Heq as [H0 Heq]. simpl in H0.
  destruct (existsb (row_eqb nr) seen) eqn:E.
  - apply existsb_exists in E as [s [Hin Hs]]. apply row_eqb_spec in Hs. subst s.
    assert (Hnr : dot (fst nr) x <= snd nr).
    { unfold in_rows in Hseen. rewrite Forall_forall in Hseen. exact (Hseen nr Hin). }
    constructor; [apply H0; exact Hnr|]. apply (IH (seen ++ [nr])); auto.
    unfold in_rows. apply Forall_app. split; auto.
  - unfold in_rows in H. apply Forall_cons_iff in H as [Hr H]. constructor; [exact Hr|].
    apply (IH (seen ++ [nr])); auto. unfold in_rows. apply Forall_app. split; auto. constructor; auto. apply H0. exact Hr.
Qed.
Lemma normalize_pairs x ss : forall P, Forall factor_ok ss ->
  Forall (fun p => dot (fst (fst p)) x <= snd (fst p) <-> dot (fst (snd p)) x <= snd (snd p)) (combine (normalize_with ss P) P).
Proof.
  induction ss as [|s ss IH]; intros [|rb P] Hs; simpl; try constructor.
  - tauto.
  - clear. induction P; simpl; constructor; auto. tauto.
  - apply Forall_cons_iff in Hs as [H0 Hs]. simpl. apply scale_row_holds; auto.
  - apply Forall_cons_iff in Hs as [H0 Hs]. apply IH; auto.
Qed.
Theorem remove_duplicate_rows_set ss P x : Forall factor_ok ss ->
  (in_rows (remove_duplicate_rows_with ss P) x <-> in_rows P x).
Proof.
  intros Hs. split.
  - intros H. unfold remove_duplicate_rows_with in H.
    pose proof (dedup_aux_set x (combine (normalize_with ss P) P) [] (normalize_pairs x ss P Hs)) as L.
    rewrite map_snd_combine_eq in L by apply length_normalize_with. apply L; auto. constructor.
  - apply subseq_in_rows. apply remove_duplicate_rows_subseq.
Qed.
(* equal normalised forms mean positive proportionality of (row, bias): negatively scaled rows and parallel rows
   with a different bias are never taken for duplicates *)
Lemma vscale_vscale c d v : vscale c (vscale d v) = vscale (c * d) v.
Proof. unfold vscale. rewrite map_map. apply map_ext. intros a. ring. Qed.
Theorem equal_normal_forms_proportional s1 s2 r1 r2 : 0 < s1 -> 0 < s2 ->
  scale_row (Some s1) r1 = scale_row (Some s2) r2 ->
  0 < s1 / s2 /\ fst r1 = vscale (s1 / s2) (fst r2) /\ snd r1 = (s1 / s2) * snd r2.
Proof.
  intros H1 H2 E. cbn [scale_row] in E.
  pose proof (f_equal fst E) as Ea. pose proof (f_equal snd E) as Eb. cbn [fst snd] in Ea, Eb.
  assert (Hz1 : s1 <> 0) by (intros C; rewrite C in H1; qlra).
  assert (Hz2 : s2 <> 0) by (intros C; rewrite C in H2; qlra).
  split; [|split].
  - unfold Qcdiv. pose proof (inv_pos s2 H2). qnra.
  - assert (E1 : fst r1 = vscale s1 (vscale (/ s1) (fst r1))).
    { rewrite vscale_vscale. rewrite Qcmult_inv_r by auto. unfold vscale. rewrite <- (map_id (fst r1)) at 1.
      apply map_ext. intros a. ring. }
    rewrite E1, Ea, vscale_vscale. reflexivity.
  - assert (E1 : snd r1 = s1 * (snd r1 / s1)) by (field; auto). rewrite E1, Eb. field. auto.
Qed.

(* ------------------------------------------------------------------ remove_redundant_row_constraints
   idx runs from the last row to the first; the LP "min -a_idx.x" is solved over the rows that are neither idx nor
   already found redundant; Optimal(w): redundant iff a_idx.w <= b_idx + eps (eps = f64::EPSILON in the code);
   Unbounded: necessary; Infeasible: the canonical empty polytope is returned; Error: Err. *)
Inductive lp_answer := AOpt (w : vec) | AUnb | AInf | AErr.
Inductive rr_result := RROk (R : rows) | RREmpty | RRErr.
Fixpoint rr_loop (lp : rows -> vec -> lp_answer) (eps : Qc) (rev_prefix kept : rows) : rr_result :=
  match rev_prefix with
  | [] => RROk kept
  | r :: rp =>
      match lp (rev rp ++ kept) (vopp (fst r)) with
      | AOpt w => if qleb (dot (fst r) w) (snd r + eps) then rr_loop lp eps rp kept else rr_loop lp eps rp (r :: kept)
      | AUnb => rr_loop lp eps rp (r :: kept)
      | AInf => RREmpty
      | AErr => RRErr
      end
  end.
Definition remove_redundant (lp : rows -> vec -> lp_answer) (eps : Qc) (P : rows) : rr_result := rr_loop lp eps (rev P) [].

(* an oracle that is exact (in dimension n) on every query *)
Definition lp_exact (n : nat) (lp : rows -> vec -> lp_answer) : Prop :=
  forall Q c, match lp Q c with
              | AOpt w => feas n Q w /\ forall x, feas n Q x -> dot c w <= dot c x
              | AUnb => forall M, exists x, feas n Q x /\ dot c x < M
              | AInf => forall x, ~ feas n Q x
              | AErr => True
              end.

Lemma subseq_mid {A} (l1 l2 : list A) a : subseq (l1 ++ l2) (l1 ++ a :: l2).
Proof. apply subseq_app; [apply subseq_refl | apply sub_skip; apply subseq_refl]. Qed.
Lemma rev_cons_app {A} (r : A) rp kept : rev (r :: rp) ++ kept = rev rp ++ r :: kept.
Proof. simpl. rewrite <- app_assoc. reflexivity. Qed.

Theorem remove_redundant_subseq lp eps P R : remove_redundant lp eps P = RROk R -> subseq R P.
Proof.
  unfold remove_redundant.
  assert (G : forall rp kept, subseq (rev rp ++ kept) P -> rr_loop lp eps rp kept = RROk R -> subseq R P).
  { induction rp as [|r rp IH]; intros kept Hs H; simpl in H.
    - inversion H; subst. exact Hs.
    - rewrite rev_cons_app in Hs.
      assert (Hdrop : subseq (rev rp ++ kept) P) by (eapply subseq_trans; [apply subseq_mid | exact Hs]).
      destruct (lp (rev rp ++ kept) (vopp (fst r))) as [w| | |]; try discriminate.
      + destruct (qleb (dot (fst r) w) (snd r + eps)); [apply (IH kept Hdrop H) | apply (IH (r :: kept) Hs H)].
      + apply (IH (r :: kept) Hs H). }
  apply G. rewrite rev_involutive, app_nil_r. apply subseq_refl.
Qed.

Lemma in_rows_mid (l1 l2 : rows) r x : in_rows (l1 ++ r :: l2) x <-> dot (fst r) x <= snd r /\ in_rows (l1 ++ l2) x.
Proof. unfold in_rows. rewrite !Forall_app, Forall_cons_iff. tauto. Qed.

(* with an exact oracle and eps = 0 every removal keeps the set; Infeasible is only answered for an empty input *)
Theorem remove_redundant_set n lp P : lp_exact n lp ->
  match remove_redundant lp 0 P with
  | RROk R => forall x, length x = n -> (in_rows R x <-> in_rows P x)
  | RREmpty => forall x, length x = n -> ~ in_rows P x
  | RRErr => True
  end.
Proof.
  intros Hex. unfold remove_redundant.
  assert (G : forall rp kept, (forall x, length x = n -> (in_rows (rev rp ++ kept) x <-> in_rows P x)) ->
    match rr_loop lp 0 rp kept with
    | RROk R => forall x, length x = n -> (in_rows R x <-> in_rows P x)
    | RREmpty => forall x, length x = n -> ~ in_rows P x
    | RRErr => True
    end).
  { induction rp as [|r rp IH]; intros kept Hinv; simpl.
    - exact Hinv.
    - assert (Hinv' : forall x, length x = n -> (in_rows (rev rp ++ r :: kept) x <-> in_rows P x)).
      { intros x Hx. rewrite <- rev_cons_app. apply Hinv; auto. }
      pose proof (Hex (rev rp ++ kept) (vopp (fst r))) as Hq.
      destruct (lp (rev rp ++ kept) (vopp (fst r))) as [w| | |]; auto.
      + destruct Hq as [Hfw Hmin]. destruct (qleb (dot (fst r) w) (snd r + 0)) eqn:E.
        * apply IH. intros x Hx. rewrite <- (Hinv' x Hx), in_rows_mid. split; [|tauto].
          intros Hin. split; auto. apply qleb_spec in E. specialize (Hmin x (conj Hx Hin)). rewrite !dot_vopp in Hmin. qlra.
        * apply IH. exact Hinv'.
      + apply IH. exact Hinv'.
      + intros x Hx Hin. apply Hinv' in Hin; auto. apply in_rows_mid in Hin as [_ Hin]. exact (Hq x (conj Hx Hin)). }
  apply G. intros x Hx. rewrite rev_involutive, app_nil_r. tauto.
Qed.

(* no remaining row is implied by the other remaining rows: for every remaining row there is a point that satisfies
   all the others and violates it *)
Definition irredundant (n : nat) (R : rows) : Prop :=
  forall K1 r K2, R = K1 ++ r :: K2 -> exists x, length x = n /\ in_rows (K1 ++ K2) x /\ snd r < dot (fst r) x.
Theorem remove_redundant_irredundant n lp P R : lp_exact n lp -> remove_redundant lp 0 P = RROk R -> irredundant n R.
Proof.
  intros Hex. unfold remove_redundant.
  (* invariant: every kept row is violated somewhere inside (unprocessed rows ++ the other kept rows) *)
  assert (G : forall rp kept,
    (forall K1 r K2, kept = K1 ++ r :: K2 -> exists x, length x = n /\ in_rows (rev rp ++ K1 ++ K2) x /\ snd r < dot (fst r) x) ->
    rr_loop lp 0 rp kept = RROk R -> irredundant n R).
  { induction rp as [|r0 rp IH]; intros kept Hinv H; simpl in H.
    - inversion H; subst. exact Hinv.
    - (* the invariant survives dropping r0 from the unprocessed rows *)
      assert (Hdrop : forall K1 r K2, kept = K1 ++ r :: K2 ->
                exists x, length x = n /\ in_rows (rev rp ++ K1 ++ K2) x /\ snd r < dot (fst r) x).
      { intros K1 r K2 E. destruct (Hinv K1 r K2 E) as [x [Hx [Hin Hv]]]. exists x. split; auto. split; auto.
        rewrite rev_cons_app in Hin. apply in_rows_mid in Hin as [_ Hin]. exact Hin. }
      (* ... and moving r0 to the kept rows, given a point of the others that violates r0 *)
      assert (Hkeep : (exists x, length x = n /\ in_rows (rev rp ++ kept) x /\ snd r0 < dot (fst r0) x) ->
                forall K1 r K2, r0 :: kept = K1 ++ r :: K2 ->
                exists x, length x = n /\ in_rows (rev rp ++ K1 ++ K2) x /\ snd r < dot (fst r) x).
      { intros Hw K1 r K2 E. destruct K1 as [|k K1]; simpl in E; inversion E; subst.
        - exact Hw.
        - destruct (Hinv K1 r K2 eq_refl) as [x [Hx [Hin Hv]]]. exists x. split; auto. split; auto.
          rewrite rev_cons_app in Hin. exact Hin. }
      pose proof (Hex (rev rp ++ kept) (vopp (fst r0))) as Hq.
      destruct (lp (rev rp ++ kept) (vopp (fst r0))) as [w| | |]; try discriminate.
      + destruct Hq as [[Hlw Hfw] _]. destruct (qleb (dot (fst r0) w) (snd r0 + 0)) eqn:E.
        * eapply IH; eauto.
        * eapply IH; [|exact H]. apply Hkeep. exists w. split; auto. split; auto. apply qleb_false in E. qlra.
      + eapply IH; [|exact H]. apply Hkeep. destruct (Hq (- snd r0)) as [x [[Hx Hin] Hv]]. exists x. split; auto. split; auto.
        rewrite dot_vopp in Hv. qlra. }
  apply G. intros K1 r K2 E. destruct K1; discriminate.
Qed.

(* ------------------------------------------------------------------ certified inclusion of row systems (for the tie) *)
Inductive incl_res := InclYes | InclNo (x : vec) | InclUnknown.
(* P inside Q: for every row (a,b) of Q the system P /\ a.x > b has no solution *)
Fixpoint rows_incl (n : nat) (P Q : rows) : incl_res :=
  match Q with
  | [] => InclYes
  | (a, b) :: Q' =>
      match solve n (constrs_of P ++ [{| coef := vopp a; rhs := - b; strict := true |}]) with
      | Unsat _ => rows_incl n P Q'
      | Sat x => InclNo x
      | Unknown => InclUnknown
      end
  end.
Theorem rows_incl_yes n P Q : rows_incl n P Q = InclYes -> forall x, length x = n -> in_rows P x -> in_rows Q x.
Proof.
  induction Q as [|[a b] Q IH]; simpl; intros H x Hx Hin; [constructor|].
  destruct (solve n _) as [y|l|] eqn:E; try discriminate. constructor; [|apply IH; auto]. simpl.
  destruct (Qclt_le_dec b (dot a x)) as [C|C]; auto. exfalso.
  apply (solve_unsat _ _ _ E x Hx). apply all_hold_app. split; [apply all_hold_constrs_of; auto|].
  constructor; [|constructor]. unfold holds; simpl. rewrite dot_vopp. qlra.
Qed.
Theorem rows_incl_no n P Q x : rows_incl n P Q = InclNo x -> length x = n /\ in_rows P x /\ ~ in_rows Q x.
Proof.
  induction Q as [|[a b] Q IH]; simpl; intros H; try discriminate.
  destruct (solve n _) as [y|l|] eqn:E; try discriminate.
  - inversion H; subst. destruct (solve_sat _ _ _ E) as [Hx Hall]. apply all_hold_app in Hall as [H1 H2].
    split; auto. split; [apply all_hold_constrs_of; auto|]. intros Hq. apply Forall_cons_iff in Hq as [Hq _]. simpl in Hq.
    apply Forall_cons_iff in H2 as [H2 _]. unfold holds in H2; simpl in H2. rewrite dot_vopp in H2. qlra.
  - destruct (IH H) as [Hx [Hp Hq]]. split; auto. split; auto. intros C. apply Hq. apply Forall_cons_iff in C as [_ C]. exact C.
Qed.
(* is row (a,b) implied by the rows R with slack d?  unsat (R /\ a.x > b - d) *)
Definition implied_by_margin (n : nat) (R : rows) (a : vec) (b d : Qc) : option bool :=
  match solve n (constrs_of R ++ [{| coef := vopp a; rhs := - (b - d); strict := true |}]) with
  | Unsat _ => Some true
  | Sat _ => Some false
  | Unknown => None
  end.
Theorem implied_by_margin_true n R a b d : implied_by_margin n R a b d = Some true ->
  forall x, length x = n -> in_rows R x -> dot a x <= b - d.
Proof.
  unfold implied_by_margin. destruct (solve n _) as [y|l|] eqn:E; try discriminate. intros _ x Hx Hin.
  destruct (Qclt_le_dec (b - d) (dot a x)) as [C|C]; auto. exfalso.
  apply (solve_unsat _ _ _ E x Hx). apply all_hold_app. split; [apply all_hold_constrs_of; auto|].
  constructor; [|constructor]. unfold holds; simpl. rewrite dot_vopp. qlra.
Qed.

(* ------------------------------------------------------------------ a reference oracle: the certified classifier of
   Cert/LP.v (its answers carry checked certificates, so it is exact wherever it answers at all) *)
Definition exact_lp (n : nat) (Q : rows) (c : vec) : lp_answer :=
  match classify n Q c with
  | LOpt xs _ => AOpt xs
  | LUnb _ _ => AUnb
  | LInf _ => AInf
  | LUnk => AErr
  end.
Theorem exact_lp_exact n : lp_exact n (exact_lp n).
Proof.
  intros Q c. unfold exact_lp. pose proof (classify_sound n Q c) as S.
  destruct (classify n Q c) as [l|xs l|x0 d|]; auto.
  - destruct S as [_ U]. exact U.
Qed.

(* ------------------------------------------------------------------ bridge to the matrix/bias records of Base/Aff.v *)
Lemma combine_of_rows n (R : rows) : combine (Aff.a_mat (Poly.of_rows n R)) (Aff.a_bias (Poly.of_rows n R)) = R.
Proof. unfold Poly.of_rows, Poly.mk; simpl. induction R as [|[a b] R IH]; simpl; auto. rewrite IH. reflexivity. Qed.
Lemma in_poly_of_rows n (R : rows) x : Poly.in_poly (Poly.of_rows n R) x <-> in_rows R x.
Proof. apply Poly.in_poly_rows. Qed.
(* the polytope-level remove_rows / remove_zero_rows of Base/AffOps.v (C16) are these functions on the row list *)
Lemma remove_rows_rs_rows f idx g : AffOps.remove_rows_rs f idx = Some g ->
  remove_rows (combine (Aff.a_mat f) (Aff.a_bias f)) idx = Some (combine (Aff.a_mat g) (Aff.a_bias g)).
Proof.
  unfold AffOps.remove_rows_rs, remove_rows.
  destruct (AffOps.rm_idx 0 (combine (Aff.a_mat f) (Aff.a_bias f)) idx) as [R rest]. destruct rest; try discriminate.
  intros E. inversion E; subst. rewrite combine_of_rows. reflexivity.
Qed.
Lemma remove_zero_rows_aff f :
  AffOps.remove_zero_rows f = Poly.of_rows (Aff.a_in f) (remove_zero_rows (combine (Aff.a_mat f) (Aff.a_bias f))).
Proof. reflexivity. Qed.

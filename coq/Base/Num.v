(* Base/Num.v -- exact rationals (Qc) as the model number type; bridge to lra/nra;
   boolean comparisons with specifications; dyadic floats m * 2^e as rationals. *)
From Coq Require Export QArith Qcanon Lqa Lia List Bool ZArith.
Export ListNotations.
Open Scope Qc_scope.

Lemma this_add x y : (this (x + y) == this x + this y)%Q.
Proof. unfold Qcplus, Q2Qc; cbn [this]. apply Qred_correct. Qed.
Lemma this_mul x y : (this (x * y) == this x * this y)%Q.
Proof. unfold Qcmult, Q2Qc; cbn [this]. apply Qred_correct. Qed.
Lemma this_opp x : (this (- x) == - this x)%Q.
Proof. unfold Qcopp, Q2Qc; cbn [this]. apply Qred_correct. Qed.
Lemma this_sub x y : (this (x - y) == this x - this y)%Q.
Proof. unfold Qcminus. rewrite this_add, this_opp. reflexivity. Qed.
Lemma Qc_eq_iff x y : x = y <-> (this x == this y)%Q.
Proof. split; [intros ->; reflexivity | apply Qc_is_canon]. Qed.

Ltac qc2q :=
  repeat match goal with
  | H : @eq Qc _ _ |- _ => apply Qc_eq_iff in H
  | H : ~ @eq Qc _ _ |- _ => rewrite Qc_eq_iff in H
  end;
  try match goal with |- @eq Qc _ _ => apply Qc_is_canon end;
  try match goal with |- ~ @eq Qc _ _ => rewrite Qc_eq_iff end;
  unfold Qcle, Qclt in *;
  repeat (rewrite ?this_add, ?this_mul, ?this_opp, ?this_sub in * );
  change (this (Q2Qc 0)) with 0%Q in *; change (this (Q2Qc 1)) with 1%Q in *.
Ltac qlra := qc2q; lra.
Ltac qnra := qc2q; nra.

Definition qleb (x y : Qc) : bool := Qle_bool (this x) (this y).
Definition qltb (x y : Qc) : bool := negb (qleb y x).
Definition qeqb (x y : Qc) : bool := Qeq_bool (this x) (this y).
Lemma qleb_spec x y : qleb x y = true <-> x <= y.
Proof. unfold qleb, Qcle. apply Qle_bool_iff. Qed.
Lemma qltb_spec x y : qltb x y = true <-> x < y.
Proof. unfold qltb. rewrite negb_true_iff. split; intros H.
  - destruct (qleb y x) eqn:E; try discriminate. apply Qcnot_le_lt. intros C. apply qleb_spec in C. congruence.
  - destruct (qleb y x) eqn:E; auto. apply qleb_spec in E. exfalso. eapply Qclt_not_le; eauto. Qed.
Lemma qeqb_spec x y : qeqb x y = true <-> x = y.
Proof. unfold qeqb. rewrite Qeq_bool_iff. symmetry. apply Qc_eq_iff. Qed.
Lemma qleb_false x y : qleb x y = false <-> y < x.
Proof. rewrite <- qltb_spec. unfold qltb. rewrite negb_true_iff. reflexivity. Qed.
Lemma qltb_false x y : qltb x y = false <-> y <= x.
Proof. unfold qltb. rewrite negb_false_iff. apply qleb_spec. Qed.
Lemma qeqb_false x y : qeqb x y = false <-> x <> y.
Proof. rewrite <- qeqb_spec. destruct (qeqb x y); split; congruence. Qed.
Lemma qeqb_refl x : qeqb x x = true. Proof. apply qeqb_spec; reflexivity. Qed.

Definition qmax (x y : Qc) : Qc := if qleb x y then y else x.
Definition qmin (x y : Qc) : Qc := if qleb x y then x else y.
Definition qabs (x : Qc) : Qc := if qleb 0 x then x else - x.

Lemma qabs_nonneg x : 0 <= qabs x.
Proof. unfold qabs. destruct (qleb 0 x) eqn:E. apply qleb_spec; auto. apply qleb_false in E. qlra. Qed.

(* integers and dyadic numbers as rationals *)
Definition qz (z : Z) : Qc := Q2Qc (z # 1).
Definition qfrac (a : Z) (b : positive) : Qc := Q2Qc (a # b).
(* the value m * 2^e of a finite float with integer mantissa m and exponent e *)
Definition qc_of_float (m e : Z) : Qc :=
  match e with
  | Z0 => qz m
  | Zpos p => qz (m * Z.pow 2 (Zpos p))
  | Zneg p => qfrac m (Pos.pow 2 p)
  end.

Definition two : Qc := 1 + 1.

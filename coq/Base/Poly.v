(* Base/Poly.v -- polytopes {x | A x <= b} stored as aff records (affine.rs: AffFuncBase<PolytopeT,_>):
   membership, boolean membership, membership with the library's raw tolerance (contains()). *)
From AT Require Import Num Vec Aff.

Definition mk (n : nat) (A : mat) (b : vec) : aff := {| a_in := n; a_mat := A; a_bias := b |}.
(* a polytope given as a list of (row, bias) pairs *)
Definition of_rows (n : nat) (rows : list (vec * Qc)) : aff := mk n (map fst rows) (map snd rows).

Definition vle (u v : vec) : Prop := Forall2 Qcle u v.
(* x satisfies every row:  forall i, row_i . x <= b_i  *)
Definition in_poly (P : aff) (x : vec) : Prop := vle (matvec (a_mat P) x) (a_bias P).
Fixpoint vleb (u v : vec) : bool :=
  match u, v with
  | [], [] => true
  | a :: u', b :: v' => qleb a b && vleb u' v'
  | _, _ => false
  end.
Definition in_polyb (P : aff) (x : vec) : bool := vleb (matvec (a_mat P) x) (a_bias P).
(* contains(): every raw distance b_i - a_i.x is >= -tol (the library uses tol = 1e-8) *)
Definition raw_dist (P : aff) (x : vec) : vec := vsub (a_bias P) (matvec (a_mat P) x).
Definition contains_tol (tol : Qc) (P : aff) (x : vec) : bool :=
  forallb (fun d => qleb (- tol) d) (raw_dist P x).

Lemma vle_cons a u b v : vle (a :: u) (b :: v) <-> a <= b /\ vle u v.
Proof. unfold vle. split; intros H; [inversion H; subst; auto | destruct H; constructor; auto]. Qed.
Lemma vle_nil : vle [] []. Proof. constructor. Qed.
Lemma vle_length u v : vle u v -> length u = length v.
Proof. unfold vle. induction 1; simpl; auto. Qed.
Lemma vleb_spec u v : vleb u v = true <-> vle u v.
Proof.
  revert v; induction u as [|a u IH]; intros [|b v]; simpl.
  - split; auto using vle_nil.
  - split; [discriminate | intros H; inversion H].
  - split; [discriminate | intros H; inversion H].
  - rewrite andb_true_iff, qleb_spec, IH, vle_cons. tauto.
Qed.
Lemma in_polyb_spec P x : in_polyb P x = true <-> in_poly P x.
Proof. apply vleb_spec. Qed.

Lemma vle_app u1 u2 v1 v2 : length u1 = length v1 ->
  (vle (u1 ++ u2) (v1 ++ v2) <-> vle u1 v1 /\ vle u2 v2).
Proof.
  revert v1; induction u1 as [|a u1 IH]; intros [|b v1] H; simpl in *; try discriminate.
  - split; [intros; split; auto using vle_nil | tauto].
  - rewrite !vle_cons, IH by lia. tauto.
Qed.

Lemma matvec_app A1 A2 x : matvec (A1 ++ A2) x = matvec A1 x ++ matvec A2 x.
Proof. apply map_app. Qed.

Lemma in_poly_app n A1 b1 A2 b2 x : length A1 = length b1 ->
  (in_poly (mk n (A1 ++ A2) (b1 ++ b2)) x <-> in_poly (mk n A1 b1) x /\ in_poly (mk n A2 b2) x).
Proof.
  intros H. unfold in_poly; simpl. rewrite matvec_app. apply vle_app. rewrite length_matvec; auto.
Qed.

Lemma in_poly_rows n rows x :
  in_poly (of_rows n rows) x <-> Forall (fun rb => dot (fst rb) x <= snd rb) rows.
Proof.
  unfold in_poly, of_rows; simpl. induction rows as [|[r b] rows IH]; simpl.
  - split; constructor.
  - rewrite vle_cons, IH, Forall_cons_iff. simpl. tauto.
Qed.

Lemma in_poly_cons n r A b0 b x :
  in_poly (mk n (r :: A) (b0 :: b)) x <-> dot r x <= b0 /\ in_poly (mk n A b) x.
Proof. unfold in_poly; simpl. apply vle_cons. Qed.

(* vle against a constant vector *)
Lemma vle_repeat u c n : length u = n -> (vle u (repeat c n) <-> Forall (fun a => a <= c) u).
Proof.
  revert n; induction u as [|a u IH]; intros [|n] H; simpl in *; try discriminate.
  - split; constructor.
  - rewrite vle_cons, Forall_cons_iff, IH by lia. tauto.
Qed.

(* tolerance membership *)
Lemma contains_tol_spec tol P x : length (a_mat P) = length (a_bias P) ->
  (contains_tol tol P x = true <->
   Forall2 (fun l b => l <= b + tol) (matvec (a_mat P) x) (a_bias P)).
Proof.
  unfold contains_tol, raw_dist, vsub. intros H.
  assert (H' : length (matvec (a_mat P) x) = length (a_bias P)) by (rewrite length_matvec; auto).
  clear H. revert H'. generalize (matvec (a_mat P) x) as u. generalize (a_bias P) as b.
  induction b as [|b0 b IH]; intros [|u0 u] H; simpl in *; try discriminate.
  - split; constructor.
  - rewrite andb_true_iff, qleb_spec, IH by lia. split.
    + intros [H1 H2]. constructor; auto. qlra.
    + intros H1. inversion H1; subst. split; auto. qlra.
Qed.
(* exact membership implies contains() for every tolerance >= 0; a row violated by more than tol makes it false *)
Lemma contains_tol_of_in_poly tol P x : 0 <= tol -> in_poly P x -> contains_tol tol P x = true.
Proof.
  intros Ht H.
  assert (HL : length (a_mat P) = length (a_bias P)).
  { rewrite <- (length_matvec (a_mat P) x). apply vle_length; auto. }
  apply (proj2 (contains_tol_spec tol P x HL)).
  clear HL. revert H. unfold in_poly, vle. generalize (matvec (a_mat P) x) (a_bias P).
  induction 1; constructor; auto. qlra.
Qed.
Lemma contains_tol_zero P x : length (a_mat P) = length (a_bias P) ->
  contains_tol 0 P x = in_polyb P x.
Proof.
  intros H. apply eq_true_iff_eq. rewrite contains_tol_spec, in_polyb_spec by auto.
  unfold in_poly, vle. generalize (matvec (a_mat P) x) (a_bias P).
  intros u v; split; induction 1; constructor; auto; qlra.
Qed.

(* Base/LinDep.v -- a little linear algebra over Qc lists: more than n vectors of Q^n are linearly dependent;
   hence a square matrix with a left inverse has it as right inverse too (B A = I -> A (B y) = y).
   Used by C14 to state rotate for R^T R = I alone and apply_post for inv M = I alone. *)
From AT Require Import Num Vec Aff Poly AffOps PolyCtor PolyCtorProofs PolySimplex.

Definition nonzero (c : vec) : Prop := Exists (fun a => a <> 0) c.

Lemma vec_ext n (u v : vec) : length u = n -> length v = n -> (forall j, (j < n)%nat -> nth j u 0 = nth j v 0) -> u = v.
Proof. intros Hu Hv H. apply (nth_ext _ _ 0 0); [congruence|]. intros j Hj. apply H. lia. Qed.
Lemma dot_map_lin {A} (c : vec) (l : list A) (f g : A -> Qc) (t : Qc) :
  dot c (map (fun v => f v - g v * t) l) = dot c (map f l) - t * dot c (map g l).
Proof. revert l; induction c as [|c0 c IH]; intros [|v l]; simpl; try ring. rewrite IH. ring. Qed.
Lemma dot_zeros_r c l : Forall (fun a => a = 0) l -> dot c l = 0.
Proof. intros H. revert c; induction H as [|a l Ha Hl IH]; intros [|c0 c]; simpl; auto. rewrite IH, Ha. ring. Qed.
Lemma nth_hd (r : vec) : nth 0 r 0 = hd 0 r. Proof. destruct r; reflexivity. Qed.
Lemma nth_tl (r : vec) j : nth (S j) r 0 = nth j (tl r) 0. Proof. destruct r; simpl; auto. destruct j; reflexivity. Qed.
Lemma mcol_0 M : mcol 0 M = map (hd 0) M.
Proof. unfold mcol. apply map_ext. intros r. apply nth_hd. Qed.
Lemma mcol_S j M : mcol (S j) M = mcol j (map (@tl Qc) M).
Proof. unfold mcol. rewrite map_map. apply map_ext. intros r. apply nth_tl. Qed.
Lemma nth_vadd u v j : (j < length u)%nat -> (j < length v)%nat -> nth j (vadd u v) 0 = nth j u 0 + nth j v 0.
Proof. intros H1 H2. unfold vadd. apply nth_vzip; auto. Qed.
Lemma nth_vsub u v j : (j < length u)%nat -> (j < length v)%nat -> nth j (vsub u v) 0 = nth j u 0 - nth j v 0.
Proof. intros H1 H2. unfold vsub. apply nth_vzip; auto. Qed.
Lemma cols_tl n M : cols (S n) M -> cols n (map (@tl Qc) M).
Proof. unfold cols. rewrite Forall_map. intros H. eapply Forall_impl; [|exact H]. intros [|a r] Hr; simpl in *; lia. Qed.

(* elimination step: p = h :: t with h <> 0 is the pivot *)
Lemma dep_pivot n (others : list vec) h t : h <> 0 -> length t = n -> cols (S n) others ->
  forall c', vecmat n c' (map (fun v => vsub (tl v) (vscale (hd 0 v / h) t)) others) = vzero n ->
    vadd (vecmat (S n) c' others) (vscale (- (dot c' (map (hd 0) others) / h)) (h :: t)) = vzero (S n).
Proof.
  intros Hh Ht Hc c' Hw.
  assert (Hws : cols n (map (fun v => vsub (tl v) (vscale (hd 0 v / h) t)) others)).
  { unfold cols in *. rewrite Forall_map. eapply Forall_impl; [|exact Hc]. intros [|a r] Hr; simpl in *; try lia.
    rewrite length_vsub; rewrite ?length_vscale; lia. }
  apply (vec_ext (S n)).
  - rewrite length_vadd; rewrite ?length_vscale, length_vecmat; simpl; auto.
  - apply length_vzero.
  - intros j Hj. rewrite nth_vzero.
    rewrite nth_vadd by (rewrite ?length_vscale, ?length_vecmat; simpl; auto; lia).
    rewrite nth_vecmat by auto. rewrite nth_vscale.
    destruct j as [|j].
    + rewrite mcol_0. simpl. field. exact Hh.
    + assert (Hj' : (j < n)%nat) by lia.
      assert (E := nth_vecmat n j Hj' c' _ Hws). rewrite Hw, nth_vzero in E.
      assert (Em : mcol j (map (fun v => vsub (tl v) (vscale (hd 0 v / h) t)) others)
                   = map (fun v => nth j (tl v) 0 - hd 0 v * (nth j t 0 / h)) others).
      { unfold mcol. rewrite map_map. apply map_ext_in. intros v Hv.
        unfold cols in Hc. rewrite Forall_forall in Hc. specialize (Hc v Hv). destruct v as [|a r]; simpl in Hc; try lia.
        simpl tl. simpl hd. rewrite nth_vsub by (rewrite ?length_vscale; lia). rewrite nth_vscale. field. exact Hh. }
      rewrite Em in E. pose proof (dot_map_lin c' others (fun v => nth j (tl v) 0) (fun v => hd 0 v) (nth j t 0 / h)) as E'.
      cbv beta in E'.
      assert (E2 : 0 = dot c' (map (fun v : vec => nth j (tl v) 0) others) - nth j t 0 / h * dot c' (map (fun v : vec => hd 0 v) others)).
      { rewrite <- E'. exact E. }
      clear E E' Em.
      rewrite mcol_S. unfold mcol at 1. rewrite map_map. simpl nth.
      change (map (hd 0) others) with (map (fun v : vec => hd 0 v) others).
      set (X := dot c' (map (fun v : vec => nth j (tl v) 0) others)) in *.
      set (Y := dot c' (map (fun v : vec => hd 0 v) others)) in *.
      change (dot c' (map (fun x : list Qc => nth j (tl x) 0) others)) with X. clearbody X Y.
      set (T := nth j t 0) in *. clearbody T.
      assert (EX : X = T / h * Y).
      { replace X with ((X - T / h * Y) + T / h * Y) by ring. rewrite <- E2. ring. }
      rewrite EX. field. exact Hh.
Qed.

(* more than n vectors of Q^n are linearly dependent *)
Lemma lin_dep n : forall vs, cols n vs -> (n < length vs)%nat ->
  exists c, length c = length vs /\ nonzero c /\ vecmat n c vs = vzero n.
Proof.
  induction n as [|n IH]; intros vs Hc Hl.
  - destruct vs as [|v vs]; [simpl in Hl; lia|]. exists (1 :: repeat 0 (length vs)).
    split; [simpl; rewrite repeat_length; auto|]. split; [left; intros C; apply (f_equal this) in C; vm_compute in C; discriminate|].
    assert (H0 : length (vecmat 0 (1 :: repeat 0 (length vs)) (v :: vs)) = 0%nat) by (apply length_vecmat; auto).
    apply length_zero_iff_nil in H0. rewrite H0. reflexivity.
  - destruct (Forall_Exists_dec (fun v : vec => hd 0 v = 0) (fun v => Qc_eq_dec (hd 0 v) 0) vs) as [Hall|Hex].
    + (* all first coordinates vanish *)
      destruct (IH (map (@tl Qc) vs) (cols_tl n vs Hc)) as [c [Hcl [Hnz Hv]]]; [rewrite map_length; unfold mat, vec in *; lia|].
      exists c. rewrite map_length in Hcl. split; auto. split; auto.
      apply (vec_ext (S n)); [apply length_vecmat; auto | apply length_vzero|].
      intros j Hj. rewrite nth_vzero, nth_vecmat by auto. destruct j as [|j].
      * rewrite mcol_0. apply dot_zeros_r. rewrite Forall_map. exact Hall.
      * rewrite mcol_S. rewrite <- (nth_vecmat n j ltac:(lia) c (map (@tl Qc) vs) (cols_tl n vs Hc)). rewrite Hv. apply nth_vzero.
    + (* a pivot *)
      apply Exists_exists in Hex as [p [Hin Hp]]. apply in_split in Hin as [pre [post ->]].
      apply Forall_app in Hc as [Hpre Hpp]. apply Forall_cons_iff in Hpp as [Hplen Hpost].
      destruct p as [|h t]; [simpl in Hplen; lia|]. simpl in Hp. simpl in Hplen.
      assert (Hoth : cols (S n) (pre ++ post)) by (apply Forall_app; split; auto).
      set (w := fun v : vec => vsub (tl v) (vscale (hd 0 v / h) t)).
      assert (Hws : cols n (map w (pre ++ post))).
      { unfold cols in *. rewrite Forall_map. eapply Forall_impl; [|exact Hoth]. intros [|a r] Hr; simpl in *; try lia.
        unfold w. simpl. rewrite length_vsub; rewrite ?length_vscale; lia. }
      rewrite app_length in Hl. simpl in Hl.
      destruct (IH (map w (pre ++ post)) Hws) as [c' [Hcl [Hnz Hv]]]; [rewrite map_length, app_length; lia|].
      rewrite map_length in Hcl.
      pose proof (dep_pivot n (pre ++ post) h t Hp ltac:(lia) Hoth c' Hv) as Hd.
      set (cp := - (dot c' (map (hd 0) (pre ++ post)) / h)) in *.
      set (c1 := firstn (length pre) c'). set (c2 := skipn (length pre) c').
      assert (Ec : c' = c1 ++ c2) by (symmetry; apply firstn_skipn).
      assert (Hc1 : length c1 = length pre) by (unfold c1; apply firstn_length_le; rewrite Hcl, app_length; lia).
      exists (c1 ++ cp :: c2). split.
      { rewrite !app_length. simpl. rewrite Ec, !app_length in Hcl. unfold mat, vec in *. lia. }
      split.
      { unfold nonzero in *. rewrite Ec in Hnz. apply Exists_app in Hnz as [H|H]; apply Exists_app; [left; auto | right; right; auto]. }
      rewrite vecmat_app by (auto; constructor; auto).
      rewrite Ec, vecmat_app in Hd by auto.
      cbn [vecmat]. rewrite <- Hd.
      rewrite (vadd_comm (vscale cp (h :: t))). rewrite <- vadd_assoc. reflexivity.
Qed.

(* ---- linear maps given by matrices ---- *)
Lemma matvec_vscale A c v : matvec A (vscale c v) = vscale c (matvec A v).
Proof. unfold matvec, vscale at 2. rewrite map_map. apply map_ext. intros r. apply dot_vscale_r. Qed.
Lemma matvec_vzero A n : matvec A (vzero n) = vzero (length A).
Proof. unfold matvec, vzero. induction A as [|r A IH]; simpl; auto. rewrite IH. f_equal. apply dot_vzero_r. Qed.
Lemma matvec_vecmat A n : forall c M, cols n M -> matvec A (vecmat n c M) = vecmat (length A) c (map (matvec A) M).
Proof.
  induction c as [|c0 c IH]; intros [|m0 M] Hc; simpl; try apply matvec_vzero.
  apply Forall_cons_iff in Hc as [Hm Hc].
  rewrite matvec_vadd by (rewrite length_vscale, length_vecmat; auto). rewrite matvec_vscale, IH by auto. reflexivity.
Qed.
Lemma vscale_0 y : vscale 0 y = vzero (length y).
Proof. unfold vscale, vzero. induction y as [|a y IH]; simpl; auto. rewrite IH. f_equal. ring. Qed.
Lemma solve_for_y d : d <> 0 -> forall u y n, length u = n -> length y = n ->
  vadd u (vscale d y) = vzero n -> y = vscale (- / d) u.
Proof.
  intros Hd. induction u as [|u0 u IH]; intros [|y0 y] [|n] Hu Hy H; cbn [length] in *; try discriminate; auto.
  unfold vadd, vscale, vzero in H. cbn [map vzip repeat] in H.
  assert (H0 := f_equal (hd 0) H). assert (H1 := f_equal (@tl Qc) H). cbn [hd tl] in H0, H1. clear H.
  unfold vscale. cbn [map]. f_equal.
  - assert (E : y0 = - / d * u0 + / d * (u0 + d * y0)) by (field; exact Hd). rewrite E, H0. ring.
  - apply (IH y n); auto.
Qed.
Lemma nonzero_zeros n : ~ nonzero (vzero n).
Proof. unfold nonzero, vzero. intros H. apply Exists_exists in H as [a [Ha Hn]]. apply repeat_spec in Ha. auto. Qed.

(* a square matrix with a left inverse: the left inverse is a right inverse as well *)
Theorem left_inverse_is_right_inverse n A B : cols n A -> length A = n -> cols n B -> length B = n ->
  matmul n B A = eye n -> forall y, length y = n -> matvec A (matvec B y) = y.
Proof.
  intros HAc HAl HBc HBl HBA y Hy.
  assert (HBAx : forall x, length x = n -> matvec B (matvec A x) = x).
  { intros x Hx. rewrite <- (matvec_matmul n) by auto. rewrite HBA. apply matvec_eye; auto. }
  assert (Himg : cols n (map (matvec A) (eye n))).
  { unfold cols. rewrite Forall_map. apply Forall_forall. intros e _. rewrite length_matvec; auto. }
  destruct (lin_dep n (map (matvec A) (eye n) ++ [y])) as [c [Hcl [Hnz Hv]]].
  { apply Forall_app. split; auto. }
  { rewrite app_length, map_length, length_eye. simpl. lia. }
  rewrite app_length, map_length, length_eye in Hcl. simpl in Hcl.
  set (c0 := firstn n c). set (dl := skipn n c).
  assert (Ec : c = c0 ++ dl) by (symmetry; apply firstn_skipn).
  assert (Hc0 : length c0 = n) by (unfold c0; apply firstn_length_le; lia).
  assert (Hdl : length dl = 1%nat) by (unfold dl; rewrite skipn_length; lia).
  destruct dl as [|d [|d' dl']]; simpl in Hdl; try lia.
  rewrite Ec in Hv, Hnz.
  rewrite vecmat_app in Hv by (rewrite ?map_length, ?length_eye; auto; repeat constructor; auto).
  cbn [vecmat] in Hv. rewrite vadd_vzero_r in Hv by (rewrite length_vscale; auto).
  pose proof (matvec_vecmat A n c0 (eye n) (cols_eye n)) as E1. rewrite HAl, vecmat_eye in E1 by auto. rewrite <- E1 in Hv. clear E1.
  destruct (Qc_eq_dec d 0) as [Hd|Hd].
  - (* d = 0: A c0 = 0, hence c0 = B (A c0) = 0 and the whole combination is trivial *)
    exfalso. subst d. rewrite vscale_0, Hy, vadd_vzero_r in Hv by (rewrite length_matvec; auto).
    assert (E0 : c0 = vzero n).
    { rewrite <- (HBAx c0 Hc0), Hv. rewrite matvec_vzero. congruence. }
    apply (nonzero_zeros (S n)). replace (vzero (S n)) with (c0 ++ [0]); auto.
    rewrite E0. unfold vzero. rewrite <- repeat_cons. reflexivity.
  - pose proof (solve_for_y d Hd (matvec A c0) y n ltac:(rewrite length_matvec; auto) Hy Hv) as Ey.
    rewrite <- matvec_vscale in Ey. rewrite Ey at 1. rewrite HBAx by (rewrite length_vscale; auto). symmetry. exact Ey.
Qed.

(* ---- C14: apply_post / rotate with the left-inverse equation alone ---- *)
Lemma apply_post_image1 P M inv c y : wf_aff P -> cols (a_in P) inv -> length inv = a_in P ->
  cols (a_in P) M -> length M = a_in P -> matmul (a_in P) inv M = eye (a_in P) ->
  length c = a_in P -> length y = a_in P ->
  exists Q, p_apply_post P (a_in P) inv c = Some Q /\ wf_aff Q /\
            (in_poly Q y <-> exists x, length x = a_in P /\ in_poly P x /\ y = vadd (matvec M x) c).
Proof.
  intros HP Hic Hil HMc HMl HiM Hcl Hy.
  destruct (in_apply_post P inv c y HP Hic Hil Hcl Hy) as [Q [HQ [Hw [_ Hiff]]]].
  exists Q. split; auto. split; auto. rewrite Hiff. split.
  - intros H. exists (matvec inv (vsub y c)). split; [rewrite length_matvec; auto|]. split; auto.
    rewrite (left_inverse_is_right_inverse (a_in P) M inv) by (auto; rewrite length_vsub; congruence).
    symmetry. apply vadd_vsub_cancel. congruence.
  - intros [x [Hx [Hin ->]]]. rewrite vsub_vadd_cancel by (rewrite length_matvec; congruence).
    rewrite <- (matvec_matmul (a_in P)) by auto. rewrite HiM. rewrite matvec_eye by auto. exact Hin.
Qed.
Lemma rotate_image1 P R y : wf_aff P -> length R = a_in P -> cols (a_in P) R ->
  matmul (a_in P) (transpose (a_in P) R) R = eye (a_in P) -> length y = a_in P ->
  exists Q, p_rotate P (a_in P) R = Some Q /\ wf_aff Q /\
            (in_poly Q y <-> exists x, length x = a_in P /\ in_poly P x /\ y = matvec R x).
Proof.
  intros HP HRl HRc H1 Hy. unfold p_rotate. rewrite HRl.
  destruct (apply_post_image1 P R (transpose (a_in P) R) (vzero (a_in P)) y HP) as [Q [HQ [Hw Hiff]]]; auto.
  - rewrite <- HRl at 1. apply cols_transpose.
  - apply length_transpose.
  - apply length_vzero.
  - exists Q. split; auto. split; auto. rewrite Hiff.
    split; intros [x [Hx [Hin He]]]; exists x; split; auto; split; auto.
    + rewrite He. apply vadd_vzero_r. rewrite length_matvec; auto.
    + rewrite He. symmetry. apply vadd_vzero_r. rewrite length_matvec; auto.
Qed.

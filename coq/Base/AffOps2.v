(* Base/AffOps2.v -- the remaining evaluation entry points of affine.rs (C16 mechanism "apply / apply_transpose"):
     AffFunc::apply_transpose   mat.t().dot(&(input - &bias))
     AffFunc::reset_row         mat.row_mut(row).fill(0.); bias[row] = 0.
     Polytope::distances_raw    &bias.broadcast(point.dim()).t() - mat.dot(point)     (several points at once)
   as coded (ndarray's shape rules included), with what they compute for every dimension and input. *)
From AT Require Import Num Vec Aff Poly AffOps PolyCtor PolyCtorProofs.

(* ------------------------------------------------------------------ apply_transpose *)
(* `input - &self.bias` on two 1-D arrays co-broadcasts: equal lengths, or a length-1 input is repeated; every other
   combination panics, either in the subtraction or (1-entry bias, longer input) in the following dot *)
Definition bsub (y b : vec) : option vec :=
  if Nat.eqb (length y) (length b) then Some (vsub y b)
  else if Nat.eqb (length y) 1 then Some (vsub (repeat (hd 0 y) (length b)) b)
  else None.
Definition apply_transpose_rs (f : aff) (y : vec) : option vec :=
  match bsub y (a_bias f) with
  | Some d => Some (vecmat (a_in f) d (a_mat f))
  | None => None
  end.

Lemma bsub_same y b : length y = length b -> bsub y b = Some (vsub y b).
Proof. intros H. unfold bsub. apply Nat.eqb_eq in H. rewrite H. reflexivity. Qed.

(* M^T d is characterised by  <M^T d, x> = <d, M x>  for all x *)
Lemma apply_transpose_adjoint f y x : wf_aff f -> length y = outdim f ->
  exists z, apply_transpose_rs f y = Some z /\ length z = a_in f /\
            dot z x = dot (vsub y (a_bias f)) (matvec (a_mat f) x).
Proof.
  intros [Hc Hl] Hy. unfold outdim in Hy. unfold apply_transpose_rs. rewrite bsub_same by congruence.
  eexists. split; [reflexivity|]. split.
  - apply length_vecmat. exact Hc.
  - apply dot_vecmat. exact Hc.
Qed.

Lemma vec_ext_dot n u v : length u = n -> length v = n ->
  (forall i, (i < n)%nat -> dot u (unitv n i) = dot v (unitv n i)) -> u = v.
Proof.
  intros Hu Hv H. apply (nth_ext u v 0 0); [congruence|].
  intros i Hi. rewrite Hu in Hi. specialize (H i Hi).
  rewrite (dot_comm u), (dot_comm v), !dot_unitv in H by exact Hi. exact H.
Qed.

(* ... and that property determines it *)
Lemma apply_transpose_unique f y z z' : wf_aff f -> length y = outdim f ->
  apply_transpose_rs f y = Some z -> length z' = a_in f ->
  (forall x, length x = a_in f -> dot z' x = dot (vsub y (a_bias f)) (matvec (a_mat f) x)) -> z' = z.
Proof.
  intros Hwf Hy Hz Hl' Hd.
  apply (vec_ext_dot (a_in f)); auto.
  - destruct (apply_transpose_adjoint f y [] Hwf Hy) as [z0 [E [Hl _]]]. congruence.
  - intros i Hi. rewrite Hd by apply length_unitv.
    destruct (apply_transpose_adjoint f y (unitv (a_in f) i) Hwf Hy) as [z0 [E [_ Hdot]]].
    rewrite Hz in E. inversion E; subst z0. symmetry. exact Hdot.
Qed.

(* "For orthogonal functions this corresponds to the inverse": if x -> M x preserves inner products, then
   apply_transpose undoes apply *)
Lemma apply_transpose_inverse f x : wf_aff f -> length x = a_in f ->
  (forall u v, length u = a_in f -> length v = a_in f ->
               dot (matvec (a_mat f) u) (matvec (a_mat f) v) = dot u v) ->
  apply_transpose_rs f (apply f x) = Some x.
Proof.
  intros Hwf Hx Hiso.
  assert (Hy : length (apply f x) = outdim f) by (apply length_apply; exact Hwf).
  destruct (apply_transpose_adjoint f (apply f x) [] Hwf Hy) as [z [E [Hl _]]].
  rewrite E. f_equal. symmetry.
  apply (apply_transpose_unique f (apply f x) z x Hwf Hy E Hx).
  intros x' Hx'. unfold apply.
  assert (Hc : vsub (vadd (matvec (a_mat f) x) (a_bias f)) (a_bias f) = matvec (a_mat f) x).
  { apply vsub_vadd_cancel. rewrite length_matvec. destruct Hwf as [_ Hl2]. exact Hl2. }
  rewrite Hc. symmetry. apply Hiso; auto.
Qed.

(* the shape rule: anything but equal lengths or a 1-entry input panics *)
Lemma apply_transpose_panics f y : length y <> length (a_bias f) -> length y <> 1%nat -> apply_transpose_rs f y = None.
Proof.
  intros H1 H2. unfold apply_transpose_rs, bsub.
  apply Nat.eqb_neq in H1. apply Nat.eqb_neq in H2. rewrite H1, H2. reflexivity.
Qed.
Lemma apply_transpose_broadcast f c : length (a_bias f) <> 1%nat ->
  apply_transpose_rs f [c] = apply_transpose_rs f (repeat c (length (a_bias f))).
Proof.
  intros H. unfold apply_transpose_rs, bsub. rewrite repeat_length, Nat.eqb_refl.
  cbn [length hd]. destruct (Nat.eqb 1 (length (a_bias f))) eqn:E.
  - apply Nat.eqb_eq in E. congruence.
  - rewrite Nat.eqb_refl. reflexivity.
Qed.

(* ------------------------------------------------------------------ reset_row *)
Definition reset_row_rs (f : aff) (i : nat) : option aff :=
  if Nat.ltb i (outdim f) && Nat.ltb i (length (a_bias f))
  then Some (mk (a_in f) (lset (a_mat f) i (vzero (a_in f))) (vset (a_bias f) i 0))
  else None.

Lemma reset_row_apply f i x : wf_aff f -> (i < outdim f)%nat ->
  exists g, reset_row_rs f i = Some g /\ wf_aff g /\ a_in g = a_in f /\ apply g x = vset (apply f x) i 0.
Proof.
  intros [Hc Hl] Hi. unfold reset_row_rs, outdim in *.
  assert (Hi2 : (i < length (a_bias f))%nat) by (rewrite <- Hl; exact Hi).
  apply Nat.ltb_lt in Hi as Hi'. apply Nat.ltb_lt in Hi2 as Hi2'. rewrite Hi', Hi2'. simpl andb.
  eexists. split; [reflexivity|].
  set (g := mk (a_in f) (lset (a_mat f) i (vzero (a_in f))) (vset (a_bias f) i 0)).
  assert (Hgl : length (a_mat g) = length (a_bias g)).
  { simpl. unfold vset. rewrite !length_lset. exact Hl. }
  split; [|split; [reflexivity|]].
  - split; [|exact Hgl]. simpl. unfold cols in *. rewrite Forall_forall in *. intros r Hr.
    apply In_nth with (d := []) in Hr as [j [Hj Hr]]. rewrite length_lset in Hj.
    rewrite nth_lset in Hr by exact Hi. destruct (Nat.eqb j i).
    + subst r. apply length_vzero.
    + subst r. apply Hc. apply nth_In. exact Hj.
  - apply (nth_ext _ _ 0 0).
    + rewrite length_apply' by exact Hgl. unfold vset. rewrite length_lset, length_apply' by exact Hl.
      unfold outdim. simpl. apply length_lset.
    + intros j Hj. rewrite length_apply' in Hj by exact Hgl. unfold outdim in Hj. simpl in Hj. rewrite length_lset in Hj.
      rewrite nth_apply by (auto; unfold outdim; simpl; rewrite length_lset; exact Hj).
      unfold vset. rewrite nth_lset by (rewrite length_apply' by exact Hl; exact Hi).
      simpl a_mat. simpl a_bias. unfold vset. rewrite !nth_lset by assumption.
      destruct (Nat.eqb j i).
      * rewrite dot_vzero. ring.
      * rewrite nth_apply by (auto). reflexivity.
Qed.
Lemma reset_row_panics f i : (outdim f <= i)%nat -> reset_row_rs f i = None.
Proof. intros H. unfold reset_row_rs. apply Nat.ltb_ge in H. rewrite H. reflexivity. Qed.

(* ------------------------------------------------------------------ distances_raw *)
(* the points are the COLUMNS of a dim x k matrix; the result is rows x k: entry (r, j) = bias_r - <row_r, point_j>.
   mat.dot(point) panics unless point has indim rows; modelled on the list of points (columns); k >= 1 in the tie
   (a matrix without columns does not determine the length of its columns) *)
Definition p_distances_raw (P : aff) (pts : list vec) : option (list vec) :=
  if forallb (fun x => Nat.eqb (length x) (a_in P)) pts then Some (map (raw_dist P) pts) else None.

(* column j of distances_raw is distance_raw of point j, and its sign pattern decides membership *)
Lemma distances_raw_columns P pts : length (a_mat P) = length (a_bias P) ->
  Forall (fun x => length x = a_in P) pts ->
  exists D, p_distances_raw P pts = Some D /\ (length D = length pts)%nat /\
            forall j, (j < length pts)%nat ->
                      p_distance_raw P (nth j pts []) = Some (nth j D []) /\
                      (in_poly P (nth j pts []) <-> Forall (fun d => 0 <= d) (nth j D [])).
Proof.
  intros HL H. unfold p_distances_raw.
  assert (E : forallb (fun x => Nat.eqb (length x) (a_in P)) pts = true).
  { apply forallb_forall. rewrite Forall_forall in H. intros x Hx. apply Nat.eqb_eq. auto. }
  rewrite E. eexists. split; [reflexivity|]. split; [apply map_length|].
  intros j Hj.
  assert (Hn : nth j (map (raw_dist P) pts) [] = raw_dist P (nth j pts [])).
  { rewrite (nth_indep _ [] (raw_dist P [])) by (rewrite map_length; exact Hj). apply map_nth. }
  rewrite Hn. apply distance_raw_spec; auto.
  rewrite Forall_forall in H. apply H. apply nth_In. exact Hj.
Qed.
Lemma distances_raw_panics P pts : Exists (fun x => length x <> a_in P) pts -> p_distances_raw P pts = None.
Proof.
  intros H. unfold p_distances_raw.
  destruct (forallb (fun x => Nat.eqb (length x) (a_in P)) pts) eqn:E; [|reflexivity].
  rewrite forallb_forall in E. apply Exists_exists in H as [x [Hx Hne]]. apply E in Hx. apply Nat.eqb_eq in Hx. contradiction.
Qed.

(* Base/PolyCtor.v -- C14: the polytope constructors and transformations of affine.rs, modelled AS CODED over
   `aff` (a polytope {x | A x <= b} is the record (n, A, b), Base/Poly.v).  An operation that panics in Rust
   (assert!, ndarray shape mismatch) returns None.  Square roots (simplex, distance) enter as arguments.
   Definitions only; the lemmas are in PolyCtorProofs.v / PolySimplex.v. *)
From AT Require Import Num Vec Aff Poly AffOps.

(* ------------------------------------------------------------------ unbounded, empty *)
(* from_mats(zeros((1, dim)), ones(1)) and from_mats(zeros((1, dim)), -ones(1)) *)
Definition p_unbounded (n : nat) : aff := mk n [vzero n] [1].
Definition p_empty (n : nat) : aff := mk n [vzero n] [- (1)].

(* ------------------------------------------------------------------ from_normal *)
(* bias = (&normals * &points).sum_axis(1)  (element-wise product with ndarray co-broadcasting, AffOps.bmat);
   from_mats(-normals, -bias) asserts rows(normals) = len(bias).  nn / np = column counts of the two arrays *)
Definition p_from_normal (nn : nat) (N : mat) (np : nat) (Pm : mat) : option aff :=
  match bdim (length N) (length Pm), bdim nn np with
  | Some m, Some k =>
      let bias := map vsum (mzip Qcmult (bmat m k N) (bmat m k Pm)) in
      from_mats_rs nn (mopp N) (vopp bias)
  | _, _ => None
  end.

(* ------------------------------------------------------------------ hypercube *)
(* concatenate [eye; -eye], bias = from_elem(2 dim, radius) *)
Definition p_hypercube (n : nat) (r : Qc) : aff := mk n (eye n ++ mopp (eye n)) (repeat r (n + n)).

(* ------------------------------------------------------------------ axis_bounds / hyperrectangle *)
(* an f64 bound: finite, +inf, -inf or NaN *)
Inductive ebound := BFin (q : Qc) | BPInf | BNInf | BNaN.
(* f64 `lower <= upper` *)
Definition ebleb (l u : ebound) : bool :=
  match l, u with
  | BNaN, _ => false
  | _, BNaN => false
  | BNInf, _ => true
  | _, BPInf => true
  | BFin a, BFin b => qleb a b
  | _, _ => false
  end.
Definition is_inf (b : ebound) : bool := match b with BPInf | BNInf => true | _ => false end.
(* place_axis_bounds AS FOUND: `if lower.is_infinite() { bias = 1 } else { mat[axis] = -1; bias = -lower }`,
   likewise for upper -- an infinite bound of either sign leaves the row 0 <= 1 *)
Definition lo_row_old (n axis : nat) (l : ebound) : vec * Qc :=
  match l with
  | BFin q => (vset (vzero n) axis (- (1)), - q)
  | _ => (vzero n, 1)
  end.
Definition hi_row_old (n axis : nat) (u : ebound) : vec * Qc :=
  match u with
  | BFin q => (vset (vzero n) axis 1, q)
  | _ => (vzero n, 1)
  end.
(* as repaired: -inf as lower (+inf as upper) = no bound: row 0 <= 1; +inf as lower (-inf as upper) admits no
   value: row 0 <= -1 *)
Definition lo_row (n axis : nat) (l : ebound) : vec * Qc :=
  match l with
  | BFin q => (vset (vzero n) axis (- (1)), - q)
  | BPInf => (vzero n, - (1))
  | _ => (vzero n, 1)
  end.
Definition hi_row (n axis : nat) (u : ebound) : vec * Qc :=
  match u with
  | BFin q => (vset (vzero n) axis 1, q)
  | BNInf => (vzero n, - (1))
  | _ => (vzero n, 1)
  end.
(* assert!(lower <= upper) *)
Definition axis_rows (n axis : nat) (l u : ebound) : option (list (vec * Qc)) :=
  if ebleb l u then Some [lo_row n axis l; hi_row n axis u] else None.
Definition axis_rows_old (n axis : nat) (l u : ebound) : option (list (vec * Qc)) :=
  if ebleb l u then Some [lo_row_old n axis l; hi_row_old n axis u] else None.
(* assert!(axis < dim) *)
Definition p_axis_bounds (n axis : nat) (l u : ebound) : option aff :=
  if Nat.ltb axis n then option_map (of_rows n) (axis_rows n axis l u) else None.
Definition p_axis_bounds_old (n axis : nat) (l u : ebound) : option aff :=
  if Nat.ltb axis n then option_map (of_rows n) (axis_rows_old n axis l u) else None.
Fixpoint hyper_rows (n k : nat) (ivs : list (ebound * ebound)) : option (list (vec * Qc)) :=
  match ivs with
  | [] => Some []
  | (l, u) :: ivs' =>
      match axis_rows n k l u, hyper_rows n (S k) ivs' with
      | Some a, Some b => Some (a ++ b)
      | _, _ => None
      end
  end.
Definition p_hyperrectangle (ivs : list (ebound * ebound)) : option aff :=
  option_map (of_rows (length ivs)) (hyper_rows (length ivs) 0 ivs).
(* what a bound pair says about a (finite) coordinate value *)
Definition lo_sat (l : ebound) (v : Qc) : Prop :=
  match l with BFin q => q <= v | BNInf => True | _ => False end.
Definition hi_sat (u : ebound) (v : Qc) : Prop :=
  match u with BFin q => v <= q | BPInf => True | _ => False end.
Definition iv_sat (iv : ebound * ebound) (v : Qc) : Prop := lo_sat (fst iv) v /\ hi_sat (snd iv) v.

(* ------------------------------------------------------------------ simplex (s stands for sqrt(dim + 1)) *)
Definition qn (n : nat) : Qc := qz (Z.of_nat n).
(* mat = ones((dim+1, dim)); mat[i,i] += -(1 + s + dim) for i < dim; bias = ones(dim+1) *)
Definition simplex_diag (n : nat) (s : Qc) : Qc := 1 + - (1 + s + qn n).
Definition simplex_row (n : nat) (s : Qc) (i : nat) : vec := vset (vconst n 1) i (simplex_diag n s).
Definition p_simplex (n : nat) (s : Qc) : aff :=
  mk n (map (simplex_row n s) (seq 0 n) ++ [vconst n 1]) (vconst (S n) 1).
(* its vertices: e_0 .. e_{n-1} and ((1 - s)/n) * (1,..,1) *)
Definition simplex_apex (n : nat) (s : Qc) : vec := vconst n ((1 - s) / qn n).
Definition simplex_vertex (n : nat) (s : Qc) (k : nat) : vec :=
  if Nat.ltb k n then unitv n k else simplex_apex n s.
Definition simplex_vertices (n : nat) (s : Qc) : list vec := eye n ++ [simplex_apex n s].

(* ------------------------------------------------------------------ cross_polytope *)
(* rows = 2^dim; mat[i,j] = -1 if bit j of i is set else 1; bias = ones *)
Definition cross_row (n i : nat) : vec := map (fun j => if Nat.testbit i j then - (1) else 1) (seq 0 n).
Definition p_cross_polytope (n : nat) : aff :=
  mk n (map (cross_row n) (seq 0 (Nat.pow 2 n))) (vconst (Nat.pow 2 n) 1).
Definition sum_abs (x : vec) : Qc := vsum (map qabs x).

(* ------------------------------------------------------------------ translate, intersection, intersection_n *)
(* from_mats(mat, bias + mat.dot(direction)) *)
Definition p_translate (P : aff) (d : vec) : option aff :=
  if Nat.eqb (length d) (a_in P)
  then Some (mk (a_in P) (a_mat P) (vadd (a_bias P) (matvec (a_mat P) d))) else None.
(* assert!(indim equal); concatenate *)
Definition p_intersection (P Q : aff) : option aff := stack_rs P Q.
(* empty slice: unbounded(dim); otherwise ndarray::concatenate (equal column counts) and from_mats; `dim` is
   not looked at when the slice is non-empty *)
Definition p_intersection_n (dim : nat) (ps : list aff) : option aff :=
  match ps with
  | [] => Some (p_unbounded dim)
  | p0 :: _ =>
      if forallb (fun p => Nat.eqb (a_in p) (a_in p0)) ps
      then from_mats_rs (a_in p0) (concat (map a_mat ps)) (concat (map a_bias ps))
      else None
  end.

(* ------------------------------------------------------------------ apply_pre, apply_post, rotate *)
(* assert indim = func.outdim; from_mats(mat.dot(func.mat), -mat.dot(func.bias) + bias) *)
Definition p_apply_pre (P f : aff) : option aff :=
  if Nat.eqb (a_in P) (outdim f)
  then Some (mk (a_in f) (matmul (a_in f) (a_mat P) (a_mat f))
                (vadd (vopp (matvec (a_mat P) (a_bias f))) (a_bias P)))
  else None.
(* inverse_mat has `length inv` rows and k columns.  assert indim = rows(inv); assert rows(inv) = len(bias);
   inverse_mat.dot(bias) needs k = len(bias);
   from_mats(mat.dot(inverse_mat), mat.dot(inverse_mat.dot(bias)) + bias) *)
Definition p_apply_post (P : aff) (k : nat) (inv : mat) (c : vec) : option aff :=
  if Nat.eqb (a_in P) (length inv) && Nat.eqb (length inv) (length c) && Nat.eqb k (length c)
  then Some (mk k (matmul k (a_mat P) inv) (vadd (matvec (a_mat P) (matvec inv c)) (a_bias P)))
  else None.
Definition mcol (j : nat) (M : mat) : vec := map (fun r => nth j r 0) M.
Definition transpose (k : nat) (M : mat) : mat := map (fun j => mcol j M) (seq 0 k).
(* rotate(R) = apply_post(R.t(), zeros(indim)); R has `length R` rows and k columns *)
Definition p_rotate (P : aff) (k : nat) (R : mat) : option aff :=
  p_apply_post P (length R) (transpose k R) (vzero (a_in P)).

(* ------------------------------------------------------------------ distance_raw, distance, contains *)
(* mat.dot(point) panics unless the point has indim entries *)
Definition p_distance_raw (P : aff) (x : vec) : option vec :=
  if Nat.eqb (length x) (a_in P) then Some (raw_dist P x) else None.
Definition tol8 : Qc := qfrac 1 100000000.
Definition p_contains (P : aff) (x : vec) : option bool :=
  if Nat.eqb (length x) (a_in P) then Some (contains_tol tol8 P x) else None.
(* an entry of distance(): a finite quotient, +inf, -inf, NaN *)
Inductive edist := DFin (q : Qc) | DPInf | DNInf | DNaN.
(* the row norm sqrt(sum of squares) is exactly 0 for an all-zero row; for any other row it is the positive
   number `nrm` handed in.  raw / 0 is +-inf for raw <> 0; 0 / 0 is NaN (code as found), replaced by +inf
   (as repaired: `if norm.is_zero() && x.is_zero() { infinity }`) *)
Definition dist_entry (row : vec) (nrm raw : Qc) : edist :=
  if vall_zero row then (if qltb raw 0 then DNInf else DPInf) else DFin (raw / nrm).
(* the code as found after the D12 repair: the squared norm was computed with Iterator::sum, and the sum of an
   empty f64 iterator is -0.0 (rustc 1.96): for a row without columns (0-dimensional space) norm = sqrt(-0.0) = -0.0,
   so raw / norm has the opposite sign; repaired by folding from +0.0 *)
Definition dist_entry_v1 (row : vec) (nrm raw : Qc) : edist :=
  match row with
  | [] => if qeqb raw 0 then DPInf else if qltb raw 0 then DPInf else DNInf
  | _ => dist_entry row nrm raw
  end.
Definition dist_entry_old (row : vec) (nrm raw : Qc) : edist :=
  if vall_zero row then (if qltb raw 0 then DNInf else if qeqb raw 0 then DNaN else DPInf) else DFin (raw / nrm).
Fixpoint dist_rows (e : vec -> Qc -> Qc -> edist) (A : mat) (norms raws : vec) : list edist :=
  match A, norms, raws with
  | r :: A', n0 :: norms', d0 :: raws' => e r n0 d0 :: dist_rows e A' norms' raws'
  | _, _, _ => []
  end.
Definition p_distance (P : aff) (norms : vec) (x : vec) : option (list edist) :=
  if Nat.eqb (length x) (a_in P) then Some (dist_rows dist_entry (a_mat P) norms (raw_dist P x)) else None.
Definition p_distance_v1 (P : aff) (norms : vec) (x : vec) : option (list edist) :=
  if Nat.eqb (length x) (a_in P) then Some (dist_rows dist_entry_v1 (a_mat P) norms (raw_dist P x)) else None.
Definition p_distance_old (P : aff) (norms : vec) (x : vec) : option (list edist) :=
  if Nat.eqb (length x) (a_in P) then Some (dist_rows dist_entry_old (a_mat P) norms (raw_dist P x)) else None.
(* 0 <= d in the extended order (NaN compares false) *)
Definition ed_nonneg (d : edist) : Prop :=
  match d with DFin q => 0 <= q | DPInf => True | _ => False end.
(* sign: -1, 0, 1; NaN has none *)
Definition qsign (q : Qc) : Z := if qltb q 0 then (-1)%Z else if qeqb q 0 then 0%Z else 1%Z.
Definition ed_sign (d : edist) : option Z :=
  match d with DFin q => Some (qsign q) | DPInf => Some 1%Z | DNInf => Some (-1)%Z | DNaN => None end.

(* Base/PolyCleanInst.v -- concrete instances for the C15 property file: D15 (the LP layer as found answered
   Unbounded on programs with an unbounded optimal face, so remove_redundant_row_constraints kept x <= 2 in
   {x <= 1, x <= 2, y <= 1}), and non-vacuity examples for every clean-up. *)
From AT Require Import Num Vec Farkas FM Equiv Cache LP PolyClean.

Definition d15 : rows := [([1; 0], 1); ([1; 0], 1 + 1); ([0; 1], 1)].
(* the LP layer as found: Unbounded whenever the minimum exists on an unbounded optimal face (the class of D14) *)
Definition lp_as_found (n : nat) (Q : rows) (c : vec) : lp_answer :=
  match classify n Q c with
  | LOpt xs _ => match find_face_ray n Q c with Some _ => AUnb | None => AOpt xs end
  | LUnb _ _ => AUnb
  | LInf _ => AInf
  | LUnk => AErr
  end.
Lemma d15_refuted :
  remove_redundant (lp_as_found 2) 0 d15 = RROk d15 /\ ~ irredundant 2 d15 /\
  remove_redundant (exact_lp 2) 0 d15 = RROk [([1; 0], 1); ([0; 1], 1)].
Proof.
  split; [vm_compute; reflexivity|]. split; [|vm_compute; reflexivity].
  intros H. destruct (H [([1; 0], 1)] ([1; 0], 1 + 1) [([0; 1], 1)] eq_refl) as [x [Hl [Hin Hv]]].
  apply Forall_cons_iff in Hin as [H1 _]. cbn [fst snd] in H1, Hv. qlra.
Qed.

Definition half : Qc := 1 / (1 + 1).
Definition ex_sys : rows :=
  [([1; 0], 1); ([0; 0], 1); ([1 + 1; 0], 1 + 1); ([- (1); 0], - (1)); ([1; 0], 1 + 1); ([0; 1], 0); ([0; 0], 0)].
Lemma clean_nonvacuous :
  remove_tautologies 2 ex_sys = [([1; 0], 1); ([1 + 1; 0], 1 + 1); ([- (1); 0], - (1)); ([1; 0], 1 + 1); ([0; 1], 0)] /\
  remove_tautologies 2 [([0; 0], - (1)); ([1; 0], 1)] = canonical_empty 2 /\
  remove_zero_rows ex_sys = [([1; 0], 1); ([0; 0], 1); ([1 + 1; 0], 1 + 1); ([- (1); 0], - (1)); ([1; 0], 1 + 1); ([0; 1], 0)] /\
  remove_rows ex_sys [1; 4; 6]%nat = Some [([1; 0], 1); ([1 + 1; 0], 1 + 1); ([- (1); 0], - (1)); ([0; 1], 0)] /\
  remove_rows ex_sys [4; 1]%nat = None /\
  (* x <= 1 and 2x <= 2 are duplicates, -x <= -1 (negatively scaled) and x <= 2 (other bias) are not *)
  remove_duplicate_rows_with [Some 1; None; Some (1 + 1); Some 1; Some 1; Some 1; None] ex_sys =
    [([1; 0], 1); ([0; 0], 1); ([- (1); 0], - (1)); ([1; 0], 1 + 1); ([0; 1], 0); ([0; 0], 0)] /\
  map (fun rb => (map this (fst rb), this (snd rb)))
      (normalize_with [Some 1; None; Some (1 + 1)] [([1; 0], 1); ([0; 0], 1); ([1 + 1; 0], 1 + 1)]) =
    [([1; 0], 1); ([0; 0], 1); ([1; 0], 1)]%Q /\
  remove_redundant (exact_lp 2) 0 ex_sys = RROk [([1; 0], 1); ([- (1); 0], - (1)); ([0; 1], 0)] /\
  remove_redundant (exact_lp 1) 0 [([1], 0); ([- (1)], - (1)); ([1], 1 + 1)] = RREmpty /\
  (* an empty system whose sub-systems are all feasible is left as it is *)
  remove_redundant (exact_lp 1) 0 [([1], 0); ([- (1)], - (1))] = RROk [([1], 0); ([- (1)], - (1))].
Proof. vm_compute. repeat split; reflexivity. Qed.

(* Base/AffOps.v -- C16: the affine algebra of affine.rs / impl_ops.rs, modelled operation by operation
   AS CODED, over `aff` (Base/Aff.v).  An operation that panics in Rust (ndarray shape mismatch, assert!,
   index out of bounds) returns None; theorems are stated under exactly the guard under which Rust does
   not panic.  The element-wise operators use ndarray's co-broadcasting, which is modelled too
   (`aop_rs`); on operands of equal shape it is the coefficient-wise `aop` of Aff.v (`aop_rs_same`). *)
From Coq Require Import Sorted.
From AT Require Import Num Vec Aff Poly.

(* ------------------------------------------------------------------ small list helpers *)
Lemma nth_map_seq {A} (f : nat -> A) n i d : (i < n)%nat -> nth i (map f (seq 0 n)) d = f i.
Proof.
  intros H. rewrite (nth_indep _ d (f 0%nat)) by (rewrite map_length, seq_length; auto).
  rewrite map_nth, seq_nth; auto.
Qed.

Fixpoint lset {A} (l : list A) (i : nat) (a : A) : list A :=
  match l with
  | [] => []
  | h :: t => match i with O => a :: t | S i' => h :: lset t i' a end
  end.
Lemma length_lset {A} (l : list A) i a : length (lset l i a) = length l.
Proof. revert i; induction l; intros [|i]; simpl; auto. Qed.
Lemma nth_lset {A} (l : list A) i j a d : (i < length l)%nat ->
  nth j (lset l i a) d = if Nat.eqb j i then a else nth j l d.
Proof.
  revert i j; induction l as [|h t IH]; intros [|i] [|j] H; simpl in *; try lia; auto.
  apply IH; lia.
Qed.
Definition vset (v : vec) (i : nat) (c : Qc) : vec := lset v i c.
Definition mset (M : mat) (i j : nat) (c : Qc) : mat := lset M i (vset (nth i M []) j c).

Lemma dot_vset v i c x : (i < length v)%nat ->
  dot (vset v i c) x = dot v x + (c - nth i v 0) * nth i x 0.
Proof.
  unfold vset. revert i x; induction v as [|h t IH]; intros [|i] [|x0 x] H; simpl in *; try lia; try ring.
  rewrite IH by lia. ring.
Qed.

Definition vsum (v : vec) : Qc := fold_right Qcplus 0 v.
Lemma dot_vconst_one x : dot (vconst (length x) 1) x = vsum x.
Proof. unfold vconst. induction x as [|a x IH]; simpl; auto. rewrite IH. ring. Qed.
Lemma dot_vconst_r r n t : length r = n -> dot r (vconst n t) = t * vsum r.
Proof. unfold vconst. revert n; induction r as [|a r IH]; intros [|n] H; simpl in *; try discriminate; try ring.
  rewrite (IH n) by lia. ring. Qed.
Lemma nth_vzero n i : nth i (vzero n) 0 = 0.
Proof. unfold vzero. revert i; induction n; intros [|i]; simpl; auto. Qed.
Lemma vadd_vzero_r u n : length u = n -> vadd u (vzero n) = u.
Proof. unfold vadd, vzero. revert n; induction u as [|a u IH]; intros [|n] H; simpl in *; try discriminate; auto.
  rewrite IH by lia. f_equal. ring. Qed.
Lemma matvec_mzero m n x : matvec (mzero m n) x = vzero m.
Proof. unfold mzero, matvec, vzero. induction m; simpl; auto. rewrite IHm. f_equal. apply dot_vzero. Qed.
Lemma matvec_mopp A x : matvec (mopp A) x = vopp (matvec A x).
Proof. unfold matvec, mopp, vopp. rewrite !map_map. apply map_ext. intros r. apply dot_vopp. Qed.

Lemma nth_apply f x i : length (a_mat f) = length (a_bias f) -> (i < outdim f)%nat ->
  nth i (apply f x) 0 = dot (nth i (a_mat f) []) x + nth i (a_bias f) 0.
Proof.
  intros H Hi. unfold apply, vadd, outdim in *. rewrite nth_vzip by (rewrite ?length_matvec; lia).
  rewrite nth_matvec by auto. reflexivity.
Qed.
Lemma length_apply' f x : length (a_mat f) = length (a_bias f) -> length (apply f x) = outdim f.
Proof. intros H. unfold apply, outdim. rewrite length_vadd; rewrite length_matvec; auto. Qed.
(* apply as a map over (row, bias) pairs *)
Definition row_val (x : vec) (rb : vec * Qc) : Qc := dot (fst rb) x + snd rb.
Lemma apply_as_map f x : apply f x = map (row_val x) (combine (a_mat f) (a_bias f)).
Proof.
  unfold apply, vadd, matvec. generalize (a_bias f). induction (a_mat f) as [|r A IH]; intros [|b0 b]; simpl; auto.
  rewrite IH. reflexivity.
Qed.
Lemma apply_of_rows n rows x : apply (of_rows n rows) x = map (row_val x) rows.
Proof. unfold apply, of_rows, vadd, matvec; simpl. induction rows as [|[r b] rows IH]; simpl; auto. rewrite IH. reflexivity. Qed.

(* ------------------------------------------------------------------ from_mats, apply *)
(* from_mats: assert_eq!(rows of mat, len of bias) *)
Definition from_mats_rs (n : nat) (A : mat) (b : vec) : option aff :=
  if Nat.eqb (length A) (length b) then Some (mk n A b) else None.
(* apply: ndarray's dot panics unless the input has indim entries *)
Definition apply_rs (f : aff) (x : vec) : option vec :=
  if Nat.eqb (length x) (a_in f) then Some (apply f x) else None.

(* ------------------------------------------------------------------ named constructors, as coded *)
Definition c_identity (n : nat) : aff := mk n (eye n) (vzero n).
Definition c_zeros (n : nat) : aff := mk n (mzero n n) (vzero n).             (* dim x dim zero matrix *)
Definition c_constant (n : nat) (v : Qc) : aff := mk n [vzero n] [v].         (* 1 x dim *)
Definition c_unit (n i : nat) : option aff :=
  if Nat.ltb i n then Some (mk n [vset (vzero n) i 1] [0]) else None.
Definition c_zero_idx (n i : nat) : option aff :=
  if Nat.ltb i n then Some (mk n (mset (eye n) i i 0) (vzero n)) else None.
Definition c_sum (n : nat) : aff := mk n [vconst n 1] [0].
(* subtraction as it was coded before the repair: matrix[0,left] = 1; matrix[0,right] = -1 (the second
   store overwrites the first when left = right) *)
Definition c_subtraction_old (n l r : nat) : option aff :=
  if Nat.ltb l n && Nat.ltb r n then Some (mk n [vset (vset (vzero n) l 1) r (- (1))] [0]) else None.
(* repaired: matrix[0,right] = matrix[0,right] - 1 *)
Definition c_subtraction (n l r : nat) : option aff :=
  if Nat.ltb l n && Nat.ltb r n then
    let v := vset (vzero n) l 1 in Some (mk n [vset v r (nth r v 0 - 1)] [0])
  else None.
(* rotation(rotator): assert square; n = number of columns of R *)
Definition c_rotation (n : nat) (R : mat) : option aff :=
  if Nat.eqb (length R) n then Some (mk n R (vzero n)) else None.
Definition diag (s : vec) : mat := map (fun i => vset (vzero (length s)) i (nth i s 0)) (seq 0 (length s)).
Definition c_scaling (s : vec) : aff := mk (length s) (diag s) (vzero (length s)).
Definition c_uniform_scaling (n : nat) (c : Qc) : aff := c_scaling (vconst n c).
(* slice(reference_point): None stands for a NaN entry (axis kept), Some v fixes the axis to v *)
Definition c_slice (ref : list (option Qc)) : aff :=
  mk (length ref)
     (diag (map (fun o => match o with None => 1 | Some _ => 0 end) ref))
     (map (fun o => match o with None => 0 | Some v => v end) ref).
(* translation as it was coded before the repair (D8): a ZERO matrix of shape (len offset) x dim *)
Definition c_translation_old (n : nat) (offset : vec) : aff := mk n (mzero (length offset) n) offset.
(* repaired: identity matrix; from_mats then requires len offset = dim *)
Definition c_translation (n : nat) (offset : vec) : option aff := from_mats_rs n (eye n) offset.

(* ---- what the constructors compute ---- *)
Lemma apply_identity n x : length x = n -> apply (c_identity n) x = x.
Proof. intros H. unfold apply, c_identity; simpl. rewrite matvec_eye by auto. apply vadd_vzero_r; auto. Qed.
Lemma apply_zeros n x : apply (c_zeros n) x = vzero n.
Proof. unfold apply, c_zeros; simpl. rewrite matvec_mzero. apply vadd_vzero_r. apply length_vzero. Qed.
Lemma apply_constant n v x : apply (c_constant n v) x = [v].
Proof. unfold apply, c_constant, vadd; simpl. rewrite dot_vzero. f_equal. ring. Qed.
Lemma apply_unit n i x : (i < n)%nat ->
  exists f, c_unit n i = Some f /\ wf_aff f /\ apply f x = [nth i x 0].
Proof.
  intros H. unfold c_unit. apply Nat.ltb_lt in H as H'. rewrite H'. eexists; split; [reflexivity|]. split.
  - split; simpl; auto. constructor; auto. unfold vset. rewrite length_lset. apply length_vzero.
  - unfold apply, vadd; simpl. rewrite dot_vset by (rewrite length_vzero; auto). rewrite dot_vzero, nth_vzero. f_equal. ring.
Qed.
Lemma c_unit_panics n i : (n <= i)%nat -> c_unit n i = None.
Proof. intros H. unfold c_unit. apply Nat.ltb_ge in H. rewrite H. reflexivity. Qed.

Lemma cols_eye n : cols n (eye n).
Proof. unfold cols, eye. apply Forall_forall. intros r Hr. apply in_map_iff in Hr as [j [<- _]]. apply length_unitv. Qed.
Lemma length_eye n : length (eye n) = n.
Proof. unfold eye. rewrite map_length, seq_length. reflexivity. Qed.
Lemma nth_eye n k : (k < n)%nat -> nth k (eye n) [] = unitv n k.
Proof. intros H. unfold eye. apply nth_map_seq; auto. Qed.

Lemma apply_zero_idx n i x : (i < n)%nat -> length x = n ->
  exists f, c_zero_idx n i = Some f /\ apply f x = vset x i 0.
Proof.
  intros H Hx. unfold c_zero_idx. apply Nat.ltb_lt in H as H'. rewrite H'. eexists; split; [reflexivity|].
  set (f := mk n (mset (eye n) i i 0) (vzero n)).
  assert (HL : length (a_mat f) = length (a_bias f)).
  { simpl. unfold mset. rewrite length_lset, length_eye, length_vzero. reflexivity. }
  assert (Ho : outdim f = n). { unfold outdim; simpl. unfold mset. rewrite length_lset, length_eye. reflexivity. }
  apply (nth_ext _ _ 0 0).
  - rewrite length_apply' by auto. unfold vset. rewrite length_lset. lia.
  - intros k Hk. rewrite length_apply' in Hk by auto. rewrite Ho in Hk.
    rewrite nth_apply by (auto; lia). simpl. unfold mset, vset.
    rewrite !nth_lset by (rewrite ?length_eye; lia). rewrite nth_vzero.
    destruct (Nat.eqb k i) eqn:E.
    + apply Nat.eqb_eq in E. subst k. rewrite nth_eye by auto.
      change (lset (unitv n i) i 0) with (vset (unitv n i) i 0).
      rewrite dot_vset by (rewrite length_unitv; auto). rewrite dot_unitv by auto.
      rewrite nth_unitv by auto. rewrite Nat.eqb_refl. ring.
    + rewrite nth_eye by auto. rewrite dot_unitv by auto. ring.
Qed.

Lemma apply_sum n x : length x = n -> apply (c_sum n) x = [vsum x].
Proof. intros H. subst n. unfold apply, c_sum, vadd; simpl. rewrite dot_vconst_one. f_equal. ring. Qed.

Lemma apply_subtraction n l r x : (l < n)%nat -> (r < n)%nat ->
  exists f, c_subtraction n l r = Some f /\ apply f x = [nth l x 0 - nth r x 0].
Proof.
  intros Hl Hr. unfold c_subtraction. apply Nat.ltb_lt in Hl as Hl'. apply Nat.ltb_lt in Hr as Hr'. rewrite Hl', Hr'. simpl.
  eexists; split; [reflexivity|]. unfold apply, vadd; simpl.
  rewrite dot_vset by (unfold vset; rewrite length_lset, length_vzero; auto).
  rewrite dot_vset by (rewrite length_vzero; auto). rewrite dot_vzero, nth_vzero. f_equal. ring.
Qed.
(* the code before the repair agrees with the documentation exactly when left <> right ... *)
Lemma apply_subtraction_old n l r x : (l < n)%nat -> (r < n)%nat -> l <> r ->
  exists f, c_subtraction_old n l r = Some f /\ apply f x = [nth l x 0 - nth r x 0].
Proof.
  intros Hl Hr Hne. unfold c_subtraction_old. apply Nat.ltb_lt in Hl as Hl'. apply Nat.ltb_lt in Hr as Hr'. rewrite Hl', Hr'. simpl.
  eexists; split; [reflexivity|]. unfold apply, vadd; simpl.
  rewrite dot_vset by (unfold vset; rewrite length_lset, length_vzero; auto).
  rewrite dot_vset by (rewrite length_vzero; auto). rewrite dot_vzero.
  unfold vset. rewrite nth_lset by (rewrite length_vzero; auto). rewrite !nth_vzero.
  replace (Nat.eqb r l) with false by (symmetry; apply Nat.eqb_neq; congruence). f_equal. ring.
Qed.
(* ... and is refuted for left = right: it returns -x_left instead of x_left - x_left = 0 *)
Lemma subtraction_old_refuted :
  exists n l r x f, (l < n)%nat /\ (r < n)%nat /\ c_subtraction_old n l r = Some f /\
    apply f x <> [nth l x 0 - nth r x 0].
Proof. exists 1%nat, 0%nat, 0%nat, [1], (mk 1 [[- (1)]] [0]). repeat split; auto. vm_compute. discriminate. Qed.

Lemma apply_rotation n R x : cols n R -> length R = n ->
  exists f, c_rotation n R = Some f /\ wf_aff f /\ apply f x = matvec R x.
Proof.
  intros Hc HL. unfold c_rotation. rewrite HL, Nat.eqb_refl. eexists; split; [reflexivity|]. split.
  - split; simpl; auto. rewrite length_vzero; auto.
  - unfold apply; simpl. apply vadd_vzero_r. rewrite length_matvec; auto.
Qed.
Lemma c_rotation_panics n R : length R <> n -> c_rotation n R = None.
Proof. intros H. unfold c_rotation. apply Nat.eqb_neq in H. rewrite H. reflexivity. Qed.

Lemma length_diag s : length (diag s) = length s.
Proof. unfold diag. rewrite map_length, seq_length. reflexivity. Qed.
Lemma matvec_diag s x : length x = length s -> matvec (diag s) x = vmul s x.
Proof.
  intros H. apply (nth_ext _ _ 0 0).
  - rewrite length_matvec, length_diag. unfold vmul. rewrite length_vzip. lia.
  - intros k Hk. rewrite length_matvec, length_diag in Hk.
    rewrite nth_matvec by (rewrite length_diag; auto). unfold diag. rewrite nth_map_seq by auto.
    rewrite dot_vset by (rewrite length_vzero; auto). rewrite dot_vzero, nth_vzero.
    unfold vmul. rewrite nth_vzip by lia. ring.
Qed.
Lemma apply_scaling s x : length x = length s -> apply (c_scaling s) x = vmul s x.
Proof.
  intros H. unfold apply, c_scaling; simpl. rewrite matvec_diag by auto. apply vadd_vzero_r.
  unfold vmul. rewrite length_vzip. lia.
Qed.
Lemma vmul_vconst n c x : length x = n -> vmul (vconst n c) x = vscale c x.
Proof. unfold vmul, vconst, vscale. revert n; induction x as [|a x IH]; intros [|n] H; simpl in *; try discriminate; auto.
  rewrite IH by lia. reflexivity. Qed.
Lemma apply_uniform_scaling n c x : length x = n -> apply (c_uniform_scaling n c) x = vscale c x.
Proof.
  intros H. unfold c_uniform_scaling. rewrite apply_scaling by (unfold vconst; rewrite repeat_length; auto).
  apply vmul_vconst; auto.
Qed.

(* the documented slice: kept axes pass through, the others are fixed *)
Fixpoint slice_spec (ref : list (option Qc)) (x : vec) : vec :=
  match ref, x with
  | o :: ref', a :: x' => (match o with None => a | Some v => v end) :: slice_spec ref' x'
  | _, _ => []
  end.
Lemma apply_slice ref x : length x = length ref -> apply (c_slice ref) x = slice_spec ref x.
Proof.
  intros H. unfold apply, c_slice; simpl. rewrite matvec_diag by (rewrite map_length; auto).
  unfold vmul, vadd. revert x H; induction ref as [|o ref IH]; intros [|a x] H; simpl in *; try discriminate; auto.
  rewrite IH by lia. f_equal. destruct o; ring.
Qed.

Lemma apply_translation n offset x : length x = n -> length offset = n ->
  exists f, c_translation n offset = Some f /\ wf_aff f /\ apply f x = vadd x offset.
Proof.
  intros Hx Ho. unfold c_translation, from_mats_rs. rewrite length_eye, Ho, Nat.eqb_refl.
  eexists; split; [reflexivity|]. split.
  - split; simpl; [apply cols_eye | rewrite length_eye; auto].
  - unfold apply; simpl. rewrite matvec_eye by auto. reflexivity.
Qed.
Lemma c_translation_panics n offset : length offset <> n -> c_translation n offset = None.
Proof. intros H. unfold c_translation, from_mats_rs. rewrite length_eye. apply Nat.eqb_neq in H.
  rewrite Nat.eqb_sym. rewrite H. reflexivity. Qed.
(* D8: the zero-matrix version returns the constant offset ... *)
Lemma apply_translation_old n offset x : apply (c_translation_old n offset) x = offset.
Proof.
  unfold apply, c_translation_old; simpl. rewrite matvec_mzero. rewrite vadd_comm. apply vadd_vzero_r. reflexivity.
Qed.
(* ... so the documented behaviour x + offset is refuted for it *)
Lemma translation_old_refuted :
  exists n offset x, length x = n /\ length offset = n /\ apply (c_translation_old n offset) x <> vadd x offset.
Proof. exists 1%nat, [1], [1]. repeat split. vm_compute. discriminate. Qed.

(* ------------------------------------------------------------------ compose, stack *)
Definition compose_rs (f g : aff) : option aff :=
  if Nat.eqb (a_in f) (outdim g) then Some (acompose f g) else None.
Lemma compose_rs_apply f g x : wf_aff f -> wf_aff g -> a_in f = outdim g ->
  exists h, compose_rs f g = Some h /\ wf_aff h /\ apply h x = apply f (apply g x).
Proof.
  intros Hf Hg Hd. unfold compose_rs. rewrite Hd, Nat.eqb_refl. eexists; split; [reflexivity|]. split.
  - apply wf_acompose; auto.
  - apply apply_acompose; auto.
Qed.
Lemma compose_rs_panics f g : a_in f <> outdim g -> compose_rs f g = None.
Proof. intros H. unfold compose_rs. apply Nat.eqb_neq in H. rewrite H. reflexivity. Qed.

Definition astack (f g : aff) : aff := mk (a_in f) (a_mat f ++ a_mat g) (a_bias f ++ a_bias g).
Definition stack_rs (f g : aff) : option aff := if Nat.eqb (a_in f) (a_in g) then Some (astack f g) else None.
Lemma combine_app' {A B} (l1 l2 : list A) (m1 m2 : list B) : length l1 = length m1 ->
  combine (l1 ++ l2) (m1 ++ m2) = combine l1 m1 ++ combine l2 m2.
Proof. revert m1; induction l1; intros [|] H; simpl in *; try discriminate; auto. rewrite IHl1 by lia. reflexivity. Qed.
Lemma apply_astack f g x : length (a_mat f) = length (a_bias f) ->
  apply (astack f g) x = apply f x ++ apply g x.
Proof. intros H. rewrite !apply_as_map. unfold astack; simpl. rewrite combine_app' by auto. apply map_app. Qed.
Lemma stack_rs_apply f g x : wf_aff f -> wf_aff g -> a_in f = a_in g ->
  exists h, stack_rs f g = Some h /\ wf_aff h /\ apply h x = apply f x ++ apply g x.
Proof.
  intros [Hf1 Hf2] [Hg1 Hg2] Hd. unfold stack_rs. rewrite Hd, Nat.eqb_refl. eexists; split; [reflexivity|]. split.
  - split; simpl.
    + apply Forall_app. split; auto. rewrite Hd; auto.
    + rewrite !app_length. lia.
  - apply apply_astack; auto.
Qed.
Lemma stack_rs_panics f g : a_in f <> a_in g -> stack_rs f g = None.
Proof. intros H. unfold stack_rs. apply Nat.eqb_neq in H. rewrite H. reflexivity. Qed.

(* ------------------------------------------------------------------ element-wise operators with ndarray co-broadcasting *)
Definition bdim (a b : nat) : option nat :=
  if Nat.eqb a b then Some a else if Nat.eqb a 1 then Some b else if Nat.eqb b 1 then Some a else None.
Definition bvec (n : nat) (v : vec) : vec := if Nat.eqb (length v) n then v else repeat (hd 0 v) n.
Definition bmat (m n : nat) (A : mat) : mat :=
  let A' := map (bvec n) A in if Nat.eqb (length A') m then A' else repeat (hd [] A') m.
Definition aop_rs (fo : Qc -> Qc -> Qc) (f g : aff) : option aff :=
  match bdim (outdim f) (outdim g), bdim (a_in f) (a_in g) with
  | Some m, Some n =>
    Some (mk n (mzip fo (bmat m n (a_mat f)) (bmat m n (a_mat g))) (vzip fo (bvec m (a_bias f)) (bvec m (a_bias g))))
  | _, _ => None
  end.
Lemma bdim_same a : bdim a a = Some a. Proof. unfold bdim. rewrite Nat.eqb_refl. reflexivity. Qed.
Lemma bvec_same n v : length v = n -> bvec n v = v.
Proof. intros H. unfold bvec. rewrite H, Nat.eqb_refl. reflexivity. Qed.
Lemma bmat_same m n A : length A = m -> cols n A -> bmat m n A = A.
Proof.
  intros H Hc. unfold bmat. rewrite map_length, H, Nat.eqb_refl.
  clear H. induction Hc as [|r A Hr Hc IH]; simpl; auto. rewrite bvec_same by auto. rewrite IH. reflexivity.
Qed.
Lemma aop_rs_same fo f g : wf_aff f -> wf_aff g -> same_shape f g -> aop_rs fo f g = Some (aop fo f g).
Proof.
  intros [Hf1 Hf2] [Hg1 Hg2] [Hi Ho]. unfold aop_rs, aop. rewrite <- Ho, <- Hi, !bdim_same.
  unfold outdim in *. rewrite !bmat_same, !bvec_same; auto; try congruence.
Qed.
Lemma aop_rs_panics fo f g : bdim (outdim f) (outdim g) = None \/ bdim (a_in f) (a_in g) = None -> aop_rs fo f g = None.
Proof. unfold aop_rs. intros [H|H]; rewrite H; auto. destruct (bdim (outdim f) (outdim g)); auto. Qed.

(* coefficient (i,j) and bias entry i *)
Definition coef (f : aff) (i j : nat) : Qc := nth j (nth i (a_mat f) []) 0.
Definition bcoef (f : aff) (i : nat) : Qc := nth i (a_bias f) 0.
Lemma nth_mzip fo A B i : (i < length A)%nat -> (i < length B)%nat ->
  nth i (mzip fo A B) [] = vzip fo (nth i A []) (nth i B []).
Proof. revert B i; induction A as [|a A IH]; intros [|b B] [|i] H1 H2; simpl in *; try lia; auto. apply IH; lia. Qed.
Lemma cols_nth n A i : cols n A -> (i < length A)%nat -> length (nth i A []) = n.
Proof. intros H Hi. unfold cols in H. rewrite Forall_forall in H. apply H. apply nth_In; auto. Qed.
(* every operator built with aop acts coefficient-wise *)
Lemma aop_coef fo f g i j : wf_aff f -> wf_aff g -> same_shape f g -> (i < outdim f)%nat -> (j < a_in f)%nat ->
  coef (aop fo f g) i j = fo (coef f i j) (coef g i j) /\ bcoef (aop fo f g) i = fo (bcoef f i) (bcoef g i).
Proof.
  intros [Hf1 Hf2] [Hg1 Hg2] [Hi Ho] Hli Hlj. unfold coef, bcoef, aop, outdim in *; simpl. split.
  - rewrite nth_mzip by lia. apply nth_vzip; rewrite cols_nth with (n := a_in f); auto; try lia. rewrite Hi; auto.
  - apply nth_vzip; lia.
Qed.

(* / and %: a zero coefficient of the divisor gives inf/NaN in Rust (and from_mats' debug assertion then panics
   in debug builds); the model answers RNonfinite on exactly those operands and the theorems exclude them. *)
Definition qtrunc (q : Qc) : Z := Z.quot (Qnum (this q)) (Zpos (Qden (this q))).
(* Rust's f64 % : truncated remainder, exact on every pair of floats *)
Definition qrem (x y : Qc) : Qc := x - y * qz (qtrunc (x / y)).
Inductive opres := ROk (f : aff) | RPanic | RNonfinite.
Definition all_nz (v : vec) : bool := forallb (fun c => negb (qeqb c 0)) v.
Definition aop_guarded (fo : Qc -> Qc -> Qc) (f g : aff) : opres :=
  match bdim (outdim f) (outdim g), bdim (a_in f) (a_in g) with
  | Some m, Some n =>
    if forallb all_nz (bmat m n (a_mat g)) && all_nz (bvec m (a_bias g))
    then match aop_rs fo f g with Some h => ROk h | None => RPanic end
    else RNonfinite
  | _, _ => RPanic
  end.
Definition adiv := aop Qcdiv.
Definition arem := aop qrem.
Definition adiv_rs := aop_guarded Qcdiv.
Definition arem_rs := aop_guarded qrem.
Definition nz_aff (g : aff) : bool := forallb all_nz (a_mat g) && all_nz (a_bias g).
Lemma aop_guarded_same fo f g : wf_aff f -> wf_aff g -> same_shape f g -> nz_aff g = true ->
  aop_guarded fo f g = ROk (aop fo f g).
Proof.
  intros Hf Hg Hs Hz. unfold aop_guarded. rewrite aop_rs_same by auto.
  destruct Hf as [Hf1 Hf2], Hg as [Hg1 Hg2], Hs as [Hi Ho]. rewrite <- Ho, <- Hi, !bdim_same.
  unfold outdim in *. rewrite bmat_same, bvec_same; try congruence.
  unfold nz_aff in Hz. rewrite Hz. reflexivity.
Qed.
Lemma aop_guarded_zero_divisor fo f g : wf_aff f -> wf_aff g -> same_shape f g -> nz_aff g = false ->
  aop_guarded fo f g = RNonfinite.
Proof.
  intros Hf Hg Hs Hz. unfold aop_guarded.
  destruct Hf as [Hf1 Hf2], Hg as [Hg1 Hg2], Hs as [Hi Ho]. rewrite <- Ho, <- Hi, !bdim_same.
  unfold outdim in *. rewrite bmat_same, bvec_same; try congruence.
  unfold nz_aff in Hz. rewrite Hz. reflexivity.
Qed.
Lemma nz_aff_coef g i j : wf_aff g -> nz_aff g = true -> (i < outdim g)%nat -> (j < a_in g)%nat ->
  coef g i j <> 0 /\ bcoef g i <> 0.
Proof.
  intros [Hg1 Hg2] Hz Hi Hj. unfold nz_aff in Hz. apply andb_true_iff in Hz as [Hz1 Hz2].
  unfold coef, bcoef, outdim in *. rewrite forallb_forall in Hz1. unfold all_nz in *. split.
  - assert (Hr : In (nth i (a_mat g) []) (a_mat g)) by (apply nth_In; auto).
    specialize (Hz1 _ Hr). rewrite forallb_forall in Hz1.
    assert (Hc : In (nth j (nth i (a_mat g) []) 0) (nth i (a_mat g) [])).
    { apply nth_In. rewrite cols_nth with (n := a_in g); auto. }
    specialize (Hz1 _ Hc). apply negb_true_iff, qeqb_false in Hz1. auto.
  - rewrite forallb_forall in Hz2. assert (Hc : In (nth i (a_bias g) 0) (a_bias g)) by (apply nth_In; lia).
    specialize (Hz2 _ Hc). apply negb_true_iff, qeqb_false in Hz2. auto.
Qed.
(* division really divides: (f/g)_ij * g_ij = f_ij on the admitted operands *)
Lemma adiv_coef f g i j : wf_aff f -> wf_aff g -> same_shape f g -> nz_aff g = true ->
  (i < outdim f)%nat -> (j < a_in f)%nat ->
  coef (adiv f g) i j = coef f i j / coef g i j /\ coef (adiv f g) i j * coef g i j = coef f i j /\
  bcoef (adiv f g) i = bcoef f i / bcoef g i /\ bcoef (adiv f g) i * bcoef g i = bcoef f i.
Proof.
  intros Hf Hg Hs Hz Hi Hj. destruct (aop_coef Qcdiv f g i j Hf Hg Hs Hi Hj) as [H1 H2].
  destruct Hs as [Hs1 Hs2]. destruct (nz_aff_coef g i j Hg Hz) as [N1 N2]; try lia.
  unfold adiv. rewrite H1, H2. repeat split; field; auto.
Qed.

(* ------------------------------------------------------------------ ownership and type switches (no data change) *)
Definition view (f : aff) : aff := f.
Definition to_owned (f : aff) : aff := f.
Definition as_polytope (f : aff) : aff := f.
Definition as_function (P : aff) : aff := P.
Definition poly_new (f : aff) : aff := f.
Definition negate (f : aff) : aff := aneg f.

Inductive polyrepr := MatrixLeqBias | MatrixBiasLeqZero | MatrixGeqBias | MatrixBiasGeqZero.
Definition convert_to (P : aff) (r : polyrepr) : aff :=
  match r with
  | MatrixLeqBias => P
  | MatrixBiasLeqZero => mk (a_in P) (a_mat P) (vopp (a_bias P))
  | MatrixGeqBias => mk (a_in P) (mopp (a_mat P)) (vopp (a_bias P))
  | MatrixBiasGeqZero => mk (a_in P) (mopp (a_mat P)) (a_bias P)
  end.
(* the set a function g denotes under representation r *)
Definition denotes (r : polyrepr) (g : aff) (x : vec) : Prop :=
  match r with
  | MatrixLeqBias => Forall2 (fun l b => l <= b) (matvec (a_mat g) x) (a_bias g)       (* mat x <= bias *)
  | MatrixBiasLeqZero => Forall (fun v => v <= 0) (apply g x)                          (* mat x + bias <= 0 *)
  | MatrixGeqBias => Forall2 (fun l b => b <= l) (matvec (a_mat g) x) (a_bias g)       (* mat x >= bias *)
  | MatrixBiasGeqZero => Forall (fun v => 0 <= v) (apply g x)                          (* mat x + bias >= 0 *)
  end.
Lemma F2_cons_iff {A B} (R : A -> B -> Prop) a u b v : Forall2 R (a :: u) (b :: v) <-> R a b /\ Forall2 R u v.
Proof. split; intros H; [inversion H; subst; auto | destruct H; constructor; auto]. Qed.
Lemma den_leq0 u b : length u = length b -> (Forall (fun v => v <= 0) (vadd u (vopp b)) <-> vle u b).
Proof.
  unfold vadd, vopp. revert b; induction u as [|u0 u IH]; intros [|b0 b] H; simpl in *; try discriminate.
  - split; constructor.
  - rewrite vle_cons, Forall_cons_iff, IH by lia. split; intros [H1 H2]; split; auto; qlra.
Qed.
Lemma den_geq u b : length u = length b -> (Forall2 (fun l c => c <= l) (vopp u) (vopp b) <-> vle u b).
Proof.
  unfold vopp. revert b; induction u as [|u0 u IH]; intros [|b0 b] H; simpl in *; try discriminate.
  - split; constructor.
  - rewrite vle_cons, F2_cons_iff, IH by lia. split; intros [H1 H2]; split; auto; qlra.
Qed.
Lemma den_geq0 u b : length u = length b -> (Forall (fun v => 0 <= v) (vadd (vopp u) b) <-> vle u b).
Proof.
  unfold vadd, vopp. revert b; induction u as [|u0 u IH]; intros [|b0 b] H; simpl in *; try discriminate.
  - split; constructor.
  - rewrite vle_cons, Forall_cons_iff, IH by lia. split; intros [H1 H2]; split; auto; qlra.
Qed.
Lemma convert_to_denotes P r x : length (a_mat P) = length (a_bias P) ->
  (denotes r (convert_to P r) x <-> in_poly P x).
Proof.
  intros H. assert (H' : length (matvec (a_mat P) x) = length (a_bias P)) by (rewrite length_matvec; auto).
  unfold in_poly. destruct r; simpl; unfold apply; simpl; rewrite ?matvec_mopp.
  - reflexivity.
  - apply den_leq0; auto.
  - apply den_geq; auto.
  - apply den_geq0; auto.
Qed.
Lemma view_owned_apply f x : apply (view f) x = apply f x /\ apply (to_owned f) x = apply f x.
Proof. split; reflexivity. Qed.
Lemma as_polytope_denotes f x : in_poly (as_polytope f) x <-> vle (matvec (a_mat f) x) (a_bias f).
Proof. reflexivity. Qed.
Lemma as_function_apply P x : apply (as_function P) x = vadd (matvec (a_mat P) x) (a_bias P).
Proof. reflexivity. Qed.

(* ------------------------------------------------------------------ rows *)
Definition arow (f : aff) (i : nat) : aff := mk (a_in f) [nth i (a_mat f) []] [nth i (a_bias f) 0].
Definition row_rs (f : aff) (i : nat) : option aff := if Nat.ltb i (outdim f) then Some (arow f i) else None.
Lemma apply_arow f i x : length (a_mat f) = length (a_bias f) -> (i < outdim f)%nat ->
  apply (arow f i) x = [nth i (apply f x) 0].
Proof. intros H Hi. rewrite nth_apply by auto. reflexivity. Qed.
Lemma row_rs_apply f i x : wf_aff f -> (i < outdim f)%nat ->
  exists g, row_rs f i = Some g /\ wf_aff g /\ apply g x = [nth i (apply f x) 0].
Proof.
  intros [H1 H2] Hi. unfold row_rs. apply Nat.ltb_lt in Hi as Hi'. rewrite Hi'. eexists; split; [reflexivity|]. split.
  - split; simpl; auto. constructor; auto. apply cols_nth; auto.
  - apply apply_arow; auto.
Qed.
Lemma row_rs_panics f i : (outdim f <= i)%nat -> row_rs f i = None.
Proof. intros H. unfold row_rs. apply Nat.ltb_ge in H. rewrite H. reflexivity. Qed.

Definition row_iter (f : aff) : list aff :=
  map (fun rb => mk (a_in f) [fst rb] [snd rb]) (combine (a_mat f) (a_bias f)).
Lemma row_iter_apply f x : concat (map (fun g => apply g x) (row_iter f)) = apply f x.
Proof.
  rewrite apply_as_map. unfold row_iter. rewrite map_map.
  induction (combine (a_mat f) (a_bias f)) as [|[r b] l IH]; simpl; auto. rewrite IH. reflexivity.
Qed.
Lemma row_iter_length f : length (a_mat f) = length (a_bias f) -> length (row_iter f) = outdim f.
Proof. intros H. unfold row_iter, outdim. rewrite map_length, combine_length. lia. Qed.
Lemma combine_nth' {A B} (l : list A) (m : list B) i a b : length l = length m ->
  nth i (combine l m) (a, b) = (nth i l a, nth i m b).
Proof. apply combine_nth. Qed.
Lemma row_iter_nth f i : length (a_mat f) = length (a_bias f) -> (i < outdim f)%nat ->
  nth i (row_iter f) (mk (a_in f) [[]] [0]) = arow f i.
Proof.
  intros H Hi. unfold row_iter.
  change (mk (a_in f) [[]] [0]) with ((fun rb : vec * Qc => mk (a_in f) [fst rb] [snd rb]) ([], 0)).
  rewrite map_nth. rewrite combine_nth by auto. reflexivity.
Qed.

(* from_row_iter(indim, outdim, rows): takes the first outdim items (panics when there are fewer);
   row.assign(&x) broadcasts a length-1 item and panics on any other length mismatch *)
Definition from_row_iter_rs (n m : nat) (rows : list (vec * Qc)) : option aff :=
  if Nat.leb m (length rows) then
    let rs := firstn m rows in
    if forallb (fun rb => Nat.eqb (length (fst rb)) n || Nat.eqb (length (fst rb)) 1) rs
    then Some (of_rows n (map (fun rb => (bvec n (fst rb), snd rb)) rs))
    else None
  else None.
Lemma map_fst_combine {A B} (l : list A) (m : list B) : length l = length m -> map fst (combine l m) = l.
Proof. revert m; induction l; intros [|] H; simpl in *; try discriminate; auto. rewrite IHl by lia. reflexivity. Qed.
Lemma map_snd_combine {A B} (l : list A) (m : list B) : length l = length m -> map snd (combine l m) = m.
Proof. revert m; induction l; intros [|] H; simpl in *; try discriminate; auto. rewrite IHl by lia. reflexivity. Qed.
(* re-assembling the rows of f gives f back *)
Lemma from_row_iter_rows f : wf_aff f ->
  from_row_iter_rs (a_in f) (outdim f) (combine (a_mat f) (a_bias f)) = Some f.
Proof.
  intros [H1 H2]. unfold from_row_iter_rs, outdim. rewrite combine_length, <- H2, Nat.min_id, Nat.leb_refl. cbv zeta.
  replace (firstn (length (a_mat f)) (combine (a_mat f) (a_bias f))) with (combine (a_mat f) (a_bias f)).
  2:{ symmetry. apply firstn_all2. rewrite combine_length. lia. }
  assert (E : forallb (fun rb : vec * Qc => Nat.eqb (length (fst rb)) (a_in f) || Nat.eqb (length (fst rb)) 1)
                (combine (a_mat f) (a_bias f)) = true).
  { apply forallb_forall. intros [r b] Hin. apply in_combine_l in Hin. unfold cols in H1. rewrite Forall_forall in H1.
    simpl. rewrite (H1 _ Hin), Nat.eqb_refl. reflexivity. }
  unfold vec in *. rewrite E. f_equal. unfold of_rows. rewrite !map_map. simpl.
  destruct f as [n A b]; simpl in *. unfold mk. f_equal.
  - rewrite <- (map_fst_combine A b H2) at 2. apply map_ext_in. intros [r c] Hin. apply in_combine_l in Hin.
    unfold cols in H1. rewrite Forall_forall in H1. simpl. apply bvec_same; auto.
  - apply map_snd_combine; auto.
Qed.
Lemma from_row_iter_panics n m rows : (length rows < m)%nat -> from_row_iter_rs n m rows = None.
Proof. intros H. unfold from_row_iter_rs. apply Nat.leb_gt in H. rewrite H. reflexivity. Qed.

(* ------------------------------------------------------------------ remove_rows (iterator of ascending indices) *)
Fixpoint rm_idx {A} (k : nat) (l : list A) (idx : list nat) : list A * list nat :=
  match l with
  | [] => ([], idx)
  | a :: l' =>
    match idx with
    | [] => (a :: l', [])
    | i :: idx' =>
      if Nat.eqb k i then rm_idx (S k) l' idx'
      else let (o, r) := rm_idx (S k) l' idx in (a :: o, r)
    end
  end.
(* panics when the index iterator is not consumed (an index out of range or not ascending) *)
Definition remove_rows_rs (f : aff) (idx : list nat) : option aff :=
  let (rows, rest) := rm_idx 0 (combine (a_mat f) (a_bias f)) idx in
  match rest with [] => Some (of_rows (a_in f) rows) | _ => None end.
Lemma rm_idx_map {A B} (h : A -> B) k l idx :
  rm_idx k (map h l) idx = (map h (fst (rm_idx k l idx)), snd (rm_idx k l idx)).
Proof.
  revert k idx; induction l as [|a l IH]; intros k [|i idx]; simpl; auto.
  destruct (Nat.eqb k i); auto. rewrite IH. destruct (rm_idx (S k) l (i :: idx)); reflexivity.
Qed.
(* the kept rows compute the kept components *)
Lemma remove_rows_apply f idx g x : remove_rows_rs f idx = Some g ->
  apply g x = fst (rm_idx 0 (apply f x) idx).
Proof.
  unfold remove_rows_rs. rewrite (apply_as_map f), rm_idx_map.
  destruct (rm_idx 0 (combine (a_mat f) (a_bias f)) idx) as [rows rest]. destruct rest; try discriminate.
  intros E. inversion E; subst. simpl. apply apply_of_rows.
Qed.
(* on a strictly ascending in-range index list rm_idx removes exactly the listed positions *)
Definition kept (idx : list nat) (p : nat * Qc) : bool := negb (existsb (Nat.eqb (fst p)) idx).
Lemma rm_idx_nil {A} k (l : list A) : rm_idx k l [] = (l, []).
Proof. destruct l; reflexivity. Qed.
Lemma filter_all {A} (p : A -> bool) l : (forall a, In a l -> p a = true) -> filter p l = l.
Proof. induction l; simpl; intros H; auto. rewrite H by auto. rewrite IHl; auto. Qed.
Lemma rm_idx_spec (l : vec) : forall k idx, StronglySorted lt idx ->
  Forall (fun i => (k <= i < k + length l)%nat) idx ->
  rm_idx k l idx = (map snd (filter (kept idx) (combine (seq k (length l)) l)), []).
Proof.
  induction l as [|a l IH]; intros k idx Hs Hb.
  - destruct idx as [|i idx]; simpl; auto. apply Forall_cons_iff in Hb as [Hb _]. simpl in Hb. lia.
  - destruct idx as [|i idx].
    + rewrite rm_idx_nil. f_equal. rewrite filter_all by reflexivity. symmetry. apply map_snd_combine.
      rewrite seq_length; auto.
    + apply Forall_cons_iff in Hb as [Hb0 Hb]. apply StronglySorted_inv in Hs as [Hs Hlt].
      simpl rm_idx. simpl length. simpl seq. simpl combine. simpl filter. unfold kept at 1. simpl fst.
      simpl existsb. destruct (Nat.eqb k i) eqn:E.
      * apply Nat.eqb_eq in E. subst i. simpl negb. cbv iota.
        rewrite IH; auto.
        2:{ rewrite Forall_forall in *. intros j Hj. specialize (Hb j Hj). specialize (Hlt j Hj). simpl in Hb. lia. }
        f_equal. f_equal. apply filter_ext_in. intros [j c] Hin. apply in_combine_l in Hin. apply in_seq in Hin.
        unfold kept. simpl. replace (Nat.eqb j k) with false by (symmetry; apply Nat.eqb_neq; lia). reflexivity.
      * apply Nat.eqb_neq in E. simpl in Hb0.
        assert (Hex : existsb (Nat.eqb k) idx = false).
        { apply not_true_is_false. intros C. apply existsb_exists in C as [j [Hj Ej]]. apply Nat.eqb_eq in Ej. subst j.
          rewrite Forall_forall in Hlt. specialize (Hlt k Hj). lia. }
        rewrite Hex. simpl.
        rewrite IH.
        2:{ constructor; auto. }
        2:{ constructor; [lia|]. rewrite Forall_forall in *. intros j Hj. specialize (Hb j Hj). specialize (Hlt j Hj). simpl in Hb. lia. }
        reflexivity.
Qed.

(* ------------------------------------------------------------------ remove_zero_rows *)
Definition nzrow (rb : vec * Qc) : bool := negb (vall_zero (fst rb)) || negb (qeqb (snd rb) 0).
Definition remove_zero_rows (f : aff) : aff := of_rows (a_in f) (filter nzrow (combine (a_mat f) (a_bias f))).
(* a removed row is the zero function *)
Lemma zero_row_val rb x : nzrow rb = false -> row_val x rb = 0.
Proof.
  unfold nzrow, row_val. rewrite orb_false_iff, !negb_false_iff. intros [H1 H2].
  rewrite dot_all_zero by auto. apply qeqb_spec in H2. rewrite H2. ring.
Qed.
(* the kept rows compute exactly the components of f that are not identically zero rows *)
Lemma remove_zero_rows_apply f x :
  apply (remove_zero_rows f) x = map (row_val x) (filter nzrow (combine (a_mat f) (a_bias f))) /\
  apply f x = map (row_val x) (combine (a_mat f) (a_bias f)).
Proof. split; [apply apply_of_rows | apply apply_as_map]. Qed.
(* in particular every component of f x is either a component of the result or 0, in order *)
Fixpoint reinsert (rows : list (vec * Qc)) (ys : vec) : vec :=
  match rows with
  | [] => []
  | rb :: rows' => if nzrow rb then (hd 0 ys) :: reinsert rows' (tl ys) else 0 :: reinsert rows' ys
  end.
Lemma remove_zero_rows_reinsert f x :
  reinsert (combine (a_mat f) (a_bias f)) (apply (remove_zero_rows f) x) = apply f x.
Proof.
  destruct (remove_zero_rows_apply f x) as [-> ->].
  induction (combine (a_mat f) (a_bias f)) as [|rb l IH]; simpl; auto.
  destruct (nzrow rb) eqn:E; simpl; rewrite IH; auto. rewrite zero_row_val; auto.
Qed.
Lemma wf_remove_zero_rows f : wf_aff f -> wf_aff (remove_zero_rows f).
Proof.
  intros [H1 H2]. unfold remove_zero_rows, of_rows, wf_aff; simpl. split.
  - unfold cols. apply Forall_forall. intros r Hr. apply in_map_iff in Hr as [[r' b] [<- Hin]].
    apply filter_In in Hin as [Hin _]. apply in_combine_l in Hin. unfold cols in H1. rewrite Forall_forall in H1. auto.
  - rewrite !map_length. reflexivity.
Qed.

(* ------------------------------------------------------------------ remove_zero_columns *)
Definition col_nz (A : mat) (j : nat) : bool := existsb (fun r => negb (qeqb (nth j r 0) 0)) A.
Definition colmask (f : aff) : list bool := map (col_nz (a_mat f)) (seq 0 (a_in f)).
Fixpoint vfilter (mask : list bool) (v : vec) : vec :=
  match mask, v with
  | m :: mask', a :: v' => if m then a :: vfilter mask' v' else vfilter mask' v'
  | _, _ => []
  end.
Definition count_true (mask : list bool) : nat := length (filter (fun b => b) mask).
(* as repaired (D13): when no column is kept the result has a (outdim x 0) matrix; the code before the repair
   panicked there (ndarray::stack of an empty list) *)
Definition remove_zero_columns (f : aff) : aff :=
  let mask := colmask f in mk (count_true mask) (map (vfilter mask) (a_mat f)) (a_bias f).
Definition remove_zero_columns_old (f : aff) : option aff :=
  if Nat.eqb (count_true (colmask f)) 0 then None else Some (remove_zero_columns f).

Lemma length_vfilter mask v : length v = length mask -> length (vfilter mask v) = count_true mask.
Proof.
  unfold count_true. revert v; induction mask as [|m mask IH]; intros [|a v] H; simpl in *; try discriminate; auto.
  destruct m; simpl; rewrite IH by lia; reflexivity.
Qed.
Lemma dot_vfilter mask : forall r x, length r = length mask ->
  (forall j, (j < length mask)%nat -> nth j mask true = false -> nth j r 0 = 0) ->
  dot (vfilter mask r) (vfilter mask x) = dot r x.
Proof.
  induction mask as [|m mask IH]; intros [|r0 r] [|x0 x] HL Hz; simpl in *; try discriminate; auto.
  - destruct m; auto. simpl. apply dot_nil_r.
  - assert (IH' : dot (vfilter mask r) (vfilter mask x) = dot r x).
    { apply IH; [lia|]. intros j Hj Hm. apply (Hz (S j)); auto. lia. }
    destruct m; simpl; rewrite IH'; auto.
    rewrite (Hz 0%nat) by (auto; lia). ring.
Qed.
Lemma colmask_zero f r j : In r (a_mat f) -> (j < a_in f)%nat -> nth j (colmask f) true = false -> nth j r 0 = 0.
Proof.
  intros Hr Hj Hm. unfold colmask in Hm. rewrite nth_map_seq in Hm by auto. unfold col_nz in Hm.
  destruct (qeqb (nth j r 0) 0) eqn:E; [apply qeqb_spec; auto|].
  exfalso. assert (C : existsb (fun r => negb (qeqb (nth j r 0) 0)) (a_mat f) = true).
  { apply existsb_exists. exists r. rewrite E. auto. }
  congruence.
Qed.
(* dropping all-zero columns does not change the function: on the projection of x onto the kept coordinates
   the result computes f x *)
Lemma remove_zero_columns_apply f x : wf_aff f -> length x = a_in f ->
  apply (remove_zero_columns f) (vfilter (colmask f) x) = apply f x.
Proof.
  intros [H1 H2] Hx. unfold apply, remove_zero_columns; simpl. f_equal.
  unfold matvec. rewrite map_map. apply map_ext_in. intros r Hr.
  assert (HLm : length (colmask f) = a_in f) by (unfold colmask; rewrite map_length, seq_length; auto).
  apply dot_vfilter.
  - unfold cols in H1. rewrite Forall_forall in H1. rewrite HLm. auto.
  - intros j Hj Hm. rewrite HLm in Hj. eapply colmask_zero; eauto.
Qed.
Lemma wf_remove_zero_columns f : wf_aff f -> wf_aff (remove_zero_columns f).
Proof.
  intros [H1 H2]. unfold remove_zero_columns, wf_aff; simpl. split.
  - unfold cols. apply Forall_forall. intros r Hr. apply in_map_iff in Hr as [r' [<- Hin]].
    apply length_vfilter. unfold colmask. rewrite map_length, seq_length.
    unfold cols in H1. rewrite Forall_forall in H1. auto.
  - rewrite map_length. auto.
Qed.
(* D13: before the repair the operation panicked on every function without a non-zero column, e.g. constant(3, 5) *)
Lemma remove_zero_columns_old_refuted :
  exists f, wf_aff f /\ remove_zero_columns_old f = None.
Proof. exists (c_constant 3 (1 + 1)). split; [apply wf_affb_spec|]; vm_compute; reflexivity. Qed.

(* Extract/ExC09.v -- extraction for family c09 *)
From Coq Require Import Extraction ExtrOcamlBasic ExtrOcamlString.
From AT Require Import Num Vec Aff Farkas FM Equiv PTree Cells Abs Reduce Paths PolyGen PolyGenProofs PolyGenUpd PolyGenSub.
Extraction Blacklist List String Int.
Extraction "model_c09.ml"
  qc_of_float qz qfrac qleb qltb qeqb Qcplus Qcmult Qcopp Qcminus Qcdiv
  dot vadd vsub matvec veqb meqb
  apply acompose aff_eqb wf_affb outdim
  check_model check_farkas solve
  eval term route compose apply_func wfb outsb size nterms
  pieces tree_equiv check_cex out_eqb
  aget aset alen akeys abs_at abs_tree
  binb fullb follow path_preds edge_row in_closedb
  pgen_new pgen_run dabs f_new f_run preorder edge_rows ginvb
  pgen_run_upd upd_node
  f_new_sub start_rows sub_spec_run gsubb.

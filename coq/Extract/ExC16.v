(* Extract/ExC16.v -- extraction of the C16 model (affine algebra, named constructors) to OCaml. *)
From Coq Require Import Extraction ExtrOcamlBasic ExtrOcamlString.
From AT Require Import Num Vec Aff Farkas FM Equiv PTree Cells Abs Poly AffOps AffOps2.
Extraction Blacklist List String Int.
Extraction "model_c16.ml"
  qc_of_float qz qfrac qleb qltb qeqb qabs Qcplus Qcmult Qcopp Qcminus Qcdiv
  dot vadd vsub matvec veqb meqb
  apply acompose aff_eqb wf_affb outdim aadd asub amul aneg
  check_model check_farkas solve
  eval term route compose apply_func lift comp_schema wfb outsb size nterms
  pieces tree_equiv check_cex out_eqb
  aget aset alen akeys
  abs_at abs_tree
  mk of_rows in_polyb contains_tol
  from_mats_rs apply_rs
  c_identity c_zeros c_constant c_unit c_zero_idx c_sum c_subtraction c_rotation c_scaling c_uniform_scaling
  c_slice c_translation
  compose_rs stack_rs aop_rs adiv_rs arem_rs qrem negate
  view to_owned as_polytope as_function poly_new convert_to
  row_rs row_iter from_row_iter_rs remove_rows_rs remove_zero_rows remove_zero_columns
  apply_transpose_rs reset_row_rs.

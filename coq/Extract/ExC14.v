(* Extract/ExC14.v -- extraction of the C14 model (polytope constructors / transformations, certified polytope
   comparison) to OCaml.  The tree / arena names are only there because the shared runner glue (conv.ml,
   common.ml) refers to them. *)
From Coq Require Import Extraction ExtrOcamlBasic ExtrOcamlString.
From AT Require Import Num Vec Aff Farkas FM Equiv PTree Cells Abs Poly AffOps PolyCtor PolySimplex PolyInc AffOps2.
Extraction Blacklist List String Int.
Extraction "model_c14.ml"
  qc_of_float qz qfrac qleb qltb qeqb qabs Qcplus Qcmult Qcopp Qcminus Qcdiv
  dot vadd vsub vopp matvec matmul veqb meqb vall_zero eye vzero
  apply acompose aff_eqb wf_affb outdim
  check_model check_farkas solve
  eval term route compose apply_func lift comp_schema wfb outsb size nterms
  pieces tree_equiv check_cex out_eqb
  aget aset alen akeys
  abs_at abs_tree
  mk of_rows in_polyb contains_tol raw_dist
  from_mats_rs apply_rs
  p_unbounded p_empty p_from_normal p_hypercube p_axis_bounds p_axis_bounds_old p_hyperrectangle
  p_simplex simplex_vertices qn p_cross_polytope sum_abs
  p_translate p_intersection p_intersection_n p_apply_pre p_apply_post p_rotate transpose
  p_distance_raw p_contains p_distance p_distance_old tol8 qsign
  poly_incl poly_equiv
  p_distances_raw.

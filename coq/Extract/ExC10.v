(* Extract/ExC10.v -- extraction of the C10 referee (LP specification, certificate checkers, unverified FM search,
   judge) to OCaml.  The shared glue (runner/conv.ml, runner/common.ml) refers to the base names of the C02
   extraction, so they are listed too. *)
From Coq Require Import Extraction ExtrOcamlBasic ExtrOcamlString.
From AT Require Import Num Vec Aff Farkas FM Equiv PTree Cells Abs Cache LP Cheb.
Extraction Blacklist List String Int.
Extraction "model_c10.ml"
  qc_of_float qz qfrac qleb qltb qeqb qabs Qcplus Qcmult Qcopp Qcminus Qcdiv
  dot vadd vsub matvec veqb meqb vscale vopp vzero
  apply acompose aff_eqb wf_affb outdim aadd asub amul aneg
  check_model check_farkas solve
  eval term route compose apply_func lift comp_schema wfb outsb size nterms
  pieces tree_equiv check_cex out_eqb
  aget aset alen akeys
  abs_at abs_tree
  in_rowsb contains_tol constrs_of tighten relax norm1 empty_cert thin_cert
  feasb wf_rowsb chk_infeasible chk_empty chk_member chk_dual chk_bounded chk_optimal chk_near chk_unbounded
  lp_search classify judge referee rejected chk_face_ray find_face_ray
  tau_margin tol_member delta_obj tol_thin tol_for
  cheb_rows cheb_sys cheb_obj.

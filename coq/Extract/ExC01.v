(* Extract/ExC01.v -- extraction of the C01 model (distillation with oracles, reference semantics, reference tree). *)
From Coq Require Import Extraction ExtrOcamlBasic ExtrOcamlString.
From AT Require Import Num Vec Aff Farkas FM Equiv PTree Cells Abs Reduce Paths PolyGen Cache Elim CPrune WfC OpsWf Schema Arch Net NetReplay EquivThin.
Extraction Blacklist List String Int.
Extraction "model_c01.ml"
  qc_of_float qz qfrac qleb qltb qeqb Qcplus Qcmult Qcopp Qcminus Qcdiv
  dot vadd vsub matvec veqb meqb
  apply acompose aff_eqb wf_affb outdim aadd asub amul aneg
  check_model check_farkas solve
  eval term route compose apply_func lift comp_schema wfb outsb size nterms
  pieces tree_equiv check_cex out_eqb
  aget aset alen akeys abs_at abs_tree
  binb fullb
  dabs preorder node_rows in_rowsb contains_tol tighten relax empty_cert thin_cert cache_check constrs_of
  cabs elim erase cev k0 compose_prune cprune ctree_eqb_shape cwftb cof
  sc_sixth_f64 layer_out_dim layers_out_dim layers_ok layer_wfb layer_eval net_eval distill_ref distill_ref_from layer_tree
  distill_from distill id_tree oracle_by_query
  tree_equiv_skip thin_skip.

(* Extract/ExC08.v -- extraction for family c08 *)
From Coq Require Import Extraction ExtrOcamlBasic ExtrOcamlString.
From AT Require Import Num Vec Aff Farkas FM Equiv PTree Cells Abs Reduce Cache Elim WfC OpsWf ReduceSweep.
Extraction Blacklist List String Int.
Extraction "model_c08.ml"
  qc_of_float qz qfrac qleb qltb qeqb Qcplus Qcmult Qcopp Qcminus Qcdiv
  dot vadd vsub matvec veqb meqb
  apply acompose aff_eqb wf_affb outdim
  check_model check_farkas solve
  eval term route compose apply_func wfb outsb size nterms
  pieces tree_equiv check_cex out_eqb
  aget aset alen akeys abs_at abs_tree
  reduce reduce_in binb no_eq_sibb
  cabs ctree_eqb erase sweep bfs_order cheight creduce c_idx_of.

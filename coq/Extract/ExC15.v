(* Extract/ExC15.v -- extraction of the C15 model (constraint clean-ups, certified inclusion, exact LP oracle) to OCaml.
   The shared glue (runner/conv.ml, runner/common.ml) refers to the base names of the C02 extraction, so they are listed too. *)
From Coq Require Import Extraction ExtrOcamlBasic ExtrOcamlString.
From AT Require Import Num Vec Aff Farkas FM Equiv PTree Cells Abs Cache LP PolyClean.
Extraction Blacklist List String Int.
Extraction "model_c15.ml"
  qc_of_float qz qfrac qleb qltb qeqb qabs Qcplus Qcmult Qcopp Qcminus Qcdiv
  dot vadd vsub matvec veqb meqb vscale vopp vzero
  apply acompose aff_eqb wf_affb outdim aadd asub amul aneg
  check_model check_farkas solve
  eval term route compose apply_func lift comp_schema wfb outsb size nterms
  pieces tree_equiv check_cex out_eqb
  aget aset alen akeys
  abs_at abs_tree
  in_rowsb constrs_of tighten relax norm1 empty_cert thin_cert
  classify tau_margin
  row_eqb subseqb remove_rows remove_zero_rows scale_row normalize_with remove_tautologies canonical_empty canonical_unbounded
  is_zero_row remove_duplicate_rows_with remove_redundant exact_lp rows_incl implied_by_margin.

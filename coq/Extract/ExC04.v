(* Extract/ExC04.v -- extraction for C04 (operation histories: executable well-formedness, the step function,
   compatibility, replay oracles).  The shared glue (runner/conv.ml, runner/common.ml) refers to the base names of
   the C02 extraction, so they are listed too. *)
From Coq Require Import Extraction ExtrOcamlBasic ExtrOcamlString.
From AT Require Import Num Vec Aff Farkas FM Equiv PTree Ops Cells Abs Reduce Paths PolyGen Cache Elim CPrune Schema
  WfC ElimWf CPruneWf OpsWf History.
Extraction Blacklist List String Int.
Extraction "model_c04.ml"
  qc_of_float qz qfrac qleb qltb qeqb Qcplus Qcmult Qcopp Qcminus Qcdiv
  dot vadd vsub matvec veqb meqb
  apply acompose aff_eqb wf_affb outdim same_shapeb
  check_model check_farkas solve
  eval term route compose apply_func wfb outsb size nterms
  pieces tree_equiv check_cex out_eqb
  aget aset alen akeys abs_at abs_tree
  binb fullb
  cabs elim oracle_of_logs oracle_by_rows ctree_eqb ctree_eqb_shape erase cev k0 cprune compose_prune
  cwfb cwftb pshapeb pwfb cof pin pout terms_all pterms_all
  capply_func cneg cop_r cop_l ccompose clift creduce
  bop_fun step compat next_dims run compat_hist final_dims.

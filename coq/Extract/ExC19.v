(* Extract/ExC19.v -- extraction of the rendering model for family c19 (ExtrOcamlBasic + ExtrOcamlString only). *)
From Coq Require Import Extraction ExtrOcamlBasic ExtrOcamlString.
From AT Require Import Num Vec Aff Farkas FM Equiv PTree Cells Abs Decimal Render Dot.
Extraction Blacklist List String Int.
Extraction "model_c19.ml"
  qc_of_float qz qfrac qleb qltb qeqb qabs Qcplus Qcmult Qcopp Qcminus Qcdiv
  dot vadd vsub matvec veqb meqb
  apply acompose aff_eqb wf_affb outdim
  check_model check_farkas solve
  eval term route compose wfb outsb size nterms
  pieces tree_equiv check_cex out_eqb
  aget aset alen akeys
  abs_at abs_tree
  pow10 fixed_n num_digits num_text nat_text
  tok_text text in_range skipped write_float order scale_of all_zero
  render_lincomb render_inequality render_affcomb render_func render_poly
  opts_default opts_func opts_poly
  fl_of_q fmat_of_aff acont_fn cells dot_model dot_text display_model display_text.

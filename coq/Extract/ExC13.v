(* Extract/ExC13.v -- extraction of the C13 model (traversal machines, forest machine, metrics) to OCaml. *)
From Coq Require Import Extraction ExtrOcamlBasic ExtrOcamlString.
From AT Require Import Num Vec Aff Farkas FM Equiv PTree Cells Abs Iter IterSpec IterMetrics.
Extraction Blacklist List String Int.
Extraction "model_c13.ml"
  qc_of_float qz qfrac qleb qltb qeqb Qcplus Qcmult Qcopp Qcminus Qcdiv
  dot vadd vsub matvec veqb meqb
  apply acompose aff_eqb wf_affb outdim aadd asub amul aneg
  check_model check_farkas solve
  eval term route compose apply_func lift comp_schema wfb outsb size nterms
  pieces tree_equiv check_cex out_eqb
  aget aset alen akeys
  abs_at abs_tree
  v_orig v_cur dfspre_run bfs_run dfsedge_run poly_run
  unfold spec_pre_run spec_bfs_run spec_edge_run sent_item sedge_item
  IterSpec.size height pre pree level_order
  num_nodes depth_of terminal_depths node_indices terminal_indices decision_indices num_terminals
  sample_mean sample_var list_min list_max_opt path_to_node
  leafdepths nleaves indices path_find qabs
  minvb leaf_indices inner_indices idxs depth_stats depth_stats_direct stats_of.

(* Extract/ExC17.v -- extraction for family c17 *)
From Coq Require Import Extraction ExtrOcamlBasic ExtrOcamlString.
From AT Require Import Num Vec Aff Farkas FM Equiv PTree Cells Abs Schema SchemaSpec ArgmaxLoop.
Extraction Blacklist List String Int.
Extraction "model_c17.ml"
  qc_of_float qz qfrac qleb qltb qeqb qabs Qcplus Qcmult Qcopp Qcminus Qcdiv
  dot vadd vsub matvec veqb meqb
  apply acompose aff_eqb wf_affb outdim
  check_model check_farkas solve
  eval term route compose apply_func wfb outsb size nterms
  pieces tree_equiv check_cex out_eqb
  aget aset alen akeys abs_at abs_tree
  qnat half sixth three sc_sixth_f64
  act_defined hard_tanh_defined
  partial_relu partial_leaky_relu partial_hard_tanh partial_hard_shrink partial_hard_shrink_closed
  partial_hard_sigmoid partial_threshold
  argmax argmax_defined class_characterization class_defined inf_norm inf_norm_defined
  from_poly from_poly_res from_slice remove_axes ra_tree slice_tree embed expand sc_isfree count_true
  relu_def leaky_relu_def hard_tanh_def hard_shrink_def hard_sigmoid_def hard_sigmoid_textbook threshold_def
  argmax_def class_def inf_norm_def in_polyb from_poly_def
  htree relu_h leaky_relu_h hard_tanh_h hard_shrink_h hard_sigmoid_h threshold_h hsem
  class_spec argmax_spec inf_norm_spec from_poly_spec restrict_tree
  argmax_loop to_ptree.

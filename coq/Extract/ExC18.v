(* Extract/ExC18.v -- extraction of the C18 model (Architecture builder, extract_range, shape level of the distillation,
   reference tree of a layer list, read_layers on an abstract archive) to OCaml.
   The shared glue (runner/conv.ml, runner/common.ml) refers to the base names of the C02 extraction, so they are listed too. *)
From Coq Require Import Extraction ExtrOcamlBasic ExtrOcamlString.
From AT Require Import Num Vec Aff Farkas FM Equiv PTree Cells Abs Schema Arch Npz.
Extraction Blacklist List String Int.
Extraction "model_c18.ml"
  qc_of_float qz qfrac qleb qltb qeqb Qcplus Qcmult Qcopp Qcminus Qcdiv
  dot vadd vsub matvec veqb meqb
  apply acompose aff_eqb wf_affb outdim aadd asub amul aneg
  check_model check_farkas solve
  eval term route compose apply_func lift comp_schema wfb outsb size nterms
  pieces tree_equiv check_cex out_eqb
  aget aset alen akeys
  abs_at abs_tree
  sc_sixth_f64
  layer_out_dim layers_out_dim layers_ok shapes_after
  arch_new arch_layers arch_shapes arch_step arch_run arch_results call_layers extract_range
  distill_shape layer_wfb layer_eval net_eval distill_ref
  read_layers_model parse_name sort_names ignorable encode expand pad3.

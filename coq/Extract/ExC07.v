(* Extract/ExC07.v -- extraction for family c07 *)
From Coq Require Import Extraction ExtrOcamlBasic ExtrOcamlString.
From AT Require Import Num Vec Aff Farkas FM Equiv PTree Cells Abs Ops Cache Elim EdgeRegion.
Extraction Blacklist List String Int.
Extraction "model_c07.ml"
  qc_of_float qz qfrac qleb qltb qeqb Qcplus Qcmult Qcopp Qcminus Qcdiv
  dot vadd vsub matvec veqb meqb
  apply acompose aff_eqb wf_affb outdim aadd asub amul aneg aop
  check_model check_farkas solve
  eval term route compose apply_func lift comp_schema wfb outsb size nterms
  pieces tree_equiv check_cex out_eqb
  aget aset alen akeys abs_at abs_tree
  top tneg top_r top_l map_terms
  label_rows.

(* Extract/ExELIM.v -- extraction for the pruning family (C03, C05, C06, C11) *)
From Coq Require Import Extraction ExtrOcamlBasic ExtrOcamlString.
From AT Require Import Num Vec Aff Farkas FM Equiv PTree Cells Abs Reduce Paths PolyGen Cache Elim CPrune EquivThin.
(* x-acprune begin *) From AT Require Import ArenaCompose ACPrune. (* x-acprune end *)
(* x-aelim begin *) From AT Require Import AElim AElimRefine. (* x-aelim end *)
(* x-kprune begin *) From AT Require Import KPrune. (* x-kprune end *)
(* x-kelim begin *) From AT Require Import KElim. (* x-kelim end *)
Extraction Blacklist List String Int.
Extraction "model_elim.ml"
  qc_of_float qz qfrac qleb qltb qeqb Qcplus Qcmult Qcopp Qcminus Qcdiv
  dot vadd vsub matvec veqb meqb
  apply acompose aff_eqb wf_affb outdim
  check_model check_farkas solve
  eval term route compose apply_func wfb outsb size nterms
  pieces tree_equiv check_cex out_eqb
  aget aset alen akeys abs_at abs_tree
  binb fullb
  dabs preorder node_rows in_rowsb contains_tol tighten relax empty_cert thin_cert cache_check constrs_of
  cabs elim oracle_of_logs ctree_eqb erase cev k0
  compose_prune cprune oracle_by_rows ctree_eqb_shape
  (* x-acprune begin *) acompose_prune acp_list acp_at terminal_keys st_eqb next_key (* x-acprune end *)
  (* x-aelim begin *) aelim arena_eqb acell_eqb arena_okb (* x-aelim end *)
  (* x-kprune begin *) kabs kcompose_prune kprune ktree_eqb_shape kerase (* x-kprune end *)
  (* x-kelim begin *) kelim kelim_sub ktree_eqb k_state (* x-kelim end *)
  tree_equiv_skip thin_skip.

(* Extract/ExC12.v -- extraction of the C12 model (generic Tree<N,K> operations, executable invariant) to OCaml.
   The shared glue (runner/conv.ml, runner/common.ml) refers to the base names of the C02 extraction, so they are listed too. *)
From Coq Require Import Extraction ExtrOcamlBasic ExtrOcamlString.
From AT Require Import Num Vec Aff Farkas FM Equiv PTree Cells Abs Tree TreeCheck.
Extraction Blacklist List String Int.
Extraction "model_c12.ml"
  qc_of_float qz qfrac qleb qltb qeqb Qcplus Qcmult Qcopp Qcminus Qcdiv
  dot vadd vsub matvec veqb meqb
  apply acompose aff_eqb wf_affb outdim aadd asub amul aneg
  check_model check_farkas solve
  eval term route compose apply_func lift comp_schema wfb outsb size nterms
  pieces tree_equiv check_cex out_eqb
  aget aset alen akeys
  abs_at abs_tree
  out_state add_root add_child_node add_child_node_v0 remove_all_descendants try_remove_child remove_child
  merge_child_with_parent update_node step step_v0 run invb empty_tree.

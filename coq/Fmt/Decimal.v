(* Fmt/Decimal.v -- exact model of Rust's `{:.p}` on a non-negative finite float, as a function of the
   float's exact rational value: the integer n = round-half-even (q * 10^p) and its decimal digits.
   The printed text is the digit string of n (at least p+1 digits) with a point before the last p digits.
   Proved: |n / 10^p - q| <= 10^-p / 2, and the digit list denotes n. *)
From Coq Require Import String Ascii.
From AT Require Import Num.
Local Open Scope Z_scope.

Definition pow10 (p : nat) : Z := Z.pow 10 (Z.of_nat p).

(* round-half-even of num/den (den > 0) *)
Definition rhe (num den : Z) : Z :=
  let q := num / den in
  let r := num mod den in
  match Z.compare (2 * r) den with
  | Lt => q
  | Gt => q + 1
  | Eq => if Z.even q then q else q + 1
  end.

Lemma rhe_spec num den : 0 < den -> 2 * Z.abs (rhe num den * den - num) <= den.
Proof.
  intros Hd. unfold rhe.
  pose proof (Z.div_mod num den ltac:(lia)) as E.
  pose proof (Z.mod_pos_bound num den Hd) as B.
  set (q := num / den) in *. set (r := num mod den) in *.
  destruct (Z.compare_spec (2 * r) den) as [H|H|H]; [destruct (Z.even q)| | ]; nia.
Qed.

Lemma rhe_nonneg num den : 0 < den -> 0 <= num -> 0 <= rhe num den.
Proof.
  intros Hd Hn. unfold rhe.
  assert (0 <= num / den) by (apply Z.div_pos; lia).
  destruct (Z.compare (2 * (num mod den)) den); [destruct (Z.even (num / den))| | ]; lia.
Qed.

(* ties go to the even neighbour; everything else to the nearest *)
Lemma rhe_tie_even num den : 0 < den -> 2 * (num mod den) = den -> Z.even (rhe num den) = true.
Proof.
  intros Hd H. unfold rhe. rewrite H, Z.compare_refl.
  destruct (Z.even (num / den)) eqn:E; auto.
  rewrite Z.even_add, E. reflexivity.
Qed.

Definition fixed_n (p : nat) (q : Qc) : Z := rhe (Qnum (this q) * pow10 p) (Zpos (Qden (this q))).

Lemma pow10_pos p : 0 < pow10 p.
Proof. unfold pow10. apply Z.pow_pos_nonneg; lia. Qed.

Lemma fixed_n_nonneg p q : (0 <= q)%Qc -> 0 <= fixed_n p q.
Proof.
  intros H. unfold fixed_n. apply rhe_nonneg; [lia|].
  assert (0 <= Qnum (this q)).
  { unfold Qcle, Qle in H. simpl in H. lia. }
  pose proof (pow10_pos p). nia.
Qed.

(* ---- the value printed, as a rational ---- *)
Local Open Scope Qc_scope.

Lemma this_qz z : (this (qz z) == inject_Z z)%Q.
Proof. unfold qz, Q2Qc; cbn [this]. rewrite Qred_correct. reflexivity. Qed.

Definition num_val (n : Z) (p : nat) : Qc := qz n / qz (pow10 p).
Definition half_ulp (p : nat) : Qc := 1 / (two * qz (pow10 p)).

Lemma qz_pow10_pos p : 0 < qz (pow10 p).
Proof.
  unfold Qclt. rewrite this_qz. change (this 0) with 0%Q.
  pose proof (pow10_pos p). unfold Qlt, inject_Z; simpl. lia.
Qed.

(* division-free form: the integer shown is within 1/2 of q * 10^p *)
Lemma fixed_n_close_int p q :
  - (1) <= two * (qz (fixed_n p q) - q * qz (pow10 p)) /\ two * (qz (fixed_n p q) - q * qz (pow10 p)) <= 1.
Proof.
  pose proof (rhe_spec (Qnum (this q) * pow10 p) (Zpos (Qden (this q))) ltac:(lia)) as H.
  fold (fixed_n p q) in H.
  set (n := fixed_n p q) in *. set (P := pow10 p) in *.
  unfold two. unfold Qcle. rewrite !this_mul, !this_sub, !this_mul, !this_add, !this_qz, this_opp.
  change (this 1) with 1%Q.
  destruct (this q) as [a b]. cbn [Qnum Qden] in H.
  unfold Qle, Qmult, Qminus, Qplus, Qopp, inject_Z; cbn [Qnum Qden].
  rewrite ?Pos.mul_1_r, ?Pos2Z.inj_mul.
  split; nia.
Qed.

Lemma qabs_le_iff x b : qabs x <= b <-> - b <= x /\ x <= b.
Proof.
  unfold qabs. destruct (qleb 0 x) eqn:E.
  - apply qleb_spec in E. split; [intros H; split; qlra | intros [_ H]; auto].
  - apply qleb_false in E. split; [intros H; split; qlra | intros [H _]; qlra].
Qed.

Lemma fixed_n_close p q : qabs (num_val (fixed_n p q) p - q) <= half_ulp p.
Proof.
  destruct (fixed_n_close_int p q) as [H1 H2].
  pose proof (qz_pow10_pos p) as HT.
  set (n := qz (fixed_n p q)) in *. set (T := qz (pow10 p)) in *.
  unfold num_val, half_ulp. fold n T.
  assert (HT0 : T <> 0) by (intros C; rewrite C in HT; apply (Qclt_not_le _ _ HT); apply Qcle_refl).
  assert (Hi : 0 < / T).
  { assert (E : / T * T = 1) by (field; auto).
    destruct (Qclt_le_dec 0 (/ T)) as [L|L]; auto. exfalso. clear - E L HT. qnra. }
  assert (E1 : n / T - q = (n - q * T) * / T) by (field; auto).
  assert (E2 : 1 / (two * T) = (1 / two) * / T).
  { unfold two. field. split; auto. intros C. discriminate C. }
  rewrite E1, E2. apply qabs_le_iff.
  assert (Hh : two * (1 / two) = 1) by (unfold two; field; intros C; discriminate C).
  set (d := n - q * T) in *. set (h := 1 / two) in *.
  assert (Hd1 : - h <= d) by (unfold two in *; qlra).
  assert (Hd2 : d <= h) by (unfold two in *; qlra).
  split.
  - replace (- (h * / T)) with ((- h) * / T) by ring.
    apply Qcmult_le_compat_r; auto. apply Qclt_le_weak; auto.
  - apply Qcmult_le_compat_r; auto. apply Qclt_le_weak; auto.
Qed.

(* ---- decimal digits ---- *)
Local Open Scope Z_scope.

Fixpoint digs (fuel : nat) (n : Z) (acc : list Z) : list Z :=
  match fuel with
  | O => acc
  | S f => if n <? 10 then n :: acc else digs f (n / 10) (n mod 10 :: acc)
  end.
Definition digits (n : Z) : list Z := digs (S (Z.to_nat (Z.log2 n))) n [].
Definition dval (l : list Z) : Z := fold_left (fun a d => 10 * a + d) l 0.
Definition pad (k : nat) (l : list Z) : list Z := repeat 0 (k - length l) ++ l.

Lemma digs_val fuel : forall n acc, 0 <= n < 10 ^ Z.of_nat fuel ->
  fold_left (fun a d => 10 * a + d) (digs fuel n acc) 0 = fold_left (fun a d => 10 * a + d) acc n.
Proof.
  induction fuel as [|f IH]; intros n acc H.
  - simpl in *. assert (n = 0) by lia. subst. reflexivity.
  - cbn [digs]. destruct (Z.ltb_spec n 10) as [L|L].
    + simpl. reflexivity.
    + rewrite IH.
      * cbn [fold_left]. f_equal. pose proof (Z.div_mod n 10 ltac:(lia)). lia.
      * rewrite Nat2Z.inj_succ, Z.pow_succ_r in H by lia.
        split; [apply Z.div_pos; lia | apply Z.div_lt_upper_bound; lia].
Qed.

Lemma digs_range fuel : forall n acc, 0 <= n -> Forall (fun d => 0 <= d < 10) acc ->
  Forall (fun d => 0 <= d < 10) (digs fuel n acc) .
Proof.
  induction fuel as [|f IH]; intros n acc H Ha; cbn [digs]; auto.
  destruct (Z.ltb_spec n 10) as [L|L].
  - constructor; auto.
  - apply IH; [apply Z.div_pos; lia|]. constructor; auto. apply Z.mod_pos_bound. lia.
Qed.

Lemma digits_val n : 0 <= n -> dval (digits n) = n.
Proof.
  intros H. unfold dval, digits. rewrite digs_val; [reflexivity|].
  split; auto.
  destruct (Z.eq_dec n 0) as [->|Hn]; [simpl; lia|].
  assert (Hp : 0 < n) by lia.
  pose proof (Z.log2_spec n Hp) as [_ L].
  rewrite Nat2Z.inj_succ, Z2Nat.id by apply Z.log2_nonneg.
  eapply Z.lt_le_trans; [exact L|].
  apply Z.pow_le_mono_l. lia.
Qed.

Lemma digits_range n : 0 <= n -> Forall (fun d => 0 <= d < 10) (digits n).
Proof. intros H. apply digs_range; auto. Qed.

Lemma dval_pad k l : dval (pad k l) = dval l.
Proof.
  unfold dval, pad. rewrite fold_left_app. f_equal.
  induction (k - length l)%nat; simpl; auto.
Qed.

Lemma pad_length k l : (k <= length (pad k l))%nat.
Proof. unfold pad. rewrite app_length, repeat_length. lia. Qed.

Lemma pad_range k l : Forall (fun d => 0 <= d < 10) l -> Forall (fun d => 0 <= d < 10) (pad k l).
Proof.
  intros H. unfold pad. apply Forall_app. split; auto.
  induction (k - length l)%nat; simpl; constructor; auto; lia.
Qed.

(* digits of the printed number: at least one digit before the point *)
Definition num_digits (n : Z) (p : nat) : list Z := pad (S p) (digits n).

Lemma num_digits_val n p : 0 <= n -> dval (num_digits n p) = n.
Proof. intros H. unfold num_digits. rewrite dval_pad. apply digits_val; auto. Qed.
Lemma num_digits_length n p : (S p <= length (num_digits n p))%nat.
Proof. apply pad_length. Qed.
Lemma num_digits_range n p : 0 <= n -> Forall (fun d => 0 <= d < 10) (num_digits n p).
Proof. intros H. apply pad_range, digits_range; auto. Qed.

Lemma num_digits_spec n p : 0 <= n ->
  dval (num_digits n p) = n /\ (S p <= length (num_digits n p))%nat /\
  Forall (fun d => 0 <= d < 10) (num_digits n p).
Proof. intros H. split; [apply num_digits_val; auto|]. split; [apply num_digits_length | apply num_digits_range; auto]. Qed.

(* ---- text ---- *)
Definition digit_char (d : Z) : ascii := ascii_of_nat (48 + Z.to_nat d).
Fixpoint chars (l : list Z) : string :=
  match l with [] => EmptyString | d :: r => String (digit_char d) (chars r) end.
Definition nat_text (i : nat) : string := chars (digits (Z.of_nat i)).

(* `{:.p}`: integer digits, then "." and p fraction digits when p > 0 *)
Definition num_text (n : Z) (p : nat) : string :=
  let ds := num_digits n p in
  let k := (length ds - p)%nat in
  match p with
  | O => chars ds
  | _ => append (chars (firstn k ds)) (String "."%char (chars (skipn k ds)))
  end.

(* the text splits the digit list p places from the right, nothing else *)
Lemma num_text_split n p : (0 < p)%nat ->
  exists ip fp, num_digits n p = ip ++ fp /\ length fp = p /\ (1 <= length ip)%nat /\
    num_text n p = append (chars ip) (String "."%char (chars fp)).
Proof.
  intros Hp. pose proof (num_digits_length n p) as L.
  exists (firstn (length (num_digits n p) - p) (num_digits n p)), (skipn (length (num_digits n p) - p) (num_digits n p)).
  split; [symmetry; apply firstn_skipn|]. split; [rewrite skipn_length; lia|].
  split; [rewrite firstn_length; lia|].
  unfold num_text. destruct p; [lia|]. reflexivity.
Qed.

Example fixed_examples :
  (* 0.125, 0.375 at two digits; 0.5, 1.5, 2.5 at zero digits; 2.675 is not a tie as a binary float *)
  fixed_n 2 (qc_of_float 1 (-3)) = 12 /\ fixed_n 2 (qc_of_float 3 (-3)) = 38 /\
  fixed_n 0 (qc_of_float 1 (-1)) = 0 /\ fixed_n 0 (qc_of_float 3 (-1)) = 2 /\ fixed_n 0 (qc_of_float 5 (-1)) = 2 /\
  num_text 12 2 = "0.12"%string /\ num_text 2 0 = "2"%string /\ num_text 123456 3 = "123.456"%string /\
  num_text 0 2 = "0.00"%string /\ nat_text 0 = "0"%string /\ nat_text 107 = "107"%string.
Proof. vm_compute. repeat split; reflexivity. Qed.

(* Fmt/Dot.v -- statement-level model of `impl Display for Dot` (src/pwl/dot.rs) and of
   `impl Display for AffTree` (src/pwl/afftree.rs) over an arena dump.  A rendering is a list of statements;
   the string is the concatenation of the statement texts BY DEFINITION.
   The arena is generic in the node content V; `fn` reads the node's matrix and bias (with sign bits).
   As coded in dot.rs a LEAF gets `decision_attr` ("shape=box") and a DECISION gets `terminal_attr`
   ("shape=ellipse"): the attribute names are swapped in the source; the model follows the code. *)
From Coq Require Import String Ascii.
From AT Require Import Num Vec Aff Decimal Render Cells Abs.

Definition fl_of_q (q : Qc) : fl := {| f_neg := qltb q 0; f_val := q |}.
Definition fmat := (list frow * list fl)%type.
Definition fmat_of_aff (f : aff) : fmat := (map (map fl_of_q) (a_mat f), map fl_of_q (a_bias f)).
Definition acont_fn (c : acont) : fmat := fmat_of_aff (ac_aff c).

(* label of a node: its OWN function, as a function (leaf) or as a predicate (decision) *)
Definition node_label {V} (fn : V -> fmat) (p : nat) (dv : Qc -> Qc -> Qc) (rk : nat -> nat -> nat) (c : cell V) : list token :=
  if c_leaf c then render_func opts_func p rk (fst (fn (c_val c))) (snd (fn (c_val c)))
  else render_poly opts_poly p dv rk (fst (fn (c_val c))) (snd (fn (c_val c))).

Definition pick {A} (e : nat * option A) : list (nat * A) :=
  match snd e with Some c => [(fst e, c)] | None => [] end.
Definition cells_from {V} (s : nat) (a : arena V) : list (nat * cell V) := flat_map pick (combine (seq s (length a)) a).
(* node_iter: occupied cells in index order *)
Definition cells {V} (a : arena V) : list (nat * cell V) := cells_from 0 a.

Fixpoint find_label (ch : list (option nat)) (i : nat) (l : nat) : option nat :=
  match ch with
  | [] => None
  | Some j :: r => if Nat.eqb j i then Some l else find_label r i (S l)
  | None :: r => find_label r i (S l)
  end.

Inductive dstmt :=
  | DHead | DNode (i : nat) (leaf : bool) (label : list token) | DEdge (src dst lab : nat) | DPanic | DFoot.

(* edge_iter = node_iter().filter_map(|idx| parent(idx).ok()); parent() panics when the parent does not list the node *)
Definition edge_of {V} (a : arena V) (e : nat * cell V) : list dstmt :=
  match c_parent (snd e) with
  | None => []
  | Some pi =>
    match aget a pi with
    | None => []
    | Some pc => match find_label (c_children pc) (fst e) 0 with Some l => [DEdge pi (fst e) l] | None => [DPanic] end
    end
  end.

Definition node_stmt {V} (fn : V -> fmat) p dv (rk : nat -> nat -> nat -> nat) (e : nat * cell V) : dstmt :=
  DNode (fst e) (c_leaf (snd e)) (node_label fn p dv (rk (fst e)) (snd e)).

Definition dot_model {V} (fn : V -> fmat) (p : nat) (dv : Qc -> Qc -> Qc) (rk : nat -> nat -> nat -> nat) (a : arena V) : list dstmt :=
  DHead :: map (node_stmt fn p dv rk) (cells a) ++ flat_map (edge_of a) (cells a) ++ [DFoot].

(* ---- text *)
Local Open Scope string_scope.
Definition nl : string := String nl_char EmptyString.
Definition dq : string := String (ascii_of_nat 34) EmptyString.
Definition dstmt_text (s : dstmt) : string :=
  match s with
  | DHead => "digraph afftree {" ++ nl ++ "bgcolor=transparent;" ++ nl ++ "concentrate=true;" ++ nl ++ "margin=0;" ++ nl
  | DNode i leaf lab =>
    "n" ++ nat_text i ++ " [label=" ++ dq ++ text lab ++ dq ++ ", " ++ (if leaf then "shape=box" else "shape=ellipse") ++ "];" ++ nl
  | DEdge s t l =>
    "n" ++ nat_text s ++ " -> n" ++ nat_text t ++ " [label=" ++ nat_text l ++ ", " ++
    (if Nat.eqb l 0 then "style=dashed" else "style=solid") ++ "];" ++ nl
  | DPanic => "<panic>"
  | DFoot => "}"
  end.
Definition dot_text (l : list dstmt) : string := fold_right (fun s r => dstmt_text s ++ r) EmptyString l.

(* ---- impl Display for AffTree: header with len(), per node "[idx|T/D] label" and a children line *)
Inductive tstmt := THead (n : nat) | TNode (i : nat) (leaf : bool) (label : list token) | TChildren (l : list (nat * nat)).

Definition children_pairs (ch : list (option nat)) : list (nat * nat) := flat_map pick (enumerate ch).

(* the inner `{}` of writeln! starts a fresh format spec: labels are printed with the default precision 2 *)
Definition tnode_stmts {V} (fn : V -> fmat) dv (rk : nat -> nat -> nat -> nat) (e : nat * cell V) : list tstmt :=
  TNode (fst e) (c_leaf (snd e)) (node_label fn 2 dv (rk (fst e)) (snd e)) ::
  match children_pairs (c_children (snd e)) with [] => [] | ps => [TChildren ps] end.
Definition display_model {V} (fn : V -> fmat) (dv : Qc -> Qc -> Qc) (rk : nat -> nat -> nat -> nat) (a : arena V) : list tstmt :=
  THead (alen a) :: flat_map (tnode_stmts fn dv rk) (cells a).

Definition pad3 (s : string) : string :=
  match String.length s with 0 => "   " ++ s | 1 => "  " ++ s | 2 => " " ++ s | _ => s end%nat.
Fixpoint pairs_text (l : list (nat * nat)) : string :=
  match l with
  | [] => ""
  | [(a, b)] => nat_text a ++ "->" ++ nat_text b
  | (a, b) :: r => nat_text a ++ "->" ++ nat_text b ++ ", " ++ pairs_text r
  end.
Definition tstmt_text (s : tstmt) : string :=
  match s with
  | THead n => "Decision Tree with " ++ nat_text n ++ " nodes" ++ nl
  | TNode i leaf lab => "[" ++ pad3 (nat_text i) ++ "|" ++ (if leaf then "T" else "D") ++ "] " ++ text lab ++ nl
  | TChildren ps => "children: " ++ pairs_text ps ++ nl
  end.
Definition display_text (l : list tstmt) : string := fold_right (fun s r => tstmt_text s ++ r) EmptyString l.
Local Close Scope string_scope.

(* ================================================================ lemmas *)
Lemma cells_from_length {V} (a : arena V) : forall s, length (cells_from s a) = alen a.
Proof.
  unfold cells_from, alen. induction a as [|[c|] a IH]; intros s; simpl; auto.
Qed.

Lemma cells_from_keys {V} (a : arena V) : forall s,
  map fst (cells_from s a) =
  map fst (filter (fun p => match snd p with Some _ => true | None => false end) (combine (seq s (length a)) a)).
Proof.
  unfold cells_from. induction a as [|[c|] a IH]; intros s; simpl; auto. f_equal. apply IH.
Qed.

Lemma cells_keys {V} (a : arena V) : map fst (cells a) = akeys a.
Proof. apply cells_from_keys. Qed.

Lemma in_pick {A} (l : list (option A)) i c : In (i, c) (flat_map pick (enumerate l)) <-> nth_error l i = Some (Some c).
Proof.
  rewrite in_flat_map. split.
  - intros ([j o] & Hin & Hp). apply in_enumerate in Hin. unfold pick in Hp. cbn [fst snd] in Hp.
    destruct o as [c'|]; [|contradiction]. destruct Hp as [Hp|[]]. inversion Hp; subst. exact Hin.
  - intros H. exists (i, Some c). split; [apply in_enumerate; auto | left; reflexivity].
Qed.

Lemma in_cells {V} (a : arena V) i c : In (i, c) (cells a) <-> aget a i = Some c.
Proof.
  unfold cells, cells_from. fold (enumerate a). rewrite in_pick. unfold aget.
  destruct (nth_error a i) as [[c'|]|]; split; intros H; try discriminate; congruence.
Qed.

Lemma children_pairs_spec ch l c : In (l, c) (children_pairs ch) <-> nth_error ch l = Some (Some c).
Proof. apply in_pick. Qed.

Lemma find_label_some ch i : forall l0 l, find_label ch i l0 = Some l ->
  (l0 <= l)%nat /\ nth_error ch (l - l0) = Some (Some i).
Proof.
  induction ch as [|[j|] r IH]; intros l0 l H; simpl in H; try discriminate.
  - destruct (Nat.eqb_spec j i) as [->|Hn].
    + injection H as <-. rewrite Nat.sub_diag. auto.
    + apply IH in H as [H1 H2]. split; [lia|]. replace (l - l0)%nat with (S (l - S l0)) by lia. exact H2.
  - apply IH in H as [H1 H2]. split; [lia|]. replace (l - l0)%nat with (S (l - S l0)) by lia. exact H2.
Qed.

Lemma find_label_none ch i : forall l0, find_label ch i l0 = None -> ~ In (Some i) ch.
Proof.
  induction ch as [|[j|] r IH]; intros l0 H; simpl in *; [tauto| |].
  - destruct (Nat.eqb_spec j i) as [->|Hn]; [discriminate|].
    intros [C|C]; [congruence | eapply IH; eauto].
  - intros [C|C]; [discriminate | eapply IH; eauto].
Qed.

Definition is_dnode (s : dstmt) : bool := match s with DNode _ _ _ => true | _ => false end.
Definition is_dedge (s : dstmt) : bool := match s with DEdge _ _ _ => true | _ => false end.
Definition is_dpanic (s : dstmt) : bool := match s with DPanic => true | _ => false end.
Definition has_parent {V} (e : nat * cell V) : bool := match c_parent (snd e) with Some _ => true | None => false end.

Lemma edge_of_no_node {V} (a : arena V) e : filter is_dnode (edge_of a e) = [].
Proof.
  unfold edge_of. destruct (c_parent (snd e)); auto. destruct (aget a n); auto.
  destruct (find_label _ _ _); reflexivity.
Qed.

Lemma filter_flat_map_nil {A B} (f : B -> bool) (g : A -> list B) l :
  (forall x, filter f (g x) = []) -> filter f (flat_map g l) = [].
Proof. intros H. induction l; simpl; auto. rewrite filter_app, H, IHl. reflexivity. Qed.

Lemma filter_map_all {A B} (f : B -> bool) (g : A -> B) l : (forall x, f (g x) = true) -> filter f (map g l) = map g l.
Proof. intros H. induction l; simpl; auto. rewrite H, IHl. reflexivity. Qed.
Lemma filter_map_none {A B} (f : B -> bool) (g : A -> B) l : (forall x, f (g x) = false) -> filter f (map g l) = [].
Proof. intros H. induction l; simpl; auto. rewrite H, IHl. reflexivity. Qed.

(* the node statements of the DOT text are exactly one per occupied cell, in index order, each with its own label *)
Theorem dot_nodes {V} (fn : V -> fmat) p dv rk (a : arena V) :
  filter is_dnode (dot_model fn p dv rk a) = map (node_stmt fn p dv rk) (cells a).
Proof.
  unfold dot_model. cbn [filter is_dnode]. rewrite !filter_app.
  rewrite filter_map_all by reflexivity.
  rewrite filter_flat_map_nil by apply edge_of_no_node. cbn. rewrite app_nil_r. reflexivity.
Qed.

Theorem dot_node_count {V} (fn : V -> fmat) p dv rk (a : arena V) :
  length (filter is_dnode (dot_model fn p dv rk a)) = alen a /\
  map (fun s => match s with DNode i _ _ => i | _ => O end) (filter is_dnode (dot_model fn p dv rk a)) = akeys a.
Proof.
  rewrite dot_nodes. split.
  - rewrite map_length. apply cells_from_length.
  - rewrite map_map. cbn. apply cells_keys.
Qed.

Theorem dot_node_own_label {V} (fn : V -> fmat) p dv rk (a : arena V) i lf lab :
  In (DNode i lf lab) (dot_model fn p dv rk a) <->
  exists c, aget a i = Some c /\ lf = c_leaf c /\ lab = node_label fn p dv (rk i) c.
Proof.
  split.
  - intros H. assert (H' : In (DNode i lf lab) (filter is_dnode (dot_model fn p dv rk a))) by (apply filter_In; auto).
    rewrite dot_nodes in H'. apply in_map_iff in H' as ([j c] & E & Hin). unfold node_stmt in E. cbn [fst snd] in E.
    inversion E; subst. exists c. split; [apply in_cells; auto | auto].
  - intros (c & Hc & -> & ->). apply in_cells in Hc.
    assert (H' : In (DNode i (c_leaf c) (node_label fn p dv (rk i) c)) (filter is_dnode (dot_model fn p dv rk a))).
    { rewrite dot_nodes. apply in_map_iff. exists (i, c). split; auto. }
    apply filter_In in H'. tauto.
Qed.

Lemma in_dot_edge {V} (fn : V -> fmat) p dv rk (a : arena V) s :
  is_dedge s = true -> In s (dot_model fn p dv rk a) -> exists e, In e (cells a) /\ In s (edge_of a e).
Proof.
  intros Hs H. unfold dot_model in H. destruct H as [<-|H]; [discriminate|].
  apply in_app_or in H as [H|H].
  - apply in_map_iff in H as (e & <- & _). discriminate.
  - apply in_app_or in H as [H|[<-|[]]]; [|discriminate].
    apply in_flat_map in H. exact H.
Qed.

(* every edge statement names a real parent link with the label under which the parent lists the child *)
Theorem dot_edge_sound {V} (fn : V -> fmat) p dv rk (a : arena V) s t l :
  In (DEdge s t l) (dot_model fn p dv rk a) ->
  exists c pc, aget a t = Some c /\ c_parent c = Some s /\ aget a s = Some pc /\ nth_error (c_children pc) l = Some (Some t).
Proof.
  intros H. apply in_dot_edge in H as ([i c] & Hin & He); [|reflexivity].
  apply in_cells in Hin. unfold edge_of in He. cbn [fst snd] in He.
  destruct (c_parent c) as [pi|] eqn:Ep; [|contradiction].
  destruct (aget a pi) as [pc|] eqn:Ea; [|contradiction].
  destruct (find_label (c_children pc) i 0) as [l'|] eqn:Ef; destruct He as [He|[]]; [|discriminate].
  inversion He; subst. apply find_label_some in Ef as [_ Ef]. rewrite Nat.sub_0_r in Ef.
  exists c, pc. auto.
Qed.

(* arena invariant (C12): a parent link points to an occupied cell that lists the node among its children *)
Definition parent_ok {V} (a : arena V) : Prop :=
  forall i c pi, aget a i = Some c -> c_parent c = Some pi ->
    exists pc, aget a pi = Some pc /\ In (Some i) (c_children pc).

Lemma edge_of_ok {V} (a : arena V) e : parent_ok a -> In e (cells a) ->
  filter is_dpanic (edge_of a e) = [] /\
  length (filter is_dedge (edge_of a e)) = (if has_parent e then 1 else 0)%nat /\
  (forall pi, c_parent (snd e) = Some pi -> exists l, edge_of a e = [DEdge pi (fst e) l]).
Proof.
  intros Hok Hin. destruct e as [i c]. apply in_cells in Hin. unfold edge_of, has_parent. cbn [fst snd].
  destruct (c_parent c) as [pi|] eqn:Ep.
  - destruct (Hok i c pi Hin Ep) as (pc & Hpc & Hch). rewrite Hpc.
    destruct (find_label (c_children pc) i 0) as [l|] eqn:Ef.
    + repeat split; auto. intros pi' E. injection E as <-. exists l. reflexivity.
    + exfalso. eapply find_label_none; eauto.
  - repeat split; auto. intros pi' E. discriminate.
Qed.

Lemma count_flat_map {A B} (f : B -> bool) (g : A -> list B) (h : A -> bool) (l : list A) :
  (forall x, In x l -> length (filter f (g x)) = if h x then 1 else 0)%nat ->
  length (filter f (flat_map g l)) = length (filter h l).
Proof.
  induction l as [|x l IH]; intros H; simpl; auto.
  rewrite filter_app, app_length, H by (left; auto). rewrite IH by (intros y Hy; apply H; right; auto).
  destruct (h x); reflexivity.
Qed.

(* one edge statement per parent link, no panic *)
Theorem dot_edge_count {V} (fn : V -> fmat) p dv rk (a : arena V) : parent_ok a ->
  length (filter is_dedge (dot_model fn p dv rk a)) = length (filter has_parent (cells a)) /\
  filter is_dpanic (dot_model fn p dv rk a) = [].
Proof.
  intros Hok. unfold dot_model. cbn [filter is_dedge is_dpanic]. rewrite !filter_app.
  rewrite !filter_map_none by reflexivity. cbn [app filter is_dedge is_dpanic]. rewrite !app_nil_r. split.
  - apply count_flat_map. intros e He. apply (edge_of_ok a e Hok He).
  - clear fn p dv rk. assert (H : forall e, In e (cells a) -> filter is_dpanic (edge_of a e) = []) by (intros e He; apply (edge_of_ok a e Hok He)).
    induction (cells a) as [|e l IH]; simpl; auto.
    rewrite filter_app, H by (left; auto). apply IH. intros; apply H; right; auto.
Qed.

Theorem dot_edge_complete {V} (fn : V -> fmat) p dv rk (a : arena V) i c pi : parent_ok a ->
  aget a i = Some c -> c_parent c = Some pi -> exists l, In (DEdge pi i l) (dot_model fn p dv rk a).
Proof.
  intros Hok Hc Hp. apply in_cells in Hc.
  destruct (edge_of_ok a (i, c) Hok Hc) as (_ & _ & H). destruct (H pi Hp) as (l & E).
  exists l. unfold dot_model. right. apply in_or_app. right. apply in_or_app. left.
  apply in_flat_map. exists (i, c). split; auto. rewrite E. left; reflexivity.
Qed.

(* ---- Display *)
Definition is_tnode (s : tstmt) : bool := match s with TNode _ _ _ => true | _ => false end.

Theorem display_nodes {V} (fn : V -> fmat) dv rk (a : arena V) :
  filter is_tnode (display_model fn dv rk a) =
  map (fun e => TNode (fst e) (c_leaf (snd e)) (node_label fn 2 dv (rk (fst e)) (snd e))) (cells a) /\
  length (filter is_tnode (display_model fn dv rk a)) = alen a.
Proof.
  assert (E : filter is_tnode (display_model fn dv rk a) =
              map (fun e => TNode (fst e) (c_leaf (snd e)) (node_label fn 2 dv (rk (fst e)) (snd e))) (cells a)).
  { unfold display_model. cbn [filter is_tnode].
    induction (cells a) as [|e l IH]; simpl; auto. f_equal.
    rewrite filter_app, IH. destruct (children_pairs (c_children (snd e))); reflexivity. }
  split; auto. rewrite E, map_length. apply cells_from_length.
Qed.

(* the children line of a node lists exactly its child links, label -> child *)
Theorem display_children {V} (fn : V -> fmat) dv rk (a : arena V) ps :
  In (TChildren ps) (display_model fn dv rk a) ->
  exists i c, aget a i = Some c /\ ps = children_pairs (c_children c) /\
    forall l ch, In (l, ch) ps <-> nth_error (c_children c) l = Some (Some ch).
Proof.
  intros H. unfold display_model in H. destruct H as [H|H]; [discriminate|].
  apply in_flat_map in H as ([i c] & Hin & H). apply in_cells in Hin.
  unfold tnode_stmts in H. cbn [fst snd] in H. destruct H as [H|H]; [discriminate|].
  exists i, c. split; auto.
  destruct (children_pairs (c_children c)) as [|p0 ps0] eqn:E; [contradiction|].
  destruct H as [H|[]]. injection H as <-. split; auto.
  intros l ch. rewrite <- E. apply children_pairs_spec.
Qed.

(* Fmt/Render.v -- token-level model of src/linalg/impl_affineformat.rs:
   write_float / write_lincomb / write_inequality / write_affcomb / write_poly / write_func.
   A rendering is a list of tokens; the string is the concatenation of the token texts BY DEFINITION (text).
   Every number carries its exact rational value and its sign bit (so that -0.0 prints "−0.00").
   What the code takes from floating point enters as arguments without assumed behaviour:
     dv  : the f64 division used by `normalize` (theorems about the shown VALUE take dv = exact division;
           the structural theorems hold for every dv),
     rk  : a rank function breaking ties of sort_unstable_by_key among equal magnitudes (any permutation of
           equal keys is some rk; the theorems hold for every rk). *)
From Coq Require Import String Ascii Permutation Sorted.
From AT Require Import Num Vec Decimal.

(* ---------------------------------------------------------------- data *)
Record fl := { f_neg : bool; f_val : Qc }.
Definition frow := list fl.
Definition vals (r : frow) : vec := map f_val r.

Inductive bound := BIncl (z : Z) | BExcl (z : Z) | BUnb.
Definition range := (bound * bound)%type.
(* (Bound<i32>, Bound<i32>)::contains *)
Definition in_range (r : range) (z : Z) : bool :=
  (match fst r with BIncl s => Z.leb s z | BExcl s => Z.ltb s z | BUnb => true end) &&
  (match snd r with BIncl e => Z.leb z e | BExcl e => Z.ltb z e | BUnb => true end).
Definition skipped (sk : range) (no : nat) : bool := in_range sk (Z.of_nat no).

Record fopts := { o_sort : nat; o_szero : bool; o_staut : bool; o_norm : bool; o_skip_axes : range; o_skip_rows : range }.
Definition no_skip : range := (BIncl 1%Z, BExcl 0%Z).
Definition opts_default : fopts :=
  {| o_sort := 0; o_szero := false; o_staut := false; o_norm := false; o_skip_axes := no_skip; o_skip_rows := no_skip |}.
Definition opts_func : fopts :=
  {| o_sort := 0; o_szero := true; o_staut := false; o_norm := false;
     o_skip_axes := (BIncl 20%Z, BUnb); o_skip_rows := (BIncl 5%Z, BUnb) |}.
Definition opts_poly : fopts :=
  {| o_sort := 5; o_szero := false; o_staut := true; o_norm := true;
     o_skip_axes := (BIncl 20%Z, BUnb); o_skip_rows := (BIncl 5%Z, BUnb) |}.

Inductive token :=
  | Sign (neg : bool) | Num (n : Z) (p : nat) | Var (i : nat)
  | Leq | Top | Bot | HEllipsis | VEllipsis | NL | Sp.

Definition nl_char : ascii := ascii_of_nat 10.
Definition tok_text (t : token) : string :=
  match t with
  | Sign true => "−" | Sign false => "+"
  | Num n p => num_text n p
  | Var i => String "$"%char (nat_text i)
  | Leq => "≤" | Top => "⊤" | Bot => "⊥" | HEllipsis => "⋯" | VEllipsis => "⋮"
  | NL => String nl_char EmptyString
  | Sp => " "
  end%string.
Definition text (l : list token) : string := fold_right (fun t s => append (tok_text t) s) EmptyString l.

(* ---------------------------------------------------------------- the loop with a skip range and a first_skip flag *)
Fixpoint skip_go {A} (sk : range) (ell : list token) (item : nat -> A -> list token)
         (no : nat) (fs : bool) (l : list A) : list token :=
  match l with
  | [] => []
  | a :: r =>
    if skipped sk no then (if fs then ell else []) ++ skip_go sk ell item (S no) false r
    else item no a ++ skip_go sk ell item (S no) fs r
  end.

(* ---------------------------------------------------------------- write_float, write_lincomb *)
Definition write_float (p : nat) (x : fl) : list token := [Sign (f_neg x); Num (fixed_n p (qabs (f_val x))) p].

Definition enumerate {A} (l : list A) : list (nat * A) := combine (seq 0 (length l)) l.

Definition mag (e : nat * fl) : Qc := qabs (f_val (snd e)).
Definition before (rk : nat -> nat) (a b : nat * fl) : bool :=
  qltb (mag b) (mag a) || (qeqb (mag a) (mag b) && Nat.leb (rk (fst a)) (rk (fst b))).
Fixpoint insert (rk : nat -> nat) (a : nat * fl) (l : list (nat * fl)) : list (nat * fl) :=
  match l with
  | [] => [a]
  | b :: r => if before rk a b then a :: l else b :: insert rk a r
  end.
Definition isort (rk : nat -> nat) (l : list (nat * fl)) : list (nat * fl) := fold_right (insert rk) [] l.

Definition sorting (o : fopts) (num : nat) : bool := negb (Nat.eqb (o_sort o) 0) && Nat.leb (o_sort o) num.
Definition order (o : fopts) (rk : nat -> nat) (row : frow) : list (nat * fl) :=
  if sorting o (length row) then isort rk (enumerate row) else enumerate row.

Definition lin_item (p : nat) (no : nat) (e : nat * fl) : list token :=
  (if Nat.eqb no 0 then [] else [Sp]) ++ write_float p (snd e) ++ [Sp; Var (fst e)].
Definition lin_ell : list token := [Sp; HEllipsis].
Definition render_lincomb (o : fopts) (p : nat) (rk : nat -> nat) (row : frow) : list token :=
  skip_go (o_skip_axes o) lin_ell (lin_item p) 0 true (order o rk row).

(* ---------------------------------------------------------------- write_inequality, write_affcomb *)
Definition all_zero (row : frow) : bool := forallb (fun x => qeqb (f_val x) 0) row.
Definition scale_of (row : frow) : Qc := fold_left (fun a b => qmax a (qabs (f_val b))) row 0.
Definition fdiv (dv : Qc -> Qc -> Qc) (s : Qc) (x : fl) : fl := {| f_neg := f_neg x; f_val := dv (f_val x) s |}.

Definition leq_toks : list token := [Sp; Leq; Sp].
Definition render_inequality (o : fopts) (p : nat) (dv : Qc -> Qc -> Qc) (rk : nat -> nat) (row : frow) (bias : fl) : list token :=
  if o_staut o && all_zero row then (if qleb 0 (f_val bias) then [Top] else [Bot])
  else if o_norm o && negb (all_zero row) then
    let s := scale_of row in
    render_lincomb o p rk (map (fdiv dv s) row) ++ leq_toks ++ write_float p (fdiv dv s bias)
  else render_lincomb o p rk row ++ leq_toks ++ write_float p bias.

Definition render_affcomb (o : fopts) (p : nat) (rk : nat -> nat) (row : frow) (bias : fl) : list token :=
  write_float p bias ++ [Sp] ++ (if o_szero o && all_zero row then [] else render_lincomb o p rk row).

(* ---------------------------------------------------------------- write_poly, write_func *)
Definition row_item (R : nat -> frow -> fl -> list token) (n : nat) (no : nat) (rb : frow * fl) : list token :=
  R no (fst rb) (snd rb) ++ (if Nat.ltb (S no) n then [NL] else []).
Definition row_ell : list token := [Sp; VEllipsis; NL].
Definition render_rows (R : nat -> frow -> fl -> list token) (sk : range) (M : list frow) (b : list fl) : list token :=
  skip_go sk row_ell (row_item R (length b)) 0 true (combine M b).
Definition render_func (o : fopts) (p : nat) (rk : nat -> nat -> nat) (M : list frow) (b : list fl) : list token :=
  render_rows (fun no => render_affcomb o p (rk no)) (o_skip_rows o) M b.
Definition render_poly (o : fopts) (p : nat) (dv : Qc -> Qc -> Qc) (rk : nat -> nat -> nat) (M : list frow) (b : list fl) : list token :=
  render_rows (fun no => render_inequality o p dv (rk no)) (o_skip_rows o) M b.

(* ================================================================ lemmas *)

(* ---- the loop, state-free: position `no` contributes its own item iff it is outside the range; the first
        skipped position contributes the ellipsis, later skipped positions nothing *)
Definition none_skipped (sk : range) (start k : nat) : bool := forallb (fun j => negb (skipped sk j)) (seq start k).
Definition block {A} (sk : range) (ell : list token) (item : nat -> A -> list token) (fs : bool) (start : nat)
           (e : nat * A) : list token :=
  if skipped sk (fst e) then (if fs && none_skipped sk start (fst e - start) then ell else [])
  else item (fst e) (snd e).

Lemma in_combine_seq {A} (l : list A) : forall s i x, In (i, x) (combine (seq s (length l)) l) <->
  (s <= i)%nat /\ nth_error l (i - s) = Some x.
Proof.
  induction l as [|a l IH]; intros s i x; simpl.
  - split; [tauto|]. intros [_ H]. destruct (i - s)%nat; discriminate.
  - rewrite IH. split.
    + intros [H|[H1 H2]].
      * inversion H; subst. rewrite Nat.sub_diag. auto.
      * split; [lia|]. replace (i - s)%nat with (S (i - S s)) by lia. exact H2.
    + intros [H1 H2]. destruct (Nat.eq_dec s i) as [->|Hn].
      * rewrite Nat.sub_diag in H2. simpl in H2. left. congruence.
      * right. split; [lia|]. replace (i - s)%nat with (S (i - S s)) in H2 by lia. exact H2.
Qed.

Lemma skip_go_blocks {A} sk ell (item : nat -> A -> list token) : forall l no fs,
  skip_go sk ell item no fs l = concat (map (block sk ell item fs no) (combine (seq no (length l)) l)).
Proof.
  induction l as [|a l IH]; intros no fs; [reflexivity|].
  cbn [skip_go length seq combine map concat]. unfold block at 1. cbn [fst snd].
  rewrite Nat.sub_diag. unfold none_skipped at 1. cbn [seq forallb]. rewrite andb_true_r.
  destruct (skipped sk no) eqn:E.
  - f_equal. rewrite IH. f_equal. apply map_ext_in. intros [i x] Hin.
    apply in_combine_seq in Hin as [Hi _]. unfold block. cbn [fst snd].
    destruct (skipped sk i); auto.
    replace (i - no)%nat with (S (i - S no)) by lia.
    unfold none_skipped. cbn [seq forallb]. rewrite E. cbn [negb andb]. rewrite andb_false_r. reflexivity.
  - f_equal. rewrite IH. f_equal. apply map_ext_in. intros [i x] Hin.
    apply in_combine_seq in Hin as [Hi _]. unfold block. cbn [fst snd].
    destruct (skipped sk i); auto.
    replace (i - no)%nat with (S (i - S no)) by lia.
    unfold none_skipped. cbn [seq forallb]. rewrite E. cbn [negb andb]. reflexivity.
Qed.

Lemma skip_go_Forall {A} (P : token -> Prop) sk ell (item : nat -> A -> list token) :
  Forall P ell -> (forall no a, Forall P (item no a)) ->
  forall l no fs, Forall P (skip_go sk ell item no fs l).
Proof.
  intros He Hi. induction l as [|a l IH]; intros no fs; simpl; [constructor|].
  destruct (skipped sk no).
  - apply Forall_app. split; [destruct fs; auto | apply IH].
  - apply Forall_app. split; [apply Hi | apply IH].
Qed.

(* ellipsis present iff something was skipped -- and then exactly once *)
Lemma skip_go_filter {A} (isE : token -> bool) sk ell (item : nat -> A -> list token) :
  (forall no a, filter isE (item no a) = []) ->
  forall l no fs, filter isE (skip_go sk ell item no fs l) =
    if fs && existsb (skipped sk) (seq no (length l)) then filter isE ell else [].
Proof.
  intros Hi. induction l as [|a l IH]; intros no fs; cbn [skip_go length seq existsb].
  - rewrite andb_false_r. reflexivity.
  - destruct (skipped sk no) eqn:E; rewrite filter_app, IH; cbn [andb orb].
    + rewrite andb_true_r. destruct fs; cbn [andb]; [apply app_nil_r | reflexivity].
    + rewrite Hi. reflexivity.
Qed.

(* ---- write_lincomb: every number sits between its own sign and the index of its own coefficient *)
Ltac peel H pre :=
  destruct pre as [|? pre]; cbn [app] in H; [ try discriminate H | injection H as ? H; subst ].

Definition num_of (p : nat) (x : fl) : Z := fixed_n p (qabs (f_val x)).

Lemma lin_go_num sk p : forall l no fs pre n q post,
  skip_go sk lin_ell (lin_item p) no fs l = pre ++ Num n q :: post ->
  exists i x pre' post', In (i, x) l /\ pre = pre' ++ [Sign (f_neg x)] /\ post = Sp :: Var i :: post' /\
    q = p /\ n = num_of p x.
Proof.
  induction l as [|[i x] r IH]; intros no fs pre n q post H; cbn [skip_go] in H.
  - destruct pre; discriminate H.
  - destruct (skipped sk no).
    + destruct fs; cbn [lin_ell app] in H.
      * peel H pre. peel H pre.
        apply IH in H as (i' & x' & pre' & post' & Hin & -> & -> & -> & ->).
        exists i', x', (Sp :: HEllipsis :: pre'), post'. repeat split; auto. right; auto.
      * apply IH in H as (i' & x' & pre' & post' & Hin & -> & -> & -> & ->).
        exists i', x', pre', post'. repeat split; auto. right; auto.
    + unfold lin_item, write_float in H. cbn [fst snd] in H.
      destruct (Nat.eqb no 0); cbn [app] in H.
      * peel H pre. destruct pre as [|? pre]; cbn [app] in H.
        -- injection H as Hn Hq Hp; subst n q post. exists i, x, [], (skip_go sk lin_ell (lin_item p) (S no) fs r).
           repeat split; auto. left; auto.
        -- injection H as ? H; subst. peel H pre. peel H pre.
           apply IH in H as (i' & x' & pre' & post' & Hin & -> & -> & -> & ->).
           exists i', x', (Sign (f_neg x) :: Num (fixed_n p (qabs (f_val x))) p :: Sp :: Var i :: pre'), post'.
           repeat split; auto. right; auto.
      * peel H pre. peel H pre. destruct pre as [|? pre]; cbn [app] in H.
        -- injection H as Hn Hq Hp; subst n q post. exists i, x, [Sp], (skip_go sk lin_ell (lin_item p) (S no) fs r).
           repeat split; auto. left; auto.
        -- injection H as ? H; subst. peel H pre. peel H pre.
           apply IH in H as (i' & x' & pre' & post' & Hin & -> & -> & -> & ->).
           exists i', x', (Sp :: Sign (f_neg x) :: Num (fixed_n p (qabs (f_val x))) p :: Sp :: Var i :: pre'), post'.
           repeat split; auto. right; auto.
Qed.

(* ---- sorting keeps (index, coefficient) pairs together and orders by magnitude, whatever the tie-break *)
Lemma insert_perm rk a l : Permutation (insert rk a l) (a :: l).
Proof.
  induction l as [|b r IH]; simpl; auto.
  destruct (before rk a b); auto.
  eapply perm_trans; [apply perm_skip, IH | apply perm_swap].
Qed.
Lemma isort_perm rk l : Permutation (isort rk l) l.
Proof.
  induction l as [|a l IH]; simpl; auto.
  eapply perm_trans; [apply insert_perm | apply perm_skip, IH].
Qed.

Definition desc (a b : nat * fl) : Prop := mag b <= mag a.
Lemma before_true rk a b : before rk a b = true -> desc a b.
Proof.
  unfold before, desc. intros H. apply orb_true_iff in H as [H|H].
  - apply qltb_spec in H. apply Qclt_le_weak; auto.
  - apply andb_true_iff in H as [H _]. apply qeqb_spec in H. rewrite H. apply Qcle_refl.
Qed.
Lemma before_false rk a b : before rk a b = false -> desc b a.
Proof.
  unfold before, desc. intros H. apply orb_false_iff in H as [H _]. apply qltb_false in H. exact H.
Qed.
Lemma insert_sorted rk a l : StronglySorted desc l -> StronglySorted desc (insert rk a l).
Proof.
  induction l as [|b r IH]; intros Hs; simpl.
  - constructor; constructor.
  - inversion Hs as [|? ? Hr Hb]; subst. destruct (before rk a b) eqn:E.
    + constructor; auto. constructor; [apply before_true in E; auto|].
      apply before_true in E. rewrite Forall_forall in *. intros c Hc. specialize (Hb c Hc).
      unfold desc in *. eapply Qcle_trans; eauto.
    + constructor; [apply IH; auto|].
      apply before_false in E. rewrite Forall_forall in *. intros c Hc.
      apply (Permutation_in _ (insert_perm rk a r)) in Hc. destruct Hc as [<-|Hc]; auto.
Qed.
Lemma isort_sorted rk l : StronglySorted desc (isort rk l).
Proof. induction l; simpl; [constructor | apply insert_sorted; auto]. Qed.

Lemma order_perm o rk row : Permutation (order o rk row) (enumerate row).
Proof. unfold order. destruct (sorting o (length row)); [apply isort_perm | apply Permutation_refl]. Qed.
Lemma order_sorted o rk row : sorting o (length row) = true -> StronglySorted desc (order o rk row).
Proof. unfold order. intros ->. apply isort_sorted. Qed.
Lemma order_unsorted o rk row : sorting o (length row) = false -> order o rk row = enumerate row.
Proof. unfold order. intros ->. reflexivity. Qed.

Lemma in_enumerate {A} (l : list A) i x : In (i, x) (enumerate l) <-> nth_error l i = Some x.
Proof. unfold enumerate. rewrite in_combine_seq, Nat.sub_0_r. split; [tauto | split; [lia | auto]]. Qed.

Lemma in_order o rk row i x : In (i, x) (order o rk row) <-> nth_error row i = Some x.
Proof.
  rewrite <- in_enumerate. split; intros H.
  - eapply Permutation_in; [apply order_perm | exact H].
  - eapply Permutation_in; [apply Permutation_sym, order_perm | exact H].
Qed.

(* the number shown for a coefficient x at precision p, as a rational, is within half a unit of the last digit *)
Lemma num_of_close p x : qabs (num_val (num_of p x) p - qabs (f_val x)) <= half_ulp p.
Proof. apply fixed_n_close. Qed.
Lemma num_of_nonneg p x : (0 <= num_of p x)%Z.
Proof. apply fixed_n_nonneg, qabs_nonneg. Qed.

Theorem lincomb_num o p rk row pre n q post :
  render_lincomb o p rk row = pre ++ Num n q :: post ->
  exists i x pre' post', nth_error row i = Some x /\
    pre = pre' ++ [Sign (f_neg x)] /\ post = Sp :: Var i :: post' /\
    q = p /\ n = num_of p x /\ qabs (num_val n p - qabs (f_val x)) <= half_ulp p.
Proof.
  intros H. apply lin_go_num in H as (i & x & pre' & post' & Hin & H1 & H2 & H3 & H4).
  exists i, x, pre', post'. apply in_order in Hin. repeat split; auto.
  subst n. apply num_of_close.
Qed.

(* ---- which coefficients are shown, in which order; ellipsis *)
Definition vars_of (l : list token) : list nat := flat_map (fun t => match t with Var i => [i] | _ => [] end) l.
Definition is_hell (t : token) : bool := match t with HEllipsis => true | _ => false end.
Definition is_vell (t : token) : bool := match t with VEllipsis => true | _ => false end.
Definition shown {A} (sk : range) (l : list A) : list A :=
  map snd (filter (fun e => negb (skipped sk (fst e))) (combine (seq 0 (length l)) l)).

Lemma vars_of_app a b : vars_of (a ++ b) = vars_of a ++ vars_of b.
Proof. apply flat_map_app. Qed.

Lemma vars_lin_go sk p : forall l no fs,
  vars_of (skip_go sk lin_ell (lin_item p) no fs l) =
  map (fun e => fst (snd e)) (filter (fun e => negb (skipped sk (fst e))) (combine (seq no (length l)) l)).
Proof.
  induction l as [|[i x] r IH]; intros no fs; [reflexivity|].
  cbn [skip_go length seq combine filter fst snd].
  destruct (skipped sk no); cbn [negb]; rewrite vars_of_app, IH.
  - destruct fs; reflexivity.
  - unfold lin_item, write_float. destruct (Nat.eqb no 0); reflexivity.
Qed.

Theorem lincomb_shown o p rk row :
  vars_of (render_lincomb o p rk row) = map fst (shown (o_skip_axes o) (order o rk row)).
Proof.
  unfold render_lincomb, shown. rewrite vars_lin_go, map_map. reflexivity.
Qed.

Lemma lin_item_no_hell p no e : filter is_hell (lin_item p no e) = [].
Proof. unfold lin_item, write_float. destruct (Nat.eqb no 0); reflexivity. Qed.

Lemma order_length o rk row : length (order o rk row) = length row.
Proof.
  rewrite (Permutation_length (order_perm o rk row)). unfold enumerate.
  rewrite combine_length, seq_length. lia.
Qed.

Theorem lincomb_ellipsis o p rk row :
  filter is_hell (render_lincomb o p rk row) =
  if existsb (skipped (o_skip_axes o)) (seq 0 (length row)) then [HEllipsis] else [].
Proof.
  unfold render_lincomb. rewrite (skip_go_filter is_hell) by apply lin_item_no_hell.
  rewrite order_length. reflexivity.
Qed.

Theorem lincomb_blocks o p rk row :
  render_lincomb o p rk row =
  concat (map (block (o_skip_axes o) lin_ell (lin_item p) true 0) (enumerate (order o rk row))).
Proof. unfold render_lincomb. apply skip_go_blocks. Qed.

(* tokens that can occur in a linear combination *)
Definition lin_tok (t : token) : Prop :=
  match t with Sp | HEllipsis | Sign _ | Num _ _ | Var _ => True | _ => False end.
Lemma lincomb_toks o p rk row : Forall lin_tok (render_lincomb o p rk row).
Proof.
  unfold render_lincomb. apply skip_go_Forall.
  - repeat constructor.
  - intros no e. unfold lin_item, write_float. destruct (Nat.eqb no 0); repeat constructor.
Qed.

(* ---- normalisation: one positive factor for the whole row and the bias *)
Lemma fold_qmax_ge (row : frow) : forall a, a <= fold_left (fun a b => qmax a (qabs (f_val b))) row a /\
  Forall (fun x => qabs (f_val x) <= fold_left (fun a b => qmax a (qabs (f_val b))) row a) row.
Proof.
  induction row as [|x r IH]; intros a; simpl.
  - split; [apply Qcle_refl | constructor].
  - destruct (IH (qmax a (qabs (f_val x)))) as [H1 H2].
    assert (Ha : a <= qmax a (qabs (f_val x)) /\ qabs (f_val x) <= qmax a (qabs (f_val x))).
    { unfold qmax. destruct (qleb a (qabs (f_val x))) eqn:E.
      - apply qleb_spec in E. split; [auto | apply Qcle_refl].
      - apply qleb_false in E. split; [apply Qcle_refl | apply Qclt_le_weak; auto]. }
    destruct Ha as [Ha1 Ha2]. split; [eapply Qcle_trans; eauto|].
    constructor; [eapply Qcle_trans; eauto | auto].
Qed.

Lemma scale_ge row x : In x row -> qabs (f_val x) <= scale_of row.
Proof. intros H. destruct (fold_qmax_ge row 0) as [_ F]. rewrite Forall_forall in F. apply F; auto. Qed.

Lemma qabs_zero_iff x : qabs x = 0 <-> x = 0.
Proof.
  unfold qabs. destruct (qleb 0 x) eqn:E; [tauto|]. apply qleb_false in E.
  split; intros H; qlra.
Qed.

Lemma scale_pos row : all_zero row = false -> 0 < scale_of row.
Proof.
  intros H. unfold all_zero in H.
  assert (Hex : exists x, In x row /\ f_val x <> 0).
  { induction row as [|x r IH]; simpl in H; [discriminate|].
    apply andb_false_iff in H as [H|H].
    - exists x. split; [left; auto | apply qeqb_false; auto].
    - destruct (IH H) as (y & Hy & Hy0). exists y. split; [right; auto | auto]. }
  destruct Hex as (x & Hin & Hx). pose proof (scale_ge row x Hin) as G.
  pose proof (qabs_nonneg (f_val x)) as N.
  assert (qabs (f_val x) <> 0) by (rewrite qabs_zero_iff; auto).
  destruct (Qclt_le_dec 0 (scale_of row)) as [L|L]; auto.
  exfalso. apply H0. apply Qcle_antisym; [eapply Qcle_trans; eauto | auto].
Qed.

Lemma div_le_iff s a b : 0 < s -> (a / s <= b / s <-> a <= b).
Proof.
  intros Hs.
  assert (Hs0 : s <> 0) by (intros C; rewrite C in Hs; apply (Qclt_not_le _ _ Hs); apply Qcle_refl).
  assert (Hi : 0 < / s).
  { assert (E : / s * s = 1) by (field; auto).
    destruct (Qclt_le_dec 0 (/ s)) as [L|L]; auto. exfalso. clear - E L Hs. qnra. }
  split; intros H.
  - replace a with (a / s * s) by (field; auto). replace b with (b / s * s) by (field; auto).
    apply Qcmult_le_compat_r; auto. apply Qclt_le_weak; auto.
  - unfold Qcdiv. apply Qcmult_le_compat_r; auto. apply Qclt_le_weak; auto.
Qed.

Lemma dot_div s (r x : vec) : s <> 0 -> dot (map (fun a => a / s) r) x = dot r x / s.
Proof.
  intros Hs. revert x; induction r as [|a r IH]; intros [|x0 x]; simpl; try (field; auto).
  rewrite IH. field; auto.
Qed.

Lemma vals_fdiv dv s row : vals (map (fdiv dv s) row) = map (fun a => dv a s) (vals row).
Proof. unfold vals. rewrite !map_map. reflexivity. Qed.

(* with exact division the inequality shown is equivalent to the stored one *)
Theorem normalize_equiv row bias x : all_zero row = false ->
  let s := scale_of row in
  0 < s /\
  (dot (vals (map (fdiv Qcdiv s) row)) x <= f_val (fdiv Qcdiv s bias) <-> dot (vals row) x <= f_val bias) /\
  Forall (fun c => qabs (f_val c) <= s) row.
Proof.
  intros Hz s. pose proof (scale_pos row Hz) as Hs. fold s in Hs.
  assert (Hs0 : s <> 0) by (intros C; rewrite C in Hs; apply (Qclt_not_le _ _ Hs); apply Qcle_refl).
  split; auto. split.
  - rewrite vals_fdiv. cbn [fdiv f_val]. rewrite dot_div by auto. apply div_le_iff; auto.
  - rewrite Forall_forall. intros c Hc. apply scale_ge; auto.
Qed.

(* ---- write_inequality: the three shapes *)
Definition norm_on (o : fopts) (row : frow) : bool := o_norm o && negb (all_zero row).
Definition norm_fl (o : fopts) (dv : Qc -> Qc -> Qc) (row : frow) (x : fl) : fl :=
  if norm_on o row then fdiv dv (scale_of row) x else x.
Definition norm_row (o : fopts) (dv : Qc -> Qc -> Qc) (row : frow) : frow := map (norm_fl o dv row) row.

Lemma norm_fl_neg o dv row x : f_neg (norm_fl o dv row x) = f_neg x.
Proof. unfold norm_fl. destruct (norm_on o row); reflexivity. Qed.
Lemma norm_fl_val o dv row x :
  f_val (norm_fl o dv row x) = if norm_on o row then dv (f_val x) (scale_of row) else f_val x.
Proof. unfold norm_fl. destruct (norm_on o row); reflexivity. Qed.

Theorem inequality_cases o p dv rk row bias :
  (o_staut o = true /\ all_zero row = true /\ 0 <= f_val bias /\ render_inequality o p dv rk row bias = [Top]) \/
  (o_staut o = true /\ all_zero row = true /\ f_val bias < 0 /\ render_inequality o p dv rk row bias = [Bot]) \/
  (o_staut o && all_zero row = false /\
   render_inequality o p dv rk row bias =
     render_lincomb o p rk (norm_row o dv row) ++
     [Sp; Leq; Sp; Sign (f_neg bias); Num (num_of p (norm_fl o dv row bias)) p]).
Proof.
  unfold render_inequality, norm_row, norm_fl, norm_on.
  destruct (o_staut o && all_zero row) eqn:E.
  - apply andb_true_iff in E as [E1 E2]. destruct (qleb 0 (f_val bias)) eqn:B.
    + left. apply qleb_spec in B. auto.
    + right; left. apply qleb_false in B. auto.
  - right; right. split; auto.
    destruct (o_norm o && negb (all_zero row)); [reflexivity|].
    replace (map (fun x : fl => x) row) with row by (symmetry; apply map_id). reflexivity.
Qed.

Theorem inequality_top_bot o p dv rk row bias :
  (In Top (render_inequality o p dv rk row bias) ->
     o_staut o = true /\ all_zero row = true /\ 0 <= f_val bias /\ render_inequality o p dv rk row bias = [Top]) /\
  (In Bot (render_inequality o p dv rk row bias) ->
     o_staut o = true /\ all_zero row = true /\ f_val bias < 0 /\ render_inequality o p dv rk row bias = [Bot]).
Proof.
  destruct (inequality_cases o p dv rk row bias) as [(A & B & C & D)|[(A & B & C & D)|(A & D)]]; rewrite D.
  - split; [auto|]. intros [H|[]]; discriminate H.
  - split; [|auto]. intros [H|[]]; discriminate H.
  - pose proof (lincomb_toks o p rk (norm_row o dv row)) as F. rewrite Forall_forall in F.
    split; intros H; apply in_app_or in H as [H|H];
      try (apply F in H; contradiction);
      simpl in H; repeat (destruct H as [H|H]; [discriminate H|]); contradiction.
Qed.

(* every number of an inequality is a coefficient next to its variable, or the bias right of ≤ with its own sign;
   the value shown is that of the stored number, divided by the row's scale when normalize applies *)
Theorem inequality_num o p dv rk row bias pre n q post :
  render_inequality o p dv rk row bias = pre ++ Num n q :: post ->
  (exists i x0 pre' post', nth_error row i = Some x0 /\
     pre = pre' ++ [Sign (f_neg x0)] /\ post = Sp :: Var i :: post' /\ q = p /\
     n = num_of p (norm_fl o dv row x0) /\ In Leq post') \/
  (pre = render_lincomb o p rk (norm_row o dv row) ++ [Sp; Leq; Sp; Sign (f_neg bias)] /\ post = [] /\
     q = p /\ n = num_of p (norm_fl o dv row bias)).
Proof.
  intros H.
  destruct (inequality_cases o p dv rk row bias) as [(A & B & C & D)|[(A & B & C & D)|(A & D)]]; rewrite D in H.
  - destruct pre as [|? [|? ?]]; discriminate H.
  - destruct pre as [|? [|? ?]]; discriminate H.
  - clear D. set (L := render_lincomb o p rk (norm_row o dv row)) in *.
    assert (Hsplit : (exists post1, L = pre ++ Num n q :: post1) \/
                     (exists pre2, pre = L ++ pre2 /\ [Sp; Leq; Sp; Sign (f_neg bias); Num (num_of p (norm_fl o dv row bias)) p] = pre2 ++ Num n q :: post)).
    { clear - H. revert pre H. induction L as [|t L IH]; intros pre H; cbn [app] in H.
      - right. exists pre. auto.
      - destruct pre as [|t' pre]; cbn [app] in H.
        + injection H as -> H. left. exists L. reflexivity.
        + injection H as -> H. apply IH in H as [(post1 & ->)|(pre2 & -> & H2)].
          * left. exists post1. reflexivity.
          * right. exists pre2. auto. }
    destruct Hsplit as [(post1 & HL)|(pre2 & -> & H2)].
    + left. subst L. pose proof HL as HL'.
      apply lincomb_num in HL as (i & x & pre' & post' & Hn & -> & -> & -> & -> & _).
      unfold norm_row in Hn. rewrite nth_error_map in Hn.
      destruct (nth_error row i) as [x0|] eqn:E0; [|discriminate]. injection Hn as <-.
      rewrite norm_fl_neg in *.
      exists i, x0, pre'. eexists. split; [exact E0|]. split; [reflexivity|].
      rewrite HL' in H. rewrite <- app_assoc in H. cbn [app] in H.
      apply app_inv_head in H. injection H as H. rewrite <- H. cbn [app].
      split; [reflexivity|]. split; [reflexivity|]. split; [reflexivity|].
      apply in_or_app. right. right. left. reflexivity.
    + right.
      do 4 (destruct pre2 as [|? pre2]; cbn [app] in H2; [discriminate H2 | injection H2 as ? H2; subst]).
      destruct pre2 as [|? pre2]; cbn [app] in H2.
      * injection H2 as Hn Hq Hp; subst n q post. repeat split; reflexivity.
      * injection H2 as ? H2. destruct pre2; discriminate H2.
Qed.

(* the shown value of a (possibly normalised) number: within half a unit of the last digit of the stored
   value divided by the scale; with exact division that is x / s for the one positive s of the row *)
Theorem shown_value_close o p row x :
  qabs (num_val (num_of p (norm_fl o Qcdiv row x)) p -
        qabs (if norm_on o row then f_val x / scale_of row else f_val x)) <= half_ulp p.
Proof. rewrite <- norm_fl_val. apply num_of_close. Qed.

(* ---- write_affcomb: bias first with its own sign, then the linear part (dropped only if identically zero) *)
Theorem affcomb_shape o p rk row bias :
  render_affcomb o p rk row bias =
    Sign (f_neg bias) :: Num (num_of p bias) p :: Sp ::
    (if o_szero o && all_zero row then [] else render_lincomb o p rk row).
Proof. reflexivity. Qed.

Lemma all_zero_spec row : all_zero row = true <-> Forall (fun x => f_val x = 0) row.
Proof.
  unfold all_zero. rewrite forallb_forall, Forall_forall.
  split; intros H x Hx; apply qeqb_spec; auto.
Qed.

(* ---- rows *)
Theorem rows_blocks R sk M b :
  render_rows R sk M b =
  concat (map (block sk row_ell (row_item R (length b)) true 0) (enumerate (combine M b))).
Proof. unfold render_rows. apply skip_go_blocks. Qed.

Theorem rows_ellipsis R sk M b :
  (forall no r c, filter is_vell (R no r c) = []) ->
  filter is_vell (render_rows R sk M b) =
  if existsb (skipped sk) (seq 0 (length (combine M b))) then [VEllipsis] else [].
Proof.
  intros HR. unfold render_rows. rewrite (skip_go_filter is_vell); [reflexivity|].
  intros no [r c]. unfold row_item. rewrite filter_app, HR. cbn [fst snd].
  destruct (Nat.ltb (S no) (length b)); reflexivity.
Qed.

Lemma Forall_filter_nil (P : token -> Prop) (f : token -> bool) l :
  (forall t, P t -> f t = false) -> Forall P l -> filter f l = [].
Proof.
  intros Hp H. induction H as [|t l Ht _ IH]; simpl; auto. rewrite (Hp t Ht). exact IH.
Qed.

Lemma lincomb_no_vell o p rk row : filter is_vell (render_lincomb o p rk row) = [].
Proof.
  apply (Forall_filter_nil lin_tok); [|apply lincomb_toks]. intros [] H; simpl in *; auto; contradiction.
Qed.

Lemma inequality_no_vell o p dv rk row bias : filter is_vell (render_inequality o p dv rk row bias) = [].
Proof.
  destruct (inequality_cases o p dv rk row bias) as [(A & B & C & D)|[(A & B & C & D)|(A & D)]]; rewrite D; auto.
  rewrite filter_app, lincomb_no_vell. reflexivity.
Qed.

Lemma affcomb_no_vell o p rk row bias : filter is_vell (render_affcomb o p rk row bias) = [].
Proof.
  rewrite affcomb_shape. cbn [filter is_vell].
  destruct (o_szero o && all_zero row); [reflexivity | apply lincomb_no_vell].
Qed.

Theorem func_ellipsis o p rk M b :
  filter is_vell (render_func o p rk M b) =
  if existsb (skipped (o_skip_rows o)) (seq 0 (length (combine M b))) then [VEllipsis] else [].
Proof. apply rows_ellipsis. intros. apply affcomb_no_vell. Qed.

Theorem poly_ellipsis o p dv rk M b :
  filter is_vell (render_poly o p dv rk M b) =
  if existsb (skipped (o_skip_rows o)) (seq 0 (length (combine M b))) then [VEllipsis] else [].
Proof. apply rows_ellipsis. intros. apply inequality_no_vell. Qed.

(* the text of the signs and symbols: the byte sequences of the constants in impl_affineformat.rs *)
Example symbol_bytes :
  map (fun t => map nat_of_ascii (list_ascii_of_string (tok_text t))) [Sign true; Sign false; Leq; Top; Bot; HEllipsis; VEllipsis; NL; Sp] =
  [[226; 136; 146]; [43]; [226; 137; 164]; [226; 138; 164]; [226; 138; 165]; [226; 139; 175]; [226; 139; 174]; [10]; [32]]%nat.
Proof. vm_compute. reflexivity. Qed.

(* Pwl/PolyGenSeg.v -- the root traversal CONTAINS the sub-tree traversal (pwl/iter.rs PolyhedraGen, Next-only scripts).
   PolyGenSub.v: with_root(tree, r) = f_run (f_new_sub rows0 st) and a specification machine holding r's subtree at
   depth d0 with rows pre ++ rows0 yields that stream lifted by (d0, pre).  Here the missing statement about the WHOLE
   root stream: for a node r below the root (pending item q, created for a child of the pending item par of r's parent,
   edge rows r0; `below`/`pchild`), the stream of `repeat Next (dsize dt)` from the root is

        (before ++ OItem (item of r's parent) :: mid)
        ++ set_first_nrem (pd_nrem q) (map (lift_out d0 pre) (stream of with_root(r), dsize (subtree) Next calls))
        ++ after

   with d0 = depth of r = S (depth of the parent), pre = the rows reported for r's parent.  set_first_nrem: the ONLY
   difference between the lifted sub-stream and the segment of the root stream is the sibling counter of r's own item
   (with_root(r) reports n_remaining = 0 for r, the root traversal reports the number of r's later siblings).
   No panic: dbin (every node has at most 2 child slots; follows from ginv_sub: drep_dbin). *)
From Coq Require Import List Arith Lia Bool.
Import ListNotations.
From AT Require Import Num Vec Aff PTree Cells Abs PolyGen PolyGenProofs PolyGenUpd PolyGenSub.
Local Open Scope nat_scope.

(* ---------------------------------------------------------------- Next-only runs on pending lists *)
Definition mkst (P : list pend) : fstate := {| f_pending := P; f_last := 0 |}.
Definition runP (P : list pend) (n : nat) : list out := f_run (mkst P) (repeat Next n).
Definition nextP (P : list pend) : option (out_item * list pend) :=
  match f_next (mkst P) with FItem i s' => Some (i, f_pending s') | _ => None end.
Fixpoint stepsP (P : list pend) (n : nat) : option (list pend) :=
  match n with
  | O => Some P
  | S n' => match nextP P with Some (_, P') => stepsP P' n' | None => None end
  end.

Lemma f_next_last P l : f_next {| f_pending := P; f_last := l |} = f_next (mkst P).
Proof. reflexivity. Qed.

(* next() never reads last_push: Next-only runs do not depend on it *)
Lemma f_run_last_irrel : forall n P l, f_run {| f_pending := P; f_last := l |} (repeat Next n) = runP P n.
Proof.
  induction n as [|n IH]; intros P l; [reflexivity|].
  unfold runP. cbn [repeat f_run]. rewrite (f_next_last P l).
  destruct (f_next (mkst P)) as [i s'| |].
  - reflexivity.
  - f_equal. rewrite IH. reflexivity.
  - reflexivity.
Qed.

Lemma runP_next P n i P' : nextP P = Some (i, P') -> runP P (S n) = OItem i :: runP P' n.
Proof.
  unfold nextP, runP. cbn [repeat f_run]. destruct (f_next (mkst P)) as [i0 s'| |]; try discriminate.
  intros H. injection H as <- <-. destruct s' as [P'' l]. cbn [f_pending]. f_equal. apply f_run_last_irrel.
Qed.

Lemma runP_split : forall n P P' m, stepsP P n = Some P' -> runP P (n + m) = runP P n ++ runP P' m.
Proof.
  induction n as [|n IH]; intros P P' m H; cbn [stepsP] in H.
  - injection H as <-. reflexivity.
  - destruct (nextP P) as [[i P1]|] eqn:E; [|discriminate].
    cbn [Nat.add]. rewrite (runP_next P (n + m) i P1 E), (runP_next P n i P1 E), (IH P1 P' m H). reflexivity.
Qed.
Lemma stepsP_add : forall n P P' m, stepsP P n = Some P' -> stepsP P (n + m) = stepsP P' m.
Proof.
  induction n as [|n IH]; intros P P' m H; cbn [stepsP] in H.
  - injection H as <-. reflexivity.
  - cbn [Nat.add stepsP]. destruct (nextP P) as [[i P1]|]; [|discriminate]. exact (IH P1 P' m H).
Qed.

Lemma nextP_frame P rest i P' : nextP P = Some (i, P') -> nextP (P ++ rest) = Some (i, P' ++ rest).
Proof.
  unfold nextP, f_next, mkst. cbn [f_pending]. destruct P as [|p P0]; [discriminate|]. cbn [app].
  destruct (pd_tree p) as [j f ch].
  destruct (mk_pending (S (pd_depth p)) (pd_rows p) f (label_children 0 ch)) as [new|]; [|discriminate].
  cbn [f_pending]. intros H. injection H as <- <-. rewrite app_assoc. reflexivity.
Qed.
(* pending items behind the ones that are being consumed do not influence the stream *)
Lemma frame : forall n P rest P', stepsP P n = Some P' ->
  stepsP (P ++ rest) n = Some (P' ++ rest) /\ runP (P ++ rest) n = runP P n.
Proof.
  induction n as [|n IH]; intros P rest P' H; cbn [stepsP] in *.
  - injection H as <-. split; reflexivity.
  - destruct (nextP P) as [[i P1]|] eqn:E; [|discriminate].
    rewrite (nextP_frame _ rest _ _ E), (runP_next _ n _ _ (nextP_frame _ rest _ _ E)), (runP_next _ n _ _ E).
    destruct (IH P1 rest P' H) as [A B]. split; [exact A | rewrite B; reflexivity].
Qed.

(* ---------------------------------------------------------------- size, binary shape *)
Fixpoint dsize (t : dtree) : nat :=
  match t with
  | DN _ _ ch => S ((fix go (l : list (option dtree)) : nat :=
                       match l with [] => 0 | Some c :: l' => dsize c + go l' | None :: l' => go l' end) ch)
  end.
Fixpoint fsize (ts : list dtree) : nat := match ts with [] => 0 | t :: ts' => dsize t + fsize ts' end.
Lemma fsize_app ts1 ts2 : fsize (ts1 ++ ts2) = fsize ts1 + fsize ts2.
Proof. induction ts1 as [|t ts1 IH]; [reflexivity|]. cbn [app fsize]. rewrite IH. lia. Qed.
Lemma dsize_children i f ch : dsize (DN i f ch) = S (fsize (map snd (label_children 0 ch))).
Proof.
  cbn [dsize]. f_equal. generalize 0 at 2. induction ch as [|[c|] ch IH]; intros k.
  - reflexivity.
  - cbn [label_children map snd fsize]. rewrite <- (IH (S k)). reflexivity.
  - cbn [label_children]. exact (IH (S k)).
Qed.

Inductive dbin : dtree -> Prop :=
| dbin_node : forall i f ch, length ch <= 2 -> (forall c, In (Some c) ch -> dbin c) -> dbin (DN i f ch).

Lemma label_children_bound ch : forall k l c, In (l, c) (label_children k ch) -> k <= l < k + length ch /\ In (Some c) ch.
Proof.
  induction ch as [|[x|] ch IH]; intros k l c H; cbn [label_children] in H.
  - contradiction.
  - destruct H as [E|H].
    + injection E as <- <-. split; [cbn [length]; lia | left; reflexivity].
    + apply IH in H as [H1 H2]. split; [cbn [length]; lia | right; exact H2].
  - apply IH in H as [H1 H2]. split; [cbn [length]; lia | right; exact H2].
Qed.
Lemma dbin_child i f ch l c : dbin (DN i f ch) -> In (l, c) (label_children 0 ch) -> dbin c.
Proof. intros Hb Hin. inversion Hb as [i' f' ch' Hlen Hch]; subst. apply Hch. exact (proj2 (label_children_bound ch 0 l c Hin)). Qed.
Lemma dbin_labels i f ch l c : dbin (DN i f ch) -> In (l, c) (label_children 0 ch) -> l < 2.
Proof. intros Hb Hin. inversion Hb as [i' f' ch' Hlen Hch]; subst. pose proof (proj1 (label_children_bound ch 0 l c Hin)). lia. Qed.

Lemma mk_pending_trees d R f : forall lcs new, mk_pending d R f lcs = Some new -> map pd_tree new = map snd lcs.
Proof.
  induction lcs as [|[l c] lcs IH]; intros new H; cbn [mk_pending] in H.
  - injection H as <-. reflexivity.
  - destruct (edge_rows f l); [|discriminate]. destruct (mk_pending d R f lcs) as [rest|]; [|discriminate].
    injection H as <-. cbn [map pd_tree snd]. rewrite (IH rest eq_refl). reflexivity.
Qed.
Lemma mk_pending_ok d R f : forall lcs, (forall l c, In (l, c) lcs -> l < 2) -> exists new, mk_pending d R f lcs = Some new.
Proof.
  induction lcs as [|[l c] lcs IH]; intros H; [exists []; reflexivity|].
  destruct IH as (rest & Hm). { intros l' c' Hin. apply (H l' c'). right. exact Hin. }
  assert (Hl : l < 2) by (apply (H l c); left; reflexivity).
  cbn [mk_pending]. rewrite Hm. destruct l as [|[|l]]; [| |lia]; cbn [edge_rows]; eexists; reflexivity.
Qed.
Lemma mk_pending_split d R f : forall lcs1 l c lcs2 new r0,
  mk_pending d R f (lcs1 ++ (l, c) :: lcs2) = Some new -> edge_rows f l = Some r0 ->
  exists new1 new2, new = new1 ++ {| pd_depth := d; pd_nrem := length lcs2; pd_rows := R ++ r0; pd_tree := c |} :: new2 /\
    map pd_tree new1 = map snd lcs1 /\ map pd_tree new2 = map snd lcs2.
Proof.
  induction lcs1 as [|[l1 c1] lcs1 IH]; intros l c lcs2 new r0 H He; cbn [app mk_pending] in H.
  - rewrite He in H. destruct (mk_pending d R f lcs2) as [rest|] eqn:E; [|discriminate]. injection H as <-.
    exists [], rest. split; [reflexivity|]. split; [reflexivity | exact (mk_pending_trees d R f lcs2 rest E)].
  - destruct (edge_rows f l1) as [r1|]; [|discriminate].
    destruct (mk_pending d R f (lcs1 ++ (l, c) :: lcs2)) as [rest|] eqn:E; [|discriminate]. injection H as <-.
    destruct (IH l c lcs2 rest r0 E He) as (n1 & n2 & -> & A & B).
    eexists (_ :: n1), n2. split; [reflexivity|]. split; [cbn [map pd_tree snd]; rewrite A; reflexivity | exact B].
Qed.

Lemma nextP_node d nr R i f ch rest new : mk_pending (S d) R f (label_children 0 ch) = Some new ->
  nextP ({| pd_depth := d; pd_nrem := nr; pd_rows := R; pd_tree := DN i f ch |} :: rest)
  = Some ({| o_depth := d; o_index := i; o_nrem := nr; o_rows := R |}, new ++ rest).
Proof. intros H. unfold nextP, f_next, mkst. cbn [f_pending pd_tree pd_depth pd_rows pd_nrem]. rewrite H. reflexivity. Qed.

(* ---------------------------------------------------------------- a pending subtree is consumed in dsize steps *)
Lemma forest_consume : forall new,
  Forall (fun q => forall rest, stepsP (q :: rest) (dsize (pd_tree q)) = Some rest) new ->
  forall rest, stepsP (new ++ rest) (fsize (map pd_tree new)) = Some rest.
Proof.
  induction 1 as [|q new Hq _ IH]; intros rest; [reflexivity|].
  cbn [map fsize app]. rewrite (stepsP_add _ _ _ _ (Hq (new ++ rest))). apply IH.
Qed.

Theorem tree_consume t : dbin t -> forall d nr R rest,
  stepsP ({| pd_depth := d; pd_nrem := nr; pd_rows := R; pd_tree := t |} :: rest) (dsize t) = Some rest.
Proof.
  induction 1 as [i f ch Hlen Hch IH]; intros d nr R rest.
  assert (Hb : dbin (DN i f ch)) by (constructor; assumption).
  destruct (mk_pending_ok (S d) R f (label_children 0 ch)) as (new & Hm).
  { intros l c Hin. exact (dbin_labels i f ch l c Hb Hin). }
  pose proof (mk_pending_trees _ _ _ _ _ Hm) as Ht.
  rewrite dsize_children. cbn [stepsP]. rewrite (nextP_node d nr R i f ch rest new Hm). rewrite <- Ht.
  apply forest_consume. apply Forall_forall. intros q Hq rest'. destruct q as [qd qn qr qt]. cbn [pd_tree].
  apply IH. apply (in_map pd_tree) in Hq. rewrite Ht in Hq. cbn [pd_tree] in Hq.
  apply in_map_iff in Hq as ([l c] & Hs & Hin). cbn [snd] in Hs. subst c.
  exact (proj2 (label_children_bound ch 0 l qt Hin)).
Qed.

(* ---------------------------------------------------------------- position of a node below a pending item *)
(* q is the pending item the machine creates for a child of p's node when it reports p; r0 = rows of that edge *)
Inductive pchild (p q : pend) (r0 : list (vec * Qc)) : Prop :=
| pchild_intro : forall i f ch lcs1 l lcs2, pd_tree p = DN i f ch ->
    label_children 0 ch = lcs1 ++ (l, pd_tree q) :: lcs2 -> edge_rows f l = Some r0 ->
    pd_depth q = S (pd_depth p) -> pd_nrem q = length lcs2 -> pd_rows q = pd_rows p ++ r0 -> pchild p q r0.
Inductive below : pend -> pend -> Prop :=
| below_refl : forall p, below p p
| below_step : forall p q r0 q', pchild p q r0 -> below q q' -> below p q'.

Definition pend_item (p : pend) : out_item :=
  {| o_depth := pd_depth p; o_index := dt_idx (pd_tree p); o_nrem := pd_nrem p; o_rows := pd_rows p |}.

Lemma child_split p q r0 : dbin (pd_tree p) -> pchild p q r0 -> exists b a,
  runP [p] (dsize (pd_tree p)) = (OItem (pend_item p) :: b) ++ runP [q] (dsize (pd_tree q)) ++ a /\ dbin (pd_tree q).
Proof.
  intros Hb [i f ch lcs1 l lcs2 Ht Hl He Hd Hn Hr]. destruct p as [d nr R t], q as [qd qn qR c].
  unfold pend_item. cbn [pd_depth pd_nrem pd_rows pd_tree] in *. subst t qd qn qR. cbn [dt_idx].
  assert (Hinc : In (l, c) (label_children 0 ch)) by (rewrite Hl; apply in_or_app; right; left; reflexivity).
  destruct (mk_pending_ok (S d) R f (label_children 0 ch)) as (new & Hm).
  { intros l' c' Hin. exact (dbin_labels i f ch l' c' Hb Hin). }
  pose proof Hm as Hm2. rewrite Hl in Hm2.
  destruct (mk_pending_split _ _ _ _ _ _ _ _ _ Hm2 He) as (n1 & n2 & Hnew & A & B). subst new.
  rewrite dsize_children, Hl, map_app. cbn [map snd]. rewrite fsize_app. cbn [fsize].
  rewrite (runP_next _ _ _ _ (nextP_node d nr R i f ch [] _ Hm)). rewrite app_nil_r.
  set (q := {| pd_depth := S d; pd_nrem := length lcs2; pd_rows := R ++ r0; pd_tree := c |}) in *.
  assert (S1 : stepsP (n1 ++ q :: n2) (fsize (map pd_tree n1)) = Some (q :: n2)).
  { apply forest_consume. apply Forall_forall. intros x Hx rest. destruct x as [xd xn xr xt]. cbn [pd_tree].
    apply tree_consume. apply (in_map pd_tree) in Hx. rewrite A in Hx. cbn [pd_tree] in Hx.
    apply in_map_iff in Hx as ([l' c'] & Hs & Hin). cbn [snd] in Hs. subst c'.
    apply (dbin_child i f ch l' xt Hb). rewrite Hl. apply in_or_app. left. exact Hin. }
  assert (Hbc : dbin c) by exact (dbin_child i f ch l c Hb Hinc).
  assert (S2 : stepsP [q] (dsize c) = Some []) by (apply tree_consume; exact Hbc).
  destruct (frame _ _ n2 _ S2) as [S3 F]. cbn [app] in S3, F.
  rewrite <- A. rewrite (runP_split _ _ _ _ S1). rewrite (runP_split _ _ _ _ S3), F.
  exists (runP (n1 ++ q :: n2) (fsize (map pd_tree n1))), (runP n2 (fsize (map snd lcs2))).
  split; [reflexivity | exact Hbc].
Qed.

Lemma below_segment p q : below p q -> dbin (pd_tree p) -> exists b a,
  runP [p] (dsize (pd_tree p)) = b ++ runP [q] (dsize (pd_tree q)) ++ a /\ dbin (pd_tree q).
Proof.
  induction 1 as [p | p q r0 q' Hc Hbel IH]; intros Hb.
  - exists [], []. rewrite app_nil_r. split; [reflexivity | exact Hb].
  - destruct (child_split p q r0 Hb Hc) as (b & a & E & Hbq). destruct (IH Hbq) as (b' & a' & E' & Hb').
    rewrite E, E'. exists ((OItem (pend_item p) :: b) ++ b'), (a' ++ a).
    split; [rewrite <- !app_assoc; reflexivity | exact Hb'].
Qed.

(* ---------------------------------------------------------------- the sibling counter of the first item *)
Definition set_first_nrem (k : nat) (l : list out) : list out :=
  match l with
  | OItem i :: l' => OItem {| o_depth := o_depth i; o_index := o_index i; o_nrem := k; o_rows := o_rows i |} :: l'
  | _ => l
  end.
Lemma runP_nrem d k R t n :
  runP [{| pd_depth := d; pd_nrem := k; pd_rows := R; pd_tree := t |}] n
  = set_first_nrem k (runP [{| pd_depth := d; pd_nrem := 0; pd_rows := R; pd_tree := t |}] n).
Proof.
  destruct n as [|n]; [reflexivity|]. destruct t as [i f ch].
  destruct (mk_pending (S d) R f (label_children 0 ch)) as [new|] eqn:Hm.
  - rewrite (runP_next _ n _ _ (nextP_node d k R i f ch [] new Hm)), (runP_next _ n _ _ (nextP_node d 0 R i f ch [] new Hm)).
    reflexivity.
  - unfold runP, mkst. cbn [repeat f_run]. unfold f_next. cbn [f_pending pd_tree pd_depth pd_rows pd_nrem]. rewrite Hm. reflexivity.
Qed.

Definition pend0 (t : dtree) : pend := {| pd_depth := 0; pd_nrem := 0; pd_rows := []; pd_tree := t |}.

(* ---------------------------------------------------------------- the segment theorem (specification machine) *)
Theorem next_stream_subtree_segment dt par q r0 : dbin dt -> below (pend0 dt) par -> pchild par q r0 ->
  exists before mid after,
    f_run (f_new dt) (repeat Next (dsize dt)) =
      (before ++ OItem (pend_item par) :: mid)
      ++ set_first_nrem (pd_nrem q)
           (map (lift_out (S (pd_depth par)) (pd_rows par)) (f_run (f_new_sub r0 (pd_tree q)) (repeat Next (dsize (pd_tree q)))))
      ++ after.
Proof.
  intros Hb Hbel Hc.
  destruct (below_segment _ _ Hbel Hb) as (b & a & E & Hbp). cbn [pend0 pd_tree] in E.
  destruct (child_split par q r0 Hbp Hc) as (b2 & a2 & E2 & Hbq).
  change (f_run (f_new dt) (repeat Next (dsize dt))) with (runP [pend0 dt] (dsize dt)).
  rewrite E, E2. exists b, b2, (a2 ++ a).
  destruct Hc as [i f ch lcs1 l lcs2 Ht Hl He Hd Hn Hr]. destruct q as [qd qn qR c]. cbn [pd_depth pd_nrem pd_rows pd_tree] in *.
  subst qd qR. rewrite runP_nrem. unfold runP at 1, mkst. rewrite (sub_stream_lift (S (pd_depth par)) (pd_rows par) r0 c).
  rewrite <- !app_assoc. reflexivity.
Qed.

(* r = the start node itself: the stream is the stream *)
Lemma lift_out_id l : map (lift_out 0 []) l = l.
Proof.
  induction l as [|o l IH]; [reflexivity|]. cbn [map]. rewrite IH. f_equal.
  destruct o as [i| | |]; try reflexivity. destruct i; reflexivity.
Qed.

(* ---------------------------------------------------------------- the arena side: sub-trees of the abstraction *)
Scheme drep_mind := Minimality for drep Sort Prop
  with drep_slots_mind := Minimality for drep_slots Sort Prop.

Lemma drep_slots_length a os ts : drep_slots a os ts -> length ts = length os.
Proof. induction 1 as [|os ts Hs IH|k t os ts Hk Hs IH]; cbn [length]; congruence. Qed.

(* the abstraction of a well-formed arena is binary: the specification machine never panics on it *)
Theorem drep_dbin a (G : ginv_sub a) : forall i t, drep a i t -> dbin t.
Proof.
  apply (drep_mind a (fun _ t => dbin t) (fun _ ts => forall c, In (Some c) ts -> dbin c)).
  - intros i c ch Hc Hs IH. constructor; [|exact IH].
    rewrite (drep_slots_length a _ _ Hs). exact (gs_bin a G i c Hc).
  - intros c [].
  - intros os ts _ IH c [E|Hin]; [discriminate | exact (IH c Hin)].
  - intros k t os ts _ Ht _ IH c [E|Hin]; [injection E as <-; exact Ht | exact (IH c Hin)].
Qed.

Lemma drep_slots_label a os ts : drep_slots a os ts -> forall k0 l c, In (l, c) (label_children k0 ts) ->
  exists j, k0 <= l /\ nth_error os (l - k0) = Some (Some j) /\ drep a j c.
Proof.
  induction 1 as [|os ts Hs IH|k t os ts Hk Hs IH]; intros k0 l c Hin; cbn [label_children] in Hin.
  - contradiction.
  - destruct (IH (S k0) l c Hin) as (j & Hle & Hn & Hd). exists j. split; [lia|]. split; [|exact Hd].
    replace (l - k0) with (S (l - S k0)) by lia. exact Hn.
  - destruct Hin as [E|Hin].
    + injection E as <- <-. exists k. split; [lia|]. rewrite Nat.sub_diag. split; [reflexivity | exact Hk].
    + destruct (IH (S k0) l c Hin) as (j & Hle & Hn & Hd). exists j. split; [lia|]. split; [|exact Hd].
      replace (l - k0) with (S (l - S k0)) by lia. exact Hn.
Qed.

(* the pending item of a child: its tree is the abstraction of the child cell, its edge rows are start_rows of that cell,
   and with_root(child) is the specification stream of that tree started with these rows *)
Lemma pchild_arena a (G : ginv_sub a) par q r0 : drep a (dt_idx (pd_tree par)) (pd_tree par) -> pchild par q r0 ->
  drep a (dt_idx (pd_tree q)) (pd_tree q) /\ start_rows a (dt_idx (pd_tree q)) = Some r0 /\
  forall script, pgen_run a (pgen_new (dt_idx (pd_tree q))) script = f_run (f_new_sub r0 (pd_tree q)) script.
Proof.
  intros Hrep [i f ch lcs1 l lcs2 Ht Hl He Hd Hn Hr]. rewrite Ht in Hrep. cbn [dt_idx] in Hrep.
  inversion Hrep as [i0 c0 ch0 Hc0 Hslots]; subst i0 ch0. subst f.
  assert (Hin : In (l, pd_tree q) (label_children 0 ch)) by (rewrite Hl; apply in_or_app; right; left; reflexivity).
  destruct (drep_slots_label a _ _ Hslots 0 l (pd_tree q) Hin) as (j & _ & Hnth & Hq). rewrite Nat.sub_0_r in Hnth.
  rewrite (drep_idx a j (pd_tree q) Hq).
  destruct (gs_down a G i c0 l j Hc0 Hnth) as (cj & Hcj & Hpar).
  assert (Hfl : find_label (c_children c0) j = Some l).
  { apply find_label_unique; [exact Hnth|]. intros l' Hl'. exact (gs_slot a G i c0 l' l j Hc0 Hl' Hnth). }
  split; [exact Hq|]. split; [exact (start_rows_parent a j cj i c0 l r0 Hcj Hpar Hc0 Hfl He)|].
  intros script. apply (pgen_refines_sub a G). exact (pinv_sub_init a j (pd_tree q) cj i c0 l r0 G Hq Hcj Hpar Hc0 Hfl He).
Qed.

Lemma below_arena a (G : ginv_sub a) p q : below p q -> drep a (dt_idx (pd_tree p)) (pd_tree p) ->
  drep a (dt_idx (pd_tree q)) (pd_tree q).
Proof.
  induction 1 as [p | p q r0 q' Hc Hbel IH]; intros Hrep; [exact Hrep|].
  apply IH. exact (proj1 (pchild_arena a G p q r0 Hrep Hc)).
Qed.

(* ---------------------------------------------------------------- the segment theorem on the coded machine *)
(* root = a parent-less cell, dt its abstraction; r = dt_idx (pd_tree q) any node below the root (pchild/below give its
   position); the dsize dt Next calls of PolyhedraGen::new(tree) report, for the nodes of r's subtree, exactly what the
   dsize (subtree) Next calls of PolyhedraGen::with_root(tree, r) report, with depth + depth(r) and the rows reported
   for r's parent in front; only the sibling counter of r's own item is the one of r among its siblings *)
Theorem pgen_root_stream_contains_sub a root fuel dt par q r0 :
  ginv a root -> dabs fuel a root = Some dt -> below (pend0 dt) par -> pchild par q r0 ->
  start_rows a (dt_idx (pd_tree q)) = Some r0 /\
  exists before mid after,
    pgen_run a (pgen_new root) (repeat Next (dsize dt)) =
      (before ++ OItem (pend_item par) :: mid)
      ++ set_first_nrem (pd_nrem q)
           (map (lift_out (S (pd_depth par)) (pd_rows par))
                (pgen_run a (pgen_new (dt_idx (pd_tree q))) (repeat Next (dsize (pd_tree q)))))
      ++ after.
Proof.
  intros Gr Hd Hbel Hc. pose proof (ginv_ginv_sub a root Gr) as G.
  pose proof (dabs_sound a fuel root dt Hd) as Hrep.
  assert (Hrep0 : drep a (dt_idx (pd_tree (pend0 dt))) (pd_tree (pend0 dt))).
  { cbn [pend0 pd_tree]. rewrite (drep_idx a root dt Hrep). exact Hrep. }
  pose proof (below_arena a G _ _ Hbel Hrep0) as Hpar.
  destruct (pchild_arena a G par q r0 Hpar Hc) as (_ & Hs & Hrun).
  split; [exact Hs|].
  rewrite (pgen_run_spec a root fuel dt _ Gr Hd), Hrun.
  apply next_stream_subtree_segment; [exact (drep_dbin a G root dt Hrep) | exact Hbel | exact Hc].
Qed.

(* the root itself: with_root(root) is new(tree) *)
Theorem pgen_root_stream_self a root fuel dt script : ginv a root -> dabs fuel a root = Some dt ->
  pgen_run a (pgen_new root) script = map (lift_out 0 []) (f_run (f_new_sub [] dt) script).
Proof. intros G Hd. rewrite lift_out_id, f_new_sub_nil. exact (pgen_run_spec a root fuel dt script G Hd). Qed.

(* ---------------------------------------------------------------- non-vacuity: the 5-node arena of PolyGenSub.v *)
Local Open Scope Qc_scope.
Definition pgs_leaf_dt (i : nat) : dtree := DN i (pgu_p 0 0) [None; None].
Definition pgs_dt2 : dtree := DN 2 (pgu_p 1 1) [Some (pgs_leaf_dt 3); Some (pgs_leaf_dt 4)].
Definition pgs_dt : dtree := DN 0 (pgu_p 1 0) [Some (pgs_leaf_dt 1); Some pgs_dt2].
Definition pgs_r2 : list (vec * Qc) := combine (a_mat (pgu_p 1 0)) (a_bias (pgu_p 1 0)).
Definition pgs_r4 : list (vec * Qc) := combine (a_mat (pgu_p 1 1)) (a_bias (pgu_p 1 1)).
Definition pgs_q2 : pend := {| pd_depth := 1; pd_nrem := 0; pd_rows := [] ++ pgs_r2; pd_tree := pgs_dt2 |}.
Definition pgs_q4 : pend := {| pd_depth := 2; pd_nrem := 0; pd_rows := pd_rows pgs_q2 ++ pgs_r4; pd_tree := pgs_leaf_dt 4 |}.
Definition out_eqb (x y : out) : bool :=
  match x, y with
  | OItem i, OItem j => Nat.eqb (o_depth i) (o_depth j) && Nat.eqb (o_index i) (o_index j) && Nat.eqb (o_nrem i) (o_nrem j)
                        && rows_eqb (o_rows i) (o_rows j)
  | OEnd, OEnd | OPanic, OPanic | OSkip, OSkip => true
  | _, _ => false
  end.
Definition outs_eqb (x y : list out) : bool :=
  Nat.eqb (length x) (length y) && forallb (fun p => out_eqb (fst p) (snd p)) (combine x y).

Example pgen_root_segment_example :
  ginvb pgs_arena 0 = true /\ dabs 6 pgs_arena 0 = Some pgs_dt /\ dsize pgs_dt = 5%nat /\
  (* node 2 (decision, child 1 of the root) and node 4 (leaf, child 1 of node 2) *)
  below (pend0 pgs_dt) (pend0 pgs_dt) /\ pchild (pend0 pgs_dt) pgs_q2 pgs_r2 /\
  below (pend0 pgs_dt) pgs_q2 /\ pchild pgs_q2 pgs_q4 pgs_r4 /\
  dt_idx (pd_tree pgs_q2) = 2%nat /\ dt_idx (pd_tree pgs_q4) = 4%nat /\ dsize (pd_tree pgs_q2) = 3%nat /\
  map pgs_key (pgen_run pgs_arena (pgen_new 0) (repeat Next 5)) = [0%nat; 111%nat; 120%nat; 231%nat; 240%nat] /\
  (* the last three items of the root stream are the lifted stream of with_root(2) *)
  outs_eqb (pgen_run pgs_arena (pgen_new 0) (repeat Next 5))
           (firstn 2 (pgen_run pgs_arena (pgen_new 0) (repeat Next 5))
            ++ set_first_nrem 0 (map (lift_out 1 []) (pgen_run pgs_arena (pgen_new 2) (repeat Next 3))) ++ []) = true /\
  (* the last item is the lifted stream of with_root(4): depth + 2, the rows reported for node 2 in front *)
  outs_eqb (pgen_run pgs_arena (pgen_new 0) (repeat Next 5))
           (firstn 4 (pgen_run pgs_arena (pgen_new 0) (repeat Next 5))
            ++ set_first_nrem 0 (map (lift_out 2 (pd_rows pgs_q2)) (pgen_run pgs_arena (pgen_new 4) (repeat Next 1))) ++ []) = true /\
  (* the lift is not the identity here: the unlifted sub-stream does not fit *)
  outs_eqb (pgen_run pgs_arena (pgen_new 0) (repeat Next 5))
           (firstn 2 (pgen_run pgs_arena (pgen_new 0) (repeat Next 5))
            ++ pgen_run pgs_arena (pgen_new 2) (repeat Next 3)) = false.
Proof.
  split; [vm_compute; reflexivity|]. split; [reflexivity|]. split; [reflexivity|].
  assert (C2 : pchild (pend0 pgs_dt) pgs_q2 pgs_r2).
  { apply (pchild_intro _ _ _ 0%nat (pgu_p 1 0) [Some (pgs_leaf_dt 1); Some pgs_dt2] [(0%nat, pgs_leaf_dt 1)] 1%nat []); reflexivity. }
  assert (C4 : pchild pgs_q2 pgs_q4 pgs_r4).
  { apply (pchild_intro _ _ _ 2%nat (pgu_p 1 1) [Some (pgs_leaf_dt 3); Some (pgs_leaf_dt 4)] [(0%nat, pgs_leaf_dt 3)] 1%nat []); reflexivity. }
  split; [apply below_refl|]. split; [exact C2|].
  split; [exact (below_step _ _ _ _ C2 (below_refl _))|]. split; [exact C4|].
  repeat split; vm_compute; reflexivity.
Qed.

(* ---------------------------------------------------------------- dsize = the number of reported items *)
Local Open Scope nat_scope.
Lemma runP_items : forall n P P', stepsP P n = Some P' -> exists items, runP P n = map OItem items /\ length items = n.
Proof.
  induction n as [|n IH]; intros P P' H; cbn [stepsP] in H.
  - exists []. split; reflexivity.
  - destruct (nextP P) as [[i P1]|] eqn:E; [|discriminate]. destruct (IH P1 P' H) as (items & Hr & Hl).
    exists (i :: items). rewrite (runP_next P n i P1 E), Hr. split; [reflexivity | cbn [length]; rewrite Hl; reflexivity].
Qed.
(* a traversal started at any node with any rows reports exactly dsize items (no End, no Panic) and is then finished *)
Theorem sub_stream_all_items r0 t : dbin t ->
  (exists items, f_run (f_new_sub r0 t) (repeat Next (dsize t)) = map OItem items /\ length items = dsize t) /\
  forall m, f_run (f_new_sub r0 t) (repeat Next (dsize t + m)) = f_run (f_new_sub r0 t) (repeat Next (dsize t)) ++ repeat OEnd m.
Proof.
  intros Hb. pose proof (tree_consume t Hb 0 0 r0 []) as Hs. split.
  - exact (runP_items _ _ _ Hs).
  - intros m. change (f_run (f_new_sub r0 t) (repeat Next (dsize t + m))) with (runP [ {| pd_depth := 0; pd_nrem := 0; pd_rows := r0; pd_tree := t |} ] (dsize t + m)).
    rewrite (runP_split _ _ _ m Hs). f_equal. clear. induction m as [|m IH]; [reflexivity|].
    unfold runP in *. cbn [repeat f_run]. unfold f_next at 1. cbn [mkst f_pending]. rewrite IH. reflexivity.
Qed.
Theorem pgen_root_stream_all_items a root fuel dt : ginv a root -> dabs fuel a root = Some dt ->
  exists items, pgen_run a (pgen_new root) (repeat Next (dsize dt)) = map OItem items /\ length items = dsize dt.
Proof.
  intros G Hd. rewrite (pgen_run_spec a root fuel dt _ G Hd), <- f_new_sub_nil.
  exact (proj1 (sub_stream_all_items [] dt (drep_dbin a (ginv_ginv_sub a root G) root dt (dabs_sound a fuel root dt Hd)))).
Qed.

(* ---------------------------------------------------------------- the position given by a path of labels *)
Fixpoint pick_child (lcs : list (nat * dtree)) (l : nat) : option (dtree * nat) :=
  match lcs with
  | [] => None
  | (l', c) :: lcs' => if Nat.eqb l' l then Some (c, length lcs') else pick_child lcs' l
  end.
(* the pending item for the child with label l of p's node, and the rows of that edge *)
Definition child_pend (p : pend) (l : nat) : option (pend * list (vec * Qc)) :=
  match pd_tree p with
  | DN i f ch =>
      match pick_child (label_children 0 ch) l, edge_rows f l with
      | Some (c, k), Some r0 =>
          Some ({| pd_depth := S (pd_depth p); pd_nrem := k; pd_rows := pd_rows p ++ r0; pd_tree := c |}, r0)
      | _, _ => None
      end
  end.
Fixpoint pend_at (p : pend) (ls : list nat) : option pend :=
  match ls with
  | [] => Some p
  | l :: ls' => match child_pend p l with Some (q, _) => pend_at q ls' | None => None end
  end.

Lemma pick_child_split : forall lcs l c k, pick_child lcs l = Some (c, k) ->
  exists lcs1 lcs2, lcs = lcs1 ++ (l, c) :: lcs2 /\ k = length lcs2.
Proof.
  induction lcs as [|[l' c'] lcs IH]; intros l c k H; cbn [pick_child] in H; [discriminate|].
  destruct (Nat.eqb_spec l' l) as [->|Hne].
  - injection H as <- <-. exists [], lcs. split; reflexivity.
  - destruct (IH l c k H) as (l1 & l2 & -> & Hk). exists ((l', c') :: l1), l2. split; [reflexivity | exact Hk].
Qed.
Lemma child_pend_pchild p l q r0 : child_pend p l = Some (q, r0) -> pchild p q r0.
Proof.
  unfold child_pend. destruct (pd_tree p) as [i f ch] eqn:Ht.
  destruct (pick_child (label_children 0 ch) l) as [[c k]|] eqn:Hp; [|discriminate].
  destruct (edge_rows f l) as [r|] eqn:He; [|discriminate]. intros H. injection H as <- <-.
  destruct (pick_child_split _ _ _ _ Hp) as (l1 & l2 & Hl & Hk).
  exact (pchild_intro p {| pd_depth := S (pd_depth p); pd_nrem := k; pd_rows := pd_rows p ++ r; pd_tree := c |} r
           i f ch l1 l l2 Ht Hl He eq_refl Hk eq_refl).
Qed.
Lemma pend_at_below : forall ls p q, pend_at p ls = Some q -> below p q.
Proof.
  induction ls as [|l ls IH]; intros p q H; cbn [pend_at] in H.
  - injection H as <-. apply below_refl.
  - destruct (child_pend p l) as [[q1 r1]|] eqn:E; [|discriminate].
    exact (below_step p q1 r1 q (child_pend_pchild p l q1 r1 E) (IH q1 q H)).
Qed.

(* r = the node reached from the root by the labels ls ++ [l] *)
Theorem pgen_root_stream_contains_sub_path a root fuel dt ls l par q r0 :
  ginv a root -> dabs fuel a root = Some dt -> pend_at (pend0 dt) ls = Some par -> child_pend par l = Some (q, r0) ->
  pd_depth q = S (length ls) /\ start_rows a (dt_idx (pd_tree q)) = Some r0 /\
  exists before mid after,
    pgen_run a (pgen_new root) (repeat Next (dsize dt)) =
      (before ++ OItem (pend_item par) :: mid)
      ++ set_first_nrem (pd_nrem q)
           (map (lift_out (S (length ls)) (pd_rows par))
                (pgen_run a (pgen_new (dt_idx (pd_tree q))) (repeat Next (dsize (pd_tree q)))))
      ++ after.
Proof.
  intros G Hd Hp Hc.
  assert (Hdep : forall ls p p', pend_at p ls = Some p' -> pd_depth p' = pd_depth p + length ls).
  { clear. induction ls as [|l ls IH]; intros p p' H; cbn [pend_at] in H.
    - injection H as <-. cbn [length]. lia.
    - destruct (child_pend p l) as [[q1 r1]|] eqn:E; [|discriminate]. rewrite (IH q1 p' H).
      destruct (child_pend_pchild p l q1 r1 E) as [i f ch l1 l' l2 _ _ _ Hq _ _]. rewrite Hq. cbn [length]. lia. }
  pose proof (Hdep ls _ _ Hp) as Hpar. cbn [pend0 pd_depth] in Hpar. cbn [Nat.add] in Hpar.
  pose proof (child_pend_pchild par l q r0 Hc) as Hpc.
  destruct (pgen_root_stream_contains_sub a root fuel dt par q r0 G Hd (pend_at_below ls _ _ Hp) Hpc) as [Hs Hseg].
  split; [destruct Hpc as [i f ch l1 l' l2 _ _ _ Hq _ _]; rewrite Hq, Hpar; reflexivity|].
  split; [exact Hs|]. rewrite <- Hpar. exact Hseg.
Qed.

Example pgen_root_segment_path_example :
  option_map (fun p => dt_idx (pd_tree p)) (pend_at (pend0 pgs_dt) [1; 1]) = Some 4 /\
  option_map (fun p => dt_idx (pd_tree p)) (pend_at (pend0 pgs_dt) [1; 0]) = Some 3 /\
  option_map (fun p => pd_nrem p) (pend_at (pend0 pgs_dt) [1; 0]) = Some 1 /\
  pend_at (pend0 pgs_dt) [1] = Some pgs_q2 /\
  option_map fst (child_pend pgs_q2 1) = Some pgs_q4 /\
  pend_at (pend0 pgs_dt) [0; 0] = None.
Proof. repeat split; reflexivity. Qed.

(* Pwl/ArenaComposeOrder.v -- generic_composition_inplace (pwl/impl_composition.rs) is public and takes the list of
   terminals of the receiver to extend as an argument; compose passes terminal_indices() (ascending keys), other
   callers (and the c02 harness, `direct`) pass the terminals reversed / depth-first / shuffled, or only some of them.
   ArenaCompose.arena_compose_list has exactly this shape.  Here: the refinement and frame theorems of
   ArenaComposeAbs.v / ArenaCompose.v for ANY duplicate-free list of terminals:

   - sub-lists (arena_compose_list_sub_some, _extends, _abs): for NoDup ts, incl ts (terminal_keys a) the run returns Some a', extends a a',
     every cell whose key is not listed is unchanged, and the arena abstracts to the tree in which exactly the listed
     terminals are replaced by the grafted copy of lhs and every other terminal is kept (abs_sub (lift_sel s L ts));
   - any order of all terminals (arena_compose_list_abs_perm / _some_perm / _extends_perm): for Permutation ts
     (terminal_keys a) (or NoDup ts + same elements) the conclusions of arena_compose_abs / arena_compose_some /
     arena_compose_extends hold: Some a', every old node abstracts to lift s t L, extends a a'.
   The order only influences which fresh key goes where (exo_run: two orders, different arenas, same abstraction). *)
From Coq Require Export Permutation.
From AT Require Import Num Vec Aff PTree Cells Abs Tree TreeLemmas ArenaCompose ArenaComposeAbs.

(* ---------------------------------------------------------------- the indexed abstraction *)
(* abs_at with a substitution at the terminals that may look at the arena index of the terminal *)
Fixpoint abs_sub (g : nat -> aff -> ptree) (fuel : nat) (a : arena acont) (i : nat) : option ptree :=
  match fuel with
  | O => None
  | S fuel' =>
      match aget a i with
      | None => None
      | Some c =>
          if c_leaf c then Some (g i (ac_aff (c_val c)))
          else match opt_all (map (fun oc => match oc with None => Some U | Some j => abs_sub g fuel' a j end) (c_children c)) with
               | Some ch => Some (D (ac_aff (c_val c)) ch)
               | None => None
               end
      end
  end.

Definition memb (j : nat) (ts : list nat) : bool := existsb (Nat.eqb j) ts.
Lemma memb_In j ts : memb j ts = true <-> In j ts.
Proof.
  unfold memb. rewrite existsb_exists. split.
  - intros [x [Hx E]]. apply Nat.eqb_eq in E. subst x. exact Hx.
  - intros H. exists j. split; [exact H | apply Nat.eqb_refl].
Qed.
Lemma memb_nIn j ts : memb j ts = false <-> ~ In j ts.
Proof.
  rewrite <- memb_In. destruct (memb j ts); split; intros H; try reflexivity; try discriminate.
  exfalso. apply H. reflexivity.
Qed.

(* the lifting applied exactly at the terminals whose key is listed: a listed terminal becomes the grafted copy of
   lhs, every other terminal stays what it was *)
Definition lift_sel (s : schema) (L : ptree) (ts : list nat) (j : nat) (tf : aff) : ptree :=
  if memb j ts then graft s L tf else T tf.

(* nothing listed: the plain abstraction *)
Lemma abs_sub_keep g : (forall j tf, g j tf = T tf) -> forall fuel a i, abs_sub g fuel a i = abs_at fuel a i.
Proof.
  intros Hg. induction fuel as [|fuel IH]; intros a i; [reflexivity|]. cbn [abs_sub abs_at].
  destruct (aget a i) as [c|]; [|reflexivity]. destruct (c_leaf c); [rewrite Hg; reflexivity|].
  erewrite opt_all_map_ext; [reflexivity|]. intros [j|] _; [apply IH | reflexivity].
Qed.
Lemma abs_sub_nil s L fuel a i : abs_sub (lift_sel s L []) fuel a i = abs_at fuel a i.
Proof. apply abs_sub_keep. intros j tf. reflexivity. Qed.

(* every terminal listed: the lifted tree *)
Lemma abs_sub_all s L ts a : (forall j, In j (terminal_keys a) -> In j ts) ->
  forall fuel i t, abs_at fuel a i = Some t -> abs_sub (lift_sel s L ts) fuel a i = Some (lift s t L).
Proof.
  intros Hall. induction fuel as [|fuel IH]; intros i t H; [discriminate|]. cbn [abs_at abs_sub] in *.
  destruct (aget a i) as [c|] eqn:Ec; [|discriminate]. destruct (c_leaf c) eqn:El.
  - inversion H; subst t. cbn [lift]. unfold lift_sel.
    assert (Hin : In i (terminal_keys a)).
    { unfold terminal_keys. apply filter_In. split; [eapply akeys_in; eauto | rewrite Ec; exact El]. }
    rewrite (proj2 (memb_In i ts) (Hall i Hin)). reflexivity.
  - destruct (opt_all (map (fun oc => match oc with None => Some U | Some j => abs_at fuel a j end) (c_children c))) as [ch|] eqn:E; [|discriminate].
    inversion H; subst t. cbn [lift].
    erewrite (opt_all_map_map _ (fun c0 => lift s c0 L)); [reflexivity | exact E |].
    intros [j|] y _ Hy; [apply IH; exact Hy | inversion Hy; reflexivity].
Qed.

(* ---------------------------------------------------------------- any duplicate-free list of empty leaves *)
Theorem compose_list_some alloc K s L : fresh_alloc alloc -> karity K L -> L <> U ->
  forall ts a, NoDup ts -> (forall j, In j ts -> empty_leaf K a j) ->
  exists a', arena_compose_list alloc K s L ts a = Some a'.
Proof.
  intros Hf HL HnU. induction ts as [|j r IH]; intros a0 Hnd Hts; cbn [arena_compose_list]; [eauto|].
  destruct (Hts j (or_introl eq_refl)) as [cj [Hcj [Hlj Hchj]]].
  destruct (arena_compose_at_some alloc K s L a0 j cj Hf HL HnU Hcj Hchj) as [a1 E1]. rewrite E1. cbn [obnd].
  inversion Hnd as [|j' r' Hnj Hndr]; subst j' r'. apply IH; auto.
  intros j0 Hj0. destruct (Hts j0 (or_intror Hj0)) as [c0 [H0 [H1 H2]]]. exists c0. split; [|auto].
  eapply arena_compose_at_untouched; eauto. intros ->. contradiction.
Qed.

Theorem compose_list_abs_sub alloc K s L ts a a' : fresh_alloc alloc -> karity K L -> L <> U ->
  NoDup ts -> (forall j, In j ts -> empty_leaf K a j) ->
  arena_compose_list alloc K s L ts a = Some a' ->
  forall fuel i t, abs_sub (lift_sel s L ts) fuel a i = Some t -> exists F, abs_at F a' i = Some t.
Proof.
  intros Hf HL HnU Hnd Hts H.
  induction fuel as [|fuel IH]; intros i t Ht; [discriminate|]. cbn [abs_sub] in Ht.
  destruct (aget a i) as [c|] eqn:Ec; [|discriminate]. destruct (c_leaf c) eqn:El.
  - inversion Ht; subst t. unfold lift_sel. destruct (memb i ts) eqn:Em.
    + apply memb_In in Em.
      destruct (compose_list_abs alloc K s L Hf HL HnU ts a a' Hnd Hts H i c Em Ec) as [F Ha].
      exists F. eapply abs_ok_abs_at; eauto.
    + apply memb_nIn in Em.
      assert (Hc' : aget a' i = Some c) by (eapply compose_list_untouched; eauto).
      exists 1%nat. cbn [abs_at]. rewrite Hc', El. reflexivity.
  - destruct (opt_all (map (fun oc => match oc with None => Some U | Some j => abs_sub (lift_sel s L ts) fuel a j end) (c_children c))) as [ch|] eqn:E; [|discriminate].
    inversion Ht; subst t.
    assert (Hc' : aget a' i = Some c).
    { eapply compose_list_untouched; eauto. intros Hin. destruct (Hts i Hin) as [c0 [H0 [H1 _]]]. congruence. }
    destruct (opt_all_common_fuel a' _ (c_children c) ch E) as [F HF].
    { intros [j|] t0 _ Ho; [apply IH; exact Ho | inversion Ho; reflexivity]. }
    exists (S F). cbn [abs_at]. rewrite Hc', El, HF. reflexivity.
Qed.

Lemma listed_empty_leaf K a ts : leaves_empty K a -> incl ts (terminal_keys a) -> forall j, In j ts -> empty_leaf K a j.
Proof.
  intros Hle Hincl j Hj. destruct (terminal_keys_spec a j (Hincl j Hj)) as [c [Hc Hl]].
  exists c. split; [exact Hc|]. split; [exact Hl|]. eapply Hle; eauto.
Qed.
Lemma listed_leaf a ts : incl ts (terminal_keys a) -> forall j, In j ts -> exists c, aget a j = Some c /\ c_leaf c = true.
Proof. intros Hincl j Hj. apply terminal_keys_spec. apply Hincl. exact Hj. Qed.

(* ---------------------------------------------------------------- only SOME terminals, in any order *)
(* the caller lists a duplicate-free subset of the terminals: the run returns Ok *)
Theorem arena_compose_list_sub_some alloc K s L ts a : fresh_alloc alloc -> karity K L -> L <> U -> leaves_empty K a ->
  NoDup ts -> incl ts (terminal_keys a) -> exists a', arena_compose_list alloc K s L ts a = Some a'.
Proof.
  intros Hf HL HnU Hle Hnd Hincl. eapply compose_list_some; eauto. eapply listed_empty_leaf; eauto.
Qed.
(* ... every old cell survives (frame), and the cells that are not listed are not written at all *)
Theorem arena_compose_list_sub_extends alloc K s L ts a a' : fresh_alloc alloc ->
  NoDup ts -> incl ts (terminal_keys a) -> arena_compose_list alloc K s L ts a = Some a' ->
  extends a a' /\ (forall k c, ~ In k ts -> aget a k = Some c -> aget a' k = Some c).
Proof.
  intros Hf Hnd Hincl H. split.
  - eapply arena_compose_list_extends; eauto. eapply listed_leaf; eauto.
  - eapply compose_list_untouched; eauto.
Qed.
(* ... and the result abstracts to the lifting applied exactly at the listed terminals *)
Theorem arena_compose_list_sub_abs alloc K s L ts a a' : fresh_alloc alloc -> karity K L -> L <> U -> leaves_empty K a ->
  NoDup ts -> incl ts (terminal_keys a) -> arena_compose_list alloc K s L ts a = Some a' ->
  forall fuel i t, abs_sub (lift_sel s L ts) fuel a i = Some t -> exists F, abs_at F a' i = Some t.
Proof.
  intros Hf HL HnU Hle Hnd Hincl H. eapply compose_list_abs_sub; eauto. eapply listed_empty_leaf; eauto.
Qed.
(* the three together, as the property file states it *)
Theorem arena_compose_list_sub alloc K s L ts a : fresh_alloc alloc -> karity K L -> L <> U -> leaves_empty K a ->
  NoDup ts -> incl ts (terminal_keys a) ->
  (exists a', arena_compose_list alloc K s L ts a = Some a') /\
  forall a', arena_compose_list alloc K s L ts a = Some a' ->
    extends a a' /\ (forall k c, ~ In k ts -> aget a k = Some c -> aget a' k = Some c) /\
    forall fuel i t, abs_sub (lift_sel s L ts) fuel a i = Some t -> exists F, abs_at F a' i = Some t.
Proof.
  intros Hf HL HnU Hle Hnd Hincl. split; [eapply arena_compose_list_sub_some; eauto|].
  intros a' H. destruct (arena_compose_list_sub_extends alloc K s L ts a a' Hf Hnd Hincl H) as [He Hu].
  split; [exact He|]. split; [exact Hu|]. eapply arena_compose_list_sub_abs; eauto.
Qed.
(* the side condition on the leaves is preserved by every list *)
Theorem arena_compose_list_leaves_empty alloc K s L : fresh_alloc alloc ->
  forall ts a a', leaves_empty K a -> arena_compose_list alloc K s L ts a = Some a' -> leaves_empty K a'.
Proof.
  intros Hf. induction ts as [|i r IH]; intros a a' Hle H; cbn [arena_compose_list] in H.
  - inversion H; subst; exact Hle.
  - destruct (arena_compose_at alloc K s L a i) as [a1|] eqn:E1; [|discriminate]. cbn [obnd] in H.
    eapply IH; [|exact H]. unfold arena_compose_at in E1. destruct (aget a i) as [c|]; [|discriminate].
    destruct L as [| f | p ch]; [discriminate | eapply update_fun_leaves_empty; eauto |].
    destruct (update_fun a i (s_dec s p (ac_aff (c_val c)))) as [a0|] eqn:Eu; [|discriminate]. cbn [obnd] in E1.
    eapply agraft_kids_leaves_empty; [exact Hf | | exact E1]. eapply update_fun_leaves_empty; eauto.
Qed.

(* ---------------------------------------------------------------- ALL terminals, in any order *)
Definition same_terminals (ts : list nat) (a : arena acont) : Prop :=
  NoDup ts /\ forall i, In i ts <-> In i (terminal_keys a).
Lemma perm_same_terminals ts a : Permutation ts (terminal_keys a) -> same_terminals ts a.
Proof.
  intros Hp. split.
  - eapply Permutation_NoDup; [apply Permutation_sym; exact Hp | apply terminal_keys_nodup].
  - intros i. split; intros Hi; [eapply Permutation_in; eauto | eapply Permutation_in; [apply Permutation_sym; exact Hp | exact Hi]].
Qed.
Lemma same_terminals_perm ts a : same_terminals ts a -> Permutation ts (terminal_keys a).
Proof. intros [Hnd Hiff]. apply NoDup_Permutation; [exact Hnd | apply terminal_keys_nodup | exact Hiff]. Qed.
Lemma same_terminals_incl ts a : same_terminals ts a -> incl ts (terminal_keys a).
Proof. intros [_ Hiff] i Hi. apply Hiff. exact Hi. Qed.

(* arena_compose_abs for every order *)
Theorem arena_compose_list_abs_same alloc K s L ts a a' : fresh_alloc alloc -> karity K L -> L <> U -> leaves_empty K a ->
  same_terminals ts a -> arena_compose_list alloc K s L ts a = Some a' ->
  forall fuel i t, abs_at fuel a i = Some t -> exists F, abs_at F a' i = Some (lift s t L).
Proof.
  intros Hf HL HnU Hle Hst H fuel i t Ht.
  eapply arena_compose_list_sub_abs with (ts := ts) (fuel := fuel); eauto.
  - exact (proj1 Hst).
  - apply same_terminals_incl; exact Hst.
  - eapply abs_sub_all; eauto. intros j Hj. apply (proj2 Hst). exact Hj.
Qed.
(* arena_compose_some for every order *)
Theorem arena_compose_list_some_same alloc K s L ts a : fresh_alloc alloc -> karity K L -> L <> U -> leaves_empty K a ->
  same_terminals ts a -> exists a', arena_compose_list alloc K s L ts a = Some a'.
Proof.
  intros Hf HL HnU Hle Hst. eapply arena_compose_list_sub_some; eauto; [exact (proj1 Hst) | apply same_terminals_incl; exact Hst].
Qed.

(* the statement asked for: the terminal list is any permutation of terminal_indices(): the run returns Ok and every
   node of the receiver abstracts to the lifted tree, as for the ascending order *)
Theorem arena_compose_list_abs_perm alloc K s L ts a : fresh_alloc alloc -> karity K L -> L <> U -> leaves_empty K a ->
  Permutation ts (terminal_keys a) ->
  exists a', arena_compose_list alloc K s L ts a = Some a' /\
    forall fuel i t, abs_at fuel a i = Some t -> exists F, abs_at F a' i = Some (lift s t L).
Proof.
  intros Hf HL HnU Hle Hp. apply perm_same_terminals in Hp.
  destruct (arena_compose_list_some_same alloc K s L ts a Hf HL HnU Hle Hp) as [a' H]. exists a'. split; [exact H|].
  eapply arena_compose_list_abs_same; eauto.
Qed.
(* the frame clause for every order; the leaves keep K empty slots, so compositions in different orders chain *)
Theorem arena_compose_list_extends_perm alloc K s L ts a a' : fresh_alloc alloc ->
  Permutation ts (terminal_keys a) -> arena_compose_list alloc K s L ts a = Some a' ->
  extends a a' /\ (forall k c, ~ In k (terminal_keys a) -> aget a k = Some c -> aget a' k = Some c) /\
  (leaves_empty K a -> leaves_empty K a').
Proof.
  intros Hf Hp H. pose proof (perm_same_terminals ts a Hp) as [Hnd Hiff].
  destruct (arena_compose_list_sub_extends alloc K s L ts a a' Hf Hnd) as [He Hu]; [intros i Hi; apply Hiff; exact Hi | exact H |].
  split; [exact He|]. split.
  - intros k c Hk Hc. apply Hu; auto. intros Hin. apply Hk. apply Hiff. exact Hin.
  - intros Hle. eapply arena_compose_list_leaves_empty; eauto.
Qed.
(* two runs over the same receiver with the terminals in different orders abstract to the SAME tree at every old node *)
Corollary arena_compose_order_irrelevant alloc1 alloc2 K s L ts1 ts2 a a1 a2 : fresh_alloc alloc1 -> fresh_alloc alloc2 ->
  karity K L -> L <> U -> leaves_empty K a -> Permutation ts1 (terminal_keys a) -> Permutation ts2 (terminal_keys a) ->
  arena_compose_list alloc1 K s L ts1 a = Some a1 -> arena_compose_list alloc2 K s L ts2 a = Some a2 ->
  forall fuel i t, abs_at fuel a i = Some t -> exists F t', abs_at F a1 i = Some t' /\ abs_at F a2 i = Some t'.
Proof.
  intros Hf1 Hf2 HL HnU Hle Hp1 Hp2 H1 H2 fuel i t Ht.
  destruct (arena_compose_list_abs_same alloc1 K s L ts1 a a1 Hf1 HL HnU Hle (perm_same_terminals _ _ Hp1) H1 fuel i t Ht) as [F1 E1].
  destruct (arena_compose_list_abs_same alloc2 K s L ts2 a a2 Hf2 HL HnU Hle (perm_same_terminals _ _ Hp2) H2 fuel i t Ht) as [F2 E2].
  exists (Nat.max F1 F2), (lift s t L). split; (eapply abs_at_mono; [|eassumption]); lia.
Qed.

(* ---------------------------------------------------------------- non-vacuity: two terminals, a freed slot, three lists *)
(* receiver: x <= 0 ? (label 1, key 2) 2x : (label 0, key 3) 3x; a hole at key 1 *)
Definition exo_arena : arena acont :=
  [ Some (mkcell (mkcont (exa_f 1 0) Indet) None [Some 3%nat; Some 2%nat] false);
    None;
    Some (mkcell (mkcont (exa_f (1 + 1) 0) Feas) (Some 0%nat) [None; None] true);
    Some (mkcell (mkcont (exa_f (1 + 1 + 1) 0) Indet) (Some 0%nat) [None; None] true) ].
Definition exo_t : ptree := D (exa_f 1 0) [T (exa_f (1 + 1 + 1) 0); T (exa_f (1 + 1) 0)].
Definition exo_view (a' : arena acont) :=
  (abs_at 5 a' 0%nat, map (fun o => option_map (fun c => (c_parent c, c_children c, c_leaf c, ac_state (c_val c))) o) a').

Lemma exo_hyps : fresh_alloc next_key /\ karity 2 exa_L /\ exa_L <> U /\ leaves_empty 2 exo_arena /\
  terminal_keys exo_arena = [2%nat; 3%nat] /\ Permutation [3%nat; 2%nat] (terminal_keys exo_arena) /\
  abs_at 5 exo_arena 0%nat = Some exo_t.
Proof.
  split; [exact next_key_fresh|]. split.
  { constructor; [reflexivity | exists (T (exa_f 0 1)); split; [left; reflexivity | discriminate] |].
    repeat constructor. }
  split; [discriminate|]. split.
  { intros i c Hc Hl. unfold aget, exo_arena in Hc.
    destruct i as [|[|[|[|i]]]]; cbn [nth_error] in Hc; try discriminate.
    - inversion Hc; subst c. cbn in Hl. discriminate.
    - inversion Hc; subst c. reflexivity.
    - inversion Hc; subst c. reflexivity.
    - destruct i; discriminate. }
  split; [vm_compute; reflexivity|]. split; [|vm_compute; reflexivity].
  change (terminal_keys exo_arena) with [2%nat; 3%nat]. apply perm_swap.
Qed.

(* ascending and reversed: both Ok, the same abstraction = the lifted tree, the cached states and all old links kept;
   the fresh keys 4 and 5 go to different parents, i.e. the order is visible in the arena and only there *)
Lemma exo_run :
  option_map exo_view (arena_compose_list next_key 2%nat comp_schema exa_L [2%nat; 3%nat] exo_arena)
  = Some (Some (lift comp_schema exo_t exa_L),
          [ Some (None, [Some 3%nat; Some 2%nat], false, Indet);
            None;
            Some (Some 0%nat, [Some 4%nat; None], false, Feas);
            Some (Some 0%nat, [Some 5%nat; None], false, Indet);
            Some (Some 2%nat, [None; None], true, Indet);
            Some (Some 3%nat, [None; None], true, Indet) ]) /\
  option_map exo_view (arena_compose_list next_key 2%nat comp_schema exa_L [3%nat; 2%nat] exo_arena)
  = Some (Some (lift comp_schema exo_t exa_L),
          [ Some (None, [Some 3%nat; Some 2%nat], false, Indet);
            None;
            Some (Some 0%nat, [Some 5%nat; None], false, Feas);
            Some (Some 0%nat, [Some 4%nat; None], false, Indet);
            Some (Some 3%nat, [None; None], true, Indet);
            Some (Some 2%nat, [None; None], true, Indet) ]) /\
  arena_compose_list next_key 2%nat comp_schema exa_L [2%nat; 3%nat] exo_arena
  = arena_compose next_key 2%nat comp_schema exa_L exo_arena /\
  arena_compose_list next_key 2%nat comp_schema exa_L [3%nat; 2%nat] exo_arena
  <> arena_compose_list next_key 2%nat comp_schema exa_L [2%nat; 3%nat] exo_arena.
Proof.
  split; [vm_compute; reflexivity|]. split; [vm_compute; reflexivity|]. split; [reflexivity|].
  intros C. apply (f_equal (option_map (fun a' => option_map c_parent (aget a' 4%nat)))) in C. vm_compute in C. discriminate.
Qed.
(* only terminal 3 listed: terminal 2 keeps its function and its cell, terminal 3 carries the copy of lhs *)
Lemma exo_run_sub :
  incl [3%nat] (terminal_keys exo_arena) /\
  abs_sub (lift_sel comp_schema exa_L [3%nat]) 5 exo_arena 0%nat
  = Some (D (exa_f 1 0) [graft comp_schema exa_L (exa_f (1 + 1 + 1) 0); T (exa_f (1 + 1) 0)]) /\
  option_map exo_view (arena_compose_list next_key 2%nat comp_schema exa_L [3%nat] exo_arena)
  = Some (Some (D (exa_f 1 0) [graft comp_schema exa_L (exa_f (1 + 1 + 1) 0); T (exa_f (1 + 1) 0)]),
          [ Some (None, [Some 3%nat; Some 2%nat], false, Indet);
            None;
            Some (Some 0%nat, [None; None], true, Feas);
            Some (Some 0%nat, [Some 4%nat; None], false, Indet);
            Some (Some 3%nat, [None; None], true, Indet) ]).
Proof.
  split; [intros i [<-|[]]; vm_compute; auto|]. split; vm_compute; reflexivity.
Qed.

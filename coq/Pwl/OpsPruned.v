(* Pwl/OpsPruned.v -- C07 for the operators AS THE CODE RUNS THEM: a + b, a - b, a * b, a / b on trees go through
   generic_composition_inplace with on-the-fly pruning (pwl/impl_ops.rs).  With an LP oracle whose Infeasible
   answers exclude x and cached marks of the left operand that exclude x, the terminal reached by x in the pruned
   result is the coefficient-wise operator applied to the terminals reached in the operands. *)
From AT Require Import Num Vec Aff PTree Cells Abs Cache Elim ElimEval CPrune Ops CPruneEval TermLevel.

Theorem ops_pruned_term o tol fo t L x : osound o x -> bin2 L -> cbin t -> marks_ok x [] t ->
  cterm (fst (cprune o tol (op_schema fo) L t [] k0)) x =
  match cterm t x, term L x with
  | Some f, Some g => Some (aop fo f g)
  | _, _ => None
  end.
Proof.
  intros Ho HL Hb Hm. rewrite (top_prune_term o tol fo t L x Ho HL Hb Hm). rewrite term_top.
  rewrite (cterm_erase t x Hb). reflexivity.
Qed.
Corollary ops_pruned_value o tol fo t L x : osound o x -> bin2 L -> cbin t -> marks_ok x [] t ->
  cev (fst (cprune o tol (op_schema fo) L t [] k0)) x =
  match cterm t x, term L x with
  | Some f, Some g => Some (apply (aop fo f g) x)
  | _, _ => None
  end.
Proof.
  intros Ho HL Hb Hm. rewrite cev_cterm, (ops_pruned_term o tol fo t L x Ho HL Hb Hm).
  destruct (cterm t x), (term L x); reflexivity.
Qed.

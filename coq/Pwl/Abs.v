(* Pwl/Abs.v -- AffTree node contents and the abstraction from the arena to the inductive tree. *)
From AT Require Import Num Vec Aff PTree Cells.

Inductive nstate := Indet | Infeas | Feas | FeasW (ws : list vec).
Record acont := { ac_aff : aff; ac_state : nstate }.

Record afftree := { at_in : nat; at_root : nat; at_arena : arena acont }.

Fixpoint opt_all {A} (l : list (option A)) : option (list A) :=
  match l with
  | [] => Some []
  | None :: _ => None
  | Some a :: l' => match opt_all l' with Some r => Some (a :: r) | None => None end
  end.

(* terminal-ness is the isleaf flag, exactly as find_terminal reads it *)
Fixpoint abs_at (fuel : nat) (a : arena acont) (i : nat) : option ptree :=
  match fuel with
  | O => None
  | S fuel' =>
      match aget a i with
      | None => None
      | Some c =>
          if c_leaf c then Some (T (ac_aff (c_val c)))
          else match opt_all (map (fun oc => match oc with None => Some U | Some j => abs_at fuel' a j end) (c_children c)) with
               | Some ch => Some (D (ac_aff (c_val c)) ch)
               | None => None
               end
      end
  end.
Definition abs_tree (t : afftree) : option ptree := abs_at (S (length (at_arena t))) (at_arena t) (at_root t).

(* Pwl/AElimExample.v -- non-vacuity of the arena-level refinement theorem: the tree of Pwl/ElimExample.v laid out in a
   slab arena meets every assumption of AElimRefine.aelim_refines (checked by the executable arena_okb), and the
   machine run removes the infeasible terminal 4, merges decision 2 away (terminal 3 takes its slot under the root
   and gets the root as its parent), with the LP call count of the structural model. *)
From AT Require Import Num Vec Aff PTree Cells Abs Tree Cache Elim ElimEval ElimExample AElim AElimBase AElimRefine.

Definition exa_arena : arena acont :=
  [ Some (ae_cell (ex_p 1 0) Indet None [Some 1%nat; Some 2%nat] false);
    Some (ae_cell (ex_f (1 + 1) 0) Indet (Some 0%nat) [None; None] true);
    Some (ae_cell (ex_p (- (1)) (- (1))) Indet (Some 0%nat) [Some 3%nat; Some 4%nat] false);
    Some (ae_cell (ex_f 1 0) Indet (Some 2%nat) [None; None] true);
    Some (ae_cell (ex_f 0 (1 + 1 + 1 + 1 + 1)) Indet (Some 2%nat) [None; None] true) ].
Definition exa_after : arena acont :=
  [ Some (ae_cell (ex_p 1 0) Indet None [Some 1%nat; Some 3%nat] false);
    Some (ae_cell (ex_f (1 + 1) 0) Feas (Some 0%nat) [None; None] true);
    None;
    Some (ae_cell (ex_f 1 0) Feas (Some 0%nat) [None; None] true);
    None ].

Lemma exa_mir_ne : mir_ne ex_o.
Proof. intros k q ws. discriminate. Qed.

Lemma exa_run :
  arena_okb exa_arena 0 = true /\ cabs 6 exa_arena 0 = Some ex_t /\ arena_tree exa_arena 0 ex_t /\ wne ex_t /\ mir_ne ex_o /\
  aelim ex_o 0 exa_arena 0 = Some (exa_after, {| k_lp := 4; k_mir := 0 |}) /\
  elim ex_o 0 ex_t = (ex_r, {| k_lp := 4; k_mir := 0 |}) /\
  cabs 2 exa_after 0 = Some ex_r.
Proof.
  assert (Hok : arena_okb exa_arena 0 = true) by (vm_compute; reflexivity).
  destruct (arena_okb_sound _ _ Hok) as [t [Hc [Ht Hw]]].
  assert (Et : t = ex_t) by (vm_compute in Hc; inversion Hc; reflexivity). subst t.
  split; [exact Hok|]. split; [vm_compute; reflexivity|]. split; [exact Ht|]. split; [exact Hw|]. split; [exact exa_mir_ne|].
  split; [vm_compute; reflexivity|]. split; [exact ex_run | vm_compute; reflexivity].
Qed.

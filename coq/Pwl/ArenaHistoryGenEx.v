(* Pwl/ArenaHistoryGenEx.v -- non-vacuity of Pwl/ArenaHistoryGen.v: a history with TWO pruned compositions
   (apply_func ; elimination ; compose::<true> ; elimination ; apply_func ; compose::<true>) on the arena of
   AElimExample: the hypotheses hold, both stray-terminal checks pass (ROk), the arena-level run and the structural
   run agree up to node indices, and the final arena meets the invariant again. *)
From AT Require Import Num Vec Aff PTree Ops Cells Abs Tree Cache Elim ElimEval ElimExample CPrune History.
From AT Require Import ArenaCompose AElim AElimBase AElimRefine AElimExample ArenaHistory ArenaHistoryMore ArenaHistoryEx ArenaHistoryGen.
From AT Require ACPrune ACPruneAll ACPruneCor.

Definition ahg_ops : list (oracle * aop) :=
  ahx_ops ++ (ahx_o2, ACompose true ahx_L) :: ahx_ops2 ++ [(ahx_o2, ACompose true ahx_L)].

Example ahg_run :
  AInv exa_arena ex_t /\ hist_okG ahg_ops /\ fresh_alloc next_key /\
  match run 0 ex_t (ops_of ahg_ops), arena_run_chk next_key 0 ahg_ops exa_arena with
  | HOk tf, ROk a' => option_map (fun t' => ctree_eqb_shape t' tf) (cabs 12 a' 0%nat) = Some true /\
                      ainvb a' = true /\ (4 < AElimBase.csize tf)%nat
  | _, _ => False
  end.
Proof.
  destruct ahx_run as [_ [Hi [_ [Ho2 [Hf _]]]]].
  assert (Hex : mir_ne ex_o /\ ACPruneAll.lp_index_free ex_o /\ True).
  { split; [apply exa_mir_ne|]. split; [intros k k' q; reflexivity | exact I]. }
  assert (Ho : mir_ne ahx_o2 /\ ACPruneAll.lp_index_free ahx_o2 /\ (true = true /\ ahx_L <> U)).
  { split; [intros k q ws; discriminate|]. split; [exact Ho2|]. split; [reflexivity | discriminate]. }
  assert (Hok : hist_okG ahg_ops).
  { unfold hist_okG, ahg_ops, ahx_ops, ahx_ops2. cbn [app]. repeat (constructor; [first [exact Hex | exact Ho]|]). constructor. }
  split; [exact Hi|]. split; [exact Hok|]. split; [exact Hf|].
  vm_compute; repeat split; try reflexivity; lia.
Qed.

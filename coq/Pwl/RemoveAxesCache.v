(* Pwl/RemoveAxesCache.v -- AffTree::remove_axes (afftree.rs:581-603) rewrites the matrix of EVERY node (columns of
   the kept axes) and resets every cached state to Indeterminate; whatever the column selection does, the result
   carries no cache at all, hence no unsound one (C05).  The function the projected tree denotes is C17's subject. *)
From AT Require Import Num Vec Aff PTree Cells Abs Cache Elim ElimEval ElimCache.

(* h = the column selection applied to a node function *)
Fixpoint creset (h : aff -> aff) (t : ctree) : ctree :=
  match t with
  | CU => CU
  | CN i leaf f _ c0 c1 => CN i leaf (h f) Indet (creset h c0) (creset h c1)
  end.
Definition keep_cols (mask : list bool) (f : aff) : aff :=
  let sel (r : vec) := map snd (filter (fun p => fst p) (combine mask r)) in
  {| a_in := length (filter (fun b => b) mask); a_mat := map sel (a_mat f); a_bias := a_bias f |}.
Definition cremove_axes (mask : list bool) (t : ctree) : ctree := creset (keep_cols mask) t.

Theorem creset_wit h tol : forall t q, wit_ok tol q (creset h t).
Proof. induction t as [|i leaf f st c0 IH0 c1 IH1]; intros q; cbn [creset wit_ok st_wit]; auto. Qed.
Theorem creset_marks h x : forall t q, marks_ok x q (creset h t).
Proof.
  induction t as [|i leaf f st c0 IH0 c1 IH1]; intros q; cbn [creset marks_ok]; auto.
  split; [discriminate | auto].
Qed.
Theorem creset_all_indet h : forall t, c_exists t = true -> c_state (creset h t) = Indet.
Proof. destruct t; [discriminate | reflexivity]. Qed.
Theorem cremove_axes_cache mask tol x t q :
  wit_ok tol q (cremove_axes mask t) /\ marks_ok x q (cremove_axes mask t).
Proof. split; [apply creset_wit | apply creset_marks]. Qed.

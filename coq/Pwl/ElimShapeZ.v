From Coq Require Import List Bool Lia. Import ListNotations.
From AT Require Import Num Vec Aff PTree Cells Abs Tree TreeLemmas Cache Elim AElim AElimBase ElimWne OpsWf ShapeZ.
From AT Require ACPruneRefine History.

(* the structural elimination respects cshz (indices only read through "is 0") *)

Lemma cmap_terms_cshz h : forall t u, cshz t u -> cshz (cmap_terms h t) (cmap_terms h u).
Proof.
  induction t as [|i l f s c0 IH0 c1 IH1]; intros [|j m g r d0 d1]; cbn [cshz]; try tauto.
  intros [Z [A [B [C [D E]]]]]. subst m g r. cbn [cmap_terms].
  destruct l; cbn [cshz]; repeat split; auto.
Qed.

Lemma terms_all_cshz P : forall t u, cshz t u -> History.terms_all P t = History.terms_all P u.
Proof.
  induction t as [|i l f s c0 IH0 c1 IH1]; intros [|j m g r d0 d1]; cbn [cshz]; try tauto.
  intros [Z [A [B [C [D E]]]]]. subst m g r. cbn [History.terms_all].
  rewrite (IH0 _ D), (IH1 _ E). reflexivity.
Qed.

Lemma cshz_c_state t u : cshz t u -> c_state t = c_state u.
Proof. destruct t, u; cbn [cshz c_state]; try tauto. all: intros [_ [_ [_ [C _]]]]; exact C. Qed.
Lemma cshz_c_exists t u : cshz t u -> c_exists t = c_exists u.
Proof. destruct t, u; cbn [cshz c_exists]; tauto. Qed.
Lemma cshz_set_st s t u : cshz t u -> cshz (set_st s t) (set_st s u).
Proof. destruct t, u; cbn [cshz set_st]; try tauto. all: intros [Z [A [B [C [D E]]]]]; repeat split; auto. Qed.
Lemma visit_cshz o tol stP q h c c' k : cshz c c' -> visit o tol stP q h c k = visit o tol stP q h c' k.
Proof. intros H. unfold visit. rewrite (cshz_c_state _ _ H). reflexivity. Qed.

Lemma es_part0_cshz o tol q st p c0 c0' k :
  cshz c0 c0' ->
  (forall q' s' k', cshz (fst (elim_sub o tol false q' s' c0 k')) (fst (elim_sub o tol false q' s' c0' k')) /\
                    snd (elim_sub o tol false q' s' c0 k') = snd (elim_sub o tol false q' s' c0' k')) ->
  cshz (fst (fst (es_part0 o tol q st p c0 k))) (fst (fst (es_part0 o tol q st p c0' k))) /\
  snd (fst (es_part0 o tol q st p c0 k)) = snd (fst (es_part0 o tol q st p c0' k)) /\
  snd (es_part0 o tol q st p c0 k) = snd (es_part0 o tol q st p c0' k).
Proof.
  intros H IH. unfold es_part0.
  destruct c0 as [|j l f t a b]; destruct c0' as [|j' l' f' t' a' b']; try (exfalso; exact H).
  - cbn [fst snd cshz]. auto.
  - cbv beta iota zeta.
    rewrite (visit_cshz o tol st (q ++ [row0 p]) (row0 p) _ _ k H).
    destruct (visit o tol st (q ++ [row0 p]) (row0 p) (CN j' l' f' t' a' b') k) as [[[s0 k1] fr0] sk0].
    destruct sk0.
    + cbn [fst snd]. split; [apply cshz_set_st; exact H|auto].
    + pose proof (IH (q ++ [row0 p]) s0 k1) as Hr.
      destruct (elim_sub o tol false (q ++ [row0 p]) s0 (CN j l f t a b) k1) as [r0 k2].
      destruct (elim_sub o tol false (q ++ [row0 p]) s0 (CN j' l' f' t' a' b') k1) as [r0' k2'].
      cbn [fst snd] in *. destruct Hr as [A B]. auto.
Qed.

Lemma es_part1_cshz o tol isroot q st i i' leaf p c1 c1' sub0 sub0' k2 fresh0 :
  Nat.eqb i 0 = Nat.eqb i' 0 ->
  cshz c1 c1' -> cshz sub0 sub0' ->
  (forall q' s' k', cshz (fst (elim_sub o tol false q' s' c1 k')) (fst (elim_sub o tol false q' s' c1' k')) /\
                    snd (elim_sub o tol false q' s' c1 k') = snd (elim_sub o tol false q' s' c1' k')) ->
  cshz (fst (es_part1 o tol isroot q st i leaf p c1 sub0 k2 fresh0))
         (fst (es_part1 o tol isroot q st i' leaf p c1' sub0' k2 fresh0)) /\
  snd (es_part1 o tol isroot q st i leaf p c1 sub0 k2 fresh0) =
  snd (es_part1 o tol isroot q st i' leaf p c1' sub0' k2 fresh0).
Proof.
  intros Hz H Hs IH. unfold es_part1.
  destruct c1 as [|j l f t a b]; destruct c1' as [|j' l' f' t' a' b']; try (exfalso; exact H).
  - cbn [fst snd cshz]. repeat split; auto.
  - cbv beta iota zeta.
    rewrite (visit_cshz o tol st (q ++ [row1 p]) (row1 p) _ _ k2 H).
    rewrite (cshz_c_state _ _ Hs), (cshz_c_exists _ _ Hs).
    destruct (visit o tol st (q ++ [row1 p]) (row1 p) (CN j' l' f' t' a' b') k2) as [[[s1 k3] fr1] sk1].
    pose proof (IH (q ++ [row1 p]) s1 k3) as Hr.
    pose proof (cshz_set_st s1 _ _ H) as Hset. pose proof Hset as [Hx0 [Hx1 [Hx2 [Hx3 [Hx4 Hx5]]]]].
    destruct (elim_sub o tol false (q ++ [row1 p]) s1 (CN j l f t a b) k3) as [r1 k4].
    destruct (elim_sub o tol false (q ++ [row1 p]) s1 (CN j' l' f' t' a' b') k3) as [r1' k4'].
    cbn [fst snd] in Hr. destruct Hr as [A B]. subst k4'.
    destruct (fr1 && c_exists sub0' &&
              (is_feas (c_state sub0') && is_infeas s1 || is_infeas (c_state sub0') && is_feas s1)).
    + destruct (is_feas s1); destruct isroot; cbn [fst snd cshz]; repeat split; auto.
    + destruct (fresh0 && is_infeas (c_state sub0') && c_exists sub0').
      * destruct sk1; cbv beta iota zeta; cbn [c_exists]; rewrite andb_false_r;
          cbn [fst snd cshz]; repeat split; auto.
      * destruct sk1; cbv beta iota zeta; rewrite ?(cshz_c_exists _ _ Hs);
          destruct (fr1 && is_infeas s1 && c_exists sub0');
          cbn [fst snd cshz]; repeat split; auto.
Qed.

Lemma elim_sub_cshz o tol : forall t u isroot q st k, cshz t u ->
  cshz (fst (elim_sub o tol isroot q st t k)) (fst (elim_sub o tol isroot q st u k)) /\
  snd (elim_sub o tol isroot q st t k) = snd (elim_sub o tol isroot q st u k).
Proof.
  induction t as [|i leaf p s0 c0 IH0 c1 IH1]; intros [|j m g r d0 d1] isroot q st k H;
    try (exfalso; exact H).
  - cbn [elim_sub fst snd cshz]. auto.
  - cbn [cshz] in H. destruct H as [Z [A [B [C [D E]]]]]. subst m g r.
    destruct leaf.
    + cbn [elim_sub fst snd cshz]. repeat split; auto.
    + rewrite !elim_sub_CN.
      pose proof (es_part0_cshz o tol q st p c0 d0 k D
                    (fun q' s' k' => IH0 d0 false q' s' k' D)) as A0.
      destruct (es_part0 o tol q st p c0 k) as [[sub0 k2] fresh0].
      destruct (es_part0 o tol q st p d0 k) as [[sub0' k2'] fresh0'].
      cbn [fst snd] in A0. destruct A0 as [X [Y Z']]. subst k2' fresh0'.
      apply es_part1_cshz; auto.
Qed.

Theorem elim_cshz o tol t u : cshz t u ->
  cshz (fst (elim o tol t)) (fst (elim o tol u)) /\ snd (elim o tol t) = snd (elim o tol u).
Proof.
  intros H. unfold elim. rewrite (cshz_c_state _ _ H). apply elim_sub_cshz. exact H.
Qed.
